import Receptor.Drive.Util
import Receptor.Generated.Facts
namespace Receptor.Drive.Accept
open Lean Receptor.Drive

/-- does the accept loop hand every connection to a goroutine of its own at once?  (regenerated fact) -/
def loopNeverWaits : Bool := Receptor.Facts.ctl_accept_loop = "accept;go:s.SetupConnection"

def handle (op : String) (a r : Json) : Except String Reply := do
  match op with
  | "silent" =>
    if let some e := optField r "error" then throw s!"harness error: {e.compress}"
    let probes ← getNat a "probes"
    let silent ← getNat a "silent"
    let spec := jObj [("greeted", jNat probes), ("fast", jNat probes)]
    -- a loop that waits for each connection's handshake serves the silent ones first, one time-out after the other
    let m := if loopNeverWaits || silent == 0 then spec
             else jObj [("unmodelled", Json.str "the accept loop waits on accepted connections: how long a probe waits depends on the time-outs")]
    let holds := canonEq r spec
    pure { m := m, prop := some holds,
           why := if holds then "" else s!"with {silent} silent connection(s) open on the TLS listener of the control service, new clients were not greeted within 3 s",
           sig := if holds then "" else "C08/accept/silent-client-holds-up-the-others" }
  | _ => throw s!"bad-op accept {op}"

end Receptor.Drive.Accept
