package framer

// C02 correspondence harness: the framer against the Lean model, under arbitrary chunkings and
// arbitrary placement of GetMessage calls.

import (
	"encoding/json"
	"testing"
)

type framerOp struct {
	Recv *string `json:"recv,omitempty"`
	Get  bool    `json:"get,omitempty"`
}

type framerArgs struct {
	Data string     `json:"data"`
	Msgs []string   `json:"msgs"` // the messages the stream was built from (for the property predicate)
	Ops  []framerOp `json:"ops"`
}

func framerApply(op string, raw json.RawMessage) interface{} {
	var a framerArgs
	if err := json.Unmarshal(raw, &a); err != nil {
		panic(err)
	}
	f := New()
	switch op {
	case "frame":
		return map[string]interface{}{"ok": verifHex(f.SendData(verifUnhex(a.Data)))}
	case "ops":
		got := []string{}
		notReady := 0
		// like TCPSession.Recv, hand the framer slices of one read buffer that is reused (and so
		// overwritten) by the next read: the framer must have copied what it was given
		scratch := make([]byte, 1<<17)
		for _, o := range a.Ops {
			if o.Recv != nil {
				c := verifUnhex(*o.Recv)
				n := copy(scratch, c)
				f.RecvData(scratch[:n])
				for i := 0; i < n; i++ {
					scratch[i] = 0xAA
				}
				continue
			}
			ready := f.MessageReady()
			m, err := f.GetMessage()
			if (err == nil) != ready {
				panic("verif: MessageReady disagrees with GetMessage")
			}
			if err != nil {
				notReady++
			} else {
				got = append(got, verifHex(m))
			}
		}
		tail := []string{}
		for f.MessageReady() {
			m, err := f.GetMessage()
			if err != nil {
				panic("verif: ready but GetMessage failed")
			}
			tail = append(tail, verifHex(m))
		}
		return map[string]interface{}{"ok": map[string]interface{}{"got": got, "not_ready": notReady, "tail": tail}}
	}
	panic("verif: unknown op " + op)
}

func framerGen(v *verifRun) {
	lens := []int{0, 0, 1, 1, 2, 3, 35, 36, 254, 255, 256, 257, 511, 512, 1000, 4096}
	for _, n := range []int{0, 1, 255, 256, 65534, 65535, 65536, 65537, 70000} {
		v.do(framerApply, "frame", framerArgs{Data: verifHex(v.bytesN(n))})
	}
	for i := 0; i < v.n; i++ {
		nm := v.rng.Intn(6)
		var stream []byte
		msgs := []string{}
		f := New()
		for k := 0; k < nm; k++ {
			n := v.pick(lens)
			if v.rng.Intn(40) == 0 {
				n = v.pick([]int{65535, 65536, 65600}) // 65536+ exercises the uint16 truncation
			}
			m := v.bytesN(n)
			msgs = append(msgs, verifHex(m))
			stream = append(stream, f.SendData(m)...)
		}
		if v.rng.Intn(15) == 0 { // a stream that is not a sequence of frames at all
			stream = v.bytesN(v.rng.Intn(50))
			msgs = nil
		}
		var ops []framerOp
		pos := 0
		for pos < len(stream) {
			var c int
			switch v.rng.Intn(4) {
			case 0:
				c = 1
			case 1:
				c = 1 + v.rng.Intn(3)
			case 2:
				c = 1 + v.rng.Intn(600)
			default:
				c = 1 + v.rng.Intn(len(stream)-pos)
			}
			if pos+c > len(stream) {
				c = len(stream) - pos
			}
			h := verifHex(stream[pos : pos+c])
			ops = append(ops, framerOp{Recv: &h})
			pos += c
			for g := v.rng.Intn(3); g > 0; g-- {
				ops = append(ops, framerOp{Get: true})
			}
		}
		for g := v.rng.Intn(3); g > 0; g-- {
			ops = append(ops, framerOp{Get: true})
		}
		v.do(framerApply, "ops", framerArgs{Msgs: msgs, Ops: ops})
	}
}

func TestVerifFramer(t *testing.T) {
	v := verifOpen(t, "framer")
	v.run(framerApply, framerGen)
}
