import Receptor.Proofs.Forward
import Receptor.Generated.Facts
/-!
# C16 — senders learn when the target service does not exist; dials to it fail fast
-/
namespace Receptor.Forward

/-- `monitorUnreachable`: the dial / stream context is cancelled by a notice saying that the
service we are talking to is unknown on the node we are talking to -/
def dialCancelledBy (remoteNode : Node) (remoteSvc : Svc) (n : NoticeBody) : Bool :=
  n.problem == .serviceUnknown && n.toNode == remoteNode && n.toSvc == remoteSvc

/-- **Tie (translator)**: the unknown-or-closed-listener branch of `handleMessageData`
(synchronous error for a local sender, `service unknown` notice otherwise), the per-socket
filter of `StartUnreachable`, and the cancel condition of `monitorUnreachable`. -/
theorem C16_facts :
    Receptor.Facts.unreach_unknown_branch = "!ok || pc.context.Err() != nil;md.FromNode == s.nodeID:error;notice:ProblemServiceUnknown"
    ∧ Receptor.Facts.unreach_socket_filter = "FromNode == pc.s.NodeID() && FromService == pc.localService"
    ∧ Receptor.Facts.unreach_dial_cancel = "msg.Problem == ProblemServiceUnknown && msg.ToNode == remoteAddr.node && msg.ToService == remoteAddr.service"
    ∧ Receptor.Facts.unreach_notice_fields = "FromNode:md.FromNode;ToNode:md.ToNode;FromService:md.FromService;ToService:md.ToService"
    ∧ Receptor.Facts.unreach_sent_from = "unreach->toNode:unreach" := by decide

/-- **notice_fields_echo.** A datagram from another node that reaches a node where nothing
listens on the addressed (non-reserved) service makes that node originate exactly one packet:
a `service unknown` notice addressed to the datagram's source node, echoing the datagram's
source and destination node and service. -/
theorem notice_fields_echo (me : Node) (cfg : NodeCfg) (p : Packet)
    (hfw : cfg.fw p.fromNode p.fromSvc p.toNode p.toSvc = .accept) (hto : p.toNode = me)
    (hsvc : p.toSvc ≠ pingSvc ∧ p.toSvc ≠ unreachSvc) (hl : cfg.listener p.toSvc = false) (hfrom : p.fromNode ≠ me) :
    handle stdHops me cfg p = .spawn
      { fromNode := me, fromSvc := unreachSvc, toNode := p.fromNode, toSvc := unreachSvc, ttl := cfg.maxHops,
        body := .notice { fromNode := p.fromNode, toNode := p.toNode, fromSvc := p.fromSvc, toSvc := p.toSvc,
                          problem := .serviceUnknown } } := by
  unfold handle
  simp only [hfw]
  simp [hto, hsvc.1, hsvc.2, hl, hfrom, mkNotice]

/-- a local sender is told synchronously instead (the error `WriteTo` returns) -/
theorem local_sender_gets_error (me : Node) (cfg : NodeCfg) (p : Packet)
    (hfw : cfg.fw p.fromNode p.fromSvc p.toNode p.toSvc = .accept) (hto : p.toNode = me)
    (hsvc : p.toSvc ≠ pingSvc ∧ p.toSvc ≠ unreachSvc) (hl : cfg.listener p.toSvc = false) (hfrom : p.fromNode = me) :
    handle stdHops me cfg p = .err .serviceUnknown := by
  unfold handle
  simp only [hfw]
  simp [hto, hsvc.1, hsvc.2, hl, hfrom]

/-- when the notice arrives at the datagram's source node it is published there -/
theorem notice_published_at_origin (origin : Node) (cfg : NodeCfg) (q : Packet) (n : NoticeBody)
    (hfw : cfg.fw q.fromNode q.fromSvc q.toNode q.toSvc = .accept) (hto : q.toNode = origin)
    (hsvc : q.toSvc = unreachSvc) (hb : q.body = .notice n) :
    handle stdHops origin cfg q = .published n := by
  unfold handle
  have : unreachSvc ≠ pingSvc := by decide
  simp only [hfw]
  simp [hto, hsvc, this, hb]

/-- the body of the notice a node originates about packet `p` -/
def noticeAbout (p : Packet) (pr : Problem) : NoticeBody :=
  { fromNode := p.fromNode, toNode := p.toNode, fromSvc := p.fromSvc, toSvc := p.toSvc, problem := pr }

theorem mkNotice_body (me : Node) (cfg : NodeCfg) (p : Packet) (pr : Problem) :
    (mkNotice me cfg p pr).body = .notice (noticeAbout p pr) := rfl

/-- **notice_only_to_sender_socket.** Among all sockets open on the source node, exactly the
socket bound to the datagram's source service passes the notice on. -/
theorem notice_only_to_sender_socket (me : Node) (p : Packet) (pr : Problem)
    (hp : p.fromNode = me) (svc : Svc) :
    socketGetsNotice me svc (noticeAbout p pr) = true ↔ svc = p.fromSvc := by
  simp [noticeAbout, socketGetsNotice, hp]
  constructor <;> (intro h; exact h.symm)

/-- sockets of other nodes never see it either -/
theorem notice_not_to_other_nodes (other : Node) (p : Packet) (pr : Problem) (svc : Svc)
    (h : p.fromNode ≠ other) : socketGetsNotice other svc (noticeAbout p pr) = false := by
  simp [noticeAbout, socketGetsNotice, h]

/-- **dial_cancelled_by_notice.** The `service unknown` notice produced for a packet of a dial
to `(remote, svc)` cancels exactly that dial: it names the dialled node and service. -/
theorem dial_cancelled_by_notice (remote : Node) (p : Packet) (hto : p.toNode = remote) :
    dialCancelledBy remote p.toSvc (noticeAbout p .serviceUnknown) = true := by
  simp [noticeAbout, dialCancelledBy, hto]

/-- notices about other problems (expired, rejected) or other addresses do not cancel the dial -/
theorem other_notices_do_not_cancel (remoteNode : Node) (remoteSvc : Svc) (n : NoticeBody)
    (h : n.problem ≠ .serviceUnknown ∨ n.toNode ≠ remoteNode ∨ n.toSvc ≠ remoteSvc) :
    dialCancelledBy remoteNode remoteSvc n = false := by
  simp only [dialCancelledBy]
  rcases h with h | h | h <;> simp [h]

/-- **drop_is_silent.** A packet dropped by policy produces no packet and no event at all. -/
theorem drop_is_silent (me : Node) (cfg : NodeCfg) (p : Packet)
    (hfw : cfg.fw p.fromNode p.fromSvc p.toNode p.toSvc = .drop) :
    observe stdHops me cfg 6 p = [(p, .dropped)] := by
  simp [observe, handle, hfw]

end Receptor.Forward
