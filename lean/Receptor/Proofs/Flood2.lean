import Sp.Flood
namespace Flood
variable {adj : Node → Adj}

theorem mem_deliver_q {σ : Net} {a b : Node} {u u' : Update} {x y : Node} {r : NodeSt × Bool}
    (h : u' ∈ (deliverR adj σ a b u r).q x y) :
    u' ∈ σ.q x y ∨ (u' = u ∧ r.2 = true ∧ x = b ∧ y ≠ a ∧ hasKey (adj b) y = true) := by
  simp only [deliverR] at h
  split at h
  · rename_i hc; obtain ⟨rfl, rfl⟩ := hc
    left; exact List.mem_of_mem_erase h
  · split at h
    · rename_i hc
      rcases List.mem_cons.mp h with h | h
      · right; exact ⟨h, hc.1, hc.2.1, hc.2.2.1, hc.2.2.2⟩
      · left; exact h
    · left; exact h

theorem mem_q_deliver {σ : Net} {a b : Node} {u u' : Update} {x y : Node} {r : NodeSt × Bool}
    (h : u' ∈ σ.q x y) (hne : ¬(x = a ∧ y = b) ∨ u' ≠ u) : u' ∈ (deliverR adj σ a b u r).q x y := by
  simp only [deliverR]
  split
  · rename_i hc; obtain ⟨rfl, rfl⟩ := hc
    rcases hne with hne | hne
    · exact absurd ⟨rfl, rfl⟩ hne
    · exact (List.mem_erase_of_ne hne).mpr h
  · split
    · exact List.mem_cons_of_mem _ h
    · exact h

theorem relayed_mem {σ : Net} {a b : Node} {u : Update} {y : Node} {r : NodeSt × Bool}
    (hr : r.2 = true) (hab : a ≠ b) (hy : y ≠ a) (hk : hasKey (adj b) y = true) :
    u ∈ (deliverR adj σ a b u r).q b y := by
  simp only [deliverR]
  have h1 : ¬ (b = a ∧ y = b) := fun h => hab h.1.symm
  simp [h1, hr, hy, hk]

@[simp] theorem deliver_seq (σ : Net) (a b u) (r : NodeSt × Bool) : (deliverR adj σ a b u r).seq = σ.seq := rfl
@[simp] theorem deliver_cur (σ : Net) (a b u) (r : NodeSt × Bool) : (deliverR adj σ a b u r).cur = σ.cur := rfl
@[simp] theorem deliver_used (σ : Net) (a b u) (r : NodeSt × Bool) : (deliverR adj σ a b u r).used = σ.used := rfl
theorem deliver_st_ne (σ : Net) (a b u) (r : NodeSt × Bool) (x) (h : x ≠ b) : (deliverR adj σ a b u r).st x = σ.st x := by
  simp [deliverR, h]
theorem deliver_st_b (σ : Net) (a b u) (r : NodeSt × Bool) : (deliverR adj σ a b u r).st b = r.1 := by
  simp [deliverR]

/-- info after accept -/
theorem accept_info (me : Node) (s : NodeSt) (u : Update) (x : Node) :
    (accept me s u).info x = if x = u.origin then some u.seq else s.info x := rfl
theorem accept_seen (me : Node) (s : NodeSt) (u : Update) : (accept me s u).seen = s.seen := rfl

/-- known after accept, for an origin other than `me`, when the update carries the true adjacency -/
theorem accept_known_origin (ht : Topo adj) (me : Node) (s : NodeSt) (u : Update)
    (hme : u.origin ≠ me) (hc : u.conns = adj u.origin) :
    (accept me s u).known u.origin = some (adj u.origin) := by
  simp only [accept]
  split
  · rename_i h; rw [h, hc]
  · simp only [prune, hme, if_false]
    have : hasKey u.conns u.origin = false := by rw [hc]; exact ht.irrefl _
    simp only [this, Bool.false_eq_true, if_false, if_true, Option.map_some]
    rw [hc, filter_ne_self_of_not_key _ _ (ht.irrefl _)]

theorem accept_known_other (ht : Topo adj) (me : Node) (s : NodeSt) (u : Update) (m : Node)
    (hm : m ≠ u.origin) (hmme : m ≠ me) (hc : u.conns = adj u.origin)
    (hk : s.known m = some (adj m)) :
    (accept me s u).known m = some (adj m) := by
  simp only [accept]
  split
  · exact hk
  · simp only [prune, hmme, if_false, hm]
    split
    · exact hk
    · rename_i hnk
      rw [hk, Option.map_some]
      congr 1
      apply filter_ne_self_of_not_key
      -- u.origin ∉ adj m, else m ∈ adj u.origin by symmetry
      cases hh : hasKey (adj m) u.origin with
      | false => rfl
      | true =>
        have := ht.sym m u.origin hh
        rw [hc] at hnk
        exact absurd this hnk

end Flood
