package netceptor

// C07 / C11 harness: runProtocol against a scripted backend session.  Every datagram of a script is
// described twice: as the bytes the session delivers, and as a structured description (kind, JSON
// value tree with number literals classified by strconv) for the Lean model.  Each case runs in a
// child process (see runIsolated) because some inputs kill the Go runtime outright.

import (
	"context"
	"encoding/json"
	"fmt"
	"io"
	"math"
	"runtime"
	"sort"
	"strconv"
	"strings"
	"sync"
	"testing"
	"time"
)

// ---- JSON value trees

type jv struct {
	T   string  `json:"t"` // null bool num str arr obj
	B   bool    `json:"b,omitempty"`
	Lit string  `json:"lit,omitempty"`
	U   *uint64 `json:"uint"`
	M   *int64  `json:"micro"`
	S   string  `json:"s,omitempty"` // hex
	L   []*jv   `json:"l,omitempty"`
	KV  []jkv   `json:"kv,omitempty"`
}

type jkv struct {
	K string `json:"k"` // hex
	V *jv    `json:"v"`
}

func jNull() *jv          { return &jv{T: "null"} }
func jBool(b bool) *jv    { return &jv{T: "bool", B: b} }
func jStr(s string) *jv   { return &jv{T: "str", S: verifHex([]byte(s))} }
func jArr(l ...*jv) *jv   { return &jv{T: "arr", L: l} }
func jObj(kv ...jkv) *jv  { return &jv{T: "obj", KV: kv} }
func jK(k string, v *jv) jkv { return jkv{K: verifHex([]byte(k)), V: v} }
func jNum(lit string) *jv {
	n := &jv{T: "num", Lit: lit}
	if u, err := strconv.ParseUint(lit, 10, 64); err == nil {
		n.U = &u
	}
	if f, err := strconv.ParseFloat(lit, 64); err == nil && !math.IsInf(f, 0) && math.Abs(f) < 1e12 {
		m := int64(math.Round(f * 1e6))
		n.M = &m
	}
	return n
}

func (v *jv) render(b *strings.Builder) {
	switch v.T {
	case "null":
		b.WriteString("null")
	case "bool":
		b.WriteString(strconv.FormatBool(v.B))
	case "num":
		b.WriteString(v.Lit)
	case "str":
		js, _ := json.Marshal(string(verifUnhex(v.S)))
		b.Write(js)
	case "arr":
		b.WriteByte('[')
		for i, e := range v.L {
			if i > 0 {
				b.WriteByte(',')
			}
			e.render(b)
		}
		b.WriteByte(']')
	case "obj":
		b.WriteByte('{')
		for i, e := range v.KV {
			if i > 0 {
				b.WriteByte(',')
			}
			js, _ := json.Marshal(string(verifUnhex(e.K)))
			b.Write(js)
			b.WriteByte(':')
			e.V.render(b)
		}
		b.WriteByte('}')
	}
}

func (v *jv) text() string {
	var b strings.Builder
	v.render(&b)
	return b.String()
}

// ---- cases

type protoDgram struct {
	Kind      string `json:"kind"`       // empty data route advert reject other
	Raw       string `json:"raw"`        // bytes delivered (hex)
	Body      *jv    `json:"body"`       // JSON body for route/advert; null when the body is not JSON
	WellTyped bool   `json:"welltyped"`  // advert: every mentioned field has an acceptable JSON type
	DataKind  string `json:"datakind"`   // data: short unknownhash pingloop handled
}

type protoArgs struct {
	Self     string             `json:"self"`
	Cost     float64            `json:"cost"`
	NodeCost map[string]float64 `json:"nodecost"`
	Allowed  []string           `json:"allowed"` // null = no allow-list
	Conns    []string           `json:"conns"`   // connections that exist before the session starts
	Script   []protoDgram       `json:"script"`
	CloseEnd bool               `json:"close_end"` // end the transport after the script (EOF)
	// Pre: an earlier session on the same backend (same BackendInfo) that has gone through its whole script — and stays
	// connected — before the session under test starts
	Pre []protoDgram `json:"pre"`
}

// protoAutoSession hands out its script without waiting for anybody, then stays silent
type protoAutoSession struct {
	mu     sync.Mutex
	script [][]byte
	idx    int
	ctx    context.Context
	done   chan struct{} // closed when the whole script has been taken
	once   sync.Once
}

func (p *protoAutoSession) Send([]byte) error { return nil }
func (p *protoAutoSession) Close() error      { return nil }
func (p *protoAutoSession) Recv(d time.Duration) ([]byte, error) {
	p.mu.Lock()
	if p.idx < len(p.script) {
		b := p.script[p.idx]
		p.idx++
		p.mu.Unlock()
		return b, nil
	}
	p.mu.Unlock()
	p.once.Do(func() { close(p.done) })
	select {
	case <-p.ctx.Done():
		return nil, io.EOF
	case <-time.After(d):
		return nil, ErrTimeout
	}
}

type protoSession struct {
	script [][]byte
	idx    int
	calls  chan int
	resume chan struct{}
	ctx    context.Context
	mu     sync.Mutex
	sent   [][]byte
	eof    chan struct{}
}

func (p *protoSession) Send(b []byte) error {
	p.mu.Lock()
	p.sent = append(p.sent, append([]byte{}, b...))
	p.mu.Unlock()
	return nil
}
func (p *protoSession) Close() error { return nil }
func (p *protoSession) Recv(time.Duration) ([]byte, error) {
	i := p.idx
	p.idx++
	select {
	case p.calls <- i:
	case <-p.ctx.Done():
		return nil, io.EOF
	}
	select {
	case <-p.resume:
	case <-p.ctx.Done():
		return nil, io.EOF
	}
	if i >= len(p.script) {
		select {
		case <-p.eof:
		case <-p.ctx.Done():
		}
		return nil, io.EOF
	}
	return p.script[i], nil
}

func (p *protoSession) rejectSent() bool {
	p.mu.Lock()
	defer p.mu.Unlock()
	for _, b := range p.sent {
		if len(b) > 0 && b[0] == MsgTypeReject {
			return true
		}
	}
	return false
}

func protoApply(op string, raw json.RawMessage) interface{} {
	var a protoArgs
	if err := json.Unmarshal(raw, &a); err != nil {
		panic(err)
	}
	if op == "race" {
		return protoRace(a)
	}
	if op != "session" {
		panic("verif: unknown op " + op)
	}
	self := string(verifUnhex(a.Self))
	s, cancel := verifQuietNode(self, 30)
	defer cancel()
	// requests to the tick runners are only counted: nothing fires spontaneously
	reqFlood := make(chan time.Duration, 4096)
	reqTable := make(chan time.Duration, 4096)
	s.sendRouteFloodChan, s.updateRoutingTableChan = reqFlood, reqTable
	for _, c := range a.Conns {
		p := string(verifUnhex(c))
		ctx, cf := context.WithCancel(s.context)
		s.connections[p] = &connInfo{ReadChan: make(chan []byte), WriteChan: make(chan []byte, 4096), Context: ctx, CancelFunc: cf, Cost: 1,
			lastReceivedData: time.Now(), lastReceivedLock: &sync.RWMutex{}, logger: s.Logger}
	}
	// the script with two harmless datagrams after each real one: when the reader asks for item k,
	// item k-2 has been handled completely
	nop := []byte{0x7f}
	var wire [][]byte
	for _, d := range a.Script {
		wire = append(wire, verifUnhex(d.Raw), nop, nop)
	}
	bi := &BackendInfo{connectionCost: a.Cost, nodeCost: unhexKeys(a.NodeCost)}
	if a.Allowed != nil {
		bi.allowedPeers = []string{}
		for _, p := range a.Allowed {
			bi.allowedPeers = append(bi.allowedPeers, string(verifUnhex(p)))
		}
	}
	ctx, cancelSess := context.WithCancel(s.context)
	defer cancelSess()
	if len(a.Pre) > 0 {
		var pw [][]byte
		for _, d := range a.Pre {
			pw = append(pw, verifUnhex(d.Raw))
		}
		pw = append(pw, nop, nop)
		ps := &protoAutoSession{script: pw, ctx: ctx, done: make(chan struct{})}
		go func() {
			defer func() { _ = recover() }()
			_ = s.runProtocol(ctx, ps, bi)
		}()
		select {
		case <-ps.done:
		case <-time.After(5 * time.Second):
		}
		verifWaitParked("(*Netceptor).runProtocol")
	}
	sess := &protoSession{script: wire, calls: make(chan int), resume: make(chan struct{}), ctx: ctx, eof: make(chan struct{})}
	type result struct {
		err      error
		panicked interface{}
	}
	ret := make(chan result, 1)
	go func() {
		var r result
		defer func() {
			if p := recover(); p != nil {
				r.panicked = p
			}
			ret <- r
		}()
		r.err = s.runProtocol(ctx, sess, bi)
	}()
	connSet := func() []string {
		s.connLock.RLock()
		defer s.connLock.RUnlock()
		l := []string{}
		for c := range s.connections {
			l = append(l, verifHex([]byte(c)))
		}
		sort.Strings(l)
		return l
	}
	outs := []string{}
	ended := false
	finish := func(r result) {
		verifWaitParked("(*connInfo).protoWriter") // whatever was handed to the writer has reached the session
		switch {
		case r.panicked != nil:
			outs = append(outs, "panic")
		case sess.rejectSent():
			outs = append(outs, "ended:reject")
		default:
			outs = append(outs, "ended")
		}
		ended = true
	}
	before := connSet()
	// wait for the reader's call number k (or the end of the session)
	await := func(k int) bool {
		for {
			select {
			case i := <-sess.calls:
				if i == k {
					return true
				}
				sess.resume <- struct{}{}
			case r := <-ret:
				finish(r)
				return false
			case <-time.After(8 * time.Second):
				outs = append(outs, "stalled")
				ended = true
				return false
			}
		}
	}
	for i := range a.Script {
		// let the reader fetch items up to 3i+2: then item 3i is done
		if !await(3*i + 2) {
			break
		}
		after := connSet()
		if len(after) > len(before) {
			outs = append(outs, "established")
		} else {
			outs = append(outs, "continue")
		}
		before = after
		if i == len(a.Script)-1 {
			break
		}
		sess.resume <- struct{}{}
	}
	if !ended && a.CloseEnd {
		// the transport ends: the pending Recv returns EOF once the script is exhausted
		close(sess.eof)
		go func() {
			// the reader is parked in the call the loop above stopped at: let it go on first
			select {
			case sess.resume <- struct{}{}:
			case <-ctx.Done():
				return
			}
			for {
				select {
				case <-sess.calls:
					select {
					case sess.resume <- struct{}{}:
					case <-ctx.Done():
						return
					}
				case <-ctx.Done():
					return
				}
			}
		}()
		select {
		case r := <-ret:
			if r.panicked != nil {
				outs = append(outs, "panic")
			} else {
				outs = append(outs, "closed")
			}
		case <-time.After(8 * time.Second):
			outs = append(outs, "stalled")
		}
	}
	// liveness of the node for its other peers: the locks every session needs are free, and the routing
	// table computation (triggered by what this peer sent) terminates
	live := verifTimed(3*time.Second, func() {
		s.knownNodeLock.Lock()
		s.knownNodeLock.Unlock() //nolint:staticcheck
		s.connLock.Lock()
		s.connLock.Unlock() //nolint:staticcheck
		s.serviceAdsLock.Lock()
		s.serviceAdsLock.Unlock() //nolint:staticcheck
		s.listenerLock.Lock()
		s.listenerLock.Unlock() //nolint:staticcheck
	}) && verifTimed(3*time.Second, func() { s.updateRoutingTable() })
	return map[string]interface{}{"ok": map[string]interface{}{"outs": outs, "conns_set": connSet(), "live": live, "shutdown": s.context.Err() != nil}}
}

// verifWaitParked waits until every goroutine running fn is blocked in a select / channel operation
// (i.e. has finished whatever it was doing with its last input).
func verifWaitParked(fn string) {
	buf := make([]byte, 1<<21)
	for i := 0; i < 40000; i++ {
		n := runtime.Stack(buf, true)
		busy := false
		for _, g := range strings.Split(string(buf[:n]), "\n\n") {
			if !strings.Contains(g, fn) {
				continue
			}
			head := g
			if j := strings.Index(g, "\n"); j >= 0 {
				head = g[:j]
			}
			if !strings.Contains(head, "[select") && !strings.Contains(head, "[chan ") {
				busy = true
			}
		}
		if !busy {
			return
		}
		time.Sleep(50 * time.Microsecond)
	}
}

// protoRace: several sessions announce the same node ID at the same moment.  However their
// handshakes interleave, at most one of them may end up as the established connection.
func protoRace(a protoArgs) interface{} {
	self := string(verifUnhex(a.Self))
	s, cancel := verifQuietNode(self, 30)
	defer cancel()
	s.sendRouteFloodChan, s.updateRoutingTableChan = make(chan time.Duration, 4096), make(chan time.Duration, 4096)
	bi := &BackendInfo{connectionCost: 1}
	k := len(a.Conns) // number of racing sessions
	ctx, cancelAll := context.WithCancel(s.context)
	defer cancelAll()
	hs := verifUnhex(a.Script[0].Raw)
	start := make(chan struct{})
	type res struct{ alive bool }
	results := make(chan res, k)
	for i := 0; i < k; i++ {
		sess := &protoSession{script: [][]byte{hs, {0x7f}, {0x7f}}, calls: make(chan int), resume: make(chan struct{}), ctx: ctx, eof: make(chan struct{})}
		ret := make(chan struct{})
		go func() {
			defer close(ret)
			defer func() { _ = recover() }()
			_ = s.runProtocol(ctx, sess, bi)
		}()
		go func() {
			<-start
			for {
				select {
				case c := <-sess.calls:
					if c == 2 { // the handshake datagram has been handled and the session is still running
						results <- res{alive: true}
						return
					}
					sess.resume <- struct{}{}
				case <-ret:
					results <- res{alive: false}
					return
				case <-time.After(10 * time.Second):
					results <- res{alive: false}
					return
				}
			}
		}()
	}
	close(start)
	alive := 0
	for i := 0; i < k; i++ {
		if r := <-results; r.alive {
			alive++
		}
	}
	s.connLock.RLock()
	registered := len(s.connections)
	s.connLock.RUnlock()
	return map[string]interface{}{"ok": map[string]interface{}{"established": alive, "registered": registered}}
}

// ---- generator

func protoRoute(body *jv) protoDgram {
	return protoDgram{Kind: "route", Raw: verifHex(append([]byte{MsgTypeRoute}, []byte(body.text())...)), Body: body}
}

func protoUpdate(node, fwd string, conns *jv, extra ...jkv) *jv {
	kv := []jkv{jK("NodeID", jStr(node)), jK("UpdateID", jStr(fmt.Sprintf("id%d", len(node)+len(fwd)))), jK("UpdateEpoch", jNum("77")),
		jK("UpdateSequence", jNum("1")), jK("ForwardingNode", jStr(fwd))}
	if conns != nil {
		kv = append(kv, jK("Connections", conns))
	}
	kv = append(kv, extra...)
	return jObj(kv...)
}

func (v *verifRun) protoAnyJSON(depth int) *jv {
	switch v.rng.Intn(9) {
	case 0:
		return jNull()
	case 1:
		return jBool(v.rng.Intn(2) == 0)
	case 2:
		return jNum([]string{"0", "1", "-1", "1.0", "1e3", "18446744073709551615", "18446744073709551616", "0.5", "-0", "1e999", "255", "256"}[v.rng.Intn(12)])
	case 3:
		return jStr([]string{"", "peer", "me", "x", "2024-01-01T00:00:00Z", "not a time"}[v.rng.Intn(6)])
	case 4:
		if depth > 0 {
			return jArr(v.protoAnyJSON(depth-1), v.protoAnyJSON(depth-1))
		}
		return jArr()
	default:
		if depth > 0 {
			return jObj(jK([]string{"a", "NodeID", "me", "peer"}[v.rng.Intn(4)], v.protoAnyJSON(depth-1)))
		}
		return jObj()
	}
}

var protoRUFields = []string{"NodeID", "UpdateID", "UpdateEpoch", "UpdateSequence", "Connections", "ForwardingNode", "SuspectedDuplicate"}
var protoAdFields = []string{"NodeID", "Service", "Time", "ConnType", "Tags", "WorkCommands", "Cancel"}

// protoAdWellTyped: would encoding/json accept value v for field f of serviceAdvertisementFull?
func protoAdWellTyped(f string, v *jv) bool {
	if v.T == "null" {
		return true
	}
	switch strings.ToLower(f) {
	case "nodeid", "service":
		return v.T == "str"
	case "time":
		if v.T != "str" {
			return false
		}
		_, err := time.Parse(time.RFC3339, string(verifUnhex(v.S)))
		return err == nil
	case "conntype":
		return v.T == "num" && v.U != nil && *v.U <= 255
	case "tags":
		if v.T != "obj" {
			return false
		}
		for _, e := range v.KV {
			if e.V.T != "str" && e.V.T != "null" {
				return false
			}
		}
		return true
	case "workcommands":
		if v.T != "arr" {
			return false
		}
		for _, e := range v.L {
			if e.T == "null" {
				continue
			}
			if e.T != "obj" {
				return false
			}
			for _, f := range e.KV {
				switch strings.ToLower(string(verifUnhex(f.K))) {
				case "worktype":
					if f.V.T != "str" && f.V.T != "null" {
						return false
					}
				case "secure":
					if f.V.T != "bool" && f.V.T != "null" {
						return false
					}
				}
			}
		}
		return true
	case "cancel":
		return v.T == "bool"
	}
	return true
}

func protoAdvert(body *jv, notJSON []byte) protoDgram {
	if body == nil {
		return protoDgram{Kind: "advert", Raw: verifHex(append([]byte{MsgTypeServiceAdvertisement}, notJSON...))}
	}
	wt := true
	if body.T == "obj" {
		seen := map[string]bool{}
		for _, e := range body.KV {
			k := string(verifUnhex(e.K))
			for _, f := range protoAdFields {
				if strings.EqualFold(f, k) && !seen[strings.ToLower(k)] {
					if !protoAdWellTyped(f, e.V) {
						wt = false
					}
				}
			}
		}
	}
	return protoDgram{Kind: "advert", Raw: verifHex(append([]byte{MsgTypeServiceAdvertisement}, []byte(body.text())...)), Body: body, WellTyped: wt}
}

func protoGen(v *verifRun) {
	hx := func(s string) string { return verifHex([]byte(s)) }
	self, peer := "me", "peer"
	costLit := func(c float64) string { return strconv.FormatFloat(c, 'g', -1, 64) }
	dataPkt := func(from, fsvc, to, tsvc string, payload int) []byte {
		b, _ := wireNode.translateDataFromMessage(&MessageData{FromNode: from, ToNode: to, FromService: fsvc, ToService: tsvc, HopsToLive: 5, Data: make([]byte, payload)})
		return b
	}
	for i := 0; i < v.n; i++ {
		a := protoArgs{Self: hx(self), Cost: []float64{1, 1, 2, 0.5}[v.rng.Intn(4)], NodeCost: map[string]float64{}, Conns: []string{}}
		if v.rng.Intn(4) == 0 {
			a.NodeCost[hx(peer)] = 3
		}
		if v.rng.Intn(3) == 0 {
			a.Allowed = []string{hx("friend")}
			if v.rng.Intn(2) == 0 {
				a.Allowed = append(a.Allowed, hx(peer))
			}
		}
		if v.rng.Intn(3) == 0 {
			a.Conns = append(a.Conns, hx("other"))
		}
		if v.rng.Intn(8) == 0 {
			a.Conns = append(a.Conns, hx(peer)) // the announced ID is already connected
		}
		a.CloseEnd = v.rng.Intn(3) == 0
		if v.rng.Intn(4) == 0 {
			// an earlier peer of the same backend with a cost of its own
			first := "first"
			fc := []float64{5, 0.25}[v.rng.Intn(2)]
			a.NodeCost[hx(first)] = fc
			if a.Allowed != nil {
				a.Allowed = append(a.Allowed, hx(first))
			}
			a.Pre = []protoDgram{protoRoute(protoUpdate(first, first, jObj())),
				protoRoute(protoUpdate(first, first, jObj(jK(self, jNum(costLit(fc))))))}
		}
		effCost := a.Cost
		if c, ok := a.NodeCost[hx(peer)]; ok {
			effCost = c
		}
		var script []protoDgram
		add := func(d protoDgram) { script = append(script, d) }
		established := v.rng.Intn(4) != 0
		if established {
			add(protoRoute(protoUpdate(peer, peer, jObj())))
			if v.rng.Intn(2) == 0 {
				add(protoRoute(protoUpdate(peer, peer, jObj(jK(self, jNum(costLit(effCost)))))))
			}
		}
		for k := 1 + v.rng.Intn(3); k > 0; k-- {
			switch v.rng.Intn(16) {
			case 0:
				add(protoDgram{Kind: "empty", Raw: ""})
			case 1: // data packets: short, unknown hash, ordinary, and the ping-to-ping one
				n := v.pick([]int{1, 2, 35, 36})
				b := dataPkt(peer, "a", self, "b", 3)
				if n < len(b) {
					b = b[:n]
				}
				dk := "short"
				if n >= 36 {
					dk = "handled"
				}
				add(protoDgram{Kind: "data", Raw: verifHex(b), DataKind: dk})
			case 2:
				b := dataPkt(peer, "a", self, "b", 3)
				b[5] ^= 0xff
				add(protoDgram{Kind: "data", Raw: verifHex(b), DataKind: "unknownhash"})
			case 3:
				add(protoDgram{Kind: "data", Raw: verifHex(dataPkt(peer, "a", self, "nosuch", 2)), DataKind: "handled"})
			case 4:
				if established && v.rng.Intn(2) == 0 {
					add(protoDgram{Kind: "data", Raw: verifHex(dataPkt(self, "ping", self, "ping", 0)), DataKind: "pingloop"})
				} else {
					add(protoDgram{Kind: "data", Raw: verifHex(dataPkt(peer, "x", self, "ping", 0)), DataKind: "handled"})
				}
			case 5: // route: not JSON at all
				add(protoDgram{Kind: "route", Raw: verifHex(append([]byte{MsgTypeRoute}, []byte("{\"NodeID\":")...))})
			case 6: // route: arbitrary JSON value
				add(protoRoute(v.protoAnyJSON(2)))
			case 7: // route: every field replaced by an arbitrary value in turn
				f := protoRUFields[v.rng.Intn(len(protoRUFields))]
				body := protoUpdate(peer, peer, jObj(jK(self, jNum(costLit(effCost)))))
				for j := range body.KV {
					if string(verifUnhex(body.KV[j].K)) == f {
						body.KV[j].V = v.protoAnyJSON(1)
					}
				}
				if f == "SuspectedDuplicate" {
					body.KV = append(body.KV, jK(f, v.protoAnyJSON(1)))
				}
				add(protoRoute(body))
			case 8: // semantically absurd but well-typed updates
				switch v.rng.Intn(8) {
				case 6: // suspected-duplicate notice about a node nobody has heard of / about a known one
					add(protoRoute(protoUpdate("ghost", peer, jObj(jK("y", jNum("1"))), jK("SuspectedDuplicate", jNum("5")), jK("UpdateID", jStr("id-ghost")))))
				case 7:
					add(protoRoute(protoUpdate(peer, peer, jObj(jK(self, jNum(costLit(effCost)))), jK("SuspectedDuplicate", jNum("77")), jK("UpdateID", jStr("id-sd")))))
				case 0:
					add(protoRoute(protoUpdate("x", peer, jObj(jK("y", jNum("-1")), jK(self, jNum("1"))))))
				case 1:
					add(protoRoute(protoUpdate("x", peer, jObj(jK("y", jNum("0"))))))
				case 2:
					add(protoRoute(protoUpdate("x", "someone-else", jObj())))
				case 3:
					add(protoRoute(protoUpdate(peer, peer, jObj(jK(self, jNum("7"))))))
				case 4:
					add(protoRoute(protoUpdate(peer, peer, jObj(jK("nobody", jNum("1"))))))
				case 5: // a negative cycle x <-> y reachable from this node through the peer
					add(protoRoute(protoUpdate(peer, peer, jObj(jK(self, jNum(costLit(effCost))), jK("x", jNum("1"))), jK("UpdateSequence", jNum("5")), jK("UpdateID", jStr("id-p5")))))
					add(protoRoute(protoUpdate("x", peer, jObj(jK("y", jNum("-1")), jK(peer, jNum("1"))), jK("UpdateID", jStr("id-x")))))
					add(protoRoute(protoUpdate("y", peer, jObj(jK("x", jNum("-1"))), jK("UpdateID", jStr("id-y")))))
				}
			case 9: // handshake variants in the first phase
				ids := []string{peer, "", self, "friend", "stranger"}
				add(protoRoute(protoUpdate(peer, ids[v.rng.Intn(len(ids))], jObj())))
			case 10:
				add(protoAdvert(nil, []byte("{")))
			case 11:
				add(protoAdvert(v.protoAnyJSON(2), nil))
			case 12: // advert with only the non-embedded field, or nothing
				add(protoAdvert([]*jv{jObj(), jObj(jK("Cancel", jBool(true))), jNull(), jObj(jK("cancel", jBool(false)), jK("unknown", jNum("1")))}[v.rng.Intn(4)], nil))
			case 13: // advert with fields of every type
				f := protoAdFields[v.rng.Intn(len(protoAdFields))]
				add(protoAdvert(jObj(jK("NodeID", jStr("adnode")), jK("Service", jStr("s")), jK(f, v.protoAnyJSON(1))), nil))
			case 14:
				add(protoDgram{Kind: "reject", Raw: verifHex([]byte{MsgTypeReject, '[', ']'})})
			default:
				add(protoDgram{Kind: "other", Raw: verifHex([]byte{byte(4 + v.rng.Intn(250)), 1, 2})})
			}
		}
		a.Script = script
		v.do(protoApply, "session", a)
		if i%3 == 0 { // racing handshakes of 2..4 sessions announcing one ID
			r := protoArgs{Self: hx(self), Cost: 1, NodeCost: map[string]float64{}, Script: []protoDgram{protoRoute(protoUpdate(peer, peer, jObj()))}}
			for k := 2 + v.rng.Intn(3); k > 0; k-- {
				r.Conns = append(r.Conns, hx("racer"))
			}
			v.do(protoApply, "race", r)
		}
	}
}

// protoGenAll: the random scripts, then scripted two-session scenarios
func protoGenAll(v *verifRun) {
	protoGen(v)
	hx := func(s string) string { return verifHex([]byte(s)) }
	// an established peer relays updates about a third node — the newer one with "Connections": null — and then that
	// node connects itself
	for _, conns := range []*jv{jNull(), jObj(), nil} {
		pre := []protoDgram{
			protoRoute(protoUpdate("eve", "eve", jObj(jK("me", jNum("1"))))),
			protoRoute(protoUpdate("xnode", "eve", jObj(jK("other", jNum("1"))), jK("UpdateID", jStr("id-x1")), jK("UpdateSequence", jNum("1")))),
			protoRoute(protoUpdate("xnode", "eve", conns, jK("UpdateID", jStr("id-x2")), jK("UpdateSequence", jNum("2")))),
		}
		a := protoArgs{Self: hx("me"), Cost: 1, NodeCost: map[string]float64{}, Conns: []string{}, Pre: pre,
			Script: []protoDgram{protoRoute(protoUpdate("xnode", "xnode", jObj(jK("me", jNum("1"))), jK("UpdateID", jStr("id-x3")), jK("UpdateSequence", jNum("3"))))}}
		v.do(protoApply, "session", a)
	}
	// an established peer whose update fails a peer check *and* carries a non-positive cost somewhere: the peer checks
	// come first (reject and removal), the cost filter must not swallow the update
	for _, upd := range []*jv{
		protoUpdate("eve", "eve", jObj(jK("me", jNum("7")), jK("ghost", jNum("0"))), jK("UpdateID", jStr("id-e2")), jK("UpdateSequence", jNum("2"))),
		protoUpdate("eve", "eve", jObj(jK("nobody", jNum("1")), jK("ghost", jNum("-1"))), jK("UpdateID", jStr("id-e2")), jK("UpdateSequence", jNum("2"))),
		protoUpdate("eve", "mallory", jObj(jK("me", jNum("1")), jK("ghost", jNum("0"))), jK("UpdateID", jStr("id-e2")), jK("UpdateSequence", jNum("2"))),
		protoUpdate("eve", "eve", jObj(jK("me", jNum("1")), jK("ghost", jNum("0"))), jK("UpdateID", jStr("id-e2")), jK("UpdateSequence", jNum("2"))),
	} {
		a := protoArgs{Self: hx("me"), Cost: 1, NodeCost: map[string]float64{}, Conns: []string{},
			Script: []protoDgram{protoRoute(protoUpdate("eve", "eve", jObj(jK("me", jNum("1"))))), protoRoute(upd)}}
		v.do(protoApply, "session", a)
	}
}

func TestVerifProto(t *testing.T) {
	v := verifOpen(t, "proto")
	var cancel context.CancelFunc
	wireNode, cancel = verifQuietNode("verif-wire-node", 30)
	defer cancel()
	v.runIsolated("TestVerifProto", protoApply, protoGenAll, 15*time.Second)
}
