import Receptor.Model.Forward
namespace Receptor.Forward

/-- `IsRoute net p [v0, …, vd]`: the routing tables lead hop by hop from `v0` to
`vd = p.toNode`; every node before the destination lets the packet pass its firewall and
has a connection to the next hop. -/
def IsRoute (net : Net) (p : Packet) : List Node → Prop
  | [] => False
  | [v] => v = p.toNode
  | v :: w :: rest =>
    v ≠ p.toNode ∧ (net v).fw p.fromNode p.fromSvc p.toNode p.toSvc = .accept ∧
    (net v).route p.toNode = some w ∧ (net v).conn w = true ∧ IsRoute net p (w :: rest)

instance instDecIsRoute (net : Net) (p : Packet) : (l : List Node) → Decidable (IsRoute net p l)
  | [] => isFalse (by simp [IsRoute])
  | [v] => by unfold IsRoute; exact inferInstance
  | v :: w :: rest =>
    have := instDecIsRoute net p (w :: rest)
    by unfold IsRoute; exact inferInstance

/-- consecutive pairs of a node list: the relays along it -/
def links : List Node → List (Node × Node)
  | v :: w :: rest => (v, w) :: links (w :: rest)
  | _ => []

theorem links_length (v : Node) (vs : List Node) : (links (v :: vs)).length = vs.length := by
  induction vs generalizing v with
  | nil => simp [links]
  | cons w rest ih => simp [links, ih]

theorem nextTtl_std (ttl : Nat) (h1 : 1 ≤ ttl) (h2 : ttl < 256) : nextTtl stdHops ttl = ttl - 1 := by
  simp [nextTtl, stdHops]; omega

/-- a relay only happens with a positive budget (standard hop rule) -/
theorem handle_forward_ttl {me cfg p nh} (h : handle stdHops me cfg p = .forward nh) : 1 ≤ p.ttl := by
  unfold handle at h
  split at h
  · cases h
  · split at h <;> cases h
  · split at h
    · repeat' split at h
      all_goals (first | cases h | skip)
    · split at h
      · split at h <;> cases h
      · rename_i hexp
        simp [stdHops] at hexp
        omega

/-- **Hop bound**: whatever the routing tables, firewalls and listeners of every node are,
a packet is relayed at most `ttl` times. -/
theorem walk_length_le (net : Net) : ∀ (fuel ttl : Nat) (cur : Node) (p : Packet), ttl < 256 →
    (walk stdHops net fuel ttl cur p).1.length ≤ ttl := by
  intro fuel
  induction fuel with
  | zero => intro ttl cur p _; simp [walk]
  | succ f ih =>
    intro ttl cur p httl
    simp only [walk]
    split
    · rename_i nh hf
      have h1 := handle_forward_ttl hf
      simp only at h1
      rw [nextTtl_std ttl h1 httl]
      have := ih (ttl - 1) nh p (by omega)
      simp only [List.length_cons]
      omega
    · simp

/-- the packet reaches the end of a route of `d` links when the budget allows (`d ≤ ttl`):
exactly the route's links are used and the destination handles it with budget `ttl - d`. -/
theorem walk_route (net : Net) (p : Packet) : ∀ (vs : List Node) (v0 : Node) (fuel ttl : Nat),
    IsRoute net p (v0 :: vs) → vs.length ≤ ttl → ttl < 256 → vs.length < fuel →
    walk stdHops net fuel ttl v0 p
      = (links (v0 :: vs), ((v0 :: vs).getLast (by simp),
          handle stdHops p.toNode (net p.toNode) { p with ttl := ttl - vs.length })) := by
  intro vs
  induction vs with
  | nil =>
    intro v0 fuel ttl hr _ _ hf
    simp only [IsRoute] at hr
    subst hr
    cases fuel with
    | zero => simp at hf
    | succ f =>
      simp only [walk, links, List.length_nil, Nat.sub_zero, List.getLast_singleton]
      split
      · rename_i nh hfw
        -- the destination never relays a packet addressed to itself
        exfalso
        unfold handle at hfw
        split at hfw
        · cases hfw
        · split at hfw <;> cases hfw
        · simp only [if_true] at hfw
          repeat' split at hfw
          all_goals (first | cases hfw | skip)
      · rename_i o hno; rfl
  | cons w rest ih =>
    intro v0 fuel ttl hr hlen httl hf
    obtain ⟨hne, hfw, hrt, hcn, hrest⟩ := hr
    cases fuel with
    | zero => simp at hf
    | succ f =>
      have hh : handle stdHops v0 (net v0) { p with ttl := ttl } = .forward w := by
        unfold handle
        simp only [hfw]
        have : ¬ (p.toNode = v0) := fun h => hne h.symm
        simp only [this, if_false]
        have : ¬ (ttl ≤ stdHops.expireAt) := by simp [stdHops]; simp at hlen; omega
        simp only [this, if_false, hrt, hcn, if_true]
      simp only [walk, hh]
      simp only [List.length_cons] at hlen hf
      rw [nextTtl_std ttl (by omega) httl]
      rw [ih w f (ttl - 1) hrest (by omega) (by omega) (by omega)]
      simp only [links, List.length_cons]
      have : ttl - 1 - rest.length = ttl - (rest.length + 1) := by omega
      rw [this]
      simp [List.getLast_cons]

/-- when the budget is smaller than the route, the packet stops at the node `ttl` links
along the route, and that node handles it with budget 0 (i.e. reports expiry). -/
theorem walk_expire (net : Net) (p : Packet) : ∀ (vs : List Node) (v0 : Node) (fuel ttl : Nat),
    IsRoute net p (v0 :: vs) → ttl < vs.length → ttl < 256 → ttl < fuel →
    ∃ vt, (v0 :: vs)[ttl]? = some vt ∧
      walk stdHops net fuel ttl v0 p
        = (links ((v0 :: vs).take (ttl + 1)), (vt, handle stdHops vt (net vt) { p with ttl := 0 })) := by
  intro vs
  induction vs with
  | nil => intro v0 fuel ttl _ h; simp at h
  | cons w rest ih =>
    intro v0 fuel ttl hr hlen httl hf
    obtain ⟨hne, hfw, hrt, hcn, hrest⟩ := hr
    cases fuel with
    | zero => omega
    | succ f =>
      cases ttl with
      | zero =>
        refine ⟨v0, by simp, ?_⟩
        simp only [walk]
        have hh : handle stdHops v0 (net v0) { p with ttl := 0 }
            = (if isNotice stdHops p then .silent else .spawn (mkNotice v0 (net v0) p .expired)) := by
          unfold handle
          simp only [hfw]
          have : ¬ (p.toNode = v0) := fun h => hne h.symm
          simp only [this, if_false]
          simp [stdHops, isNotice, mkNotice]
        rw [hh]
        by_cases hn : isNotice stdHops p = true <;> simp [hn, links]
      | succ t =>
        have hh : handle stdHops v0 (net v0) { p with ttl := t + 1 } = .forward w := by
          unfold handle
          simp only [hfw]
          have : ¬ (p.toNode = v0) := fun h => hne h.symm
          simp only [this, if_false]
          have : ¬ (t + 1 ≤ stdHops.expireAt) := by simp [stdHops]
          simp only [this, if_false, hrt, hcn, if_true]
        simp only [walk, hh]
        rw [nextTtl_std (t + 1) (by omega) httl]
        simp only [List.length_cons] at hlen
        obtain ⟨vt, hvt, hw⟩ := ih w f t hrest (by omega) (by omega) (by omega)
        refine ⟨vt, by simpa using hvt, ?_⟩
        simp only [Nat.add_sub_cancel]
        rw [hw]
        simp [links, List.take]

end Receptor.Forward
