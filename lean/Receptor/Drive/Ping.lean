import Receptor.Drive.Util
import Receptor.Model.Forward
import Receptor.Generated.Facts
namespace Receptor.Drive.Ping
open Lean Receptor.Drive Receptor.Forward

/-- does the ping listen for notices before it sends?  (regenerated fact) -/
def subscribesFirst : Bool := Receptor.Facts.ping_order = "ListenPacket<SetHopsToLive<SubscribeUnreachable<WriteTo"

def handle (op : String) (a r : Json) : Except String Reply := do
  match op with
  | "burst" =>
    let workers ← getNat a "workers"
    let each ← getNat a "each"
    -- the model: a ping with budget 0 from `me` to a routed node — what the node does with it
    let me : Node := [109, 101]
    let far : Node := [102, 97, 114]
    let cfg : NodeCfg := { route := fun n => if n = far then some [110, 98] else none, conn := fun n => n = [110, 98],
                           listener := fun _ => false, fw := fun _ _ _ _ => .accept, maxHops := 30 }
    let p : Packet := { fromNode := me, fromSvc := [101, 112, 104], toNode := far, toSvc := pingSvc, ttl := 0, body := .raw [] }
    let reported := (observe stdHops me cfg 3 p).any fun e => match e.2 with
      | .published n => n.problem == .expired && n.fromNode == me
      | _ => false
    let n := workers * each
    let spec := jObj [("pings", jNat n), ("expired_reported_by_me", jNat (if reported then n else 0)), ("other", Json.mkObj [])]
    let m := if subscribesFirst then spec
             else jObj [("unmodelled", Json.str "the ping does not listen for notices before it sends: whether a notice is seen is a race")]
    let holds := canonEq r spec
    let wedged := (optField r "wedged").isSome
    pure { m := m, prop := some holds,
           why := if holds then "" else if wedged then "a burst of pings never finished: the delivery of notices to the sockets of this node is wedged" else "a ping whose budget ran out did not report 'message expired' from the node where it ran out (the notice was lost or the ping timed out)",
           sig := if holds then "" else if wedged then "C10/ping/burst-wedged" else "C10/ping/expiry-not-reported" }
  | _ => throw s!"bad-op ping {op}"

end Receptor.Drive.Ping
