import Receptor.Model.DER
/-! Helper lemmas for C20: length and TLV round trips. -/
namespace Receptor.DER

theorem natBEAux_fuel2 : ∀ n f g, n ≤ f → n ≤ g → natBEAux f n = natBEAux g n := by
  intro n
  induction n using Nat.strongRecOn with
  | _ n ih =>
    intro f g hf hg
    by_cases h0 : n = 0
    · subst h0; cases f <;> cases g <;> simp [natBEAux]
    · cases f with
      | zero => omega
      | succ f' =>
        cases g with
        | zero => omega
        | succ g' =>
          simp only [natBEAux, h0, if_false]
          rw [ih (n / 256) (by omega) f' g' (by omega) (by omega)]

theorem natBEAux_fuel (f n : Nat) (h : n ≤ f) : natBEAux f n = natBEAux n n :=
  natBEAux_fuel2 n f n h (Nat.le_refl n)

theorem natBE_zero : natBE 0 = [] := rfl
theorem natBE_pos {n : Nat} (h : n ≠ 0) : natBE n = natBE (n / 256) ++ [n % 256] := by
  unfold natBE
  cases n with
  | zero => exact absurd rfl h
  | succ m =>
    simp only [natBEAux]
    rw [natBEAux_fuel m ((m + 1) / 256) (by omega)]
    simp

theorem beVal_snoc (l : Bytes) (b : Nat) : beVal (l ++ [b]) = beVal l * 256 + b := by
  simp [beVal, List.foldl_append]

theorem beVal_natBE (n : Nat) : beVal (natBE n) = n := by
  induction n using Nat.strongRecOn with
  | _ n ih =>
    by_cases h : n = 0
    · subst h; simp [natBE_zero, beVal]
    · rw [natBE_pos h, beVal_snoc, ih (n / 256) (by omega)]; omega

theorem natBE_length_le (k : Nat) : ∀ n, n < 256 ^ k → (natBE n).length ≤ k := by
  induction k with
  | zero => intro n h; have : n = 0 := by simpa using h
            subst this; simp [natBE_zero]
  | succ k ih =>
    intro n h
    by_cases h0 : n = 0
    · subst h0; simp [natBE_zero]
    · rw [natBE_pos h0]; simp
      apply ih
      rw [Nat.pow_succ] at h
      exact Nat.div_lt_of_lt_mul (by omega)

theorem natBE_ne_nil {n : Nat} (h : n ≠ 0) : natBE n ≠ [] := by
  rw [natBE_pos h]; simp

theorem natBE_head (n : Nat) : (natBE n).head? ≠ some 0 := by
  induction n using Nat.strongRecOn with
  | _ n ih =>
    by_cases h : n = 0
    · subst h; simp [natBE_zero]
    · rw [natBE_pos h]
      by_cases h2 : n / 256 = 0
      · rw [h2, natBE_zero]; simp; omega
      · have := ih (n / 256) (by omega)
        have hne := natBE_ne_nil h2
        cases hl : natBE (n / 256) with
        | nil => exact absurd hl hne
        | cons a l => rw [hl] at this; simpa using this

theorem natBE_length_pos {n : Nat} (h : n ≠ 0) : 0 < (natBE n).length := by
  have := natBE_ne_nil h
  cases hl : natBE n with
  | nil => exact absurd hl this
  | cons a l => simp

/-- `decLen` inverts `encLen` for every length below 2^31 (Go's own limit). -/
theorem decLen_encLen (n : Nat) (r : Bytes) (hn : n < 2147483648) :
    decLen (encLen n ++ r) = some (n, r) := by
  unfold encLen
  by_cases h : n < 128
  · simp [h, decLen]
  · simp only [h, if_false, List.cons_append]
    have hk4 : (natBE n).length ≤ 4 := natBE_length_le 4 n (by omega)
    have hk0 : 0 < (natBE n).length := natBE_length_pos (by omega)
    have hhead := natBE_head n
    have hval := beVal_natBE n
    unfold decLen
    have e1 : ¬ (128 + (natBE n).length < 128) := by omega
    have e2 : 128 + (natBE n).length - 128 = (natBE n).length := by omega
    simp only [e1, if_false, e2]
    have e3 : ¬ ((natBE n).length = 0) := by omega
    have e4 : ¬ ((natBE n).length > 4) := by omega
    have e5 : ¬ ((natBE n ++ r).length < (natBE n).length) := by simp
    have e6 : (natBE n ++ r).take (natBE n).length = natBE n := by simp
    have e7 : (natBE n ++ r).drop (natBE n).length = r := by simp
    simp only [e3, e4, e5, if_false, e6, e7, hval]
    have e8 : ¬ ((natBE n).head? = some 0) := hhead
    have e9 : ¬ (n ≥ 2147483648) := by omega
    simp [e8, h, e9]

theorem encLen_length_le (n : Nat) (hn : n < 2147483648) : (encLen n).length ≤ 5 := by
  unfold encLen
  split
  · simp
  · have := natBE_length_le 4 n (by omega); simp; omega

/-- `decTLV` inverts `tlv` for a low tag number and content below 2^31 bytes. -/
theorem decTLV_tlv (t : Nat) (c r : Bytes) (ht : t % 32 ≠ 31) (hc : c.length < 2147483648) :
    decTLV (tlv t c ++ r) = some (t, c, r) := by
  unfold tlv
  simp only [List.cons_append, List.append_assoc]
  unfold decTLV
  simp only [ht, if_false]
  rw [decLen_encLen _ _ hc]
  simp

theorem tlv_length (t : Nat) (c : Bytes) : (tlv t c).length = 1 + (encLen c.length).length + c.length := by
  simp [tlv]; omega

theorem tlv_length_gt (t : Nat) (c : Bytes) : c.length < (tlv t c).length := by
  rw [tlv_length]; omega

theorem decAll_nil : decAll [] = some [] := by simp [decAll, decAllAux]

theorem decAllAux_mono : ∀ fuel fuel' bs l, decAllAux fuel bs = some l → fuel ≤ fuel' →
    decAllAux fuel' bs = some l := by
  intro fuel
  induction fuel with
  | zero => intro _ _ _ h; simp [decAllAux] at h
  | succ f ih =>
    intro fuel' bs l h hle
    cases fuel' with
    | zero => omega
    | succ f' =>
      simp only [decAllAux] at h ⊢
      by_cases hb : bs = []
      · simpa [hb] using h
      · simp only [hb, if_false] at h ⊢
        cases hd : decTLV bs with
        | none => simp [hd] at h
        | some x =>
          obtain ⟨t, c, r⟩ := x
          simp only [hd] at h ⊢
          cases hr : decAllAux f r with
          | none => simp [hr] at h
          | some l' =>
            simp only [hr] at h
            rw [ih f' r l' hr (by omega)]
            exact h

theorem decAll_tlv (t : Nat) (c r : Bytes) (l : List (Nat × Bytes)) (ht : t % 32 ≠ 31)
    (hc : c.length < 2147483648) (hr : decAll r = some l) :
    decAll (tlv t c ++ r) = some ((t, c) :: l) := by
  unfold decAll at hr ⊢
  simp only [decAllAux]
  have hne : tlv t c ++ r ≠ [] := by simp [tlv]
  simp only [hne, if_false]
  rw [decTLV_tlv t c r ht hc]
  simp only
  have hlen : r.length + 1 ≤ (tlv t c ++ r).length := by
    have := tlv_length t c; simp only [List.length_append]; omega
  rw [decAllAux_mono _ _ r l hr hlen]

end Receptor.DER

namespace Receptor.DER

theorem stripHeader_parsed (c : Bytes) : stripHeader .parsed (tlv 0x30 c) c.length = c := by
  simp [stripHeader, tlv]
  have : 1 + (encLen c.length).length = (0x30 :: encLen c.length).length := by simp; omega
  rw [show (48 :: (encLen c.length ++ c)) = (48 :: encLen c.length) ++ c by simp]
  rw [this, List.drop_left]

theorem otherNameEntry_parsed (id : Bytes) :
    otherNameEntry .parsed id = tlv 0xA0 (oidReceptor ++ tlv 0xA0 (tlv 0x0C id)) := by
  simp only [otherNameEntry]; rw [stripHeader_parsed]

theorem validOID_receptor : validOID oidReceptorContent = true := by decide

theorem decString_utf8 (id : Bytes) (hv : validUTF8 id = true) (hl : id.length < 2147483648) :
    decString (tlv 0x0C id) = .ok id := by
  have := decTLV_tlv 0x0C id [] (by decide) hl
  simp only [List.append_nil] at this
  simp [decString, this, hv]

/-- the inner content of a node-ID entry decodes to that ID -/
theorem decOtherName_entry (id : Bytes) (hv : validUTF8 id = true)
    (hl : (oidReceptor ++ tlv 0xA0 (tlv 0x0C id)).length < 2147483648) :
    decOtherName 0xA0 (oidReceptor ++ tlv 0xA0 (tlv 0x0C id)) = .ok (some id) := by
  have hlen : (oidReceptor ++ tlv 0xA0 (tlv 0x0C id)).length
      = oidReceptor.length + (tlv 0xA0 (tlv 0x0C id)).length := by simp
  have h1 := tlv_length_gt 0xA0 (tlv 0x0C id)
  have h2 := tlv_length_gt 0x0C id
  have hA : (tlv 0x0C id).length < 2147483648 := by omega
  have hB : id.length < 2147483648 := by omega
  unfold decOtherName
  simp only [ne_eq, not_true_eq_false, if_false]
  have e1 : decTLV (oidReceptor ++ tlv 0xA0 (tlv 0x0C id))
      = some (6, oidReceptorContent, tlv 0xA0 (tlv 0x0C id)) := by
    unfold oidReceptor
    exact decTLV_tlv 6 oidReceptorContent _ (by decide) (by decide)
  rw [e1]
  simp only [validOID_receptor]
  have e2 := decTLV_tlv 0xA0 (tlv 0x0C id) [] (by decide) hA
  simp only [List.append_nil] at e2
  rw [e2]
  simp [decString_utf8 id hv hB]

theorem flatten_map_length_le {α} (f : α → Bytes) (l : List α) (a : α) (h : a ∈ l) :
    (f a).length ≤ (l.map f).flatten.length := by
  induction l with
  | nil => cases h
  | cons x xs ih =>
    simp only [List.map_cons, List.flatten_cons, List.length_append]
    cases h with
    | head => omega
    | tail _ h' => have := ih h'; omega

/-- decoding a concatenation of TLVs produced by `f = tlv t ∘ g` -/
theorem decAll_map_tlv {α} (t : Nat) (g : α → Bytes) (l : List α) (r : Bytes)
    (rest : List (Nat × Bytes)) (ht : t % 32 ≠ 31)
    (hl : ∀ a ∈ l, (g a).length < 2147483648) (hr : decAll r = some rest) :
    decAll ((l.map (fun a => tlv t (g a))).flatten ++ r) = some (l.map (fun a => (t, g a)) ++ rest) := by
  induction l with
  | nil => simpa using hr
  | cons x xs ih =>
    simp only [List.map_cons, List.flatten_cons, List.append_assoc, List.cons_append]
    apply decAll_tlv t (g x) _ _ ht (hl x (by simp))
    exact ih (fun a ha => hl a (by simp [ha]))

theorem collectNames_skip (t : Nat) (l : List Bytes) (rest : List (Nat × Bytes)) (ht : t % 32 ≠ 0) :
    collectNames (l.map (fun a => (t, a)) ++ rest) = collectNames rest := by
  induction l with
  | nil => simp
  | cons x xs ih => simp [collectNames, ht, ih]

end Receptor.DER
