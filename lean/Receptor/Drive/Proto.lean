import Receptor.Drive.Util
import Receptor.Model.Proto
import Receptor.Generated.Facts
namespace Receptor.Drive.Proto
open Lean Receptor.Drive Receptor.Proto

def guardsOfFacts : Guards :=
  { emptyDatagram := Receptor.Facts.proto_empty_guard, adNilEmbedded := Receptor.Facts.proto_ad_nil_guard,
    pingFromPing := Receptor.Facts.proto_ping_guard, positiveCosts := Receptor.Facts.proto_cost_guard,
    emptyPeerID := Receptor.Facts.adm_empty_id_guard, removeOnAllExits := Receptor.Facts.adm_remove_on_all_exits }

partial def getJV (j : Json) : Except String JVal := do
  match ← getStr j "t" with
  | "null" => pure .null
  | "bool" => pure (.bool ((getBool j "b").toOption.getD false))
  | "num" =>
    let u := match optField j "uint" with | some (Json.num n) => if n.exponent == 0 && n.mantissa ≥ 0 then some n.mantissa.toNat else none | _ => none
    let m := match optField j "micro" with | some (Json.num n) => if n.exponent == 0 then some n.mantissa else none | _ => none
    pure (.num u m)
  | "str" => pure (.str ((getHex j "s").toOption.getD []))
  | "arr" => do pure (.arr (← ((getArr j "l").toOption.getD []).mapM getJV))
  | "obj" => do
    let kv ← ((getArr j "kv").toOption.getD []).mapM fun e => do pure ((← getHex e "k"), (← getJV (← e.getObjVal? "v")))
    pure (.obj kv)
  | t => throw s!"bad json node {t}"

def getBody (j : Json) : Except String (Option JVal) :=
  match optField j "body" with
  | some Json.null => pure none
  | some b => do pure (some (← getJV b))
  | none => pure none

def getDgram (j : Json) : Except String Dgram := do
  match ← getStr j "kind" with
  | "empty" => pure .empty
  | "data" =>
    match ← getStr j "datakind" with
    | "short" => pure (.data .short) | "unknownhash" => pure (.data .unknownHash)
    | "pingloop" => pure (.data .pingLoop) | _ => pure (.data .handled)
  | "route" => do pure (.route (← getBody j))
  | "advert" => do pure (.advert (← getBody j) ((getBool j "welltyped").toOption.getD false))
  | "reject" => pure .reject
  | _ => pure .other

/-- costs arrive as JSON numbers (1, 0.5, 3): convert to millionths -/
def microOf (j : Json) : Int :=
  match j with
  | Json.num n => n.mantissa * (10 : Int) ^ (6 - n.exponent)
  | _ => 0

def outStr : Out → String
  | .continue_ => "continue" | .established => "established" | .ended true => "ended:reject" | .ended false => "ended"
  | .panic => "panic" | .fatal => "fatal"

def sortBytes (l : List Bytes) : List Bytes := (l.toArray.qsort fun a b => toHex a < toHex b).toList

def runModel (G : Guards) (B : Backend) (sh : Shared) (script : List Dgram) (closeEnd : Bool) : Json :=
  let (sh1, s1, outs) := runSess G B sh {} script
  if outs.any (· == .fatal) then jObj [("fatal", Json.bool true)]
  else
    let endedOrCrashed := outs.any fun o => match o with | .ended _ | .panic => true | _ => false
    let (sh2, outs2) :=
      if !endedOrCrashed && closeEnd then (closeSession sh1 s1, outs.map outStr ++ ["closed"]) else (sh1, outs.map outStr)
    -- a poisoned routing computation may or may not terminate (it does not when a negative cycle is
    -- reachable): the model does not decide liveness then, and the runner does not compare it
    if sh2.poisoned then
      jObj [("unmodelled", Json.str "a negative cost was applied: termination of the routing computation is not decided by the model"),
            ("outs", jStrs outs2)]
    else
    jObj [("ok", jObj [("outs", jStrs outs2), ("conns_set", jArr ((sortBytes sh2.connections).map jHex)),
                       ("live", Json.bool true), ("shutdown", Json.bool false)])]

def handle (op : String) (a r : Json) : Except String Reply := do
  match op with
  | "session" =>
    let self ← getHex a "self"
    let cost := microOf (← a.getObjVal? "cost")
    let nodeCost ← (← (← a.getObjVal? "nodecost").getObj?).toList.mapM fun (k, v) => do
      match fromHex k with | some b => pure (b, microOf v) | none => throw "bad hex"
    let allowed ← match optField a "allowed" with
      | some Json.null => pure none
      | some _ => do pure (some (← getHexList a "allowed"))
      | none => pure none
    let conns ← getHexList a "conns"
    let script ← (← getArr a "script").mapM getDgram
    let closeEnd := (getBool a "close_end").toOption.getD false
    let B : Backend := { cost := cost, nodeCost := nodeCost, allowed := allowed }
    let pre ← ((getArr a "pre").toOption.getD []).mapM getDgram
    let sh0 : Shared := { self := self, connections := conns.eraseDups }
    -- an earlier session of the same backend: its effect on the node is the connection it registered — the backend's
    -- configuration is not something a session changes
    let shOf (G : Guards) : Shared := (runSess G B sh0 {} pre).1
    let m := runModel guardsOfFacts B (shOf guardsOfFacts) script closeEnd
    let spec := runModel allGuards B (shOf allGuards) script closeEnd
    -- property predicates on the implementation's observation
    let crashed := (optField r "fatal").isSome || (optField r "hang").isSome || (optField r "panic").isSome
    let outs := ((r.getObjVal? "ok").bind fun o => getStrList o "outs").toOption.getD []
    let live := ((r.getObjVal? "ok").bind fun o => getBool o "live").toOption.getD false
    let panicked := outs.contains "panic" || outs.contains "stalled"
    let kindOf (k : String) := script.any fun d => match d, k with
      | .empty, "empty" => true | .data .pingLoop, "ping" => true | .advert _ _, "advert" => true | .route _, "route" => true | _, _ => false
    if crashed || panicked || !live then
      let sig :=
        if (optField r "fatal").isSome && kindOf "ping" then "C07/ping-from-own-ping-service-recurses"
        else if panicked && kindOf "empty" then "C07/empty-datagram-panics"
        else if panicked && kindOf "advert" then "C07/advertisement-without-embedded-object-panics"
        else if !live && kindOf "route" then "C07/non-positive-cost-wedges-routing"
        else "C07/session-crash-or-wedge"
      pure { m := m, prop := some false, why := "a datagram sequence crashed or wedged the node", sig := sig }
    else
      let holds := canonEq r spec
      let sig := if holds then "" else
        (if (getStrList ((r.getObjVal? "ok").toOption.getD Json.null) "conns_set").toOption != (getStrList ((spec.getObjVal? "ok").toOption.getD Json.null) "conns_set").toOption
         then "C11/connection-table-differs-from-spec" else "C11/session-outcome-differs-from-spec")
      pure { m := m, prop := some holds,
             why := if holds then "" else "session outcomes / connection table differ from the admission specification (expected " ++ spec.compress ++ ")",
             sig := sig }
  | "race" =>
    -- one_per_id: whatever the interleaving of simultaneous handshakes, exactly one session of an
    -- admissible ID is established and exactly one connection is registered
    let m := jObj [("ok", jObj [("established", jNat 1), ("registered", jNat 1)])]
    let holds := r == m
    pure { m := m, prop := some holds,
           why := if holds then "" else "simultaneous sessions announcing one node ID did not end with exactly one established connection",
           sig := if holds then "" else "C11/race/not-exactly-one-connection-per-id" }
  | _ => throw s!"bad-op proto {op}"

end Receptor.Drive.Proto
