/-!
# Sockets: registration, delivery hand-off and closing — property C17

The bookkeeping of `listenerRegistry`, `PacketConn.Close`, the hand-off of a datagram to a
socket's receive channel (`handleMessageData`), the unreachable-notice brokers and the ephemeral
socket of a dialled connection, as a state machine over arbitrary operation sequences.  `panic` is a
Go run-time failure (close of a closed channel, nil dereference, send on a closed channel): the
process dies.  Which defensive measures the source has are regenerated facts (`Guards`).
-/
namespace Receptor.Sock

structure Guards where
  recvCloseOnce : Bool       -- the receive channel of a cancelled socket is closed at most once
  adRemoveChecked : Bool     -- withdrawing an advertisement that is no longer recorded is harmless
  dialReleasesSocket : Bool  -- the ephemeral socket of a dialled connection is closed when the connection ends
  deriving DecidableEq, Repr

def allGuards : Guards := { recvCloseOnce := true, adRemoveChecked := true, dialReleasesSocket := true }

structure Sock where
  name : Nat
  open_ : Bool := true
  adv : Bool := false         -- opened with an advertisement
  adEntry : Bool := false     -- the advertisement is recorded in the node's table
  parked : Nat := 0           -- deliverers blocked in the hand-off to this socket
  recvClosed : Bool := false  -- the receive channel has been closed
  subs : Nat := 0             -- subscriptions to this socket's unreachable broker (SubscribeUnreachable)
  deriving DecidableEq, Repr

structure St where
  socks : List Sock := []
  registry : List Nat := []   -- bound service names
  conns : List (Nat × Bool) := []  -- dialled connections: index of their ephemeral socket, still open?
  panicked : Bool := false
  deriving DecidableEq, Repr

inductive Op where
  | listen (name : Nat) (adv : Bool)
  | close (i : Nat)           -- PacketConn.Close / Listener.Close on socket i (any number of times)
  | send (i : Nat)            -- a datagram for socket i's service arrives (a deliverer goroutine)
  | recv (i : Nat)            -- the owner reads one datagram
  | wake (i : Nat)            -- a parked deliverer of the (closed) socket i notices the cancellation
  | subscribe (i : Nat)       -- SubscribeUnreachable on socket i
  | unsubscribe (i : Nat)     -- its done channel is closed
  | dial                      -- DialContext succeeds: an ephemeral socket + a connection
  | connClose (c : Nat)       -- the connection ends (Close/CloseConnection, the peer's close, idle time-out)
  deriving DecidableEq, Repr

def freshName (s : St) : Nat := (s.socks.map (·.name)).foldl max 0 + 1

def modSock (s : St) (i : Nat) (f : Sock → Sock) : St :=
  match s.socks[i]? with
  | some x => { s with socks := s.socks.set i (f x) }
  | none => s

/-- closing socket `i`: the registration of its *name* goes, its context is cancelled (subscriptions end
with it), its advertisement is withdrawn -/
def closeSock (G : Guards) (s : St) (i : Nat) : St :=
  match s.socks[i]? with
  | none => s
  | some x =>
    let s1 := { s with registry := s.registry.filter (· != x.name) }
    let s2 := modSock s1 i fun y => { y with open_ := false, subs := 0 }
    if x.adv then
      if x.adEntry then modSock s2 i fun y => { y with adEntry := false }
      else if G.adRemoveChecked then s2 else { s2 with panicked := true }
    else s2

def step (G : Guards) (s : St) (op : Op) : St :=
  if s.panicked then s else
  match op with
  | .listen name adv =>
    if s.registry.contains name then s
    else { s with socks := s.socks ++ [{ name := name, adv := adv, adEntry := adv }], registry := s.registry ++ [name] }
  | .close i => closeSock G s i
  | .send i =>
    match s.socks[i]? with
    | some x => if x.open_ ∧ s.registry.contains x.name then modSock s i fun y => { y with parked := y.parked + 1 } else s
    | none => s
  | .recv i =>
    match s.socks[i]? with
    | some x => if x.open_ ∧ x.parked > 0 then modSock s i fun y => { y with parked := y.parked - 1 } else s
    | none => s
  | .wake i =>
    match s.socks[i]? with
    | some x =>
      if !x.open_ ∧ x.parked > 0 then
        if x.recvClosed ∧ !G.recvCloseOnce then { s with panicked := true }
        else modSock s i fun y => { y with parked := y.parked - 1, recvClosed := true }
      else s
    | none => s
  | .subscribe i =>
    match s.socks[i]? with
    | some x => if x.open_ then modSock s i fun y => { y with subs := y.subs + 1 } else s
    | none => s
  | .unsubscribe i =>
    match s.socks[i]? with
    | some x =>
      if x.subs > 0 then modSock s i fun y => { y with subs := y.subs - 1 } else s
    | none => s
  | .dial =>
    let n := freshName s
    { s with socks := s.socks ++ [{ name := n }], registry := s.registry ++ [n], conns := s.conns ++ [(s.socks.length, true)] }
  | .connClose c =>
    match s.conns[c]? with
    | some (i, true) =>
      let s1 := { s with conns := s.conns.set c (i, false) }
      if G.dialReleasesSocket then closeSock G s1 i else s1
    | _ => s

def run (G : Guards) (s : St) (ops : List Op) : St := ops.foldl (step G) s

/-- the names that should be bound: those of the open sockets -/
def openNames (s : St) : List Nat := (s.socks.filter (·.open_)).map (·.name)

end Receptor.Sock
