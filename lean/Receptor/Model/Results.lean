/-!
# Work results (`GetResults`, `monitorRemoteStdout`) — property C05

`GetResults`: a reader follows the unit's stdout file from a start offset while a producer appends
to the file and rewrites the status record.  The reader's loop: read (at most a buffer) and send,
until a read hits end-of-file; then look at the status record: stop if the state is terminal and
the position has reached the recorded size, else sleep and go on.  Events of producer and reader
interleave arbitrarily.
-/
namespace Receptor.Results

abbrev Bytes := List Nat

structure St where
  file : Bytes := []
  state : Nat := 0          -- 0 pending, 1 running, 2 succeeded, 3 failed, 4 cancelled
  recorded : Nat := 0       -- StdoutSize in the status record
  start : Nat
  pos : Nat
  sent : Bytes := []
  atEof : Bool := false     -- the last read hit end-of-file; the status check comes next
  ended : Bool := false
  deriving DecidableEq, Repr

/-- the states after which a unit produces no more output (the property's "finished") -/
def finished (s : Nat) : Bool := s == 2 || s == 3 || s == 4

inductive Ev where
  | append (bs : Bytes)     -- the unit writes output
  | record (n : Nat)        -- the status record is rewritten while running (size as last measured: at most the file size)
  | finish (st : Nat)       -- the final status record: state `st`, size = the file size
  | read (k : Nat)          -- reader: one read of at most `k` bytes, sent on the channel
  | check                   -- reader: after end-of-file, the completion check
  deriving DecidableEq, Repr

def init (start : Nat) : St := { start := start, pos := start }

/-- `terminal`: the states `GetResults` takes for the end (regenerated fact) -/
def step (terminal : Nat → Bool) (s : St) : Ev → St
  | .append bs => if finished s.state then s else { s with file := s.file ++ bs }
  | .record n => if finished s.state then s else { s with recorded := min n s.file.length, state := 1 }
  | .finish st => if finished s.state || !finished st then s else { s with state := st, recorded := s.file.length }
  | .read k =>
    if s.ended || s.atEof || k = 0 then s
    else if s.pos < s.file.length then
      let chunk := (s.file.drop s.pos).take k
      { s with sent := s.sent ++ chunk, pos := s.pos + chunk.length }
    else { s with atEof := true }
  | .check =>
    if s.ended || !s.atEof then s
    else if terminal s.state && s.pos ≥ s.recorded then { s with ended := true }
    else { s with atEof := false }

def run (terminal : Nat → Bool) (s : St) (evs : List Ev) : St := evs.foldl (step terminal) s

/-- what the source takes for terminal before / after the repair -/
def isComplete (s : Nat) : Bool := s == 2 || s == 3
def isCompleteOrCancelled (s : Nat) : Bool := s == 2 || s == 3 || s == 4

/-! ## Remote units: the local copy of the output -/

/-- one results request of `monitorRemoteStdout`: ask from offset `off`, append what arrives before
the connection breaks (`cut` bytes at most) -/
def session (remote loc : Bytes) (off cut : Nat) : Bytes := loc ++ ((remote.drop off).take cut)

inductive MEv where
  | grow (bs : Bytes)       -- the remote unit writes output
  | fetch (cut : Nat)       -- a results request from the current local size; the link delivers `cut` bytes at most
  deriving DecidableEq, Repr

structure Mirror where
  remote : Bytes := []
  loc : Bytes := []
  deriving DecidableEq, Repr

def mstep (m : Mirror) : MEv → Mirror
  | .grow bs => { m with remote := m.remote ++ bs }
  | .fetch cut => { m with loc := session m.remote m.loc m.loc.length cut }

def mrun (m : Mirror) (evs : List MEv) : Mirror := evs.foldl mstep m

/-! ## the remote mirror's request: a reply line, then the body, read through one buffered reader -/

/-- what follows the first newline of a stream (the reply line "Streaming results…\n" ends at the first newline) -/
def afterLine : List Nat → List Nat
  | [] => []
  | c :: rest => if c = 10 then rest else afterLine rest

/-- length of the first line including its newline (the whole stream if there is none) -/
def lineLen : List Nat → Nat
  | [] => 0
  | c :: rest => if c = 10 then 1 else 1 + lineLen rest

/-- A buffered reader that has pulled the first `k` bytes of the stream while looking for the end of the line
(`k` at least the length of the line: it reads whatever has arrived) keeps what it pulled beyond the line.
`viaReader`: the body copied from the same reader (regenerated fact `io.Copy(stdout, reader)`);
`viaConn`: the body copied from the connection underneath, past the reader. -/
def bodyCopied (viaReader : Bool) (stream : List Nat) (k : Nat) : List Nat :=
  if viaReader then ((stream.take k).drop (lineLen stream)) ++ stream.drop k else stream.drop k

end Receptor.Results
