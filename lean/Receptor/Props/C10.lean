import Receptor.Proofs.Forward
import Receptor.Generated.Facts
/-!
# C10 — hop limit bounds forwarding; reach iff distance ≤ hops; expiry is reported
-/
namespace Receptor.Forward

/-- the hop rule the source currently implements (regenerated facts) -/
def hopsOfFacts : HopRule :=
  { expireAt := if Receptor.Facts.fwd_expire_test = "HopsToLive <= 0" then 0 else 999999,
    decrement := Receptor.Facts.fwd_decrement,
    noticeGuard := Receptor.Facts.fwd_notice_guard,
    pingGuard := Receptor.Facts.proto_ping_guard }

/-- **Tie (translator)**: `forwardMessage` expires at `HopsToLive <= 0`, decrements the TTL
byte by one after that test and before the send, and guards notices by
`FromService != "unreach"`; the default budget of notices and ping replies is
`maxForwardingHops`; a ping listens for notices before it sends (a notice can be produced inside the send). -/
theorem C10_facts : hopsOfFacts = stdHops ∧ Receptor.Facts.fwd_order = "expire-test,route,conn,encode,decrement,send"
    ∧ Receptor.Facts.fwd_sendmessage_budget = "s.maxForwardingHops"
    ∧ Receptor.Facts.ping_order = "ListenPacket<SetHopsToLive<SubscribeUnreachable<WriteTo" := by decide +kernel

/-- **forward_bound.** A datagram sent with hop budget `h` is relayed at most `h` times,
for every assignment of routing tables, connections, firewalls and listeners to every
node — in particular through routing loops. -/
theorem forward_bound (net : Net) (fuel h : Nat) (src : Node) (p : Packet) (hh : h < 256) :
    (walk stdHops net fuel h src p).1.length ≤ h :=
  walk_length_le net fuel h src p hh

/-- enough fuel is never exhausted: the exploration bound is not what stops the packet -/
theorem route_links_le (net : Net) (src : Node) (p : Packet) (hh : p.ttl < 256) :
    (route net src p).1.length ≤ p.ttl := walk_length_le net _ _ src p hh

/-- **reach_iff.** With tables giving a route of `d` links to the destination, where the
destination listens on the addressed (non-reserved) service and accepts the packet, the
datagram is delivered exactly when `d ≤ h`. -/
theorem reach_iff (net : Net) (p : Packet) (v0 : Node) (vs : List Node)
    (hr : IsRoute net p (v0 :: vs)) (hh : p.ttl < 256)
    (hfw : (net p.toNode).fw p.fromNode p.fromSvc p.toNode p.toSvc = .accept)
    (hsvc : p.toSvc ≠ pingSvc ∧ p.toSvc ≠ unreachSvc) (hl : (net p.toNode).listener p.toSvc = true) :
    (route net v0 p).2.2 = .delivered ↔ vs.length ≤ p.ttl := by
  unfold route
  constructor
  · intro hd
    apply Classical.byContradiction
    intro hlt
    have hlt' : p.ttl < vs.length := by omega
    obtain ⟨vt, _, hw⟩ := walk_expire net p vs v0 (p.ttl + 1) p.ttl hr hlt' hh (by omega)
    rw [hw] at hd
    simp only at hd
    -- an intermediate node never delivers: it is not the destination
    have hget : ∀ (l : List Node) (i : Nat) (v : Node), IsRoute net p l → i + 1 < l.length → l[i]? = some v →
        v ≠ p.toNode ∧ (net v).fw p.fromNode p.fromSvc p.toNode p.toSvc = .accept := by
      intro l
      induction l with
      | nil => intro i v h; cases h
      | cons a t ih =>
        intro i v hrt hi hv
        cases t with
        | nil => simp at hi
        | cons b t' =>
          obtain ⟨h1, h2, _, _, h5⟩ := hrt
          cases i with
          | zero => simp at hv; subst hv; exact ⟨h1, h2⟩
          | succ j => exact ih j v h5 (by simp at hi ⊢; omega) (by simpa using hv)
    rename_i hvt
    obtain ⟨hne, hacc⟩ := hget (v0 :: vs) p.ttl vt hr (by simp; omega) hvt
    unfold handle at hd
    simp only [hacc] at hd
    have : ¬ (p.toNode = vt) := fun h => hne h.symm
    simp only [this, if_false] at hd
    simp only [stdHops, Nat.le_refl, if_true] at hd
    by_cases hn : isNotice { expireAt := 0, decrement := 1, noticeGuard := true }
        { p with ttl := 0 } = true <;> simp [hn] at hd
  · intro hle
    rw [walk_route net p vs v0 (p.ttl + 1) p.ttl hr hle hh (by omega)]
    simp only
    unfold handle
    simp only [hfw, if_true, hsvc.1, hsvc.2, if_false, hl]

/-- **expiry_reporter.** When the route is longer than the budget, the packet stops at the
node `h` links along the route, and that node — nobody else — originates the
"message expired" notice, addressed to the packet's source and echoing its addresses. -/
theorem expiry_reporter (net : Net) (p : Packet) (v0 : Node) (vs : List Node)
    (hr : IsRoute net p (v0 :: vs)) (hh : p.ttl < 256) (hlt : p.ttl < vs.length)
    (hn : p.fromSvc ≠ unreachSvc) :
    ∃ vt, (v0 :: vs)[p.ttl]? = some vt ∧
      (route net v0 p).1 = links ((v0 :: vs).take (p.ttl + 1)) ∧
      (route net v0 p).2 = (vt, .spawn
        { fromNode := vt, fromSvc := unreachSvc, toNode := p.fromNode, toSvc := unreachSvc,
          ttl := (net vt).maxHops,
          body := .notice { fromNode := p.fromNode, toNode := p.toNode, fromSvc := p.fromSvc,
                            toSvc := p.toSvc, problem := .expired } }) := by
  obtain ⟨vt, hvt, hw⟩ := walk_expire net p vs v0 (p.ttl + 1) p.ttl hr hlt hh (by omega)
  refine ⟨vt, hvt, ?_, ?_⟩
  · unfold route; rw [hw]
  · unfold route; rw [hw]
    simp only
    -- vt is an intermediate node
    have hget : ∀ (l : List Node) (i : Nat) (v : Node), IsRoute net p l → i + 1 < l.length → l[i]? = some v →
        v ≠ p.toNode ∧ (net v).fw p.fromNode p.fromSvc p.toNode p.toSvc = .accept := by
      intro l
      induction l with
      | nil => intro i v h; cases h
      | cons a t ih =>
        intro i v hrt hi hv
        cases t with
        | nil => simp at hi
        | cons b t' =>
          obtain ⟨h1, h2, _, _, h5⟩ := hrt
          cases i with
          | zero => simp at hv; subst hv; exact ⟨h1, h2⟩
          | succ j => exact ih j v h5 (by simp at hi ⊢; omega) (by simpa using hv)
    obtain ⟨hne, hacc⟩ := hget (v0 :: vs) p.ttl vt hr (by simp; omega) hvt
    unfold handle
    simp only [hacc]
    have : ¬ (p.toNode = vt) := fun h => hne h.symm
    simp only [this, if_false]
    simp [stdHops, isNotice, hn, mkNotice]

/-- **traceroute_path.** Pinging with budgets `0, 1, …, d` stops at the route's nodes
`v0, v1, …, vd` in order: each budget `i < d` expires at `v_i`, budget `d` reaches the
target. -/
theorem traceroute_path (net : Net) (p : Packet) (v0 : Node) (vs : List Node)
    (hr : IsRoute net p (v0 :: vs)) (i : Nat) (hi : i ≤ vs.length) (h256 : i < 256) :
    (v0 :: vs)[i]? = some (route net v0 { p with ttl := i }).2.1 := by
  have hr' : IsRoute net { p with ttl := i } (v0 :: vs) := by
    clear hi h256
    induction vs generalizing v0 with
    | nil => simpa [IsRoute] using hr
    | cons w rest ih => obtain ⟨a, b, c, d, e⟩ := hr; exact ⟨a, b, c, d, ih w e⟩
  by_cases hlt : i < vs.length
  · obtain ⟨vt, hvt, hw⟩ := walk_expire net { p with ttl := i } vs v0 (i + 1) i hr' hlt h256 (by omega)
    unfold route; simp only; rw [hw]; exact hvt
  · have hd : vs.length = i := by omega
    unfold route; simp only
    rw [walk_route net { p with ttl := i } vs v0 (i + 1) i hr' (by omega) h256 (by omega)]
    simp only
    rw [← hd]
    simp [List.getLast_eq_getElem]

/-- **notice_terminates.** Nothing a node does with an unreachable notice (a packet from
service "unreach" to service "unreach") originates another packet — whether the notice is
delivered, relayed, rejected by a firewall or itself expires — so notices cannot multiply. -/
theorem notice_terminates (me : Node) (cfg : NodeCfg) (p : Packet)
    (hp : p.fromSvc = unreachSvc) (ht : p.toSvc = unreachSvc) :
    ∀ q, handle stdHops me cfg p ≠ .spawn q := by
  intro q h
  have hnot : isNotice stdHops p = true := by simp [isNotice, stdHops, hp]
  have hne : unreachSvc ≠ pingSvc := by decide
  unfold handle at h
  rw [ht] at h
  simp only [hnot, if_true, hne, if_false] at h
  split at h
  · cases h
  · cases h
  · split at h
    · split at h <;> cases h
    · split at h
      · cases h
      · split at h
        · cases h
        · split at h <;> cases h

/-- Non-vacuity: a three-node chain a — b — c with the obvious tables is a route of two
links for a packet from a to c; budget 2 delivers, budget 1 expires at b. -/
def exNet : Net := fun v =>
  { route := fun d => if v = [1] ∧ d = [3] then some [2] else if v = [2] ∧ d = [3] then some [3] else none,
    conn := fun _ => true, listener := fun s => s = [9], fw := fun _ _ _ _ => .accept, maxHops := 30 }
def exPkt (h : Nat) : Packet :=
  { fromNode := [1], toNode := [3], fromSvc := [8], toSvc := [9], ttl := h, body := .raw [42] }

example : IsRoute exNet (exPkt 2) [[1], [2], [3]] := by decide
example : (route exNet [1] (exPkt 2)).2 = ([3], .delivered) := by decide
example : (route exNet [1] (exPkt 1)).2.1 = [2] := by decide


/-- **zero_budget_reported_at_origin.** A datagram sent with budget 0 to another node runs out at the node that
sends it: that node originates the "message expired" notice, addressed to itself, and publishes it to its own
sockets within the same call — which is why a ping has to listen for notices before it sends. -/
theorem zero_budget_reported_at_origin (me : Node) (cfg : NodeCfg) (p : Packet)
    (hfrom : p.fromNode = me) (hto : p.toNode ≠ me) (httl : p.ttl = 0) (hsvc : p.fromSvc ≠ unreachSvc)
    (hfw : cfg.fw p.fromNode p.fromSvc p.toNode p.toSvc = .accept)
    (hfwn : cfg.fw me unreachSvc me unreachSvc = .accept) :
    observe stdHops me cfg 2 p =
      [(p, .spawn (mkNotice me cfg p .expired)),
       (mkNotice me cfg p .expired,
        .published { fromNode := me, toNode := p.toNode, fromSvc := p.fromSvc, toSvc := p.toSvc, problem := .expired })] := by
  have hne : ¬ (p.toNode = me) := hto
  have hnotice : isNotice stdHops p = false := by
    simp [isNotice, stdHops, hsvc]
  have h1 : handle stdHops me cfg p = .spawn (mkNotice me cfg p .expired) := by
    unfold handle
    simp only [hfw, hne, if_false, httl, stdHops, Nat.le_refl, if_true]
    have : isNotice { expireAt := 0, decrement := 1, noticeGuard := true, pingGuard := true } p = false := hnotice
    simp [this]
  have h2 : handle stdHops me cfg (mkNotice me cfg p .expired) =
      .published { fromNode := me, toNode := p.toNode, fromSvc := p.fromSvc, toSvc := p.toSvc, problem := .expired } := by
    unfold handle mkNotice
    simp only [hfrom, hfwn, if_true]
    have hup : ¬ (unreachSvc = pingSvc) := by decide
    simp [hup]
  simp only [observe, h1, h2]


end Receptor.Forward
