"""Per-property configuration of the runner (tools/check.py)."""

GO_TRUST = ["Go toolchain/runtime semantics as exercised by the harness"]

NETC = "pkg/netceptor"

PROPS = {
    "C01": dict(
        lean_props="Receptor.Props.C01",
        engines=[dict(engine="route", pkg=NETC, test="TestVerifRoute", n_quick=500, n_thorough=5000),
                 dict(engine="flood", pkg=NETC, test="TestVerifFlood", n_quick=300, n_thorough=3000),
                 dict(engine="aging", pkg=NETC, test="TestVerifAging", n_quick=100, n_thorough=1000)],
        corr_ops={"route": ["table"], "flood": ["run", "burst"], "aging": ["reader"]},
        facts=["rt_relax", "rt_improve", "rt_init", "rt_walk", "rt_costs_published", "route_stale_epoch", "route_stale_seq",
               "aging_stamp_after_timeout_continue", "aging_cancel_test"],
        trusted=["float64 arithmetic on costs (model uses naturals; generators use small integer costs)",
                 "github.com/jupp0r/go-priority-queue (pop order is irrelevant: the theorem holds for every order)",
                 "real-time bound 'within K update periods' is measured by the mesh engine, not proved",
                 "the driver's executable model of the label-correcting loop runs under a pop budget (termination itself is proved: lc_terminates_every_schedule)"],
        assumptions=["positive link costs"],
    ),
    "C02": dict(
        lean_props="Receptor.Props.C02",
        engines=[dict(engine="wire", pkg=NETC, test="TestVerifWire", n_quick=300, n_thorough=3000),
                 dict(engine="framer", pkg="pkg/framer", test="TestVerifFramer", n_quick=300, n_thorough=3000),
                 dict(engine="pkt", pkg=NETC, test="TestVerifPkt", n_quick=250, n_thorough=2000),
                 dict(engine="link", pkg=NETC, test="TestVerifLink", n_quick=10, n_thorough=150)],
        corr_ops={"wire": ["enc", "dec"], "framer": ["frame", "ops"], "pkt": ["handle", "walk"], "link": ["send", "localburst"]},
        facts=["wire_min_len", "wire_from_off", "wire_to_off", "wire_fsvc_off", "wire_tsvc_off", "wire_data_off",
               "wire_ttl_idx", "wire_svc_len", "wire_enc_header", "wire_enc_order", "wire_hash_endian",
               "frame_len_bytes", "frame_endian", "frame_get", "dispatch_key", "send_local_copy"],
        trusted=["highwayhash: injective on the names in play (64-bit collisions assumed away)",
                 "Go channels/maps as used by handleMessageData (registry lookup, channel send)",
                 "the MTU is advertised, not enforced by the code: payload <= MTU is the generator's bound"],
        assumptions=["service names of at most 8 bytes not ending in NUL", "no name-hash collision"],
    ),
    "C06": dict(
        lean_props="Receptor.Props.C06",
        engines=[dict(engine="flood", pkg=NETC, test="TestVerifFlood", n_quick=400, n_thorough=4000)],
        corr_ops={"flood": ["run", "burst"]},
        facts=["route_stale_epoch", "route_stale_seq", "route_dedup_first", "route_relay_call", "route_self_filter",
               "route_forwarder_rewrite", "route_seen_atomic", "route_expire_writes"],
        trusted=["Go map/RWMutex semantics: the seen-table test-and-set is one critical section (fact route_seen_atomic); "
                 "concurrent deliveries of one update over two links are serialised by that lock (modelled as sequential steps)",
                 "expiry of the seen table is modelled as an event that forgets any entries at any moment: at-most-once per UpdateID is "
                 "proved within the dedup window (relay_at_most_once), and per (origin, epoch, sequence) for histories of genuine updates "
                 "with arbitrary expiry (relay_at_most_once_despite_expiry_partial, info_monotone_despite_expiry); the harness does not advance the clock"],
        assumptions=["suspected-duplicate notices bypass the epoch test by design: for them at-most-once holds per UpdateID only"],
    ),
    "C07": dict(
        lean_props="Receptor.Props.C07",
        engines=[dict(engine="proto", pkg=NETC, test="TestVerifProto", n_quick=300, n_thorough=3000, timeout_quick=1500),
                 dict(engine="wire", pkg=NETC, test="TestVerifWire", n_quick=150, n_thorough=1500),
                 dict(engine="framer", pkg="pkg/framer", test="TestVerifFramer", n_quick=150, n_thorough=1500)],
        corr_ops={"proto": ["session"], "wire": ["dec"], "framer": ["ops"]},
        facts=["proto_empty_guard", "proto_ad_nil_guard", "proto_ping_guard", "proto_cost_guard", "proto_dispatch", "wire_min_len"],
        trusted=["encoding/json decoding rules for routingUpdate / serviceAdvertisementFull (modelled over a JSON value tree; number "
                 "literals are classified by strconv in the harness)",
                 "memory exhaustion by huge inputs is not modelled",
                 "the backends' own receive paths (UDP/TCP/websocket) hand any datagram, including length 0, to runProtocol: the "
                 "framer part is covered by the framer engine, the socket parts are trusted"],
        assumptions=["a session's datagrams are handled one at a time by its own goroutine (as runProtocol does)"],
    ),
    "C09": dict(
        lean_props="Receptor.Props.C09",
        engines=[dict(engine="verify", pkg=NETC, test="TestVerifVerify", n_quick=150, n_thorough=2000),
                 dict(engine="cert", pkg=NETC, test="TestVerifCert", n_quick=20, n_thorough=200)],
        corr_ops={"verify": ["verify", "verifyseq", "mtls", "verifytime", "verifychain", "clientcfgseq"], "cert": ["issue"]},
        facts=["rvf_pin_lengths", "rvf_steps", "rvf_usages", "rvf_name_rule", "rvf_name_compare", "tls_client_cfg", "tls_listener_expected", "rvf_closure", "rvf_pin_subject", "tls_server_clientauth", "tls_listener_bind_when", "tls_listener_pins", "tls_client_cfg_clone"],
        trusted=["crypto/x509 (parsing, chain building, validity, key usage, DNS-name verification) and crypto/tls: oracle booleans "
                 "with ground truth known by construction of the certificates",
                 "the TLS handshake itself (that VerifyPeerCertificate is called, that GetConfigForClient is honoured) is exercised by "
                 "the mesh engine (thorough), not modelled"],
        assumptions=["node IDs without ':' for the listener's client-name binding (the excluded point is a witness theorem)"],
    ),
    "C10": dict(
        lean_props="Receptor.Props.C10",
        engines=[dict(engine="pkt", pkg=NETC, test="TestVerifPkt", n_quick=400, n_thorough=3000),
                 dict(engine="ping", pkg=NETC, test="TestVerifPing", n_quick=3, n_thorough=30)],
        corr_ops={"pkt": ["handle", "walk"], "ping": ["burst"]},
        facts=["fwd_expire_test", "fwd_decrement", "fwd_notice_guard", "fwd_order", "fwd_sendmessage_budget", "ping_order"],
        trusted=["Ping/Traceroute client code (interprets notices) is exercised by the mesh engine, not modelled line by line"],
        assumptions=["hop budget is a byte (0..255)"],
    ),
    "C11": dict(
        lean_props="Receptor.Props.C11",
        engines=[dict(engine="proto", pkg=NETC, test="TestVerifProto", n_quick=300, n_thorough=3000, timeout_quick=1500),
                 dict(engine="flood", pkg=NETC, test="TestVerifFlood", n_quick=200, n_thorough=2000)],
        corr_ops={"proto": ["session", "race"], "flood": ["run", "burst"]},
        facts=["adm_checks", "adm_post_checks", "adm_done_exit", "adm_empty_id_guard", "adm_remove_on_all_exits", "adm_exit_selects",
               "route_self_filter"],
        trusted=["the already-connected test and the registration form one critical section under connLock (fact adm_checks): "
                 "simultaneous handshakes are serialised by that lock, modelled as atomic steps in arbitrary order",
                 "the three select points between registration and 'established' are covered by the exit-path fact "
                 "(adm_remove_on_all_exits); the interleaving itself is not forced dynamically (no hook)"],
        assumptions=["start epochs of two same-ID nodes differ (one-second granularity plus 24 random bits)"],
    ),
    "C12": dict(
        lean_props="Receptor.Props.C12",
        engines=[dict(engine="fw", pkg=NETC, test="TestVerifFw", n_quick=600, n_thorough=6000),
                 dict(engine="pkt", pkg=NETC, test="TestVerifPkt", n_quick=400, n_thorough=3000)],
        corr_ops={"fw": ["parse", "twonodes"], "pkt": ["handle", "walk"]},
        facts=["fw_errors_propagated", "fw_regex_minlen", "fw_regex_wrap", "fw_loop", "fw_before_dispatch"],
        trusted=["Go regexp: full syntax trusted; the correspondence uses a regex subset (literals, classes, '.', "
                 "concatenation, alternation, * + ?) rendered from ASTs, matched in Lean by a verified derivative matcher",
                 "a rule field set to the empty string is 'not given' (as the code treats it)"],
        assumptions=["rule data without two keys differing only in letter case (Go map order would decide)"],
    ),
    "C15": dict(
        lean_props="Receptor.Props.C15",
        engines=[dict(engine="sig", pkg="pkg/workceptor", test="TestVerifSig", n_quick=260, n_thorough=1960, shardable=False)],
        corr_ops={"sig": ["command", "replay"]},
        facts=["sig_gate", "sig_should", "sig_unix", "sig_arms", "sig_verify", "sig_verify_calls", "sig_type_lookup"],
        trusted=["golang-jwt signature / expiry / audience checks and RSA: oracle with ground truth supplied by the harness that mints "
                 "the tokens (classes: absent, empty, garbage, valid, expired, other audience, other key, alg none, HMAC keyed with the "
                 "public key, truncated, future iat with a foreign key)"],
        assumptions=["the connection kind is what RemoteAddr().Network() reports"],
    ),
    "C03": dict(
        lean_props="Receptor.Props.C03",
        engines=[dict(engine="stream", pkg=NETC, test="TestVerifStream", n_quick=10, n_thorough=120),
                 dict(engine="unreach", pkg=NETC, test="TestVerifUnreach", n_quick=150, n_thorough=1500)],
        corr_ops={"stream": ["transfer"], "unreach": ["deliver", "churn", "localdial"]},
        facts=["bridge_loop", "bridge_conns", "stream_first_byte", "stream_close", "stream_readfrom_copy", "stream_quic_adapter", "stream_link_gone_errors", "unreach_dial_cancel"],
        trusted=["quic-go: reliable, ordered delivery with retransmission over lossy, duplicating, reordering datagram links is the "
                 "library's; it is exercised on every run (1..4 hops, loss up to 8 %, duplication, delays up to 30 ms, a cut of the "
                 "active path with a dearer alternative) but not modelled — the theorems are about Receptor's own relay loop and "
                 "stream end points, and assume of a QUIC stream only the contract `Delivers` (Model/StreamEnd.lean): reads return the "
                 "written bytes in order in chunks of any sizes, each read returns at least one byte or the end of the stream, and the "
                 "end may come together with the last bytes",
                 "the links of the harness are in-memory backends (BackendSession) with seeded impairments",
                 "the `connect` command and the TCP/Unix proxy services are represented by utils.BridgeConns between the mesh "
                 "connection and a Unix socket pair (the call they make)"],
        assumptions=["nodes stay mutually reachable; maxConnectionIdleTime 2.5 s, route updates every 250 ms; a transfer must finish in 75 s"],
    ),
    "C04": dict(
        lean_props="Receptor.Props.C04",
        engines=[dict(engine="crash", pkg="pkg/workceptor", test="TestVerifCrash", n_quick=6, n_thorough=60),
                 dict(engine="mirror", pkg="pkg/workceptor", test="TestVerifMirrorRestart", n_quick=2, n_thorough=12)],
        corr_ops={"crash": ["cycle"], "mirror": ["mirror", "ackcrash"]},
        facts=["crash_rewrite_atomic", "crash_scan", "crash_cmd_restart", "crash_remote_restart", "crash_remote_bind_order", "crash_register_rescans", "crash_findunit"],
        trusted=["a SIGKILL of the process stands for a crash of the node: what had been written with write(2) is in the page cache and "
                 "is read back by the restarted process — loss of data the kernel had not yet written to the device (power failure) is "
                 "outside the model and outside the harness",
                 "crash points are calls inserted into a copy of /repo's current workunitbase.go / workceptor.go at check time "
                 "(tools/check.py instrument_*), injected by overlay; /repo carries no hook",
                 "the daemon is this test binary running a real Workceptor with the `work` ControlFunc; command-line parsing, the "
                 "control-service socket and the mesh are not part of it; remote units are bound to an unreachable node"],
        assumptions=["a restarted node is looked at 1.8 s after it started (commands of the harness run for at most 1.2 s)"],
    ),
    "C05": dict(
        lean_props="Receptor.Props.C05",
        engines=[dict(engine="results", pkg="pkg/workceptor", test="TestVerifResults", n_quick=12, n_thorough=60),
                 dict(engine="mirror", pkg="pkg/workceptor", test="TestVerifMirror", n_quick=2, n_thorough=6)],
        corr_ops={"results": ["units"], "mirror": ["mirror"]},
        facts=["res_end_cond", "res_nostdout_cond", "res_iscomplete", "res_buffer", "res_loop", "res_remote_offset", "res_remote_write", "res_remote_sign"],
        trusted=["the unit's discipline: output is appended only before the final status, the recorded size never exceeds the file size and "
                 "the final status records the file size (what command.go's runner and STDoutWriter do; played by the harness)",
                 "the remote mirror (monitorRemoteStdout / monitorRemoteStatus) is proved on the model (mirror_prefix, mirror_completes), "
                 "tied by facts, and exercised between two real nodes over an in-memory link that is cut and restored while the "
                 "output is being mirrored (QUIC idle time-out shortened to 1.5 s; relay-node and control-service restarts are not exercised)",
                 "os.File Seek/Read semantics; the 250 ms / 1 s polling intervals are real time"],
        assumptions=["'ends' is observed as: the server closes the stream within 4 s after the final status was written"],
    ),
    "C08": dict(
        lean_props="Receptor.Props.C08",
        engines=[dict(engine="ctl", pkg="pkg/workceptor", test="TestVerifCtl", n_quick=120, n_thorough=1200),
                 dict(engine="accept", pkg="pkg/controlsvc", test="TestVerifAccept", n_quick=3, n_thorough=12, shardable=False)],
        corr_ops={"ctl": ["sessions"], "accept": ["silent"]},
        facts=["ctl_status_fields_checked", "ctl_findunit_rescan_unlocked", "ctl_reload_serialised", "lock_from", "lock_to", "lock_at", "ctl_reader", "ctl_dispatch", "ctl_msgs", "ctl_table", "lock_edge_sites", "ctl_accept_loop", "lock_leaks"],
        trusted=["encoding/json (text -> value) is an oracle: the decoding of every JSON request line is supplied by the harness and "
                 "universally quantified in the theorems",
                 "ControlFunc of ping / traceroute / connect / reload is exercised against a stub Netceptor (no mesh): their answers are "
                 "modelled by class (JSON reply / ERROR), their network behaviour belongs to other properties",
                 "the lock-order extractor resolves calls with go/types (interface calls: every analysed method of that name; function "
                 "values other than literal callbacks are not followed); lock identity is per field, not per instance",
                 "strings.ToLower on the command token is modelled for ASCII; lines whose command token has other bytes are reported "
                 "unmodelled (the property predicate on the observation still applies)"],
        assumptions=["timely = the server finishes a session within 6 s and a fresh probe session within 4 s on this machine",
                     "memory exhaustion by an endless line without terminator is outside the model (lines up to 70 kB are exercised)"],
    ),
    "C13": dict(
        lean_props="Receptor.Props.C13",
        engines=[dict(engine="life", pkg="pkg/workceptor", test="TestVerifLife", n_quick=4, n_thorough=30, shardable=False)],
        corr_ops={"life": ["units"]},
        facts=["life_cancel_order", "life_cancel_keeps_succeeded", "life_runner_writes", "life_start_order", "life_alloc_order", "life_release", "life_runner_mkdir"],
        trusted=["every status rewrite is an atomic read-modify-write (property C14) — the model's steps are whole rewrites",
                 "the rewrite log comes from an instrumented copy of /repo's current workunitbase.go injected with -overlay "
                 "(tools/check.py instrument_workunitbase + harness/overlay/pkg/workceptor/verif_hook.go); /repo itself carries no hook",
                 "the runner process is this test binary calling commandRunnerCfg.Run (the `receptor --command-runner` code path "
                 "minus command-line parsing)",
                 "remote and Kubernetes units are outside this check; in-process units are a stub work type"],
        assumptions=["signals: the runner reads an interrupt only in its wait loop (as in the source); process scheduling is sampled, "
                     "with the runner held at the status lock to place a cancel between the command's exit and the final write"],
    ),
    "C14": dict(
        lean_props="Receptor.Props.C14",
        engines=[dict(engine="status", pkg="pkg/workceptor", test="TestVerifStatus", n_quick=40, n_thorough=400)],
        corr_ops={"status": ["run", "scanlock"]},
        facts=["st_lock", "st_lock_name", "st_unlock", "st_save", "st_load", "st_update", "st_basic", "st_basic_cb", "st_stdout", "st_bwu", "st_io", "st_removals"],
        trusted=["cmd/go/internal/lockedfile (flock) gives an exclusive lock across goroutines and processes and releases it on Close: "
                 "modelled as the `owner` field; exercised for real by goroutines and re-executed processes, not proved",
                 "a write(2) of the whole record followed by close is complete before the lock is released (no crash inside the run: "
                 "crashes are property C04)",
                 "json.Marshal / Unmarshal round-trip the record fields used"],
        assumptions=["the interleavings the operating system produces are sampled (goroutines + processes, with a parked lock holder "
                     "forcing contention); the theorems cover every interleaving of the model's micro-steps"],
    ),
    "C17": dict(
        lean_props="Receptor.Props.C17",
        engines=[dict(engine="sock", pkg=NETC, test="TestVerifSock", n_quick=60, n_thorough=600)],
        corr_ops={"sock": ["script"]},
        facts=["sock_handoff_on_cancel", "sock_readfrom_selects", "sock_ad_remove_checked", "sock_close", "sock_dial_cleanup", "sock_listener_close_order"],
        trusted=["quic-go (connection end, idle time-out) and the Go scheduler: the model covers the bookkeeping (registry, parked "
                 "deliverers, subscriptions, the ephemeral socket of a dial); goroutine counts are measured on the real node, not proved",
                 "utils.Broker is exercised through SubscribeUnreachable / notices, its internals are not modelled",
                 "Close of a stale handle unbinds whatever socket now owns the name (the model does the same as the source; see DESIGN A.4)"],
        assumptions=["left-over goroutines are counted after a settling time of up to 2 s; ephemeral names are looked for up to 4 s "
                     "after the connections were closed"],
    ),
    "C19": dict(
        lean_props="Receptor.Props.C19",
        engines=[dict(engine="redact", pkg="pkg/workceptor", test="TestVerifRedact", n_quick=250, n_thorough=2500)],
        corr_ops={"redact": ["submit", "history"]},
        facts=["redact_test", "redact_alloc_test", "redact_alloc_order", "redact_cfr_source", "redact_unredacted_users"],
        trusted=["strings.ToLower on keys is modelled for ASCII (no non-ASCII rune lower-cases into the prefix 'secret_')",
                 "Kubernetes units have their own redaction (KubeConfig/KubePod), outside this property's anchors"],
        assumptions=["responses are the JSON of unitStatusForCFR; log output is not a response"],
    ),
    "C16": dict(
        lean_props="Receptor.Props.C16",
        engines=[dict(engine="unreach", pkg=NETC, test="TestVerifUnreach", n_quick=150, n_thorough=1500),
                 dict(engine="pkt", pkg=NETC, test="TestVerifPkt", n_quick=300, n_thorough=3000)],
        corr_ops={"unreach": ["deliver", "churn", "localdial"], "pkt": ["handle", "walk"]},
        facts=["unreach_unknown_branch", "unreach_socket_filter", "unreach_dial_cancel", "unreach_notice_fields", "unreach_sent_from", "unreach_hops"],
        trusted=["utils.Broker delivers every published notice to every subscriber in publication order (modelled as such)",
                 "QUIC handshake time-out (15 s) vs notice latency is measured by the mesh engine, not proved"],
        assumptions=["the closing of a listener relative to a send is modelled as listener open / not open at the moment of dispatch"],
    ),
    "C18": dict(
        lean_props="Receptor.Props.C18",
        engines=[dict(engine="ads", pkg=NETC, test="TestVerifAds", n_quick=400, n_thorough=4000)],
        corr_ops={"ads": ["run", "owner"]},
        facts=["ads_keep_test", "ads_tombstone_test", "ads_tombstones", "ads_relay", "ads_stamp", "ads_close_order"],
        trusted=["advertisement times are generator-chosen logical times injected into the messages (no wall clock)",
                 "network-level convergence is proved as order-independence per node (tombstone variant); the periodic re-advertisement "
                 "that heals lost messages is exercised by the mesh engine, not modelled"],
        assumptions=["distinct timestamps per (node, service) for the order-independence theorem"],
    ),
    "C20": dict(
        lean_props="Receptor.Props.C20",
        engines=[dict(engine="der", pkg="pkg/utils", test="TestVerifDER", n_quick=400, n_thorough=4000),
                 dict(engine="cert", pkg=NETC, test="TestVerifCert", n_quick=40, n_thorough=400),
                 dict(engine="verify", pkg=NETC, test="TestVerifVerify", n_quick=10, n_thorough=200)],
        corr_ops={"der": ["san", "names"], "cert": ["issue"], "verify": ["verify", "verifyseq", "mtls", "verifytime", "verifychain", "clientcfgseq"]},
        facts=["der_strip", "rvf_closure"],
        trusted=["encoding/asn1 Marshal/Unmarshal for the subset used (modelled byte-exactly, validated by the der engine)",
                 "crypto/x509 copying the SAN extension from request to certificate (exercised by the cert engine, not modelled)"],
        assumptions=["extension shorter than 2^31 bytes (Go's own DER length limit)",
                     "string types other than UTF8String in foreign certificates are reported as unmodelled, not compared"],
    ),
}
