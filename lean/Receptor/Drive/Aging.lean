import Receptor.Drive.Util
import Receptor.Model.Aging
import Receptor.Generated.Facts
namespace Receptor.Drive.Aging
open Lean Receptor.Drive Receptor.Aging

def handle (op : String) (a r : Json) : Except String Reply := do
  match op with
  | "reader" =>
    let evs ← getStrList a "events"
    let stampOnTimeout := !Receptor.Facts.aging_stamp_after_timeout_continue
    -- event i happens at time i+1; the record changes iff the step stamps it
    let stamps (b : Bool) : List Bool := evs.map fun e => e == "data" || b
    let m := jObj [("ok", jArr ((stamps stampOnTimeout).map Json.bool))]
    let spec := jObj [("ok", jArr ((stamps false).map Json.bool))]
    let holds := r == spec
    pure { m := m, prop := some holds,
           why := if holds then "" else "the last-received record is refreshed by something other than a received datagram (a silent link would never expire)",
           sig := if holds then "" else "C01/aging/record-refreshed-without-data" }
  | _ => throw s!"bad-op aging {op}"

end Receptor.Drive.Aging
