package main

// Lock-order extraction (C08): for the packages that serve control commands, which lock may be
// requested while which other lock is held — directly, through calls (resolved by name, an
// over-approximation), through callbacks passed to functions that hold locks, and through deferred
// calls.  Goroutines start with nothing held.  The result is the edge list `held>requested`.

import (
	"go/ast"
	"go/build"
	"go/types"
	"os"
	"path/filepath"
	"sort"
	"strings"
)

type lockFn struct {
	name string // Recv.Name or Name
	decl *ast.FuncDecl
}

type lockAnalysis struct {
	x     *extractor
	info  *types.Info
	byObj map[*types.Func]*lockFn
	meths map[string][]*lockFn // methods by bare name (interface dispatch)
	fns   map[string][]*lockFn // by bare name
	acq   map[*ast.FuncDecl]map[string]bool
	edges map[string]map[string]bool // "a>b" -> sites
	cur   *lockFn
	grew  bool
	// cbHeld[f][i]: the locks that may be held when f invokes its i-th parameter (a callback)
	cbHeld map[*ast.FuncDecl]map[int]map[string]bool
	env    map[types.Object]bool // boolean parameters bound to literals (inlined calls)
	depth  int
}

func (la *lockAnalysis) lockNameOf(recv ast.Expr) string {
	switch v := recv.(type) {
	case *ast.SelectorExpr:
		if sel, ok := la.info.Selections[v]; ok {
			if f, ok := sel.Obj().(*types.Var); ok && f.IsField() {
				t := sel.Recv()
				for {
					if p, ok := t.(*types.Pointer); ok {
						t = p.Elem()
						continue
					}
					break
				}
				// the struct that declares the field (embedding): find by walking the selection path
				owner := t
				for _, idx := range sel.Index()[:len(sel.Index())-1] {
					if n, ok := owner.(*types.Named); ok {
						owner = n.Underlying()
					}
					if st, ok := owner.(*types.Struct); ok {
						owner = st.Field(idx).Type()
						if p, ok := owner.(*types.Pointer); ok {
							owner = p.Elem()
						}
					}
				}
				if n, ok := owner.(*types.Named); ok {
					return n.Obj().Name() + "." + v.Sel.Name
				}
			}
		}
		return v.Sel.Name
	case *ast.Ident:
		return v.Name
	case *ast.CallExpr:
		f := la.x.str(v.Fun)
		if strings.HasSuffix(f, "GetStatusLock") {
			return "BaseWorkUnit.statusLock"
		}
	case *ast.ParenExpr:
		return la.lockNameOf(v.X)
	case *ast.StarExpr:
		return la.lockNameOf(v.X)
	}
	return ""
}

// callees: the analysed functions a call may reach
func (la *lockAnalysis) callees(c *ast.CallExpr) []*lockFn {
	switch f := c.Fun.(type) {
	case *ast.Ident:
		if o, ok := la.info.Uses[f].(*types.Func); ok {
			if fn := la.byObj[o]; fn != nil {
				return []*lockFn{fn}
			}
		}
	case *ast.SelectorExpr:
		if sel, ok := la.info.Selections[f]; ok {
			o, ok := sel.Obj().(*types.Func)
			if !ok {
				return nil
			}
			if fn := la.byObj[o]; fn != nil {
				return []*lockFn{fn}
			}
			// an interface method: every analysed method of that name
			if _, isIface := sel.Recv().Underlying().(*types.Interface); isIface {
				return la.meths[f.Sel.Name]
			}
			return nil
		}
		if o, ok := la.info.Uses[f.Sel].(*types.Func); ok { // pkg.Func
			if fn := la.byObj[o]; fn != nil {
				return []*lockFn{fn}
			}
		}
	}
	return nil
}

func (la *lockAnalysis) edge(from, to string) {
	k := from + ">" + to
	if la.edges[k] == nil {
		la.edges[k] = map[string]bool{}
	}
	la.edges[k][la.cur.name] = true
}

func (la *lockAnalysis) acquire(held []string, l string) []string {
	for _, h := range held {
		la.edge(h, l)
	}
	if !la.acq[la.cur.decl][l] {
		la.acq[la.cur.decl][l] = true
		la.grew = true
	}
	return append(append([]string{}, held...), l)
}

func release(held []string, l string) []string {
	for i := len(held) - 1; i >= 0; i-- {
		if held[i] == l {
			return append(append([]string{}, held[:i]...), held[i+1:]...)
		}
	}
	return held
}

// calleeAcq: the locks the functions a call may reach can request
func (la *lockAnalysis) calleeAcq(c *ast.CallExpr) map[string]bool {
	res := map[string]bool{}
	for _, fn := range la.callees(c) {
		for l := range la.acq[fn.decl] {
			res[l] = true
		}
	}
	return res
}

func (la *lockAnalysis) call(c *ast.CallExpr, held []string) []string {
	if sel, ok := c.Fun.(*ast.SelectorExpr); ok {
		switch sel.Sel.Name {
		case "Lock", "RLock":
			if l := la.lockNameOf(sel.X); l != "" && len(c.Args) == 0 {
				return la.acquire(held, l)
			}
		case "Unlock", "RUnlock":
			if l := la.lockNameOf(sel.X); l != "" && len(c.Args) == 0 {
				return release(held, l)
			}
		case "lockStatusFile":
			return la.acquire(held, "statusFileLock")
		case "unlockStatusFile":
			return release(held, "statusFileLock")
		}
	}
	// a call of one of our own parameters (a callback): remember what is held here
	if id, ok := c.Fun.(*ast.Ident); ok {
		if idx := la.paramIndex(id); idx >= 0 {
			la.noteCb(idx, held, nil)
			return held
		}
	}
	callees := la.callees(c)
	// a callee that takes literal booleans is walked in place, with the flags known
	if len(callees) == 1 && la.depth < 3 {
		if env := boolLiteralArgs(la.info, callees[0].decl, c); len(env) > 0 {
			saved, savedEnv := la.cur, la.env
			newEnv := map[types.Object]bool{}
			for k, v := range la.env {
				newEnv[k] = v
			}
			for k, v := range env {
				newEnv[k] = v
			}
			la.env = newEnv
			la.depth++
			la.cur = callees[0]
			la.block(callees[0].decl.Body.List, append([]string{}, held...))
			la.depth--
			la.cur, la.env = saved, savedEnv
			return held
		}
	}
	ca := la.calleeAcq(c)
	ls := make([]string, 0, len(ca))
	for l := range ca {
		ls = append(ls, l)
	}
	sort.Strings(ls)
	for _, l := range ls {
		for _, h := range held {
			la.edge(h, l)
		}
		if !la.acq[la.cur.decl][l] {
			la.acq[la.cur.decl][l] = true
			la.grew = true
		}
	}
	for j, a := range c.Args {
		// what the callee(s) may hold when they invoke their j-th parameter
		extra := map[string]bool{}
		for _, fn := range callees {
			for l := range la.cbHeld[fn.decl][j] {
				extra[l] = true
			}
		}
		switch v := a.(type) {
		case *ast.FuncLit:
			inner := append([]string{}, held...)
			es := make([]string, 0, len(extra))
			for l := range extra {
				es = append(es, l)
			}
			sort.Strings(es)
			inner = append(inner, es...)
			la.block(v.Body.List, inner)
		case *ast.Ident:
			if idx := la.paramIndex(v); idx >= 0 { // our own callback handed on
				la.noteCb(idx, held, extra)
			}
		}
	}
	return held
}

// paramIndex: is the identifier one of the current function's parameters of function type?
func (la *lockAnalysis) paramIndex(id *ast.Ident) int {
	o, ok := la.info.Uses[id].(*types.Var)
	if !ok || la.cur == nil || la.cur.decl.Type.Params == nil {
		return -1
	}
	if _, isFn := o.Type().Underlying().(*types.Signature); !isFn {
		return -1
	}
	i := 0
	for _, f := range la.cur.decl.Type.Params.List {
		for _, n := range f.Names {
			if la.info.Defs[n] == o {
				return i
			}
			i++
		}
		if len(f.Names) == 0 {
			i++
		}
	}
	return -1
}

func (la *lockAnalysis) noteCb(idx int, held []string, extra map[string]bool) {
	m := la.cbHeld[la.cur.decl]
	if m == nil {
		m = map[int]map[string]bool{}
		la.cbHeld[la.cur.decl] = m
	}
	if m[idx] == nil {
		m[idx] = map[string]bool{}
	}
	for _, h := range held {
		if !m[idx][h] {
			m[idx][h] = true
			la.grew = true
		}
	}
	for h := range extra {
		if !m[idx][h] {
			m[idx][h] = true
			la.grew = true
		}
	}
}

// boolLiteralArgs: parameters of fd bound to the literals true/false in this call
func boolLiteralArgs(info *types.Info, fd *ast.FuncDecl, c *ast.CallExpr) map[types.Object]bool {
	res := map[types.Object]bool{}
	if fd.Type.Params == nil {
		return res
	}
	i := 0
	for _, f := range fd.Type.Params.List {
		for _, n := range f.Names {
			if i < len(c.Args) {
				if id, ok := c.Args[i].(*ast.Ident); ok && (id.Name == "true" || id.Name == "false") {
					if o := info.Defs[n]; o != nil {
						res[o] = id.Name == "true"
					}
				}
			}
			i++
		}
	}
	return res
}

// condValue: the value of a condition that is a bound boolean parameter (or its negation)
func (la *lockAnalysis) condValue(e ast.Expr) (val bool, known bool) {
	switch v := e.(type) {
	case *ast.Ident:
		if o := la.info.Uses[v]; o != nil {
			if b, ok := la.env[o]; ok {
				return b, true
			}
		}
	case *ast.UnaryExpr:
		if v.Op.String() == "!" {
			if b, ok := la.condValue(v.X); ok {
				return !b, true
			}
		}
	case *ast.ParenExpr:
		return la.condValue(v.X)
	}
	return false, false
}

// exprCalls processes the calls inside an expression/statement in source order (not descending into function literals)
func (la *lockAnalysis) exprCalls(n ast.Node, held []string) []string {
	if n == nil {
		return held
	}
	ast.Inspect(n, func(m ast.Node) bool {
		switch v := m.(type) {
		case *ast.FuncLit:
			return false
		case *ast.CallExpr:
			// arguments first
			for _, a := range v.Args {
				if _, isLit := a.(*ast.FuncLit); !isLit {
					held = la.exprCalls(a, held)
				}
			}
			if s, ok := v.Fun.(*ast.SelectorExpr); ok {
				held = la.exprCalls(s.X, held)
			}
			held = la.call(v, held)
			return false
		}
		return true
	})
	return held
}

func terminates(list []ast.Stmt) bool {
	if len(list) == 0 {
		return false
	}
	switch v := list[len(list)-1].(type) {
	case *ast.ReturnStmt:
		return true
	case *ast.BranchStmt:
		return true
	case *ast.ExprStmt:
		if c, ok := v.X.(*ast.CallExpr); ok {
			if id, ok := c.Fun.(*ast.Ident); ok && id.Name == "panic" {
				return true
			}
		}
	}
	return false
}

type deferred struct {
	call *ast.CallExpr
}

func (la *lockAnalysis) block(list []ast.Stmt, held []string) []string {
	var defers []*ast.CallExpr
	held = la.stmts(list, held, &defers)
	// deferred calls run last-in first-out with what is still held
	for i := len(defers) - 1; i >= 0; i-- {
		d := defers[i]
		if fl, ok := d.Fun.(*ast.FuncLit); ok {
			held = la.block(fl.Body.List, held)
		} else {
			held = la.exprCalls(d, held)
		}
	}
	return held
}

func (la *lockAnalysis) stmts(list []ast.Stmt, held []string, defers *[]*ast.CallExpr) []string {
	for _, s := range list {
		held = la.stmt(s, held, defers)
	}
	return held
}

func (la *lockAnalysis) stmt(s ast.Stmt, held []string, defers *[]*ast.CallExpr) []string {
	switch v := s.(type) {
	case nil:
		return held
	case *ast.DeferStmt:
		*defers = append(*defers, v.Call)
		return held
	case *ast.GoStmt:
		if fl, ok := v.Call.Fun.(*ast.FuncLit); ok {
			la.block(fl.Body.List, nil)
		} else {
			la.exprCalls(v.Call, nil)
		}
		return held
	case *ast.BlockStmt:
		return la.stmts(v.List, held, defers)
	case *ast.IfStmt:
		held = la.stmt(v.Init, held, defers)
		if b, known := la.condValue(v.Cond); known {
			if b {
				return la.stmts(v.Body.List, held, defers)
			}
			if v.Else != nil {
				return la.stmt(v.Else, held, defers)
			}
			return held
		}
		held = la.exprCalls(v.Cond, held)
		th := la.stmts(v.Body.List, append([]string{}, held...), defers)
		res := held
		if !terminates(v.Body.List) {
			res = th
		}
		if v.Else != nil {
			el := la.stmt(v.Else, append([]string{}, held...), defers)
			if terminates(v.Body.List) {
				res = el
			}
		}
		return res
	case *ast.ForStmt:
		held = la.stmt(v.Init, held, defers)
		held = la.exprCalls(v.Cond, held)
		la.stmts(v.Body.List, append([]string{}, held...), defers)
		la.stmt(v.Post, append([]string{}, held...), defers)
		return held
	case *ast.RangeStmt:
		held = la.exprCalls(v.X, held)
		la.stmts(v.Body.List, append([]string{}, held...), defers)
		return held
	case *ast.SwitchStmt:
		held = la.stmt(v.Init, held, defers)
		held = la.exprCalls(v.Tag, held)
		for _, c := range v.Body.List {
			cc := c.(*ast.CaseClause)
			h := append([]string{}, held...)
			for _, e := range cc.List {
				h = la.exprCalls(e, h)
			}
			la.stmts(cc.Body, h, defers)
		}
		return held
	case *ast.TypeSwitchStmt:
		held = la.stmt(v.Init, held, defers)
		held = la.stmt(v.Assign, held, defers)
		for _, c := range v.Body.List {
			la.stmts(c.(*ast.CaseClause).Body, append([]string{}, held...), defers)
		}
		return held
	case *ast.SelectStmt:
		for _, c := range v.Body.List {
			cc := c.(*ast.CommClause)
			h := la.stmt(cc.Comm, append([]string{}, held...), defers)
			la.stmts(cc.Body, h, defers)
		}
		return held
	case *ast.LabeledStmt:
		return la.stmt(v.Stmt, held, defers)
	default:
		return la.exprCalls(s, held)
	}
}

// heldAtCall: what is held (by name) at the first call to a function named `callee` inside `fd`
func (la *lockAnalysis) heldAtCall(fd *ast.FuncDecl, callee string) (found bool, heldNames []string) {
	saved := la.cur
	la.cur = &lockFn{name: "probe", decl: fd}
	if la.acq[fd] == nil {
		la.acq[fd] = map[string]bool{}
	}
	defer func() { la.cur = saved }()
	var defers []*ast.CallExpr
	held := []string{}
	var walk func(list []ast.Stmt, held []string) []string
	walk = func(list []ast.Stmt, held []string) []string {
		for _, s := range list {
			if !found {
				ast.Inspect(s, func(m ast.Node) bool {
					if c, ok := m.(*ast.CallExpr); ok && !found {
						if sel, ok := c.Fun.(*ast.SelectorExpr); ok && sel.Sel.Name == callee {
							found = true
							heldNames = append([]string{}, held...)
						}
					}
					return !found
				})
			}
			if found {
				return held
			}
			held = la.stmt(s, held, &defers)
		}
		return held
	}
	walk(fd.Body.List, held)
	return
}

type fakeImporter struct {
	known map[string]*types.Package
}

func (f fakeImporter) Import(path string) (*types.Package, error) {
	if p, ok := f.known[path]; ok {
		return p, nil
	}
	name := path[strings.LastIndex(path, "/")+1:]
	p := types.NewPackage(path, name)
	p.MarkComplete()
	f.known[path] = p
	return p, nil
}

func (x *extractor) lockGraph(dirs []string) *lockAnalysis {
	la := &lockAnalysis{x: x, fns: map[string][]*lockFn{}, meths: map[string][]*lockFn{}, byObj: map[*types.Func]*lockFn{},
		acq: map[*ast.FuncDecl]map[string]bool{}, edges: map[string]map[string]bool{},
		cbHeld: map[*ast.FuncDecl]map[int]map[string]bool{}, env: map[types.Object]bool{}}
	la.info = &types.Info{Uses: map[*ast.Ident]types.Object{}, Defs: map[*ast.Ident]types.Object{}, Selections: map[*ast.SelectorExpr]*types.Selection{}}
	imp := fakeImporter{known: map[string]*types.Package{}}
	for _, dir := range dirs {
		ents, err := os.ReadDir(filepath.Join(x.repo, dir))
		if err != nil {
			continue
		}
		var files []*ast.File
		for _, e := range ents {
			n := e.Name()
			if !strings.HasSuffix(n, ".go") || strings.HasSuffix(n, "_test.go") {
				continue
			}
			if ok, err := build.Default.MatchFile(filepath.Join(x.repo, dir), n); err != nil || !ok {
				continue
			}
			if f := x.file(filepath.Join(dir, n)); f != nil {
				files = append(files, f)
			}
		}
		conf := types.Config{Importer: imp, Error: func(error) {}, FakeImportC: true}
		ipath := "github.com/ansible/receptor/" + dir
		pkg, _ := conf.Check(ipath, x.fset, files, la.info)
		if pkg != nil {
			imp.known[ipath] = pkg
		}
		for _, f := range files {
			for _, d := range f.Decls {
				fd, ok := d.(*ast.FuncDecl)
				if !ok || fd.Body == nil {
					continue
				}
				name := fd.Name.Name
				isMeth := false
				if fd.Recv != nil && len(fd.Recv.List) == 1 {
					t := fd.Recv.List[0].Type
					if s, ok := t.(*ast.StarExpr); ok {
						t = s.X
					}
					if id, ok := t.(*ast.Ident); ok {
						name = id.Name + "." + name
						isMeth = true
					}
				}
				fn := &lockFn{name: name, decl: fd}
				la.fns[fd.Name.Name] = append(la.fns[fd.Name.Name], fn)
				if isMeth {
					la.meths[fd.Name.Name] = append(la.meths[fd.Name.Name], fn)
				}
				if o, ok := la.info.Defs[fd.Name].(*types.Func); ok {
					la.byObj[o] = fn
				}
				la.acq[fd] = map[string]bool{}
			}
		}
	}
	for iter := 0; iter < 12; iter++ {
		la.grew = false
		la.edges = map[string]map[string]bool{}
		names := make([]string, 0, len(la.fns))
		for n := range la.fns {
			names = append(names, n)
		}
		sort.Strings(names)
		for _, n := range names {
			for _, fn := range la.fns[n] {
				la.cur = fn
				la.block(fn.decl.Body.List, nil)
			}
		}
		if !la.grew {
			break
		}
	}
	return la
}

func (x *extractor) factsLocks() {
	la := x.lockGraph([]string{"pkg/controlsvc", "pkg/workceptor"})
	var edges, sites []string
	for k, s := range la.edges {
		edges = append(edges, k)
		var ss []string
		for f := range s {
			ss = append(ss, f)
		}
		sort.Strings(ss)
		for _, f := range ss {
			sites = append(sites, k+"@"+f)
		}
	}
	sort.Strings(edges)
	sort.Strings(sites)
	if len(la.fns) == 0 {
		edges = []string{"unknown"}
	}
	x.set("lock_edges", edges)
	x.set("lock_edge_sites", sites)
	var from, to, at []string
	for _, s := range sites {
		i, j := strings.Index(s, ">"), strings.Index(s, "@")
		from, to, at = append(from, s[:i]), append(to, s[i+1:j]), append(at, s[j+1:])
	}
	x.set("lock_from", from)
	x.set("lock_to", to)
	x.set("lock_at", at)
	// findUnit: is the index lock released before the rescan?
	unlocked := false
	if fd := x.fn("pkg/workceptor/workceptor.go", "Workceptor", "findUnit"); fd != nil {
		found, held := la.heldAtCall(fd, "scanForUnit")
		unlocked = found && len(held) == 0
	}
	x.set("ctl_findunit_rescan_unlocked", unlocked)
	x.set("lock_leaks", x.lockLeaks([]string{"pkg/controlsvc", "pkg/workceptor"}))
}

// lockLeaks: in every block of every function of the given packages, a statement `m.Lock()` / `m.RLock()` must be paired, in the same
// block, with `defer m.Unlock()` / `m.Unlock()` (same receiver text) before any statement that can return.  Reported:
// "file:func:receiver" for every Lock after which a return is reachable first (a lock left held on that path), or which has
// no Unlock in its block at all.
func (x *extractor) lockLeaks(dirs []string) []string {
	var out []string
	hasReturn := func(n ast.Node) bool {
		found := false
		ast.Inspect(n, func(m ast.Node) bool {
			switch m.(type) {
			case *ast.FuncLit:
				return false
			case *ast.ReturnStmt:
				found = true
			}
			return !found
		})
		return found
	}
	lockCall := func(st ast.Stmt, names ...string) (string, bool) {
		var call *ast.CallExpr
		switch v := st.(type) {
		case *ast.ExprStmt:
			call, _ = v.X.(*ast.CallExpr)
		case *ast.DeferStmt:
			call = v.Call
		}
		if call == nil || len(call.Args) != 0 {
			return "", false
		}
		sel, ok := call.Fun.(*ast.SelectorExpr)
		if !ok {
			return "", false
		}
		for _, n := range names {
			if sel.Sel.Name == n {
				return x.str(sel.X), true
			}
		}
		return "", false
	}
	// leaky: a return is reachable in these statements with recv not unlocked before it in its own or an enclosing block
	var leaky func(list []ast.Stmt, recv string, unlocked bool) bool
	leaky = func(list []ast.Stmt, recv string, unlocked bool) bool {
		for _, st := range list {
			if r, ok := lockCall(st, "Unlock", "RUnlock"); ok && r == recv {
				if _, isDefer := st.(*ast.DeferStmt); !isDefer {
					unlocked = true
				}
				continue
			}
			switch v := st.(type) {
			case *ast.ReturnStmt:
				if !unlocked {
					return true
				}
			case *ast.BlockStmt:
				if leaky(v.List, recv, unlocked) {
					return true
				}
			case *ast.IfStmt:
				if leaky(v.Body.List, recv, unlocked) {
					return true
				}
				if v.Else != nil && leaky([]ast.Stmt{v.Else}, recv, unlocked) {
					return true
				}
			case *ast.ForStmt:
				if leaky(v.Body.List, recv, unlocked) {
					return true
				}
			case *ast.RangeStmt:
				if leaky(v.Body.List, recv, unlocked) {
					return true
				}
			case *ast.CaseClause:
				if leaky(v.Body, recv, unlocked) {
					return true
				}
			case *ast.CommClause:
				if leaky(v.Body, recv, unlocked) {
					return true
				}
			case *ast.SwitchStmt:
				if leaky(v.Body.List, recv, unlocked) {
					return true
				}
			case *ast.TypeSwitchStmt:
				if leaky(v.Body.List, recv, unlocked) {
					return true
				}
			case *ast.SelectStmt:
				if leaky(v.Body.List, recv, unlocked) {
					return true
				}
			case *ast.LabeledStmt:
				if leaky([]ast.Stmt{v.Stmt}, recv, unlocked) {
					return true
				}
			}
		}
		return false
	}
	_ = hasReturn
	for _, dir := range dirs {
		ents, err := os.ReadDir(filepath.Join(x.repo, dir))
		if err != nil {
			return []string{"unknown"}
		}
		for _, e := range ents {
			if !strings.HasSuffix(e.Name(), ".go") || strings.HasSuffix(e.Name(), "_test.go") || strings.HasPrefix(e.Name(), "mock_") {
				continue
			}
			rel := filepath.Join(dir, e.Name())
			f := x.file(rel)
			if f == nil {
				continue
			}
			for _, d := range f.Decls {
				fd, ok := d.(*ast.FuncDecl)
				if !ok || fd.Body == nil {
					continue
				}
				ast.Inspect(fd.Body, func(n ast.Node) bool {
					bl, ok := n.(*ast.BlockStmt)
					if !ok {
						return true
					}
					for i, st := range bl.List {
						if _, isDefer := st.(*ast.DeferStmt); isDefer {
							continue
						}
						recv, ok := lockCall(st, "Lock", "RLock")
						if !ok || !strings.Contains(recv, "ock") {
							continue
						}
						state := "no-unlock-in-block"
						for _, later := range bl.List[i+1:] {
							if r, ok := lockCall(later, "Unlock", "RUnlock"); ok && r == recv {
								state = ""
								break
							}
							if leaky([]ast.Stmt{later}, recv, false) {
								state = "return-before-unlock"
								break
							}
						}
						if state != "" {
							out = append(out, rel+":"+fd.Name.Name+":"+recv+":"+state)
						}
					}
					return true
				})
			}
		}
	}
	sort.Strings(out)
	return out
}
