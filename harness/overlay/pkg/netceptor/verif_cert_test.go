package netceptor

// C20 (issue) and C09 (verify) harness: certificates are produced by the built-in tooling
// (pkg/certificates) or crafted directly with crypto/x509 for the product of the C09 quantifier;
// verdicts come from the real ReceptorVerifyFunc.  Ground truth is known by construction.

import (
	"crypto/rand"
	"crypto/rsa"
	"crypto/sha256"
	"crypto/sha512"
	"crypto/tls"
	"crypto/x509"
	"crypto/x509/pkix"
	"encoding/json"
	"math/big"
	"net"
	"strings"
	"sync"
	"testing"
	"time"

	"github.com/ansible/receptor/pkg/certificates"
	"github.com/ansible/receptor/pkg/logger"
	"github.com/ansible/receptor/pkg/utils"
)

var (
	certOnce    sync.Once
	certCA      *certificates.CA
	certOtherCA *certificates.CA
	certKey     *rsa.PrivateKey
)

func certSetup() {
	certOnce.Do(func() {
		var err error
		certCA, err = certificates.CreateCA(&certificates.CertOptions{CommonName: "verif CA", Bits: 2048}, &certificates.RsaWrapper{})
		if err != nil {
			panic(err)
		}
		certOtherCA, err = certificates.CreateCA(&certificates.CertOptions{CommonName: "verif other CA", Bits: 2048}, &certificates.RsaWrapper{})
		if err != nil {
			panic(err)
		}
		certKey, err = rsa.GenerateKey(rand.Reader, 2048)
		if err != nil {
			panic(err)
		}
	})
}

type certArgs struct {
	DNS        []string `json:"dns"`
	IPs        []string `json:"ips"`
	IDs        []string `json:"ids"`
	WithKey    bool     `json:"withkey"`    // true: CreateCertReq with a pre-existing key; false: CreateCertReqWithKey
	Candidates []string `json:"candidates"` // node IDs to try against the issued certificate
	// verify op (C09)
	CA       string   `json:"ca"`       // trusted | other | self
	Validity string   `json:"validity"` // valid | expired | notyet
	Usage    string   `json:"usage"`    // server | client | both | neither
	Pins     []string `json:"pins"`     // sha224 sha256 sha384 sha512 (matching), wrong32 wrong64 (non-matching), len20 len0 (unsupported)
	Expected string   `json:"expected"` // hex
	Mode     string   `json:"mode"`     // receptor | dns
	Role     string   `json:"role"`     // server (we verify a server) | client (we verify a client)
	Garbage  bool     `json:"garbage"`  // present bytes that are not a certificate
	Seq      []string `json:"seq"`      // verifyseq: which of the two certificates (A pinned, B not) each handshake presents
}

func certNormIPs(ips []net.IP) []string {
	out := []string{}
	for _, ip := range ips {
		if v4 := ip.To4(); v4 != nil {
			out = append(out, verifHex(v4))
		} else {
			out = append(out, verifHex(ip))
		}
	}
	return out
}

func certNames(dns []string, ips []net.IP, ids []string) map[string]interface{} {
	return map[string]interface{}{"dns": verifStrHexs(dns), "ips": certNormIPs(ips), "ids": verifStrHexs(ids)}
}

func certVerdict(cert *x509.Certificate, pool *x509.CertPool, expected string, mode ExpectedHostnameType, role VerifyType, pins [][]byte, raw []byte) bool {
	cfg := &tls.Config{RootCAs: pool, ClientCAs: pool}
	lg := verifQuietLogger()
	f := ReceptorVerifyFunc(cfg, pins, expected, mode, role, lg)
	if raw == nil {
		raw = cert.Raw
	}
	return f([][]byte{raw}, nil) == nil
}

func certApply(op string, rawArgs json.RawMessage) interface{} {
	switch op {
	case "mtls":
		return mtlsApply(rawArgs)
	case "verifytime":
		return vtimeApply(rawArgs)
	case "verifychain":
		return vchainApply(rawArgs)
	case "clientcfgseq":
		return ccfgApply(rawArgs)
	}
	var a certArgs
	if err := json.Unmarshal(rawArgs, &a); err != nil {
		panic(err)
	}
	certSetup()
	unhexs := func(l []string) []string {
		out := []string{}
		for _, h := range l {
			out = append(out, string(verifUnhex(h)))
		}
		return out
	}
	switch op {
	case "issue":
		opts := &certificates.CertOptions{CommonName: "verif node", Bits: 1024}
		opts.DNSNames = unhexs(a.DNS)
		opts.NodeIDs = unhexs(a.IDs)
		for _, h := range a.IPs {
			opts.IPAddresses = append(opts.IPAddresses, net.IP(verifUnhex(h)))
		}
		var req *x509.CertificateRequest
		var err error
		if a.WithKey {
			req, err = certificates.CreateCertReq(opts, certKey)
		} else {
			req, _, err = certificates.CreateCertReqWithKey(opts)
		}
		if err != nil {
			return map[string]interface{}{"err": "req"}
		}
		rn, err := certificates.GetReqNames(req)
		if err != nil {
			return map[string]interface{}{"err": "reqnames"}
		}
		cert, err := certificates.SignCertReq(req, certCA, &certificates.CertOptions{})
		if err != nil {
			return map[string]interface{}{"err": "sign"}
		}
		cids, err := utils.ReceptorNames(cert.Extensions)
		if err != nil {
			return map[string]interface{}{"err": "certnames"}
		}
		pool := x509.NewCertPool()
		pool.AddCert(certCA.Certificate)
		_, verr := cert.Verify(x509.VerifyOptions{Roots: pool, KeyUsages: []x509.ExtKeyUsage{x509.ExtKeyUsageAny}})
		verdicts := map[string]interface{}{}
		for _, c := range a.Candidates {
			id := string(verifUnhex(c))
			verdicts[c] = certVerdict(cert, pool, id, ExpectedHostnameTypeReceptor, VerifyServer, nil, nil) &&
				certVerdict(cert, pool, id, ExpectedHostnameTypeReceptor, VerifyClient, nil, nil)
		}
		return map[string]interface{}{"ok": map[string]interface{}{
			"req":    certNames(rn.DNSNames, rn.IPAddresses, rn.NodeIDs),
			"cert":   certNames(cert.DNSNames, cert.IPAddresses, cids),
			"chains": verr == nil, "accept": verdicts}}
	case "verifyseq":
		// one verifier (as installed once in a server TLS config) serving several handshakes: certificate A is
		// pinned, certificate B is from the same authority with the same names but not pinned
		mk := func(serial int64) []byte {
			tmpl := &x509.Certificate{SerialNumber: big.NewInt(serial), Subject: pkix.Name{CommonName: "verif peer"}, KeyUsage: x509.KeyUsageDigitalSignature,
				NotBefore: time.Now().Add(-time.Hour), NotAfter: time.Now().Add(24 * time.Hour),
				ExtKeyUsage: []x509.ExtKeyUsage{x509.ExtKeyUsageServerAuth, x509.ExtKeyUsageClientAuth}}
			san, err := utils.MakeReceptorSAN(nil, nil, []string{"node-a"})
			if err != nil {
				panic(err)
			}
			tmpl.ExtraExtensions = []pkix.Extension{*san}
			der, err := x509.CreateCertificate(rand.Reader, tmpl, certCA.Certificate, &certKey.PublicKey, certCA.PrivateKey)
			if err != nil {
				panic(err)
			}
			return der
		}
		derA, derB := mk(1001), mk(1002)
		var pins [][]byte
		for _, p := range a.Pins {
			switch p {
			case "sha256":
				s := sha256.Sum256(derA)
				pins = append(pins, s[:])
			case "sha512":
				s := sha512.Sum512(derA)
				pins = append(pins, s[:])
			case "sha224":
				s := sha256.Sum224(derA)
				pins = append(pins, s[:])
			case "sha384":
				s := sha512.Sum384(derA)
				pins = append(pins, s[:])
			}
		}
		pool := x509.NewCertPool()
		pool.AddCert(certCA.Certificate)
		role := VerifyType(VerifyServer)
		if a.Role == "client" {
			role = VerifyClient
		}
		f := ReceptorVerifyFunc(&tls.Config{RootCAs: pool, ClientCAs: pool}, pins, "node-a", ExpectedHostnameTypeReceptor, role, verifQuietLogger())
		acc := []bool{}
		for _, which := range a.Seq {
			// "A", "B": that certificate alone; "BA": B as the leaf with A appended; "AB": A as the leaf with B appended
			chain := [][]byte{}
			for _, ch := range which {
				if ch == 'B' {
					chain = append(chain, derB)
				} else {
					chain = append(chain, derA)
				}
			}
			acc = append(acc, f(chain, nil) == nil)
		}
		return map[string]interface{}{"accepts": acc}
	case "verify":
		signer, signerKey := certCA.Certificate, certCA.PrivateKey
		switch a.CA {
		case "other":
			signer, signerKey = certOtherCA.Certificate, certOtherCA.PrivateKey
		}
		tmpl := &x509.Certificate{SerialNumber: big.NewInt(time.Now().UnixNano()), Subject: pkix.Name{CommonName: "verif peer"},
			KeyUsage: x509.KeyUsageDigitalSignature}
		now := time.Now()
		switch a.Validity {
		case "expired":
			tmpl.NotBefore, tmpl.NotAfter = now.Add(-48*time.Hour), now.Add(-24*time.Hour)
		case "notyet":
			tmpl.NotBefore, tmpl.NotAfter = now.Add(24*time.Hour), now.Add(48*time.Hour)
		default:
			tmpl.NotBefore, tmpl.NotAfter = now.Add(-time.Hour), now.Add(24*time.Hour)
		}
		switch a.Usage {
		case "server":
			tmpl.ExtKeyUsage = []x509.ExtKeyUsage{x509.ExtKeyUsageServerAuth}
		case "client":
			tmpl.ExtKeyUsage = []x509.ExtKeyUsage{x509.ExtKeyUsageClientAuth}
		case "both":
			tmpl.ExtKeyUsage = []x509.ExtKeyUsage{x509.ExtKeyUsageServerAuth, x509.ExtKeyUsageClientAuth}
		default:
			tmpl.ExtKeyUsage = []x509.ExtKeyUsage{x509.ExtKeyUsageCodeSigning}
		}
		if len(a.DNS)+len(a.IDs) > 0 {
			san, err := utils.MakeReceptorSAN(unhexs(a.DNS), nil, unhexs(a.IDs))
			if err != nil {
				panic(err)
			}
			tmpl.ExtraExtensions = []pkix.Extension{*san}
		}
		if a.CA == "self" {
			signer, signerKey = tmpl, certKey
		}
		der, err := x509.CreateCertificate(rand.Reader, tmpl, signer, &certKey.PublicKey, signerKey)
		if err != nil {
			panic(err)
		}
		cert, err := x509.ParseCertificate(der)
		if err != nil {
			panic(err)
		}
		var pins [][]byte
		for _, p := range a.Pins {
			switch p {
			case "sha224":
				s := sha256.Sum224(der)
				pins = append(pins, s[:])
			case "sha256":
				s := sha256.Sum256(der)
				pins = append(pins, s[:])
			case "sha384":
				s := sha512.Sum384(der)
				pins = append(pins, s[:])
			case "sha512":
				s := sha512.Sum512(der)
				pins = append(pins, s[:])
			case "wrong32":
				pins = append(pins, make([]byte, 32))
			case "wrong64":
				pins = append(pins, make([]byte, 64))
			case "len20":
				pins = append(pins, make([]byte, 20))
			case "len0":
				pins = append(pins, []byte{})
			}
		}
		pool := x509.NewCertPool()
		pool.AddCert(certCA.Certificate)
		var mode ExpectedHostnameType = ExpectedHostnameTypeReceptor
		if a.Mode == "dns" {
			mode = ExpectedHostnameTypeDNS
		}
		role := VerifyType(VerifyServer)
		if a.Role == "client" {
			role = VerifyClient
		}
		raw := der
		if a.Garbage {
			raw = append([]byte{0x30, 0x03}, der[:8]...)
		}
		return map[string]interface{}{"accept": certVerdict(cert, pool, string(verifUnhex(a.Expected)), mode, role, pins, raw)}
	}
	panic("verif: unknown op " + op)
}

func certVariants(v *verifRun, id string) []string {
	out := []string{id, strings.ToUpper(id), strings.ToLower(id), id + "x", "x" + id, ""}
	if len(id) > 1 {
		out = append(out, id[:len(id)-1], id[1:])
	}
	out = append(out, strings.Title(id), "other-node")
	_ = v
	return out
}

func certGen(v *verifRun) {
	idPool := []string{"node-a", "Node-A", "NODE-A", "n1", "straße", "STRASSE", "a.b", "node_1", strings.Repeat("L", 130)}
	n := v.n
	for i := 0; i < n; i++ {
		a := certArgs{DNS: []string{}, IPs: []string{}, IDs: []string{}, WithKey: v.rng.Intn(2) == 0}
		for k := v.rng.Intn(3); k > 0; k-- {
			a.DNS = append(a.DNS, verifHex([]byte([]string{"example.com", "a.example.org", "localhost", "xn--caf-dma.example"}[v.rng.Intn(4)])))
		}
		for k := v.rng.Intn(3); k > 0; k-- {
			if v.rng.Intn(2) == 0 {
				a.IPs = append(a.IPs, verifHex(v.bytesN(4)))
			} else {
				a.IPs = append(a.IPs, verifHex(v.bytesN(16)))
			}
		}
		cands := map[string]bool{}
		for k := v.rng.Intn(4); k > 0; k-- {
			id := idPool[v.rng.Intn(len(idPool))]
			a.IDs = append(a.IDs, verifHex([]byte(id)))
			for _, c := range certVariants(v, id) {
				cands[c] = true
			}
		}
		cands["node-a"] = true
		cands[""] = true
		for c := range cands {
			a.Candidates = append(a.Candidates, verifHex([]byte(c)))
		}
		sortStrings(a.Candidates)
		v.do(certApply, "issue", a)
	}
}

func sortStrings(l []string) {
	for i := 1; i < len(l); i++ {
		for j := i; j > 0 && l[j] < l[j-1]; j-- {
			l[j], l[j-1] = l[j-1], l[j]
		}
	}
}

func TestVerifCert(t *testing.T) {
	v := verifOpen(t, "cert")
	v.run(certApply, certGen)
}

func verifQuietLogger() *logger.ReceptorLogger {
	l := logger.NewReceptorLogger("")
	l.SetOutput(verifDiscard{})
	return l
}

// ---- C09: the product of the quantifier

func verifyGen(v *verifRun) {
	hx := func(s string) string { return verifHex([]byte(s)) }
	cas := []string{"trusted", "trusted", "trusted", "other", "self"}
	vals := []string{"valid", "valid", "valid", "expired", "notyet"}
	usages := []string{"server", "client", "both", "neither"}
	pinSets := [][]string{{}, {}, {"sha256"}, {"sha512"}, {"sha224"}, {"sha384"}, {"wrong32"}, {"wrong64"}, {"len20"}, {"len0"},
		{"wrong32", "sha256"}, {"sha256", "len20"}, {"len20", "sha256"}, {"wrong64", "wrong32"}, {"sha512", "wrong32"}}
	idSets := [][]string{{"node-a"}, {"node-b"}, {"node-a", "node-b"}, {}, {"Node-A"}, {"node-a "}, {"xnode-a"}}
	dnsSets := [][]string{{}, {"node-a"}, {"example.com"}, {"node-a", "example.com"}}
	// first the single-failure matrix around a fully admissible peer, then random points of the product
	base := certArgs{CA: "trusted", Validity: "valid", Usage: "both", IDs: []string{hx("node-a")}, DNS: []string{}, Pins: []string{"sha256"},
		Expected: hx("node-a"), Mode: "receptor", Role: "server"}
	emit := func(a certArgs) {
		if a.DNS == nil {
			a.DNS = []string{}
		}
		if a.IDs == nil {
			a.IDs = []string{}
		}
		if a.Pins == nil {
			a.Pins = []string{}
		}
		a.IPs, a.Candidates = []string{}, []string{}
		v.do(certApply, "verify", a)
	}
	for _, role := range []string{"server", "client"} {
		b := base
		b.Role = role
		emit(b)
		for _, ca := range []string{"other", "self"} {
			c := b
			c.CA = ca
			emit(c)
		}
		for _, val := range []string{"expired", "notyet"} {
			c := b
			c.Validity = val
			emit(c)
		}
		for _, u := range usages {
			c := b
			c.Usage = u
			emit(c)
		}
		for _, ps := range pinSets {
			c := b
			c.Pins = ps
			emit(c)
		}
		for _, ids := range idSets {
			c := b
			c.IDs = nil
			for _, id := range ids {
				c.IDs = append(c.IDs, hx(id))
			}
			emit(c)
		}
		c := b
		c.Garbage = true
		emit(c)
		c = b
		c.IDs, c.DNS = nil, []string{hx("node-a")} // DNS-only certificate where a receptor node is expected
		emit(c)
		c = b
		c.Mode, c.DNS, c.Expected = "dns", []string{hx("example.com")}, hx("example.com")
		emit(c)
		c.Expected = hx("other.example.com")
		emit(c)
		c.Expected = ""
		emit(c)
	}
	for _, seq := range [][]string{{"A", "B"}, {"B", "A"}, {"A", "B", "A"}, {"B", "B", "A", "A", "B"}, {"A", "A"}, {"BA", "AB"}, {"AB", "BA", "B"}, {"BAA", "A"}} {
		for _, pin := range []string{"sha256", "sha512", "sha224", "sha384"} {
			v.do(certApply, "verifyseq", certArgs{DNS: []string{}, IPs: []string{}, IDs: []string{}, Candidates: []string{}, Pins: []string{pin},
				Seq: seq, Role: []string{"server", "client"}[v.rng.Intn(2)]})
		}
	}
	// mesh level: every server profile against every kind of client certificate
	for _, req := range []bool{true, false} {
		for _, cas := range []bool{true, false} {
			v.do(certApply, "mtls", mtlsArgs{Require: req, CAs: cas, Present: []string{"own", "other", "both", "none", "otherca", "expired", "serverusage", "own"}})
		}
	}
	// a server profile that pins one client certificate
	for _, req := range []bool{true, false} {
		v.do(certApply, "mtls", mtlsArgs{Require: req, CAs: true, Pinned: true, Present: []string{"ownpinned", "own", "other", "none", "ownpinned"}})
	}
	v.do(certApply, "verifytime", vtimeArgs{Role: []string{"server", "client"}[v.rng.Intn(2)]})
	// presented chains: the expected ID is named by the leaf, or only by a certificate appended to the chain
	for _, role := range []string{"server", "client"} {
		for _, ch := range [][][]string{{{"alpha"}, {"bravo"}}, {{"bravo"}, {"alpha"}}, {{"alpha"}}, {{"alpha"}, {"alpha", "bravo"}}, {{"alpha", "bravo"}, {"charlie"}},
			{{"charlie"}, {"alpha"}, {"bravo"}}} {
			hc := [][]string{}
			for _, ids := range ch {
				h := []string{}
				for _, id := range ids {
					h = append(h, hx(id))
				}
				hc = append(hc, h)
			}
			v.do(certApply, "verifychain", vchainArgs{Chain: hc, Expected: hx("bravo"), Role: role})
		}
	}
	// one client profile, several connections
	present := [][]string{{hx("nodeB")}, {hx("nodeC")}, {hx("nodeB"), hx("nodeC")}, {}}
	for _, calls := range [][]ccfgCall{
		{{hx("nodeB"), "receptor"}, {hx("nodeC"), "receptor"}},
		{{hx("nodeC"), "receptor"}, {hx("nodeB"), "receptor"}, {hx("nodeC"), "receptor"}},
		{{hx("nodeB"), "receptor"}, {hx("b.example.com"), "dns"}},
		{{hx("b.example.com"), "dns"}, {hx("nodeB"), "receptor"}, {hx("c.example.com"), "dns"}},
	} {
		v.do(certApply, "clientcfgseq", ccfgArgs{Calls: calls, Present: present})
	}
	for i := 0; i < v.n; i++ {
		a := certArgs{CA: cas[v.rng.Intn(len(cas))], Validity: vals[v.rng.Intn(len(vals))], Usage: usages[v.rng.Intn(4)],
			Pins: pinSets[v.rng.Intn(len(pinSets))], Role: []string{"server", "client"}[v.rng.Intn(2)], Mode: "receptor",
			Garbage: v.rng.Intn(25) == 0}
		for _, id := range idSets[v.rng.Intn(len(idSets))] {
			a.IDs = append(a.IDs, hx(id))
		}
		for _, d := range dnsSets[v.rng.Intn(len(dnsSets))] {
			a.DNS = append(a.DNS, hx(d))
		}
		a.Expected = hx([]string{"node-a", "node-a", "node-b", "NODE-A", ""}[v.rng.Intn(5)])
		if v.rng.Intn(4) == 0 {
			a.Mode = "dns"
			a.Expected = hx([]string{"node-a", "example.com", "", "nope.example.com"}[v.rng.Intn(4)])
		}
		emit(a)
	}
}

func TestVerifVerify(t *testing.T) {
	v := verifOpen(t, "verify")
	v.run(certApply, verifyGen)
}
