import Receptor.Model.Framer
namespace Receptor.Framer

theorem drain_none {buf} (h : getMessage buf = none) : drain buf = ([], buf) := by
  rw [drain]; split
  · rfl
  · rename_i h'; rw [h] at h'; cases h'

theorem drain_some {buf m buf'} (h : getMessage buf = some (m, buf')) :
    drain buf = (m :: (drain buf').1, (drain buf').2) := by
  rw [drain]; split
  · rename_i h'; rw [h] at h'; cases h'
  · rename_i m2 b2 h'; rw [h] at h'; cases h'; rfl

/-- appending more bytes does not change an already-ready message -/
theorem getMessage_append {buf m buf'} (c : Bytes) (h : getMessage buf = some (m, buf')) :
    getMessage (buf ++ c) = some (m, buf' ++ c) := by
  unfold getMessage at h ⊢
  match buf, h with
  | lo :: hi :: rest, h =>
    simp only [List.cons_append] at h ⊢
    split at h
    · rename_i hle
      cases h
      have : lo + 256 * hi ≤ (rest ++ c).length := by simp; omega
      simp only [this, if_true]
      rw [List.take_append_of_le_length hle, List.drop_append_of_le_length hle]
    · cases h

theorem getMessage_frame (m rest : Bytes) (hm : m.length < 65536) :
    getMessage (frame m ++ rest) = some (m, rest) := by
  simp only [frame, getMessage, List.cons_append]
  have e : m.length % 256 + 256 * (m.length / 256 % 256) = m.length := by omega
  rw [e]
  have : m.length ≤ (m ++ rest).length := by simp
  simp [this]

theorem drain_frames (msgs : List Bytes) (hm : ∀ m ∈ msgs, m.length < 65536) :
    drain ((msgs.map frame).flatten) = (msgs, []) := by
  induction msgs with
  | nil => rw [drain_none] <;> simp [getMessage]
  | cons m ms ih =>
    simp only [List.map_cons, List.flatten_cons]
    rw [drain_some (getMessage_frame m _ (hm m (List.mem_cons_self ..)))]
    rw [ih (fun x hx => hm x (List.mem_cons_of_mem _ hx))]

/-- Key invariant: whatever the schedule, (messages already returned) ++ (messages still
drainable at the end) is what draining the whole input at once gives. -/
theorem runOps_drain : ∀ (ops : List Op) (buf : Bytes),
    (runOps buf ops).1 ++ (drain (runOps buf ops).2).1 = (drain (buf ++ chunksOf ops)).1
    ∧ (drain (runOps buf ops).2).2 = (drain (buf ++ chunksOf ops)).2 := by
  intro ops
  induction ops with
  | nil => intro buf; simp [runOps, chunksOf]
  | cons op ops ih =>
    intro buf
    cases op with
    | recv c =>
      simp only [runOps, chunksOf]
      have := ih (buf ++ c)
      rw [List.append_assoc] at this
      exact this
    | get =>
      simp only [runOps, chunksOf]
      cases hg : getMessage buf with
      | none => simpa using ih buf
      | some mb =>
        obtain ⟨m, buf'⟩ := mb
        simp only
        have h2 := getMessage_append (chunksOf ops) hg
        rw [drain_some h2]
        have := ih buf'
        constructor
        · simp only [List.cons_append]; rw [this.1]
        · exact this.2

end Receptor.Framer
