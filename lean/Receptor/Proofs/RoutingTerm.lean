import Receptor.Model.Routing
/-!
# Termination of the label-correcting loop of `updateRoutingTable`

For every graph whose key nodes are finitely many and every order in which queued nodes are popped,
the loop stops: the relation "one pop" is well-founded.  Measure, lexicographically: the number of
key nodes without a label, the sum of the labels, the length of the queue.  (Weights are natural
numbers — zero weights and cycles included; negative weights are what the repaired guard of C07
keeps out.)
-/
namespace Receptor.Routing

/-- number of listed nodes without a label -/
def unlabelled (ks : List Node) (s : St) : Nat := (ks.filter fun v => (s.cost v).isNone).length

/-- sum of the labels of the listed nodes -/
def labelSum (ks : List Node) (s : St) : Nat := (ks.map fun v => (s.cost v).getD 0).sum

def measure (ks : List Node) (s : St) : Nat × Nat × Nat := (unlabelled ks s, labelSum ks s, s.queue.length)

/-- the order of the measure -/
def mlt (a b : Nat × Nat × Nat) : Prop := a.1 < b.1 ∨ (a.1 = b.1 ∧ (a.2.1 < b.2.1 ∨ (a.2.1 = b.2.1 ∧ a.2.2 < b.2.2)))

theorem mlt_wf : WellFounded mlt := by
  have h : WellFounded (Prod.Lex (fun a b : Nat => a < b) (Prod.Lex (fun a b : Nat => a < b) (fun a b : Nat => a < b))) :=
    (Prod.lex Nat.lt_wfRel (Prod.lex Nat.lt_wfRel Nat.lt_wfRel)).wf
  apply Subrelation.wf _ h
  intro a b hab
  obtain ⟨a1, a2, a3⟩ := a
  obtain ⟨b1, b2, b3⟩ := b
  rcases hab with h1 | ⟨h1, h2 | ⟨h2, h3⟩⟩
  · exact Prod.Lex.left _ _ h1
  · simp only at h1; subst h1; exact Prod.Lex.right _ (Prod.Lex.left _ _ h2)
  · simp only at h1 h2; subst h1; subst h2; exact Prod.Lex.right _ (Prod.Lex.right _ h3)

/-- the first two components of the measure, ordered lexicographically (strictly / weakly) -/
def lt12 (ks : List Node) (s' s : St) : Prop :=
  unlabelled ks s' < unlabelled ks s ∨ (unlabelled ks s' = unlabelled ks s ∧ labelSum ks s' < labelSum ks s)

theorem sum_map_lt {f f' : Node → Nat} : ∀ (ks : List Node) (v : Node), v ∈ ks → (∀ x, f' x ≤ f x) → f' v < f v →
    (ks.map f').sum < (ks.map f).sum
  | [], _, h, _, _ => by cases h
  | k :: rest, v, h, hle, hlt => by
    simp only [List.map_cons, List.sum_cons]
    have hrest : (rest.map f').sum ≤ (rest.map f).sum := by
      clear h
      induction rest with
      | nil => simp
      | cons a t ih => simp only [List.map_cons, List.sum_cons]; have := hle a; omega
    rcases List.mem_cons.mp h with h1 | h1
    · subst h1; omega
    · have := sum_map_lt rest v h1 hle hlt
      have := hle k
      omega

theorem filter_length_le {p p' : Node → Bool} : ∀ (ks : List Node), (∀ x, p' x = true → p x = true) →
    (ks.filter p').length ≤ (ks.filter p).length
  | [], _ => by simp
  | k :: rest, h => by
    have ih := filter_length_le rest h
    simp only [List.filter_cons]
    by_cases h1 : p' k = true
    · simp [h1, h k h1]; omega
    · by_cases h2 : p k = true
      · simp [h1, h2]; omega
      · simp [h1, h2]; exact ih

theorem filter_length_lt {p p' : Node → Bool} : ∀ (ks : List Node) (v : Node), v ∈ ks → (∀ x, p' x = true → p x = true) →
    p v = true → p' v = false → (ks.filter p').length < (ks.filter p).length
  | [], _, h, _, _, _ => by cases h
  | k :: rest, v, h, himp, hv, hv' => by
    simp only [List.filter_cons]
    rcases List.mem_cons.mp h with h1 | h1
    · subst h1
      have := filter_length_le (p := p) (p' := p') rest himp
      simp [hv, hv']; omega
    · have ih := filter_length_lt rest v h1 himp hv hv'
      by_cases h2 : p' k = true
      · simp [h2, himp k h2]; omega
      · by_cases h3 : p k = true
        · simp [h2, h3]; omega
        · simp [h2, h3]; exact ih

/-- an improvement of a listed node's label makes the first two components smaller -/
theorem improve_lt12 (ks : List Node) (s : St) (u v : Node) (c : Nat) (hv : v ∈ ks) (hb : better s v c = true) :
    lt12 ks (improve s u v c) s := by
  unfold better at hb
  cases hc : s.cost v with
  | none =>
    left
    unfold unlabelled
    apply filter_length_lt ks v hv
    · intro x hx
      simp only [improve] at hx
      by_cases hxv : x = v
      · simp [hxv] at hx
      · simpa [hxv] using hx
    · simp [hc]
    · simp [improve]
  | some cv =>
    rw [hc] at hb
    have hlt : c < cv := by simpa using hb
    right
    constructor
    · unfold unlabelled
      congr 1
      apply List.filter_congr
      intro x _
      simp only [improve]
      by_cases hxv : x = v
      · simp [hxv, hc]
      · simp [hxv]
    · unfold labelSum
      apply sum_map_lt ks v hv
      · intro x
        simp only [improve]
        by_cases hxv : x = v
        · simp [hxv, hc]; omega
        · simp [hxv]
      · simp [improve, hc]; exact hlt

theorem lt12_trans (ks : List Node) {a b c : St} (h1 : lt12 ks a b) (h2 : lt12 ks b c) : lt12 ks a c := by
  unfold lt12 at *
  rcases h1 with h1 | ⟨e1, h1⟩ <;> rcases h2 with h2 | ⟨e2, h2⟩
  · left; omega
  · left; omega
  · left; omega
  · right; exact ⟨by omega, by omega⟩

/-- relaxing the edges of one node: nothing changed, or the first two components got smaller -/
theorem fold_relax (g : Graph) (ks : List Node) (hks : ∀ v, g.isKey v = true → v ∈ ks) (u : Node) (cu : Nat) :
    ∀ (es : List (Node × Nat)) (s : St), (es.foldl (relaxEdge g u cu) s = s) ∨ lt12 ks (es.foldl (relaxEdge g u cu) s) s := by
  intro es
  induction es with
  | nil => intro s; left; rfl
  | cons e rest ih =>
    intro s
    simp only [List.foldl_cons]
    by_cases hc : (g.isKey e.1 && better s e.1 (cu + e.2)) = true
    · have hk : g.isKey e.1 = true := by simp only [Bool.and_eq_true] at hc; exact hc.1
      have hb : better s e.1 (cu + e.2) = true := by simp only [Bool.and_eq_true] at hc; exact hc.2
      have hstep : relaxEdge g u cu s e = improve s u e.1 (cu + e.2) := by simp [relaxEdge, hc]
      have hlt := improve_lt12 ks s u e.1 (cu + e.2) (hks _ hk) hb
      right
      rw [hstep]
      rcases ih (improve s u e.1 (cu + e.2)) with h | h
      · rw [h]; exact hlt
      · exact lt12_trans ks h hlt
    · have hstep : relaxEdge g u cu s e = s := by simp [relaxEdge, hc]
      rw [hstep]; exact ih s

/-- **one pop makes the measure smaller** -/
theorem popRelax_decreases (g : Graph) (ks : List Node) (hks : ∀ v, g.isKey v = true → v ∈ ks) (s : St) (u : Node)
    (hu : u ∈ s.queue) : mlt (measure ks (popRelax g s u)) (measure ks s) := by
  have herase : (s.queue.erase u).length < s.queue.length := by
    rw [List.length_erase_of_mem hu]
    have : 0 < s.queue.length := List.length_pos_of_mem hu
    omega
  unfold popRelax
  cases hc : s.cost u with
  | none =>
    simp only
    right
    exact ⟨rfl, Or.inr ⟨rfl, herase⟩⟩
  | some cu =>
    simp only
    rcases fold_relax g ks hks u cu (g.adj u) { s with queue := s.queue.erase u } with h | h
    · rw [h]
      right
      exact ⟨rfl, Or.inr ⟨rfl, herase⟩⟩
    · -- the costs of `{s with queue := …}` are those of `s`
      unfold lt12 at h
      unfold mlt measure
      rcases h with h | ⟨e, h⟩
      · left; exact h
      · right; exact ⟨e, Or.inl h⟩

/-- **lc_terminates.** For every graph with finitely many key nodes (listed in `ks`) the relation "`s'` is `s` after
popping some queued node" is well-founded: whatever the order of pops, the loop of `updateRoutingTable` stops. -/
theorem lc_terminates (g : Graph) (ks : List Node) (hks : ∀ v, g.isKey v = true → v ∈ ks) :
    WellFounded (fun s' s : St => ∃ u, u ∈ s.queue ∧ s' = popRelax g s u) := by
  apply Subrelation.wf _ (InvImage.wf (measure ks) mlt_wf)
  intro s' s ⟨u, hu, he⟩
  show mlt (measure ks s') (measure ks s)
  rw [he]
  exact popRelax_decreases g ks hks s u hu

end Receptor.Routing
