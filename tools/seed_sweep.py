#!/usr/bin/env python3
"""seed_sweep.py: applies every seeded change in turn (tools/seed_run.sh), runs the quick check of its property and
records in its meta.json what the check printed and, for a violation with a replay, the signature of the failing case."""
import json, os, re, subprocess, sys
V = "/verif"
only = sys.argv[1:]
rows = []
for d in sorted(os.listdir(f"{V}/seeded")):
    mp = f"{V}/seeded/{d}/meta.json"
    if not os.path.exists(mp) or (only and not any(d.startswith(o) for o in only)):
        continue
    m = json.load(open(mp))
    prop = m["property"]
    p = subprocess.run([f"{V}/tools/seed_run.sh", f"{V}/seeded/{d}/patch.diff", prop], capture_output=True, text=True, timeout=3600)
    out = p.stdout
    vio = [l for l in out.splitlines() if l.startswith("VIOLATION")]
    summ = [l for l in out.splitlines() if "tier=" in l]
    rec = {"exit_line": summ[-1] if summ else out[-200:], "violation_line": vio[-1] if vio else ""}
    if vio:
        mm = re.search(r"replay=(\S+)", vio[-1])
        if mm and os.path.exists(mm.group(1)):
            r = json.load(open(mm.group(1)))
            rec["kind"] = r.get("kind")
            rec["signature"] = r.get("signature", "")
            rec["detail"] = (r.get("detail") or "")[:300]
            if r.get("theorems_not_checking"):
                rec["theorems_not_checking"] = r["theorems_not_checking"]
    m["last_run"] = rec
    json.dump(m, open(mp, "w"), indent=1)
    rows.append((d, "DETECTED" if vio else "MISSED", rec.get("kind"), rec.get("signature")))
    print(rows[-1], flush=True)
missed = [r for r in rows if r[1] == "MISSED"]
print("missed:", missed)
