import Receptor.Model.Verify
import Receptor.Generated.Facts
/-!
# C09 — TLS peers need a trusted chain, a matching pin and the expected node ID
-/
namespace Receptor.Verify

/-- **Tie (translator)**: the supported pin lengths, the order parse → pins → chain → receptor
name in `ReceptorVerifyFunc` (each failure returns an error), the role key usages, what
`GetClientTLSConfig` installs per mode, and the expression the stream listener derives the
expected client name from; the verifier is a closure that keeps nothing between handshakes and reads the
clock at each of them, compares the pins with the digest of the leaf only; a server profile that requires a
client certificate asks for `RequireAndVerifyClientCert` whatever else is configured, and the stream listener
binds the client name exactly in that case, running the profile's own verifier (with its pins) first. -/
theorem C09_facts :
    Receptor.Facts.rvf_pin_lengths = "28,32,48,64"
    ∧ Receptor.Facts.rvf_steps = "parse,pins,chain,name"
    ∧ Receptor.Facts.rvf_usages = "VerifyServer:ExtKeyUsageServerAuth;VerifyClient:ExtKeyUsageClientAuth"
    ∧ Receptor.Facts.rvf_name_rule = "expectedHostnameType == ExpectedHostnameTypeReceptor;!found:ReceptorCertNameError"
    ∧ Receptor.Facts.rvf_name_compare = "receptorName == expectedHostname"
    ∧ Receptor.Facts.tls_client_cfg = "!tlscfg.InsecureSkipVerify:VerifyPeerCertificate;DNS:ServerName;Receptor:InsecureSkipVerify"
    ∧ Receptor.Facts.tls_listener_expected = "strings.Split(hi.Conn.RemoteAddr().String(), \":\")[0];ExpectedHostnameTypeReceptor;VerifyClient"
    ∧ Receptor.Facts.rvf_closure = "single-return-closure;CurrentTime:time.Now()x2;empty-chain:refused"
    ∧ Receptor.Facts.rvf_pin_subject = "certs[0].Raw"
    ∧ Receptor.Facts.tls_server_clientauth = "cfg.RequireClientCert:RequireAndVerifyClientCert;cfg.ClientCAs != \"\":VerifyClientCertIfGiven;default:NoClientCert;assignments:3"
    ∧ Receptor.Facts.tls_listener_bind_when = "tlscfg.ClientAuth == tls.RequireAndVerifyClientCert"
    ∧ Receptor.Facts.tls_listener_pins = "chained-with-profile-verifier"
    ∧ Receptor.Facts.tls_client_cfg_clone = "clone-before-first-write;returns:tlscfg" := by
  decide +kernel

/-- **accept_iff.** The connection is accepted exactly when the certificate parses, the pin rule
is satisfied, it chains to the configured authority, is currently valid, is usable for the
peer's role, and the name rule holds. -/
theorem accept_iff (c : Cfg) (p : Peer) :
    decide c p = true ↔
      p.parsed = true ∧ pinOK c.pins p.digest = true ∧ p.chainOK = true ∧ p.validNow = true
        ∧ usageOK c.role p = true ∧ nameOK c p = true := by
  simp [decide, and_assoc]

/-- **any_single_failure_refuses.** Failure of any single condition refuses the connection,
whatever the other conditions are. -/
theorem any_single_failure_refuses (c : Cfg) (p : Peer)
    (h : p.parsed = false ∨ pinOK c.pins p.digest = false ∨ p.chainOK = false ∨ p.validNow = false
          ∨ usageOK c.role p = false ∨ nameOK c p = false) :
    decide c p = false := by
  rcases h with h | h | h | h | h | h <;> simp [decide, h]

/-- the pin rule spelled out -/
theorem pin_rule (pins : List Bytes) (digest : Nat → Bytes) :
    pinOK pins digest = true ↔
      pins = [] ∨ ((∀ p ∈ pins, supportedLen p.length = true) ∧ ∃ p ∈ pins, p = digest p.length) := by
  simp only [pinOK, Bool.or_eq_true, Bool.and_eq_true, List.isEmpty_iff, List.all_eq_true, List.any_eq_true,
    beq_iff_eq]

/-- a pin of unsupported length anywhere in the list refuses the peer, even next to a matching pin -/
theorem unsupported_pin_refuses (c : Cfg) (p : Peer) (bad : Bytes) (hb : bad ∈ c.pins)
    (hl : supportedLen bad.length = false) : decide c p = false := by
  apply any_single_failure_refuses
  right; left
  rw [Bool.eq_false_iff]
  intro h
  rcases (pin_rule _ _).1 h with h0 | ⟨hall, _⟩
  · rw [h0] at hb; cases hb
  · rw [hall bad hb] at hl; cases hl

/-- **receptor name rule**: in receptor mode the expected node ID must be one of the
certificate's receptor names, compared exactly; a certificate without receptor names (DNS
only) or with other IDs is refused. -/
theorem receptor_name_required (c : Cfg) (p : Peer) (hm : c.mode = .receptor) :
    nameOK c p = true ↔ ∃ l, p.names = some l ∧ c.expected ∈ l := by
  simp only [nameOK, hm]
  cases p.names with
  | none => simp
  | some l => simp

theorem takeWhile_append_of_all {α} (p : α → Bool) (l r : List α) (h : ∀ x ∈ l, p x = true) :
    (l ++ r).takeWhile p = l ++ r.takeWhile p := by
  induction l with
  | nil => rfl
  | cons a t ih =>
    have ha := h a (by simp)
    simp only [List.cons_append, List.takeWhile_cons, ha, if_true]
    rw [ih (fun x hx => h x (by simp [hx]))]

/-- **client_bound_to_source.** For a mutually authenticated stream listener the name checked
is the node the packets claim to come from — provided the node ID contains no colon (the
listener cuts the printed address `node:service` at the first colon). -/
theorem client_bound_to_source (node svc : Bytes) (h : ∀ b ∈ node, b ≠ 58) :
    expectedClientName node svc = node := by
  unfold expectedClientName
  rw [takeWhile_append_of_all _ node (58 :: svc) (by intro x hx; simpa using h x hx)]
  simp

/-- Witness of the excluded point: a node ID containing a colon is checked against its prefix
only, so its own certificate (naming the full ID) does not satisfy the listener. -/
theorem C09_witness_colon : expectedClientName [97, 58, 98] [115] = [97] := by decide

/-- Non-vacuity: a fully admissible peer is accepted; flipping one condition refuses it. -/
def exPeer : Peer :=
  { parsed := true, chainOK := true, validNow := true, usageServer := true, usageClient := false, dnsOK := false,
    names := some [[110, 49]], digest := fun n => List.replicate n 7 }
example : decide { pins := [List.replicate 32 7], expected := [110, 49], mode := .receptor, role := .server } exPeer = true := by
  decide
example : decide { pins := [List.replicate 32 7], expected := [110, 49], mode := .receptor, role := .client } exPeer = false := by
  decide

/-- **only_the_leaf_counts.** Appending certificates to the presented chain — a copy of a pinned certificate, of
another node's certificate — never turns a refused peer into an accepted one: the verdict is the verdict on the leaf. -/
theorem only_the_leaf_counts (c : Cfg) (leaf : Peer) (extras extras' : List Peer) :
    decideChain c (leaf :: extras) = decideChain c (leaf :: extras') ∧ decideChain c (leaf :: extras) = decide c leaf :=
  ⟨rfl, rfl⟩

/-- **required_client_cert_binds_source.** On a listener whose profile requires a client certificate — with or
without a `clientcas` bundle — a stream is established only with a certificate that chains, is valid, is usable by
a client and names the node the packets come from: a node cannot present another node's identity, nor none. -/
theorem required_client_cert_binds_source (hasCAs : Bool) (source : Bytes) (cert : Option Peer)
    (h : established true hasCAs source cert = true) :
    ∃ p, cert = some p ∧ p.parsed = true ∧ p.chainOK = true ∧ p.validNow = true ∧ p.usageClient = true
      ∧ ∃ l, p.names = some l ∧ source ∈ l := by
  unfold established serverClientAuth at h
  simp only [if_true] at h
  cases cert with
  | none => simp at h
  | some p =>
    refine ⟨p, rfl, ?_⟩
    simp only [Bool.and_eq_true] at h
    replace h := h.2
    simp only [decide, Bool.and_eq_true, usageOK, nameOK] at h
    obtain ⟨⟨⟨⟨⟨h1, _⟩, h3⟩, h4⟩, h5⟩, h6⟩ := h
    refine ⟨h1, h3, h4, h5, ?_⟩
    cases hn : p.names with
    | none => simp [hn] at h6
    | some l =>
      refine ⟨l, rfl, ?_⟩
      simpa [hn] using h6

/-- the listener binds the client name whenever the profile requires a client certificate -/
theorem require_implies_binding (hasCAs : Bool) : listenerBindsClientName (serverClientAuth true hasCAs) = true := by
  cases hasCAs <;> rfl

/-- Witness of the variant in which a `clientcas` bundle downgrades the requirement: another node's (trusted)
certificate opens a stream. -/
theorem C09_witness_downgrade :
    let other : Peer := { parsed := true, chainOK := true, validNow := true, usageServer := true, usageClient := true, dnsOK := false,
                          names := some [[110, 51]], digest := fun _ => [] }
    established true true [110, 50] (some other) = false ∧ established false true [110, 50] (some other) = true := by
  decide

/-- **pinned_client_cert_enforced.** A server profile that pins client certificates: on a stream listener that
requires a client certificate (the per-connection verifier keeping the profile's pins) and on one that verifies offered
certificates, a stream is established only with a certificate whose digest is one of the pins. -/
theorem pinned_client_cert_enforced (require hasCAs : Bool) (hv : require = true ∨ hasCAs = true) (source : Bytes) (p : Peer)
    (pins : List Bytes) (hp : pins ≠ [])
    (h : established require hasCAs source (some p) pins true = true) :
    ∃ pin ∈ pins, pin = p.digest pin.length := by
  have hpin : pinOK pins p.digest = true := by
    unfold established serverClientAuth at h
    cases require with
    | true =>
      simp only [if_true, Bool.not_true, Bool.false_or, Bool.and_eq_true] at h
      have h1 := h.1
      simp only [decide, Bool.and_eq_true] at h1
      exact h1.1.1.1.1.2
    | false =>
      have hc : hasCAs = true := by
        cases hv with
        | inl h' => cases h'
        | inr h' => exact h'
      simp only [hc, Bool.false_eq_true, if_false, if_true] at h
      simp only [decide, Bool.and_eq_true] at h
      exact h.1.1.1.1.2
  have hne : pins.isEmpty = false := by
    cases pins with
    | nil => exact absurd rfl hp
    | cons a t => rfl
  simp only [pinOK, hne, Bool.false_or, Bool.and_eq_true, List.any_eq_true, beq_iff_eq] at hpin
  exact hpin.2

/-- Witness of the variant in which the listener's per-connection verifier drops the profile's pins: a trusted
certificate for the right node that is *not* pinned opens a stream. -/
theorem C09_witness_pins_dropped :
    let own : Peer := { parsed := true, chainOK := true, validNow := true, usageServer := true, usageClient := true, dnsOK := false,
                        names := some [[110, 50]], digest := fun n => List.replicate n 7 }
    established true true [110, 50] (some own) [List.replicate 32 9] true = false
    ∧ established true true [110, 50] (some own) [List.replicate 32 9] false = true := by
  decide

end Receptor.Verify
