import Receptor.Model.Bridge
import Receptor.Proofs.StreamEnd
import Receptor.Generated.Facts
/-!
# C03 — mesh streams are reliable ordered byte pipes (the part that is Receptor's own code)

Reliability, ordering and retransmission over lossy, reordering links are quic-go's; what Receptor
adds is the relay loop of the bridges and the end points.  The theorems are about that loop; the
end-to-end statement is exercised by the `stream` engine on lossy multi-hop meshes.
-/
namespace Receptor.Bridge

/-- **Tie (translator)**: the relay loop reads, notes an error, writes what was read *before* it acts on the
error, then closes the destination and stops; `BridgeConns` runs one relay per direction and waits for both;
a dial writes one zero byte, the listener reads and checks it — accepting it also when it arrives together
with the end of the stream; `Conn.Close` closes the writing side of the stream only; `ReadFrom` copies the
datagram's payload; both QUIC transports get a PacketConn that treats a momentarily missing next-hop
connection as loss of the datagram, and `forwardMessage` reports a next hop whose connection has gone or is
being torn down with exactly that error; a pending dial is cancelled by a notice about exactly its remote node and service. -/
theorem C03_facts :
    Receptor.Facts.bridge_loop = "read;err:shouldClose;n>0:write(buf[:n]),short->shouldClose;shouldClose:close(c2),return"
    ∧ Receptor.Facts.bridge_conns = "two-halves;wait-both"
    ∧ Receptor.Facts.stream_first_byte = "dial:write(0);accept:read(1);byte-with-eof:accepted;check(n==1,byte==0)"
    ∧ Receptor.Facts.stream_close = "Close:stream-write-side;CloseConnection:connection"
    ∧ Receptor.Facts.stream_readfrom_copy = "copy(p, m.Data)"
    ∧ Receptor.Facts.stream_quic_adapter = "transports:2;lost-not-fatal:errors.Is(err, ErrNoConnectionToNextHop)"
    ∧ Receptor.Facts.stream_link_gone_errors = "sentinel;wraps-sentinel"
    ∧ Receptor.Facts.unreach_dial_cancel = "msg.Problem == ProblemServiceUnknown && msg.ToNode == remoteAddr.node && msg.ToService == remoteAddr.service" := by
  decide +kernel

theorem bridgeHalf_acc (w : Writer) (hw : w.failAt = none) : ∀ (reads : List ReadRes) (o : Out), o.closed = false →
    (bridgeHalf true w reads o).written = o.written ++ upToFirstErr reads
    ∧ (bridgeHalf true w reads o).closed = hasErr reads := by
  intro reads
  induction reads with
  | nil => intro o ho; simp [bridgeHalf, upToFirstErr, hasErr, ho]
  | cons r rest ih =>
    intro o ho
    unfold bridgeHalf
    simp only [ho, Bool.false_eq_true, if_false, Bool.not_true, Bool.and_false, hw]
    have hfail : ∀ n : Nat, ((none : Option Nat) == some n) = false := fun _ => rfl
    simp only [hfail, Bool.and_false, Bool.not_false, Bool.and_true, Bool.or_false]
    by_cases he : r.err = true
    · simp only [he, if_true]
      by_cases hd : r.data.isEmpty = true
      · have : r.data = [] := by simpa using hd
        simp [hd, upToFirstErr, he, hasErr, this]
      · simp [hd, upToFirstErr, he, hasErr]
    · have he' : r.err = false := by simpa using he
      simp only [he', Bool.false_eq_true, if_false]
      by_cases hd : r.data.isEmpty = true
      · have hdd : r.data = [] := by simpa using hd
        simp only [hd, Bool.not_true, Bool.false_eq_true, if_false]
        obtain ⟨h1, h2⟩ := ih o ho
        refine ⟨?_, ?_⟩
        · rw [h1]; simp [upToFirstErr, he', hdd]
        · rw [h2]; simp [hasErr, he']
      · simp only [hd, Bool.not_false, if_true]
        obtain ⟨h1, h2⟩ := ih { written := o.written ++ r.data, closed := false, writes := o.writes + 1 } rfl
        refine ⟨?_, ?_⟩
        · rw [h1]; simp [upToFirstErr, he', List.append_assoc]
        · rw [h2]; simp [hasErr, he']

/-- **bridge_copies_exactly.** Whatever the chunking of the reads — including a last read that returns
bytes *together with* end-of-stream — a relay whose destination accepts its writes has written exactly
the bytes read up to and including that last read, in order, and has closed the destination if and only
if the source ended. -/
theorem bridge_copies_exactly (reads : List ReadRes) :
    (bridgeHalf true {} reads {}).written = upToFirstErr reads ∧ (bridgeHalf true {} reads {}).closed = hasErr reads := by
  have := bridgeHalf_acc {} rfl reads {} rfl
  simpa using this

/-- **bridge_prefix_while_open.** While the source has not ended, what has been written is exactly what has been read. -/
theorem bridge_prefix_while_open (reads : List ReadRes) (h : hasErr reads = false) :
    (bridgeHalf true {} reads {}).written = reads.flatMap (·.data) ∧ (bridgeHalf true {} reads {}).closed = false := by
  obtain ⟨h1, h2⟩ := bridge_copies_exactly reads
  refine ⟨?_, by rw [h2, h]⟩
  rw [h1]
  clear h1 h2
  induction reads with
  | nil => rfl
  | cons r rest ih =>
    have hr : r.err = false := by
      simp only [hasErr, List.any_cons, Bool.or_eq_false_iff] at h; exact h.1
    have hrest : hasErr rest = false := by
      simp only [hasErr, List.any_cons, Bool.or_eq_false_iff] at h; exact h.2
    simp [upToFirstErr, hr, ih hrest]

/-- the variant that stops before writing what came with the end of the stream loses those bytes -/
theorem C03_witness_final_chunk_lost :
    (bridgeHalf false {} [⟨[104, 101, 97, 100], false⟩, ⟨[116, 97, 105, 108], true⟩] {}).written = [104, 101, 97, 100]
    ∧ (bridgeHalf true {} [⟨[104, 101, 97, 100], false⟩, ⟨[116, 97, 105, 108], true⟩] {}).written = [104, 101, 97, 100, 116, 97, 105, 108] := by
  decide

end Receptor.Bridge

namespace Receptor.StreamEnd
open Receptor.Bridge

/-- the listener's first-byte check as the source has it (regenerated fact) -/
def acceptOfSource : List ReadRes → Accept :=
  accept (decide (Receptor.Facts.stream_first_byte = "dial:write(0);accept:read(1);byte-with-eof:accepted;check(n==1,byte==0)"))

theorem acceptOfSource_eq : acceptOfSource = accept true := by
  have : decide (Receptor.Facts.stream_first_byte = "dial:write(0);accept:read(1);byte-with-eof:accepted;check(n==1,byte==0)") = true := by
    decide +kernel
  unfold acceptOfSource
  rw [this]

/-- **accept_exact.** Whatever the application wrote after dialling — nothing at all included — and however
the stream presents `0 :: d` to the listener (any chunk sizes, the end of the stream arriving with the last
bytes or on its own), the listener accepts the stream and hands the application a stream that carries
exactly `d`, followed by the end of the stream. -/
theorem accept_exact (d : Bytes) (rs : List ReadRes) (h : Delivers rs (dialled d)) :
    ∃ rest, acceptOfSource rs = .accepted rest ∧ Delivers rest d := by
  rw [acceptOfSource_eq]
  obtain ⟨r, rest, hr, hlen, hE, hN⟩ := readK_step 1 (Nat.le_refl 1) h
  refine ⟨rest, ?_, ?_⟩
  · cases hre : r.err with
    | true =>
      obtain ⟨hd, _⟩ := hE hre
      have hd0 : r.data = [0] := by
        rw [hd] at hlen ⊢
        simp only [dialled, List.length_cons] at hlen
        have : d = [] := List.eq_nil_of_length_eq_zero (by omega)
        rw [this, dialled]
      simp [accept, hr, hre, hd0]
    | false =>
      obtain ⟨hne, w', hw, _⟩ := hN hre
      have hd0 : r.data = [0] := by
        cases hrd : r.data with
        | nil => exact absurd hrd hne
        | cons x t =>
          rw [hrd] at hlen hw
          simp only [List.length_cons] at hlen
          have ht : t = [] := List.eq_nil_of_length_eq_zero (by omega)
          subst ht
          simp only [dialled, List.cons_append, List.nil_append, List.cons.injEq] at hw
          rw [← hw.1]
      simp [accept, hr, hre, hd0]
  · cases hre : r.err with
    | true =>
      obtain ⟨hd, hrest⟩ := hE hre
      rw [hd] at hlen
      simp only [dialled, List.length_cons] at hlen
      have : d = [] := List.eq_nil_of_length_eq_zero (by omega)
      rw [this, hrest]
      exact delivers_eofOnly
    | false =>
      obtain ⟨hne, w', hw, hdl⟩ := hN hre
      cases hrd : r.data with
      | nil => exact absurd hrd hne
      | cons x t =>
        rw [hrd] at hlen hw
        simp only [List.length_cons] at hlen
        have ht : t = [] := List.eq_nil_of_length_eq_zero (by omega)
        subst ht
        simp only [dialled, List.cons_append, List.nil_append, List.cons.injEq] at hw
        rw [hw.2]
        exact hdl

/-- **stream_end_to_end.** Dial, write `d` with any write boundaries, close the writing side; on the other
side accept and read with buffers of any sizes: the reads return consecutive slices of `d`, a read that
reports the end of the stream comes only after all of `d`, and `|d| + 1` reads always reach it. -/
theorem stream_end_to_end (d : Bytes) (rs : List ReadRes) (ks : List Nat) (h : Delivers rs (dialled d))
    (hks : ∀ k ∈ ks, 1 ≤ k) :
    ∃ rest, acceptOfSource rs = .accepted rest ∧
      (∃ tail, d = (readMany ks rest).flatMap (·.data) ++ tail) ∧
      (hasErr (readMany ks rest) = true → (readMany ks rest).flatMap (·.data) = d) ∧
      (d.length + 1 ≤ ks.length → hasErr (readMany ks rest) = true) := by
  obtain ⟨rest, ha, hd⟩ := accept_exact d rs h
  exact ⟨rest, ha, readMany_slices ks rest d hks hd⟩

/-- **relay_chain_exact.** Through any number of relays in a row (a `connect` session, a TCP or Unix-socket
proxy on either side of the mesh stream), each reading a faithful stream of what the previous one wrote,
the last one has written exactly the original bytes. -/
theorem relay_chain_exact : ∀ (stages : List (List ReadRes)) (w : Bytes), ChainDelivers stages w → chainOut stages w = w := by
  intro stages
  induction stages with
  | nil => intro w _; rfl
  | cons rs more ih =>
    intro w h
    obtain ⟨hd, hmore⟩ := h
    have hw : (bridgeHalf true {} rs {}).written = w := by
      rw [(bridge_copies_exactly rs).1]; exact hd.1
    simp only [chainOut]
    rw [ih _ hmore, hw]

/-- **accepted_then_relayed.** The pipeline of the `connect` command and of the proxies: the stream is
accepted and a relay copies it on — exactly the application's bytes arrive, then the destination is closed. -/
theorem accepted_then_relayed (d : Bytes) (rs : List ReadRes) (h : Delivers rs (dialled d)) :
    ∃ rest, acceptOfSource rs = .accepted rest ∧ (bridgeHalf true {} rest {}).written = d
      ∧ (bridgeHalf true {} rest {}).closed = true := by
  obtain ⟨rest, ha, hd⟩ := accept_exact d rs h
  obtain ⟨h1, h2⟩ := bridge_copies_exactly rest
  exact ⟨rest, ha, by rw [h1]; exact hd.1, by rw [h2]; exact hd.2.1⟩

/-- the hypotheses are satisfiable by non-trivial streams: three chunkings of `0 :: "hi!"` -/
example : Delivers [⟨[0, 104], false⟩, ⟨[105, 33], true⟩] (dialled [104, 105, 33])
    ∧ Delivers [⟨[0], false⟩, ⟨[104, 105, 33], false⟩, ⟨[], true⟩] (dialled [104, 105, 33])
    ∧ Delivers [⟨[0], true⟩] (dialled []) := by
  simp [Delivers, WF, upToFirstErr, hasErr, dialled]

/-- the defect repaired by e49e1d9, as a witness on the model: a listener that treats "byte together with
the end of the stream" as a read error refuses a stream whose dialler wrote nothing -/
theorem C03_witness_empty_dial_refused :
    accept false [⟨[0], true⟩] = .refusedReadError ∧ accept true [⟨[0], true⟩] = .accepted eofOnly := by
  decide

end Receptor.StreamEnd
