import Receptor.Model.Ads
namespace Receptor.Ads

theorem get?_erase_self (s : State) (k : Node × Svc) : get? (erase s k) k = none := by
  simp only [get?, erase]
  have : (s.table.filter fun e => e.1 != k).find? (fun e => e.1 == k) = none := by
    rw [List.find?_eq_none]
    intro x hx
    simp only [List.mem_filter] at hx
    simp at hx ⊢
    exact hx.2
  simp [this]

theorem find_filter_ne {α} (l : List ((Node × Svc) × α)) (k k' : Node × Svc) (h : k' ≠ k) :
    (l.filter fun e => e.1 != k).find? (fun e => e.1 == k') = l.find? (fun e => e.1 == k') := by
  induction l with
  | nil => rfl
  | cons e es ih =>
    simp only [List.filter]
    by_cases hk : e.1 = k
    · have : (e.1 != k) = false := by simp [hk]
      simp only [this]
      rw [ih]
      have : (e.1 == k') = false := by simp [hk, Ne.symm h]
      simp [List.find?, this]
    · have : (e.1 != k) = true := by simp [hk]
      simp only [this, List.find?]
      by_cases hk' : e.1 = k'
      · simp [hk']
      · have : (e.1 == k') = false := by simp [hk']
        simp only [this]
        exact ih

theorem get?_erase_other (s : State) (k k' : Node × Svc) (h : k' ≠ k) : get? (erase s k) k' = get? s k' := by
  simp only [get?, erase]
  rw [find_filter_ne _ _ _ h]

theorem get?_put_self (s : State) (k : Node × Svc) (v : Entry) : get? (put s k v) k = some v := by
  simp only [get?, put]
  rw [List.find?_append]
  have h1 := get?_erase_self s k
  simp only [get?] at h1
  cases hf : (erase s k).table.find? (fun e => e.1 == k) with
  | none => simp [List.find?]
  | some x => rw [hf] at h1; simp at h1

theorem get?_put_other (s : State) (k k' : Node × Svc) (v : Entry) (h : k' ≠ k) : get? (put s k v) k' = get? s k' := by
  simp only [get?, put]
  rw [List.find?_append]
  have : ([(k, v)] : List ((Node × Svc) × Entry)).find? (fun e => e.1 == k') = none := by
    have : (k == k') = false := by simp [Ne.symm h]
    simp [List.find?, this]
  rw [this]
  have h2 := get?_erase_other s k k' h
  simp only [get?] at h2
  cases hf : (erase s k).table.find? (fun e => e.1 == k') with
  | none => rw [hf] at h2; simp [← h2]
  | some x => rw [hf] at h2; simp [← h2]

/-- what one message does to the entry of its own key -/
def upd (tombstones : Bool) (cur : Option Entry) (m : Msg) : Option Entry :=
  match cur with
  | some c => if m.time > c.time then
      (if m.cancel then (if tombstones then some (.tomb m.time) else none) else some (.live m.time m.info))
    else some c
  | none => if m.cancel then (if tombstones then some (.tomb m.time) else none) else some (.live m.time m.info)

/-- keys are independent: a step changes only the entry of the message's own key, by `upd` -/
theorem step_get? (tb : Bool) (s : State) (m : Msg) (recv : Node) (k : Node × Svc) :
    get? (step tb s m recv).1 k = if k = (m.node, m.svc) then upd tb (get? s k) m else get? s k := by
  unfold step
  by_cases hk : k = (m.node, m.svc)
  · subst hk
    simp only [if_true]
    cases hc : get? s (m.node, m.svc) with
    | none =>
      simp only [upd]
      by_cases hcan : m.cancel = true
      · simp only [hcan, if_true]
        cases tb <;> simp [get?_put_self, hc]
      · simp [hcan, get?_put_self]
    | some cur =>
      simp only [upd]
      by_cases hnew : m.time > cur.time
      · simp only [hnew, if_true]
        by_cases hcan : m.cancel = true
        · simp only [hcan, if_true]
          cases tb <;> simp [get?_put_self, get?_erase_self]
        · simp [hcan, get?_put_self]
      · simp [hnew, hc]
  · simp only [hk, if_false]
    cases hc : get? s (m.node, m.svc) with
    | none =>
      simp only
      by_cases hcan : m.cancel = true
      · simp only [hcan, if_true]
        cases tb <;> simp [get?_put_other _ _ _ _ hk]
      · simp [hcan, get?_put_other _ _ _ _ hk]
    | some cur =>
      simp only
      by_cases hnew : m.time > cur.time
      · simp only [hnew, if_true]
        by_cases hcan : m.cancel = true
        · simp only [hcan, if_true]
          cases tb <;> simp [get?_put_other _ _ _ _ hk, get?_erase_other _ _ _ hk]
        · simp [hcan, get?_put_other _ _ _ _ hk]
      · simp [hnew]

end Receptor.Ads
