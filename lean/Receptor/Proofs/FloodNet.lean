/-!
# Network-level flooding round theorem (C01 protocol layer, simplified setting)

Bag delivery on every directed link (covers FIFO and the code's goroutine-per-write reordering),
arbitrary interleaving of `originate` and `deliver`, static symmetric irreflexive topology, one
epoch, no suspected-duplicate notices.  See DESIGN.md §5 C01 and Appendix A.
-/
namespace Receptor.FloodNet

-- ===== from prototype Flood.lean =====
/-! Feasibility prototype: one flooding round from a quiescent state yields the true adjacency
    at every node of the component (C01 protocol layer). Static symmetric topology. -/
abbrev Node := Nat
abbrev UId := Nat
abbrev Adj := List (Node × Nat)

structure Update where
  origin : Node
  id : UId
  seq : Nat
  conns : Adj
deriving DecidableEq

structure NodeSt where
  info  : Node → Option Nat
  known : Node → Option Adj
  seen  : List UId

structure Net where
  st   : Node → NodeSt
  q    : Node → Node → List Update
  seq  : Node → Nat
  cur  : Node → Option UId      -- ghost: id of the latest own update
  used : List UId

def hasKey (l : Adj) (x : Node) : Bool := l.any (fun e => e.1 == x)

/-- handleRoutingUpdate's prune: every other origin that the update does not list loses its edge to the update's origin -/
def prune (me : Node) (u : Update) (k : Node → Option Adj) : Node → Option Adj := fun x =>
  if x = me then k x
  else if hasKey u.conns x then k x
  else (k x).map (fun l => l.filter (fun e => e.1 != u.origin))

def accept (me : Node) (s : NodeSt) (u : Update) : NodeSt :=
  let k1 : Node → Option Adj := fun x => if x = u.origin then some u.conns else s.known x
  { info := fun x => if x = u.origin then some u.seq else s.info x
    known := if s.known u.origin = some u.conns then s.known else prune me u k1
    seen := s.seen }

/-- returns new state and whether the update is relayed -/
def handle (me : Node) (s : NodeSt) (u : Update) : NodeSt × Bool :=
  if u.origin = me then (s, false)
  else if u.id ∈ s.seen then (s, false)
  else
    let s1 : NodeSt := { s with seen := u.id :: s.seen }
    match s.info u.origin with
    | some k => if u.seq ≤ k then (s1, false) else (accept me s1 u, true)
    | none => (accept me s1 u, true)

variable (adj : Node → Adj)

def nbr (a b : Node) : Prop := hasKey (adj a) b = true

def originate (σ : Net) (m : Node) (i : UId) : Net :=
  let u : Update := ⟨m, i, σ.seq m + 1, adj m⟩
  { st := σ.st
    q := fun a b => if a = m ∧ hasKey (adj m) b then u :: σ.q a b else σ.q a b
    seq := fun x => if x = m then σ.seq m + 1 else σ.seq x
    cur := fun x => if x = m then some i else σ.cur x
    used := i :: σ.used }

def deliverR (σ : Net) (a b : Node) (u : Update) (r : NodeSt × Bool) : Net :=
  { st := fun x => if x = b then r.1 else σ.st x
    q := fun x y =>
      if x = a ∧ y = b then (σ.q a b).erase u
      else if r.2 = true ∧ x = b ∧ y ≠ a ∧ hasKey (adj b) y then u :: σ.q x y
      else σ.q x y
    seq := σ.seq
    cur := σ.cur
    used := σ.used }

def deliver (σ : Net) (a b : Node) (u : Update) : Net :=
  deliverR adj σ a b u (handle b (σ.st b) u)

inductive Step : Net → Net → Prop
  | orig (σ : Net) (m : Node) (i : UId) : i ∉ σ.used → Step σ (originate adj σ m i)
  | dlv (σ : Net) (a b : Node) (u : Update) : u ∈ σ.q a b → Step σ (deliver adj σ a b u)

inductive Reach (σ0 : Net) : Net → Prop
  | base : Reach σ0 σ0
  | step {σ σ'} : Reach σ0 σ → Step adj σ σ' → Reach σ0 σ'

variable {adj : Node → Adj}

/-! ### case analysis of `handle` -/
inductive HCase (me : Node) (s : NodeSt) (u : Update) : NodeSt × Bool → Prop
  | self : u.origin = me → HCase me s u (s, false)
  | dup : u.origin ≠ me → u.id ∈ s.seen → HCase me s u (s, false)
  | stale (k : Nat) : u.origin ≠ me → u.id ∉ s.seen → s.info u.origin = some k → u.seq ≤ k →
      HCase me s u ({ s with seen := u.id :: s.seen }, false)
  | acc : u.origin ≠ me → u.id ∉ s.seen → (∀ k, s.info u.origin = some k → k < u.seq) →
      HCase me s u (accept me { s with seen := u.id :: s.seen } u, true)

theorem handle_cases (me : Node) (s : NodeSt) (u : Update) : HCase me s u (handle me s u) := by
  unfold handle
  by_cases h1 : u.origin = me
  · simp only [h1, if_true]; exact HCase.self h1
  · simp only [h1, if_false]
    by_cases h2 : u.id ∈ s.seen
    · simp only [h2, if_true]; exact HCase.dup h1 h2
    · simp only [h2, if_false]
      cases hk : s.info u.origin with
      | none =>
        simp only
        exact HCase.acc h1 h2 (by intro k hk'; rw [hk] at hk'; cases hk')
      | some k =>
        simp only
        by_cases h3 : u.seq ≤ k
        · simp only [h3, if_true]; exact HCase.stale k h1 h2 hk h3
        · simp only [h3, if_false]
          exact HCase.acc h1 h2 (by intro k' hk'; rw [hk] at hk'; cases hk'; omega)

/-! ### adjacency facts -/
structure Topo (adj : Node → Adj) : Prop where
  sym : ∀ a b, hasKey (adj a) b = true → hasKey (adj b) a = true
  irrefl : ∀ a, hasKey (adj a) a = false

theorem filter_ne_self_of_not_key (l : Adj) (o : Node) (h : hasKey l o = false) :
    l.filter (fun e => e.1 != o) = l := by
  apply List.filter_eq_self.mpr
  intro e he
  simp only [hasKey, List.any_eq_false] at h
  have := h e he
  simpa using this

def Upd (σ : Net) (n m : Node) : Prop := (σ.st n).info m = some (σ.seq m)

structure Good (adj : Node → Adj) (seq0 : Node → Nat) (σ : Net) : Prop where
  seqMono : ∀ m, seq0 m ≤ σ.seq m
  noFuture : ∀ n m k, (σ.st n).info m = some k → k ≤ σ.seq m
  seenUsed : ∀ n i, i ∈ (σ.st n).seen → i ∈ σ.used
  curUsed : ∀ m i, σ.cur m = some i → i ∈ σ.used
  qOk : ∀ a b u, u ∈ σ.q a b → hasKey (adj a) b = true ∧ u.seq ≤ σ.seq u.origin ∧ u.id ∈ σ.used ∧
          u.conns = adj u.origin
  qCur : ∀ a b u, u ∈ σ.q a b → u.seq = σ.seq u.origin → σ.cur u.origin = some u.id ∧ (a = u.origin ∨ Upd σ a u.origin)
  idUniq : ∀ a b u m, u ∈ σ.q a b → σ.cur m = some u.id → u.origin = m ∧ u.seq = σ.seq m
  seenCur : ∀ c m i, σ.cur m = some i → i ∈ (σ.st c).seen → c ≠ m → Upd σ c m
  K : ∀ m, seq0 m < σ.seq m → ∀ n, (n = m ∨ Upd σ n m) → ∀ b, hasKey (adj n) b = true → b ≠ m →
        Upd σ b m ∨ ∃ u, u ∈ σ.q n b ∧ u.origin = m ∧ u.seq = σ.seq m ∧ u.id ∉ (σ.st b).seen
  K2 : ∀ n m, n ≠ m → seq0 m < σ.seq m → Upd σ n m → (σ.st n).known m = some (adj m)

/-! ### originate preserves Good -/
theorem good_originate {seq0 : Node → Nat} {σ : Net} (ht : Topo adj) (hg : Good adj seq0 σ)
    (m : Node) (i : UId) (hi : i ∉ σ.used) : Good adj seq0 (originate adj σ m i) := by
  have updNe : ∀ n x, x ≠ m → (Upd (originate adj σ m i) n x ↔ Upd σ n x) := by
    intro n x hx; simp [Upd, originate, hx]
  have updM : ∀ n, ¬ Upd (originate adj σ m i) n m := by
    intro n h
    simp only [Upd, originate, if_true] at h
    have := hg.noFuture n m _ h; omega
  have memq : ∀ a b u, u ∈ (originate adj σ m i).q a b →
      u ∈ σ.q a b ∨ (u = ⟨m, i, σ.seq m + 1, adj m⟩ ∧ a = m ∧ hasKey (adj m) b = true) := by
    intro a b u hu
    simp only [originate] at hu
    split at hu
    · rename_i hc
      rcases List.mem_cons.mp hu with h | h
      · right; exact ⟨h, hc.1, hc.2⟩
      · left; exact h
    · left; exact hu
  have qmono : ∀ a b u, u ∈ σ.q a b → u ∈ (originate adj σ m i).q a b := by
    intro a b u hu
    simp only [originate]
    split
    · exact List.mem_cons_of_mem _ hu
    · exact hu
  refine ⟨?_, ?_, ?_, ?_, ?_, ?_, ?_, ?_, ?_, ?_⟩
  · intro x; have := hg.seqMono x; simp only [originate]; split <;> (try subst_vars) <;> omega
  · intro n x k hk
    have := hg.noFuture n x k (by simpa [originate] using hk)
    simp only [originate]; split <;> (try subst_vars) <;> omega
  · intro n j hj
    have := hg.seenUsed n j (by simpa [originate] using hj)
    simp [originate, this]
  · intro x j hj
    simp only [originate] at hj ⊢
    split at hj
    · cases hj; simp
    · exact List.mem_cons_of_mem _ (hg.curUsed x j hj)
  · intro a b u hu
    rcases memq a b u hu with h | ⟨h, ha, hb⟩
    · obtain ⟨h1, h2, h3, h4⟩ := hg.qOk a b u h
      refine ⟨h1, ?_, by simp [originate, h3], h4⟩
      simp only [originate]; split <;> (try subst_vars) <;> omega
    · subst h; subst ha
      exact ⟨hb, by simp [originate], by simp [originate], rfl⟩
  · intro a b u hu hseq
    rcases memq a b u hu with h | ⟨h, ha, hb⟩
    · have hne : u.origin ≠ m := by
        intro he
        have := (hg.qOk a b u h).2.1
        simp only [originate, he, if_true] at hseq
        rw [he] at this; omega
      have hseq' : u.seq = σ.seq u.origin := by simpa [originate, hne] using hseq
      obtain ⟨h1, h2⟩ := hg.qCur a b u h hseq'
      refine ⟨by simpa [originate, hne] using h1, ?_⟩
      rcases h2 with h2 | h2
      · left; exact h2
      · right; exact (updNe a _ hne).mpr h2
    · subst h; subst ha
      exact ⟨by simp [originate], Or.inl rfl⟩
  · intro a b u x hu hc
    rcases memq a b u hu with h | ⟨h, ha, hb⟩
    · have hid := (hg.qOk a b u h).2.2.1
      by_cases hx : x = m
      · subst hx
        simp only [originate, if_true] at hc
        cases hc; exact absurd hid hi
      · have hc' : σ.cur x = some u.id := by simpa [originate, hx] using hc
        obtain ⟨h1, h2⟩ := hg.idUniq a b u x h hc'
        exact ⟨h1, by simp [originate, hx, h2]⟩
    · subst h; subst ha
      by_cases hx : x = a
      · subst hx; exact ⟨rfl, by simp [originate]⟩
      · have hc' : σ.cur x = some i := by simpa [originate, hx] using hc
        exact absurd (hg.curUsed x i hc') hi
  · intro c x j hc hj hcx
    have hj' : j ∈ (σ.st c).seen := by simpa [originate] using hj
    by_cases hx : x = m
    · subst hx
      simp only [originate, if_true] at hc
      cases hc
      exact absurd (hg.seenUsed c _ hj') hi
    · have hc' : σ.cur x = some j := by simpa [originate, hx] using hc
      exact (updNe c x hx).mpr (hg.seenCur c x j hc' hj' hcx)
  · intro x hx n hn b hb hbx
    by_cases hxm : x = m
    · subst hxm
      have hnm : n = x := by
        rcases hn with h | h
        · exact h
        · exact absurd h (updM n)
      subst hnm
      right
      refine ⟨⟨n, i, σ.seq n + 1, adj n⟩, ?_, rfl, by simp [originate], ?_⟩
      · simp [originate, hb]
      · intro hmem
        have : i ∈ (σ.st b).seen := by simpa [originate] using hmem
        exact hi (hg.seenUsed b i this)
    · have hx' : seq0 x < σ.seq x := by simpa [originate, hxm] using hx
      have hn' : n = x ∨ Upd σ n x := by
        rcases hn with h | h
        · left; exact h
        · right; exact (updNe n x hxm).mp h
      rcases hg.K x hx' n hn' b hb hbx with h | ⟨u, hu, h1, h2, h3⟩
      · left; exact (updNe b x hxm).mpr h
      · right
        exact ⟨u, qmono _ _ _ hu, h1, by simp [originate, hxm, h2], by simpa [originate] using h3⟩
  · intro n x hnx hx hupd
    by_cases hxm : x = m
    · subst hxm; exact absurd hupd (updM n)
    · have hx' : seq0 x < σ.seq x := by simpa [originate, hxm] using hx
      have := hg.K2 n x hnx hx' ((updNe n x hxm).mp hupd)
      simpa [originate] using this


-- ===== from prototype Flood2.lean =====
variable {adj : Node → Adj}

theorem mem_deliver_q {σ : Net} {a b : Node} {u u' : Update} {x y : Node} {r : NodeSt × Bool}
    (h : u' ∈ (deliverR adj σ a b u r).q x y) :
    u' ∈ σ.q x y ∨ (u' = u ∧ r.2 = true ∧ x = b ∧ y ≠ a ∧ hasKey (adj b) y = true) := by
  simp only [deliverR] at h
  split at h
  · rename_i hc; obtain ⟨rfl, rfl⟩ := hc
    left; exact List.mem_of_mem_erase h
  · split at h
    · rename_i hc
      rcases List.mem_cons.mp h with h | h
      · right; exact ⟨h, hc.1, hc.2.1, hc.2.2.1, hc.2.2.2⟩
      · left; exact h
    · left; exact h

theorem mem_q_deliver {σ : Net} {a b : Node} {u u' : Update} {x y : Node} {r : NodeSt × Bool}
    (h : u' ∈ σ.q x y) (hne : ¬(x = a ∧ y = b) ∨ u' ≠ u) : u' ∈ (deliverR adj σ a b u r).q x y := by
  simp only [deliverR]
  split
  · rename_i hc; obtain ⟨rfl, rfl⟩ := hc
    rcases hne with hne | hne
    · exact absurd ⟨rfl, rfl⟩ hne
    · exact (List.mem_erase_of_ne hne).mpr h
  · split
    · exact List.mem_cons_of_mem _ h
    · exact h

theorem relayed_mem {σ : Net} {a b : Node} {u : Update} {y : Node} {r : NodeSt × Bool}
    (hr : r.2 = true) (hab : a ≠ b) (hy : y ≠ a) (hk : hasKey (adj b) y = true) :
    u ∈ (deliverR adj σ a b u r).q b y := by
  simp only [deliverR]
  have h1 : ¬ (b = a ∧ y = b) := fun h => hab h.1.symm
  simp [h1, hr, hy, hk]

@[simp] theorem deliver_seq (σ : Net) (a b u) (r : NodeSt × Bool) : (deliverR adj σ a b u r).seq = σ.seq := rfl
@[simp] theorem deliver_cur (σ : Net) (a b u) (r : NodeSt × Bool) : (deliverR adj σ a b u r).cur = σ.cur := rfl
@[simp] theorem deliver_used (σ : Net) (a b u) (r : NodeSt × Bool) : (deliverR adj σ a b u r).used = σ.used := rfl
theorem deliver_st_ne (σ : Net) (a b u) (r : NodeSt × Bool) (x) (h : x ≠ b) : (deliverR adj σ a b u r).st x = σ.st x := by
  simp [deliverR, h]
theorem deliver_st_b (σ : Net) (a b u) (r : NodeSt × Bool) : (deliverR adj σ a b u r).st b = r.1 := by
  simp [deliverR]

/-- info after accept -/
theorem accept_info (me : Node) (s : NodeSt) (u : Update) (x : Node) :
    (accept me s u).info x = if x = u.origin then some u.seq else s.info x := rfl
theorem accept_seen (me : Node) (s : NodeSt) (u : Update) : (accept me s u).seen = s.seen := rfl

/-- known after accept, for an origin other than `me`, when the update carries the true adjacency -/
theorem accept_known_origin (ht : Topo adj) (me : Node) (s : NodeSt) (u : Update)
    (hme : u.origin ≠ me) (hc : u.conns = adj u.origin) :
    (accept me s u).known u.origin = some (adj u.origin) := by
  simp only [accept]
  split
  · rename_i h; rw [h, hc]
  · simp only [prune, hme, if_false]
    have : hasKey u.conns u.origin = false := by rw [hc]; exact ht.irrefl _
    simp only [this, Bool.false_eq_true, if_false, if_true, Option.map_some]
    rw [hc, filter_ne_self_of_not_key _ _ (ht.irrefl _)]

theorem accept_known_other (ht : Topo adj) (me : Node) (s : NodeSt) (u : Update) (m : Node)
    (hm : m ≠ u.origin) (hmme : m ≠ me) (hc : u.conns = adj u.origin)
    (hk : s.known m = some (adj m)) :
    (accept me s u).known m = some (adj m) := by
  simp only [accept]
  split
  · exact hk
  · simp only [prune, hmme, if_false, hm]
    split
    · exact hk
    · rename_i hnk
      rw [hk, Option.map_some]
      congr 1
      apply filter_ne_self_of_not_key
      -- u.origin ∉ adj m, else m ∈ adj u.origin by symmetry
      cases hh : hasKey (adj m) u.origin with
      | false => rfl
      | true =>
        have := ht.sym m u.origin hh
        rw [hc] at hnk
        exact absurd this hnk


-- ===== from prototype Flood3.lean =====
variable {adj : Node → Adj}

theorem nbr_ne (ht : Topo adj) {a b : Node} (h : hasKey (adj a) b = true) : a ≠ b := by
  intro e; subst e; rw [ht.irrefl a] at h; cases h

/-- delivery that changes neither `info` nor `known` at the receiver and relays nothing
    (own update, duplicate id, or stale update) -/
theorem good_deliver_frame (ht : Topo adj) {seq0 : Node → Nat} {σ : Net} (hg : Good adj seq0 σ)
    {a b : Node} {u : Update} (hu : u ∈ σ.q a b) (r : NodeSt × Bool)
    (hinfo : r.1.info = (σ.st b).info) (hknown : r.1.known = (σ.st b).known) (hrel : r.2 = false)
    (hseen : (r.1.seen = (σ.st b).seen ∧ (u.origin = b ∨ u.id ∈ (σ.st b).seen)) ∨
             (r.1.seen = u.id :: (σ.st b).seen ∧ u.origin ≠ b ∧
               ∃ k, (σ.st b).info u.origin = some k ∧ u.seq ≤ k)) :
    Good adj seq0 (deliverR adj σ a b u r) := by
  obtain ⟨hab, huseq, huid, huconns⟩ := hg.qOk a b u hu
  have hst : ∀ x, ((deliverR adj σ a b u r).st x).info = (σ.st x).info := by
    intro x; by_cases hx : x = b
    · subst hx; rw [deliver_st_b]; exact hinfo
    · rw [deliver_st_ne _ _ _ _ _ _ hx]
  have hkn : ∀ x, ((deliverR adj σ a b u r).st x).known = (σ.st x).known := by
    intro x; by_cases hx : x = b
    · subst hx; rw [deliver_st_b]; exact hknown
    · rw [deliver_st_ne _ _ _ _ _ _ hx]
  have upd : ∀ n m, Upd (deliverR adj σ a b u r) n m ↔ Upd σ n m := by
    intro n m; simp only [Upd, hst, deliver_seq]
  have memq : ∀ x y u', u' ∈ (deliverR adj σ a b u r).q x y → u' ∈ σ.q x y := by
    intro x y u' h
    rcases mem_deliver_q h with h | ⟨_, h2, _⟩
    · exact h
    · rw [hrel] at h2; cases h2
  -- if the stale update's id is the current id of m, the receiver is already up to date
  have staleUpd : ∀ m, (r.1.seen = u.id :: (σ.st b).seen) → σ.cur m = some u.id → Upd σ b m := by
    intro m hs hc
    rcases hseen with ⟨hs', _⟩ | ⟨_, _, k, hk, hle⟩
    · -- seen unchanged contradicts hs only if list equal to cons of itself; derive by length
      have : (σ.st b).seen.length = (u.id :: (σ.st b).seen).length := by rw [← hs, hs']
      simp at this
    · obtain ⟨ho, hsq⟩ := hg.idUniq a b u m hu hc
      subst ho
      have := hg.noFuture b _ k hk
      have hk' : k = σ.seq u.origin := by omega
      subst hk'; exact hk
  have seenb : ∀ j, j ∈ r.1.seen → j ∈ (σ.st b).seen ∨ (r.1.seen = u.id :: (σ.st b).seen ∧ j = u.id) := by
    intro j hj
    rcases hseen with ⟨hs, _⟩ | ⟨hs, _⟩
    · left; rw [hs] at hj; exact hj
    · rw [hs] at hj
      rcases List.mem_cons.mp hj with h | h
      · right; exact ⟨hs, h⟩
      · left; exact h
  refine ⟨hg.seqMono, ?_, ?_, hg.curUsed, ?_, ?_, ?_, ?_, ?_, ?_⟩
  · intro n m k hk; rw [hst] at hk; exact hg.noFuture n m k hk
  · intro n j hj
    by_cases hn : n = b
    · subst hn; rw [deliver_st_b] at hj
      rcases seenb j hj with h | ⟨_, h⟩
      · exact hg.seenUsed n j h
      · subst h; exact huid
    · rw [deliver_st_ne _ _ _ _ _ _ hn] at hj; exact hg.seenUsed n j hj
  · intro x y u' h; exact hg.qOk x y u' (memq x y u' h)
  · intro x y u' h hs
    obtain ⟨h1, h2⟩ := hg.qCur x y u' (memq x y u' h) hs
    exact ⟨h1, h2.imp id (fun h => (upd _ _).mpr h)⟩
  · intro x y u' m h hc; exact hg.idUniq x y u' m (memq x y u' h) hc
  · intro c m j hc hj hcm
    rw [upd]
    by_cases hcb : c = b
    · subst hcb; rw [deliver_st_b] at hj
      rcases seenb j hj with h | ⟨hs, h⟩
      · exact hg.seenCur c m j hc h hcm
      · subst h; exact staleUpd m hs hc
    · rw [deliver_st_ne _ _ _ _ _ _ hcb] at hj; exact hg.seenCur c m j hc hj hcm
  · intro m hm n hn b' hb' hb'm
    have hn' : n = m ∨ Upd σ n m := hn.imp id (fun h => (upd _ _).mp h)
    rcases hg.K m hm n hn' b' hb' hb'm with h | ⟨u', hu', ho, hs, hid⟩
    · left; exact (upd _ _).mpr h
    · by_cases hb'b : b' = b
      · subst hb'b
        rcases hseen with ⟨hs', hw⟩ | ⟨hs', hob, k, hk, hle⟩
        · right
          refine ⟨u', mem_q_deliver hu' (Or.inr ?_), ho, hs, ?_⟩
          · intro e; subst e
            rcases hw with hw | hw
            · exact hb'm (by rw [← hw, ho])
            · exact hid hw
          · rw [deliver_st_b, hs']; exact hid
        · by_cases hid' : u'.id = u.id
          · left
            have hcur := (hg.qCur n b' u' hu' (by rw [ho]; exact hs)).1
            rw [ho, hid'] at hcur
            exact (upd _ _).mpr (staleUpd m hs' hcur)
          · right
            refine ⟨u', mem_q_deliver hu' (Or.inr (fun e => hid' (by rw [e]))), ho, hs, ?_⟩
            rw [deliver_st_b, hs']
            intro hmem
            rcases List.mem_cons.mp hmem with h | h
            · exact hid' h
            · exact hid h
      · right
        refine ⟨u', mem_q_deliver hu' (Or.inl (fun h => hb'b h.2)), ho, hs, ?_⟩
        rw [deliver_st_ne _ _ _ _ _ _ hb'b]; exact hid
  · intro n m hnm hm hupd
    rw [hkn]; exact hg.K2 n m hnm hm ((upd _ _).mp hupd)


-- ===== from prototype Flood4.lean =====
variable {adj : Node → Adj}

/-- delivery of an update that is accepted (newer than what the receiver knows) and relayed -/
theorem good_deliver_accept (ht : Topo adj) {seq0 : Node → Nat} {σ : Net} (hg : Good adj seq0 σ)
    {a b : Node} {u : Update} (hu : u ∈ σ.q a b)
    (hob : u.origin ≠ b) (hns : u.id ∉ (σ.st b).seen)
    (hlt : ∀ k, (σ.st b).info u.origin = some k → k < u.seq) :
    Good adj seq0 (deliverR adj σ a b u
      (accept b { σ.st b with seen := u.id :: (σ.st b).seen } u, true)) := by
  obtain ⟨hab, huseq, huid, huconns⟩ := hg.qOk a b u hu
  have hneab : a ≠ b := nbr_ne ht hab
  generalize hr : (accept b { σ.st b with seen := u.id :: (σ.st b).seen } u, true) = r
  have hr1 : r.1 = accept b { σ.st b with seen := u.id :: (σ.st b).seen } u := by rw [← hr]
  have hr2 : r.2 = true := by rw [← hr]
  have infob : ∀ x, ((deliverR adj σ a b u r).st b).info x =
      if x = u.origin then some u.seq else (σ.st b).info x := by
    intro x; rw [deliver_st_b, hr1, accept_info]
  have seenb : ((deliverR adj σ a b u r).st b).seen = u.id :: (σ.st b).seen := by
    rw [deliver_st_b, hr1, accept_seen]
  have notUpd : ¬ Upd σ b u.origin := by
    intro h; have := hlt _ h; omega
  have updNe : ∀ n m, ¬ (n = b ∧ m = u.origin) → (Upd (deliverR adj σ a b u r) n m ↔ Upd σ n m) := by
    intro n m hnm
    simp only [Upd, deliver_seq]
    by_cases hn : n = b
    · subst hn
      have hm : m ≠ u.origin := fun h => hnm ⟨rfl, h⟩
      rw [infob, if_neg hm]
    · rw [deliver_st_ne _ _ _ _ _ _ hn]
  have updBO : Upd (deliverR adj σ a b u r) b u.origin ↔ u.seq = σ.seq u.origin := by
    simp only [Upd, deliver_seq, infob, if_true]
    constructor
    · intro h; exact Option.some.inj h
    · intro h; rw [h]
  refine ⟨hg.seqMono, ?_, ?_, hg.curUsed, ?_, ?_, ?_, ?_, ?_, ?_⟩
  · -- noFuture
    intro n m k hk
    by_cases hn : n = b
    · subst hn
      rw [infob] at hk
      split at hk
      · rename_i hm; subst hm; cases hk; exact huseq
      · exact hg.noFuture n m k hk
    · rw [deliver_st_ne _ _ _ _ _ _ hn] at hk; exact hg.noFuture n m k hk
  · -- seenUsed
    intro n j hj
    by_cases hn : n = b
    · subst hn; rw [seenb] at hj
      rcases List.mem_cons.mp hj with h | h
      · subst h; exact huid
      · exact hg.seenUsed n j h
    · rw [deliver_st_ne _ _ _ _ _ _ hn] at hj; exact hg.seenUsed n j hj
  · -- qOk
    intro x y u' h
    rcases mem_deliver_q h with h | ⟨h1, _, hx, _, hy⟩
    · exact hg.qOk x y u' h
    · subst h1; subst hx; exact ⟨hy, huseq, huid, huconns⟩
  · -- qCur
    intro x y u' h hs
    simp only [deliver_seq] at hs
    rcases mem_deliver_q h with h | ⟨h1, _, hx, _, hy⟩
    · obtain ⟨h1, h2⟩ := hg.qCur x y u' h hs
      refine ⟨h1, ?_⟩
      rcases h2 with h2 | h2
      · left; exact h2
      · by_cases hc : x = b ∧ u'.origin = u.origin
        · obtain ⟨hx, ho⟩ := hc
          subst hx; rw [ho] at h2; exact absurd h2 notUpd
        · right; exact (updNe _ _ hc).mpr h2
    · subst h1; subst hx
      exact ⟨(hg.qCur a x u' hu hs).1, Or.inr (updBO.mpr hs)⟩
  · -- idUniq
    intro x y u' m h hc
    rcases mem_deliver_q h with h | ⟨h1, _, _, _, _⟩
    · exact hg.idUniq x y u' m h hc
    · subst h1; exact hg.idUniq a b u' m hu hc
  · -- seenCur
    intro c m j hc hj hcm
    simp only [deliver_cur] at hc
    by_cases hcb : c = b
    · subst hcb
      rw [seenb] at hj
      rcases List.mem_cons.mp hj with h | h
      · subst h
        obtain ⟨ho, hs⟩ := hg.idUniq a c u m hu hc
        subst ho; exact updBO.mpr hs
      · have hold := hg.seenCur c m j hc h hcm
        by_cases hmo : m = u.origin
        · subst hmo; exact absurd hold notUpd
        · exact (updNe _ _ (fun hh => hmo hh.2)).mpr hold
    · rw [deliver_st_ne _ _ _ _ _ _ hcb] at hj
      exact (updNe _ _ (fun hh => hcb hh.1)).mpr (hg.seenCur c m j hc hj hcm)
  · -- K
    intro m hm n hn b' hb' hb'm
    simp only [deliver_seq] at hm ⊢
    by_cases hcase : n = b ∧ m = u.origin
    · -- the receiver has just become up to date about m = origin (or is claimed to be)
      obtain ⟨hnb, hmo⟩ := hcase
      subst hnb; subst hmo
      have hsq : u.seq = σ.seq u.origin := by
        rcases hn with h | h
        · exact absurd h.symm hob
        · exact updBO.mp h
      have hb'n : b' ≠ n := fun e => by subst e; rw [ht.irrefl] at hb'; cases hb'
      obtain ⟨hcur, hsender⟩ := hg.qCur a n u hu hsq
      by_cases hb'a : b' = a
      · subst hb'a
        rcases hsender with h | h
        · exact absurd h hb'm
        · left; exact (updNe _ _ (fun hh => hb'n hh.1)).mpr h
      · by_cases hseen' : u.id ∈ (σ.st b').seen
        · left
          exact (updNe _ _ (fun hh => hb'n hh.1)).mpr (hg.seenCur b' _ _ hcur hseen' hb'm)
        · right
          refine ⟨u, relayed_mem hr2 hneab hb'a hb', rfl, hsq, ?_⟩
          rw [deliver_st_ne _ _ _ _ _ _ hb'n]; exact hseen'
    · have hn' : n = m ∨ Upd σ n m := hn.imp id (fun h => (updNe _ _ hcase).mp h)
      rcases hg.K m hm n hn' b' hb' hb'm with h | ⟨u', hu', ho, hs, hid⟩
      · left
        by_cases hc2 : b' = b ∧ m = u.origin
        · obtain ⟨h1, h2⟩ := hc2; subst h1; subst h2; exact absurd h notUpd
        · exact (updNe _ _ hc2).mpr h
      · by_cases hb'b : b' = b
        · subst hb'b
          by_cases hid' : u'.id = u.id
          · left
            have hcur := (hg.qCur n b' u' hu' (by rw [ho]; exact hs)).1
            rw [ho, hid'] at hcur
            obtain ⟨hoo, hss⟩ := hg.idUniq a b' u m hu hcur
            subst hoo; exact updBO.mpr hss
          · right
            refine ⟨u', mem_q_deliver hu' (Or.inr (fun e => hid' (by rw [e]))), ho, hs, ?_⟩
            rw [seenb]
            intro hmem
            rcases List.mem_cons.mp hmem with h | h
            · exact hid' h
            · exact hid h
        · right
          refine ⟨u', mem_q_deliver hu' (Or.inl (fun h => hb'b h.2)), ho, hs, ?_⟩
          rw [deliver_st_ne _ _ _ _ _ _ hb'b]; exact hid
  · -- K2
    intro n m hnm hm hupd
    simp only [deliver_seq] at hm
    by_cases hn : n = b
    · subst hn
      rw [deliver_st_b, hr1]
      by_cases hmo : m = u.origin
      · subst hmo; exact accept_known_origin ht n _ u hob huconns
      · have hold := hg.K2 n m hnm hm ((updNe _ _ (fun hh => hmo hh.2)).mp hupd)
        exact accept_known_other ht n _ u m hmo (Ne.symm hnm) huconns hold
    · rw [deliver_st_ne _ _ _ _ _ _ hn]
      exact hg.K2 n m hnm hm ((updNe _ _ (fun hh => hn hh.1)).mp hupd)


-- ===== from prototype Flood5.lean =====
variable {adj : Node → Adj}

theorem good_deliver (ht : Topo adj) {seq0 : Node → Nat} {σ : Net} (hg : Good adj seq0 σ)
    {a b : Node} {u : Update} (hu : u ∈ σ.q a b) : Good adj seq0 (deliver adj σ a b u) := by
  unfold deliver
  have hc := handle_cases b (σ.st b) u
  generalize handle b (σ.st b) u = r at hc
  cases hc with
  | self h => exact good_deliver_frame ht hg hu _ rfl rfl rfl (Or.inl ⟨rfl, Or.inl h⟩)
  | dup h1 h2 => exact good_deliver_frame ht hg hu _ rfl rfl rfl (Or.inl ⟨rfl, Or.inr h2⟩)
  | stale k h1 h2 h3 h4 =>
    exact good_deliver_frame ht hg hu _ rfl rfl rfl (Or.inr ⟨rfl, h1, k, h3, h4⟩)
  | acc h1 h2 h3 => exact good_deliver_accept ht hg hu h1 h2 h3

theorem good_step (ht : Topo adj) {seq0 : Node → Nat} {σ σ' : Net} (hg : Good adj seq0 σ)
    (hs : Step adj σ σ') : Good adj seq0 σ' := by
  cases hs with
  | orig m i hi => exact good_originate ht hg m i hi
  | dlv a b u hu => exact good_deliver ht hg hu

theorem good_reach (ht : Topo adj) {seq0 : Node → Nat} {σ0 σ : Net} (h0 : Good adj seq0 σ0)
    (hr : Reach adj σ0 σ) : Good adj seq0 σ := by
  induction hr with
  | base => exact h0
  | step _ hs ih => exact good_step ht ih hs

/-- a quiescent start state with nobody knowing the future is Good w.r.t. its own counters -/
structure Start (adj : Node → Adj) (σ0 : Net) : Prop where
  quiet : ∀ a b, σ0.q a b = []
  noFuture : ∀ n m k, (σ0.st n).info m = some k → k ≤ σ0.seq m
  seenUsed : ∀ n i, i ∈ (σ0.st n).seen → i ∈ σ0.used
  curUsed : ∀ m i, σ0.cur m = some i → i ∈ σ0.used
  seenCur : ∀ c m i, σ0.cur m = some i → i ∈ (σ0.st c).seen → c ≠ m → Upd σ0 c m

theorem good_start {σ0 : Net} (h : Start adj σ0) : Good adj σ0.seq σ0 := by
  refine ⟨fun _ => Nat.le_refl _, h.noFuture, h.seenUsed, h.curUsed, ?_, ?_, ?_, h.seenCur, ?_, ?_⟩
  · intro a b u hu; rw [h.quiet] at hu; cases hu
  · intro a b u hu; rw [h.quiet] at hu; cases hu
  · intro a b u m hu; rw [h.quiet] at hu; cases hu
  · intro m hm; exact absurd hm (Nat.lt_irrefl _)
  · intro n m _ hm; exact absurd hm (Nat.lt_irrefl _)

/-- connectivity in the true topology -/
inductive Conn (adj : Node → Adj) (m : Node) : Node → Prop
  | refl : Conn adj m m
  | step {n b : Node} : Conn adj m n → hasKey (adj n) b = true → Conn adj m b

/-- **One flooding round from a quiescent state.** After every node has originated at least once and
    the network is quiescent again, every node knows the true adjacency of every node of its component,
    whatever the interleaving of originations and deliveries was. -/
theorem flood_round_truth (ht : Topo adj) {σ0 σ : Net} (h0 : Start adj σ0)
    (hr : Reach adj σ0 σ) (hquiet : ∀ a b, σ.q a b = [])
    (m : Node) (horig : σ0.seq m < σ.seq m) (n : Node) (hconn : Conn adj m n) (hnm : n ≠ m) :
    (σ.st n).known m = some (adj m) := by
  have hg := good_reach ht (good_start h0) hr
  have closed : ∀ x, Conn adj m x → x = m ∨ Upd σ x m := by
    intro x hx
    induction hx with
    | refl => left; rfl
    | @step x' b' _ hk ih =>
      by_cases hb : b' = m
      · left; exact hb
      · rcases hg.K m horig x' ih b' hk hb with h | ⟨u, hu, _⟩
        · right; exact h
        · rw [hquiet] at hu; cases hu
  rcases closed n hconn with h | h
  · exact absurd h hnm
  · exact hg.K2 n m hnm horig h


end Receptor.FloodNet
