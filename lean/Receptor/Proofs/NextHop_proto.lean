import Sp.Routing
namespace Routing

/-- positive edge weights -/
def Positive (g : Graph) : Prop := ∀ u v w, (v, w) ∈ g.adj u → 0 < w

/-- At termination, the label of every non-source labelled node equals label(prev) + edge weight. -/
theorem chain_eq {g : Graph} {src : Node} {s : St} (hi : Inv g src s) (hq : s.queue = [])
    (v c : Nat) (hv : v ≠ src) (hc : s.cost v = some c) (hkv : g.isKey v = true) :
    ∃ p w cp, s.prev v = some p ∧ (v, w) ∈ g.adj p ∧ s.cost p = some cp ∧ cp + w = c := by
  obtain ⟨p, w, cp, hp, hadj, hcp, hle⟩ := hi.chain v c hv hc
  obtain ⟨cv, hcv, hle'⟩ := hi.relaxed p cp (by simp [hq]) hcp v w hadj hkv
  rw [hc] at hcv; cases hcv
  exact ⟨p, w, cp, hp, hadj, hcp, by omega⟩

/-- follow prev pointers from `d` until the node whose prev is `src` (the code's loop), with fuel -/
def nextHop (s : St) (src : Node) : Nat → Node → Option Node
  | 0, _ => none
  | fuel+1, p =>
    match s.prev p with
    | none => none
    | some q => if q = src then some p else nextHop s src fuel q

/-- the least walk weight -/
def IsDist (g : Graph) (a b : Node) (c : Nat) : Prop := Path g a b c ∧ ∀ W, Path g a b W → c ≤ W

theorem path_trans {g : Graph} {a b c : Node} {W1 W2 : Nat}
    (h1 : Path g a b W1) (h2 : Path g b c W2) : Path g a c (W1 + W2) := by
  induction h2 with
  | nil => simpa using h1
  | snoc _ hadj hk ih => rw [← Nat.add_assoc]; exact Path.snoc ih hadj hk

/-- Main next-hop lemma: if the walk from `d` finds hop `h`, then `h` is a direct neighbour of `src`
    and cost d = w(src,h) + (weight of a walk h ⇝ d). -/
theorem nextHop_spec {g : Graph} {src : Node} {s : St} (hi : Inv g src s) (hq : s.queue = [])
    (hkeys : ∀ v c, s.cost v = some c → v ≠ src → g.isKey v = true) :
    ∀ fuel d h c, nextHop s src fuel d = some h → s.cost d = some c → d ≠ src →
      ∃ w0 R, (h, w0) ∈ g.adj src ∧ s.cost h = some w0 ∧ Path g h d R ∧ w0 + R = c := by
  intro fuel
  induction fuel with
  | zero => intro d h c hn; simp [nextHop] at hn
  | succ n ih =>
    intro d h c hn hc hd
    obtain ⟨p, w, cp, hp, hadj, hcp, heq⟩ := chain_eq hi hq d c hd hc (hkeys d c hc hd)
    simp only [nextHop, hp] at hn
    by_cases hps : p = src
    · subst hps
      simp at hn; subst hn
      rw [hi.src0] at hcp; cases hcp
      exact ⟨w, 0, hadj, by rw [hc]; congr 1; omega, Path.nil, by omega⟩
    · simp [hps] at hn
      obtain ⟨w0, R, hadj0, hch, hpath, hsum⟩ := ih p h cp hn hcp hps
      exact ⟨w0, R + w, hadj0, hch, Path.snoc hpath hadj (hkeys d c hc hd), by omega⟩

/-- the hop is on a least-cost path: dist src d = w(src,h) + dist h d -/
theorem nextHop_on_shortest {g : Graph} {src : Node} {keys : List Node} {s : St}
    (hr : Reach g (initSt src keys) s) (hq : s.queue = [])
    (hkeys : ∀ v c, s.cost v = some c → v ≠ src → g.isKey v = true)
    (fuel d h c) (hn : nextHop s src fuel d = some h) (hc : s.cost d = some c) (hd : d ≠ src) :
    ∃ w0 R, (h, w0) ∈ g.adj src ∧ IsDist g src d c ∧ IsDist g h d R ∧ c = w0 + R := by
  have hi := inv_reach (inv_init g src keys) hr
  obtain ⟨w0, R, hadj0, hch, hpath, hsum⟩ := nextHop_spec hi hq hkeys fuel d h c hn hc hd
  have hdist := (lc_correct hr hq).1 d c hc
  refine ⟨w0, R, hadj0, hdist, ⟨hpath, ?_⟩, hsum.symm⟩
  intro W hW
  by_cases hhs : h = src
  · subst hhs
    rw [hi.src0] at hch; cases hch
    have := hdist.2 W hW; omega
  · have hkh : g.isKey h = true := hkeys h w0 hch hhs
    have p1 : Path g src h (0 + w0) := Path.snoc Path.nil hadj0 hkh
    have p2 := path_trans p1 hW
    have := hdist.2 _ p2
    omega

#print axioms nextHop_on_shortest
end Routing
