import Receptor.Drive.Util
import Receptor.Model.Ctl
import Receptor.Generated.Facts
namespace Receptor.Drive.Ctl
open Lean Receptor.Drive Receptor.Ctl

/-- the guards the source has (regenerated facts; expectations in `C08_facts`) -/
def guardsOfFacts : Guards :=
  { statusFieldsTyped := Receptor.Facts.ctl_status_fields_checked,
    findUnitUnlocked := Receptor.Facts.ctl_findunit_rescan_unlocked }

partial def decodeJ (j : Json) : Except String J := do
  match ← getStr j "t" with
  | "null" => pure .null
  | "bool" => pure (.bool (← getBool j "v"))
  | "num" => pure (.num (← getBool j "v"))
  | "str" => pure (.str (← getHex j "v"))
  | "arr" => do
    let l ← (← getArr j "v").mapM decodeJ
    pure (.arr l)
  | "obj" => do
    let kv ← (← getArr j "v").mapM fun e => do
      match ← e.getArr? with
      | #[k, v] =>
        match fromHex (← k.getStr?) with
        | some kb => pure (kb, ← decodeJ v)
        | none => throw "bad hex key"
      | _ => throw "bad pair"
    pure (.obj kv)
  | t => throw s!"bad J tag {t}"

def renderReply (impl : Option Json) : Ctl.Reply → Json
  | .err (some m) => jObj [("err", jHex m)]
  | .err none =>
    match impl with
    | some (Json.obj kvs) => if (kvs.toList.any fun (k, _) => k == "err") then Json.obj kvs else jObj [("err", Json.str "?")]
    | _ => jObj [("err", Json.str "?")]
  | .json => Json.str "json"
  | .text => Json.str "text"

def classOf : Json → String
  | Json.str s => s
  | _ => "err"

def classOfReply : Ctl.Reply → String
  | .err _ => "err"
  | .json => "json"
  | .text => "text"

/-- is the line inside what the model describes?  (command / subcommand tokens in ASCII, start positions of at most 18 digits) -/
def modelled (line : Bytes) : Bool :=
  if line.head? = some 123 then true
  else
    let (tok, rest) := split2 line []
    isAscii tok &&
      (if lowerB tok = b "work" then
        let toks := splitSp (rest.getD []) []
        isAscii (toks.headD []) && (toks.getD 2 []).length ≤ 18
       else true)

structure Run where
  u : Units
  sessions : List (List Ctl.Reply)
  /-- replies to a `work list` of all units: when other sessions release units at the same time the
  listing may legitimately fail half-way ("unknown work unit"): either class is accepted -/
  wild : List (List Bool) := []
  ended : End := .eof
  created : Nat := 0

/-- is the line a `work list` without a unit ID? -/
def isListAll (G : Guards) (line : Bytes) (jv : Option (List (Bytes × J))) : Bool :=
  if line.head? = some 123 then
    match jv with
    | some kv => (match lookup kv (b "command") with
      | some (.str cmd) => initJson G cmd kv == some (.res (.ok (.workList none)))
      | _ => false)
    | none => false
  else
    let (tok, rest) := split2 line []
    initPlain (lowerB tok) (rest.getD []) == some (.ok (.workList none))

/-- one session, line by line (the same recursion as `runSession`, keeping track of which replies belong to a listing) -/
def runTagged (G : Guards) (multi : Bool) : Units → List (Bytes × Option (List (Bytes × J))) → Units × List (Ctl.Reply × Bool) × End
  | u, [] => (u, [], .eof)
  | u, (line, jv) :: rest =>
    let w := multi && isListAll G line jv
    match handleLine G u line jv with
    | (u', .replies l) => let (u'', ls, e) := runTagged G multi u' rest; (u'', l.map (·, w) ++ ls, e)
    | (u', .consumed l) => (u', l.map (·, w), .consumed)
    | (u', .panic) => (u', [], .panic)
    | (u', .hang) => (u', [], .hang)

def runAll (G : Guards) (u : Units) (scripts : List (List (Bytes × Option (List (Bytes × J))))) : Run := Id.run do
  let mut r : Run := { u := u, sessions := [] }
  let multi := scripts.length > 1
  for sc in scripts do
    if r.ended == .panic || r.ended == .hang then
      r := { r with sessions := r.sessions ++ [[]], wild := r.wild ++ [[]] }
    else
      let (u', tagged, e) := runTagged G multi r.u sc
      let replies := tagged.map (·.1)
      let created := if e == .consumed && replies.drop (replies.length - 2) == [.text, .json] then 1 else 0
      r := { u := u', sessions := r.sessions ++ [replies], wild := r.wild ++ [tagged.map (·.2)],
             ended := (if e == .panic || e == .hang then e else r.ended), created := r.created + created }
  return r

def handle (op : String) (a r : Json) : Except String Drive.Reply := do
  match op with
  | "sessions" =>
    let mem := (← getStrList a "mem").map b
    let disk := ((← getStrList a "disk") ++ (← getStrList a "disk_unk")).map b
    let inputs ← getHexList a "inputs"
    let jsons ← a.getObjVal? "jsons"
    let u0 : Units := { mem := mem, disk := disk, types := [b "verifwork", b "remote"] }
    let mut scripts : List (List (Bytes × Option (List (Bytes × J)))) := []
    let mut allModelled := true
    for inp in inputs do
      let mut sc : List (Bytes × Option (List (Bytes × J))) := []
      for line in requestLines inp do
        if !modelled line then allModelled := false
        if line.head? = some 123 then
          match jsons.getObjVal? (toHex line) with
          | .ok jv =>
            if (getStr jv "t").toOption == some "err" then sc := sc ++ [(line, none)]
            else match ← decodeJ jv with
              | .obj kv => sc := sc ++ [(line, some kv)]
              | _ => throw "harness error: a decoding that is not an object"
          | .error _ => throw s!"harness error: no JSON decoding supplied for request line {toHex line}"
        else sc := sc ++ [(line, none)]
      scripts := scripts ++ [sc]
    if !allModelled then
      return { m := jObj [("unmodelled", Json.str "a command token outside ASCII")], prop := none }
    let implSessions := (getArr r "sessions").toOption.getD []
    let implAt (i k : Nat) : Option Json := ((implSessions[i]?).bind fun x => x.getArr?.toOption).bind (·[k]?)
    let renderSess (run : Run) : Json :=
      jArr ((run.sessions.zipIdx).map fun (s, i) =>
        jArr ((s.zipIdx).map fun (rep, k) =>
          if ((run.wild[i]?.bind (·[k]?)).getD false) && (implAt i k).isSome && classOf ((implAt i k).getD Json.null) != "text"
          then (implAt i k).getD Json.null else renderReply (implAt i k) rep))
    let render (run : Run) : Json :=
      match run.ended with
      | .panic => jObj [("fatal", Json.bool true)]
      | .hang =>
        jObj [("sessions", renderSess run),
              ("stuck", Json.bool true), ("probe", Json.str "dead"), ("nontrivial", Json.bool true)]
      | _ =>
        jObj [("sessions", renderSess run),
              ("stuck", Json.bool false), ("probe", Json.str "ok"),
              ("mem_set", jArr (run.u.mem.map jHex)), ("created", jNat run.created), ("nontrivial", Json.bool true)]
    let modelRun := runAll guardsOfFacts u0 scripts
    let specRun := runAll allGuards u0 scripts
    -- property predicates on the implementation's observation
    let crashed := (optField r "fatal").isSome || (optField r "panic").isSome
    let stuck := ((getBool r "stuck").toOption.getD false) || (optField r "hang").isSome
    let probe := (getStr r "probe").toOption.getD "?"
    let implClasses : List (List String) := (implSessions.zipIdx).map fun (s, i) =>
      ((s.getArr?.toOption.getD #[]).toList.zipIdx).map fun (x, k) =>
        let c := classOf x
        if ((specRun.wild[i]?.bind (·[k]?)).getD false) && c == "err" then "json" else c
    let specClasses := specRun.sessions.map fun s => s.map classOfReply
    let (holds, why, sig) : Bool × String × String :=
      if crashed then (false, "the node process died while serving control sessions", "C08/crash")
      else if stuck then (false, "a control session was never finished by the server (the session goroutine is blocked)", "C08/session-stuck")
      else if probe != "ok" then (false, s!"after the session(s) a fresh control session is not served: {probe}", "C08/node-wedged")
      else if implClasses != specClasses then
        (false, "the replies differ from the specification (a request that is not a valid command must be answered with ERROR lines only; valid commands must be answered as if the other requests and sessions were not there)",
         "C08/replies-differ")
      else (true, "", "")
    pure { m := render modelRun, prop := some holds, why := why, sig := sig }
  | _ => throw s!"bad-op ctl {op}"

end Receptor.Drive.Ctl
