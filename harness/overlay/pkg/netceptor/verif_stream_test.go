package netceptor

// C03 harness: stream connections between the two ends of a chain of 2..5 real nodes whose links
// lose, duplicate, delay and reorder datagrams; optionally a second path and a cut of the active one.
// Both sides write their own byte sequence with random write boundaries, close their writing side
// and read to end-of-stream.  Variants: the Conn itself; each end behind utils.BridgeConns and a Unix
// socket pair (what the control service's `connect` and the proxy services do).

import (
	"context"
	"encoding/json"
	"fmt"
	"io"
	"math/rand"
	"net"
	"os"
	"path"
	"sync"
	"sync/atomic"
	"testing"
	"time"

	"github.com/ansible/receptor/pkg/utils"
)

// ---- a lossy in-memory link

type lossyEnd struct {
	in     chan []byte
	peer   *lossyEnd
	link   *lossyLink
	closed chan struct{}
	once   sync.Once
}

type lossyLink struct {
	drop, dup float64
	delayMax  time.Duration
	cut       int32
	reset     chan struct{} // closed when the link is reset: both ends see errors at once (a TCP backend whose connection broke)
	resetOnce sync.Once
	mu        sync.Mutex
	rng       *rand.Rand
}

func (l *lossyLink) roll() (drop bool, dup bool, delay time.Duration) {
	l.mu.Lock()
	defer l.mu.Unlock()
	drop = l.rng.Float64() < l.drop
	dup = l.rng.Float64() < l.dup
	if l.delayMax > 0 {
		delay = time.Duration(l.rng.Int63n(int64(l.delayMax)))
	}
	return
}

func (e *lossyEnd) Send(p []byte) error {
	select {
	case <-e.closed:
		return fmt.Errorf("session closed")
	default:
	}
	select {
	case <-e.link.reset:
		return fmt.Errorf("link is down")
	default:
	}
	if atomic.LoadInt32(&e.link.cut) != 0 {
		return nil // the datagram vanishes
	}
	drop, dup, delay := e.link.roll()
	if drop {
		return nil
	}
	b := append([]byte{}, p...)
	n := 1
	if dup {
		n = 2
	}
	for i := 0; i < n; i++ {
		go func() {
			if delay > 0 {
				time.Sleep(delay)
			}
			select {
			case e.peer.in <- b:
			case <-e.peer.closed:
			case <-time.After(2 * time.Second):
			}
		}()
	}
	return nil
}

func (e *lossyEnd) Recv(timeout time.Duration) ([]byte, error) {
	select {
	case b := <-e.in:
		return b, nil
	case <-e.closed:
		return nil, io.EOF
	case <-e.link.reset:
		return nil, io.EOF
	case <-time.After(timeout):
		return nil, ErrTimeout
	}
}

func (e *lossyEnd) Close() error {
	e.once.Do(func() { close(e.closed) })
	return nil
}

type lossyBackend struct{ sess BackendSession }

func (b *lossyBackend) Start(ctx context.Context, wg *sync.WaitGroup) (chan BackendSession, error) {
	ch := make(chan BackendSession, 1)
	ch <- b.sess
	go func() {
		<-ctx.Done()
		_ = b.sess.Close()
	}()
	return ch, nil
}

func lossyConnect(a, b *Netceptor, l *lossyLink, cost float64) error {
	ea := &lossyEnd{in: make(chan []byte, 4096), link: l, closed: make(chan struct{})}
	eb := &lossyEnd{in: make(chan []byte, 4096), link: l, closed: make(chan struct{})}
	ea.peer, eb.peer = eb, ea
	if err := a.AddBackend(&lossyBackend{sess: ea}, BackendConnectionCost(cost)); err != nil {
		return err
	}
	return b.AddBackend(&lossyBackend{sess: eb}, BackendConnectionCost(cost))
}

// ---- the scenario

type streamArgs struct {
	Hops    int     `json:"hops"`    // 1..4
	Drop    float64 `json:"drop"`
	Dup     float64 `json:"dup"`
	DelayMs int     `json:"delay_ms"`
	A2B     int     `json:"a2b"`     // bytes written by the dialling side
	B2A     int     `json:"b2a"`     // bytes written by the accepting side
	Chunk   int     `json:"chunk"`   // largest write
	Bridged bool    `json:"bridged"` // both ends behind BridgeConns + a Unix socket pair
	AltPath bool    `json:"alt_path"` // a second, dearer path; the first link of the cheap path is cut during the transfer
	// the dial's context is cancelled as soon as the connection is established (a dial helper with `defer cancel()`):
	// the stream must go on
	DialCtxCancel bool `json:"dial_ctx_cancel"`
	// before the transfer a first stream to the same listener is opened, used briefly, and ended by the accepting side
	// with CloseConnection: the listener and later streams must be unaffected
	Sibling bool    `json:"sibling"`
	CutMode string  `json:"cut_mode"` // "" the cut link swallows datagrams (noticed by the idle time-out); "reset": both ends get errors at once
	Seed    int64   `json:"seed"`
	// duplex: both sides write and close their writing side on their own.
	// oneway: only one side writes (and closes at once after its last write); the other closes after it has seen end-of-stream.
	Mode string `json:"mode"`
}

func streamByte(dir int, i int) byte { return byte((i*31 + i/257 + dir*101) % 251) }

func streamWaitRoute(s *Netceptor, to string, d time.Duration) bool {
	dl := time.Now().Add(d)
	for time.Now().Before(dl) {
		if _, ok := s.Status().RoutingTable[to]; ok {
			return true
		}
		time.Sleep(20 * time.Millisecond)
	}
	return false
}

type halfCloser interface {
	io.ReadWriter
	CloseWrite() error
}

// connHalf adapts a mesh Conn: Close() closes the writing side only
type connHalf struct{ c net.Conn }

func (h connHalf) Read(p []byte) (int, error)  { return h.c.Read(p) }
func (h connHalf) Write(p []byte) (int, error) { return h.c.Write(p) }
func (h connHalf) CloseWrite() error           { return h.c.Close() }

func streamTransfer(rw halfCloser, dir int, nOut int, chunk int, rng *rand.Rand, closeAfterEOF bool) (got int, badAt int, eof bool, werr string) {
	badAt = -1
	sawEOF := make(chan struct{})
	var wg sync.WaitGroup
	wg.Add(1)
	go func() {
		defer wg.Done()
		off := 0
		for off < nOut {
			n := 1 + rng.Intn(chunk)
			if off+n > nOut {
				n = nOut - off
			}
			b := make([]byte, n)
			for i := range b {
				b[i] = streamByte(dir, off+i)
			}
			if _, err := rw.Write(b); err != nil {
				werr = err.Error()
				return
			}
			off += n
		}
		if closeAfterEOF {
			<-sawEOF
		}
		if err := rw.CloseWrite(); err != nil && !closeAfterEOF {
			werr = "close: " + err.Error()
		}
	}()
	buf := make([]byte, 32768)
	for {
		n, err := rw.Read(buf)
		for i := 0; i < n; i++ {
			if badAt < 0 && buf[i] != streamByte(1-dir, got+i) {
				badAt = got + i
			}
		}
		got += n
		if err != nil {
			eof = err == io.EOF
			break
		}
	}
	close(sawEOF)
	wg.Wait()
	return
}

func streamApply(op string, raw json.RawMessage) interface{} {
	var a streamArgs
	if err := json.Unmarshal(raw, &a); err != nil {
		panic(err)
	}
	rng := rand.New(rand.NewSource(a.Seed))
	ctx, cancel := context.WithCancel(context.Background())
	defer cancel()
	mk := func(id string) *Netceptor {
		s := NewWithConsts(ctx, id, 1200, 250*time.Millisecond, 250*time.Millisecond, time.Hour, 30, 2500*time.Millisecond)
		s.Logger.SetOutput(verifDiscard{})
		return s
	}
	names := []string{"nA"}
	for i := 1; i < a.Hops; i++ {
		names = append(names, fmt.Sprintf("r%d", i))
	}
	names = append(names, "nB")
	nodes := make([]*Netceptor, len(names))
	for i, n := range names {
		nodes[i] = mk(n)
	}
	defer func() {
		for _, n := range nodes {
			n.Shutdown()
		}
	}()
	newLink := func() *lossyLink {
		return &lossyLink{drop: a.Drop, dup: a.Dup, delayMax: time.Duration(a.DelayMs) * time.Millisecond, rng: rand.New(rand.NewSource(rng.Int63())), reset: make(chan struct{})}
	}
	var firstLink *lossyLink
	for i := 0; i+1 < len(nodes); i++ {
		l := newLink()
		if i == 0 {
			firstLink = l
		}
		if err := lossyConnect(nodes[i], nodes[i+1], l, 1.0); err != nil {
			return map[string]interface{}{"error": err.Error()}
		}
	}
	var alt *Netceptor
	if a.AltPath {
		alt = mk("alt")
		defer alt.Shutdown()
		if err := lossyConnect(nodes[0], alt, newLink(), 10.0); err != nil {
			return map[string]interface{}{"error": err.Error()}
		}
		if err := lossyConnect(alt, nodes[len(nodes)-1], newLink(), 10.0); err != nil {
			return map[string]interface{}{"error": err.Error()}
		}
	}
	nA, nB := nodes[0], nodes[len(nodes)-1]
	if !streamWaitRoute(nA, "nB", 20*time.Second) || !streamWaitRoute(nB, "nA", 20*time.Second) {
		return map[string]interface{}{"error": "no route between the ends after 20 s"}
	}
	li, err := nB.Listen("strm", nil)
	if err != nil {
		return map[string]interface{}{"error": "listen: " + err.Error()}
	}
	type side struct {
		got, bad int
		eof      bool
		werr     string
	}
	sa, sb := side{bad: -1}, side{bad: -1}
	var wg sync.WaitGroup
	dir, _ := os.MkdirTemp("", "verif-stream-*")
	defer os.RemoveAll(dir)
	// wrap: the end point as the application sees it
	wrap := func(c net.Conn, tag string) (halfCloser, error) {
		if !a.Bridged {
			return connHalf{c}, nil
		}
		sock := path.Join(dir, tag+".sock")
		ul, err := net.Listen("unix", sock)
		if err != nil {
			return nil, err
		}
		acc := make(chan net.Conn, 1)
		go func() {
			x, err := ul.Accept()
			if err == nil {
				acc <- x
			}
			_ = ul.Close()
		}()
		app, err := net.Dial("unix", sock)
		if err != nil {
			return nil, err
		}
		inner := <-acc
		go utils.BridgeConns(inner, "socket "+tag, c, "mesh "+tag, nA.Logger)
		return app.(*net.UnixConn), nil
	}
	if a.Sibling {
		accepted := make(chan net.Conn, 1)
		go func() {
			c, err := li.Accept()
			if err == nil {
				accepted <- c
			}
		}()
		sctx, scancel := context.WithTimeout(ctx, 20*time.Second)
		c0, err := nA.DialContext(sctx, "nB", "strm", nil)
		scancel()
		if err != nil {
			return map[string]interface{}{"error": "sibling dial: " + err.Error()}
		}
		_, _ = c0.Write([]byte("hello"))
		select {
		case s0 := <-accepted:
			buf := make([]byte, 5)
			_, _ = io.ReadFull(s0, buf)
			// the accepting side ends this connection as a whole
			if cc, ok := s0.(interface{ CloseConnection() error }); ok {
				_ = cc.CloseConnection()
			}
		case <-time.After(20 * time.Second):
			return map[string]interface{}{"error": "sibling stream was not accepted"}
		}
		_ = c0.Close()
		time.Sleep(50 * time.Millisecond)
	}
	wg.Add(1)
	go func() {
		defer wg.Done()
		c, err := li.Accept()
		if err != nil {
			sb.werr = "accept: " + err.Error()
			return
		}
		rw, err := wrap(c, "b")
		if err != nil {
			sb.werr = "wrap: " + err.Error()
			return
		}
		sb.got, sb.bad, sb.eof, sb.werr = streamTransfer(rw, 1, a.B2A, a.Chunk, rand.New(rand.NewSource(a.Seed+1)), a.Mode == "oneway" && a.B2A == 0)
	}()
	dctx, dcancel := context.WithTimeout(ctx, 40*time.Second)
	defer dcancel()
	c, err := nA.DialContext(dctx, "nB", "strm", nil)
	if err != nil {
		_ = li.Close()
		wg.Wait()
		if a.Sibling {
			// an earlier stream to this listener was ended by the accepting side: a new one must still be possible
			return map[string]interface{}{"a_got": 0, "a_bad": -1, "a_eof": false, "a_werr": "dial after a sibling stream was ended: " + err.Error(),
				"b_got": 0, "b_bad": -1, "b_eof": false, "b_werr": "", "nontrivial": true}
		}
		return map[string]interface{}{"error": "dial: " + err.Error()}
	}
	if a.DialCtxCancel {
		dcancel()
	}
	if a.AltPath {
		go func() {
			if a.CutMode == "reset" {
				time.Sleep(time.Duration(40+rng.Intn(160)) * time.Millisecond)
				firstLink.resetOnce.Do(func() { close(firstLink.reset) })
				return
			}
			time.Sleep(time.Duration(100+rng.Intn(400)) * time.Millisecond)
			atomic.StoreInt32(&firstLink.cut, 1)
		}()
	}
	rw, err := wrap(c, "a")
	if err != nil {
		return map[string]interface{}{"error": "wrap: " + err.Error()}
	}
	done := make(chan struct{})
	go func() {
		sa.got, sa.bad, sa.eof, sa.werr = streamTransfer(rw, 0, a.A2B, a.Chunk, rand.New(rand.NewSource(a.Seed+2)), a.Mode == "oneway" && a.A2B == 0)
		wg.Wait()
		close(done)
	}()
	select {
	case <-done:
	case <-time.After(75 * time.Second):
		return map[string]interface{}{"timeout": true, "a_got": sa.got, "b_got": sb.got}
	}
	_ = c.CloseConnection()
	return map[string]interface{}{
		"a_got": sa.got, "a_bad": sa.bad, "a_eof": sa.eof, "a_werr": sa.werr,
		"b_got": sb.got, "b_bad": sb.bad, "b_eof": sb.eof, "b_werr": sb.werr, "nontrivial": true,
	}
}

func streamGen(v *verifRun) {
	for i := 0; i < v.n; i++ {
		sz := []int{0, 1, 100, 5000, 70000, 200000}
		a := streamArgs{Hops: 1 + v.rng.Intn(4), Drop: []float64{0, 0.02, 0.08}[v.rng.Intn(3)], Dup: []float64{0, 0.05}[v.rng.Intn(2)],
			DelayMs: []int{0, 5, 30}[v.rng.Intn(3)], A2B: sz[v.rng.Intn(len(sz))], B2A: sz[v.rng.Intn(len(sz))],
			Chunk: []int{1, 100, 1200, 9000, 70000}[v.rng.Intn(5)], Bridged: v.rng.Intn(2) == 0, Seed: v.rng.Int63()}
		if a.Chunk == 1 && a.A2B > 5000 {
			a.Chunk = 100
		}
		a.Mode = "duplex"
		if v.rng.Intn(2) == 0 {
			a.Mode = "oneway"
			if v.rng.Intn(2) == 0 {
				a.A2B = 0
				if a.B2A == 0 {
					a.B2A = 5000
				}
			} else {
				a.B2A = 0
				if a.A2B == 0 {
					a.A2B = 5000
				}
			}
		}
		if v.rng.Intn(5) == 0 {
			a.AltPath = true
			a.Mode = "duplex"
			a.A2B, a.B2A = 200000, 70000
			a.Chunk = 1200
			a.DelayMs = 5
			if v.rng.Intn(2) == 0 {
				// the link breaks with errors while both directions are busy; the ends are direct neighbours half of the time
				a.CutMode = "reset"
				a.A2B, a.B2A = 3000000, 3000000
				a.Chunk = 70000
				a.DelayMs, a.Drop, a.Dup = 0, 0, 0
				a.Bridged = false
				if v.rng.Intn(2) == 0 {
					a.Hops = 1
				}
			}
		}
		switch v.rng.Intn(6) {
		case 0:
			a.DialCtxCancel = true
		case 1:
			a.Sibling = true
		}
		v.do(streamApply, "transfer", a)
	}
}

func TestVerifStream(t *testing.T) {
	v := verifOpen(t, "stream")
	v.run(streamApply, streamGen)
}
