import Receptor.Drive.Util
import Receptor.Model.StatusRMW
import Receptor.Generated.Facts
namespace Receptor.Drive.Status
open Lean Receptor.Drive Receptor.StatusRMW

/-- the status record as far as the harness uses it -/
structure Rec where
  state : Int
  detail : String
  size : Int
  hist : List String
  deriving DecidableEq, Repr, Inhabited

def r0 : Rec := { state := 0, detail := "Unit Created", size := 0, hist := [] }

def Rec.toJson (r : Rec) : Json :=
  jObj [("state", Json.num (JsonNumber.fromInt r.state)), ("detail", Json.str r.detail),
        ("size", Json.num (JsonNumber.fromInt r.size)), ("hist", jStrs r.hist)]

def getInt (j : Json) (k : String) : Except String Int := do (← j.getObjVal? k).getInt?

def recOf (j : Json) : Except String Rec := do
  pure { state := ← getInt j "state", detail := ← getStr j "detail", size := ← getInt j "size", hist := ← getStrList j "hist" }

structure HOp where
  k : String
  st : Int
  d : String
  sz : Int
  deriving Inhabited

def getOp (j : Json) : Except String HOp := do
  pure { k := ← getStr j "k", st := ← getInt j "st", d := ← getStr j "d", sz := ← getInt j "sz" }

/-- the meaning of the harness operation `basic` (what the callback of `UpdateBasicStatus` assigns); the
serial-order specification itself does not depend on any fact -/
def factsOK : Bool :=
  Receptor.Facts.st_basic_cb = "status.State = state;status.Detail = detail;if stdoutSize >= 0 { status.StdoutSize = stdoutSize }"

/-- a harness operation as a model operation (`mem`: the thread's in-memory copy, what `Save` writes) -/
def toOp (o : HOp) (tag : String) (mem : Rec) : Op Rec :=
  match o.k with
  | "app" => .update fun r => { r with hist := r.hist ++ [tag], detail := if o.d != "" then o.d else r.detail }
  | "basic" => .update fun r => { r with state := o.st, detail := o.d, size := if o.sz ≥ 0 then o.sz else r.size }
  | "stdout" => .update fun r => { r with size := o.sz }
  | "clear" => .update fun r => { r with hist := [] }
  | "save" => .save mem
  | _ => .load

def setOps (s : St Rec) (t : Nat) (ops : List (Op Rec)) : St Rec :=
  match s.th[t]? with
  | some x => setTh s t { x with ops := ops }
  | none => s

/-- threads of kind "bwu" share one in-memory copy -/
def syncMem (kinds : List String) (s : St Rec) (t : Nat) : St Rec :=
  if kinds[t]? != some "bwu" then s else
  match s.th[t]? with
  | none => s
  | some x => { s with th := (s.th.zip kinds).map fun (y, k) => if k == "bwu" then { y with mem := x.mem } else y }

def stepN (kinds : List String) (s : St Rec) (t : Nat) : Nat → St Rec
  | 0 => s
  | n + 1 => match step s t with
    | some s' => stepN kinds (syncMem kinds s' t) t n
    | none => s

def memOf (s : St Rec) (t : Nat) : Rec := (s.th[t]?.map (·.mem)).getD r0

/-- run one whole operation of thread `t` (it must not be blocked) -/
def execOp (kinds : List String) (s : St Rec) (t : Nat) (o : HOp) (tag : String) : St Rec :=
  stepN kinds (setOps s t [toOp o tag (memOf s t)]) t 6

structure Acc where
  s : St Rec
  recs : List Rec          -- the stored record after every completed write
  bad : List String        -- reasons why the observed order is not a legal serial order
  blockedOK : Bool := true

def curFile (s : St Rec) : Rec := s.file.getD r0

def parseTag (tag : String) : Option (Nat × Nat × Nat) :=
  match tag.splitOn ":" with
  | [a, b, c] => do pure (← a.toNat?, ← b.toNat?, ← c.toNat?)
  | _ => none

/-- execute thread `t`'s operations of round `r` from its cursor up to and including index `upto` -/
def runUpto (kinds : List String) (progs : Array (Array (Array HOp))) (r t : Nat) (cursor : Array Nat) (upto : Nat) (acc : Acc) :
    Array Nat × Acc := Id.run do
  let mut acc := acc
  let mut cur := cursor
  let ops := (progs[t]?.bind (·[r]?)).getD #[]
  let mut i := cur[t]?.getD 0
  while i ≤ upto && i < ops.size do
    let o := ops[i]!
    let s' := execOp kinds acc.s t o s!"{r}:{t}:{i}"
    acc := { acc with s := s', recs := if o.k == "load" then acc.recs else acc.recs ++ [curFile s'] }
    i := i + 1
  cur := cur.set! t i
  return (cur, acc)

def handle (op : String) (a r : Json) : Except String Reply := do
  match op with
  | "run" =>
    if let some e := optField r "error" then throw s!"harness error: {e.compress}"
    let threads ← getArr a "threads"
    let kinds ← threads.mapM fun th => getStr th "kind"
    let progsL ← threads.mapM fun th => do
      (← getArr th "rounds").mapM fun rd => do (← rd.getArr?).toList.mapM getOp
    let progs : Array (Array (Array HOp)) := (progsL.map fun p => (p.map fun rd => rd.toArray).toArray).toArray
    let holders ← (← getArr a "holders").mapM fun x => x.getInt?
    let nT := kinds.length
    let implFinal : Option Rec := ((r.getObjVal? "final").bind recOf).toOption
    let implHist : List String := (implFinal.map (·.hist)).getD []
    let mut acc : Acc := { s := init r0 (List.replicate nT []), recs := [r0], bad := [] }
    let mut rIdx := 0
    for h in holders do
      let mut cursor : Array Nat := Array.replicate nT 0
      let observed := implHist.filter fun tag => match parseTag tag with | some (rr, _, _) => rr == rIdx | none => false
      let mut skipTag := ""
      if h ≥ 0 then
        let ht := h.toNat
        let ops := (progs[ht]?.bind (·[rIdx]?)).getD #[]
        if let some o := ops[0]? then
          -- the holder takes the lock and sits in its callback …
          let s1 := stepN kinds (setOps acc.s ht [toOp o s!"{rIdx}:{ht}:0" (memOf acc.s ht)]) ht 2
          -- … everybody else who has something to do in this round is blocked
          let mut ok := acc.blockedOK
          for t in List.range nT do
            if t != ht then
              if let some o' := ((progs[t]?.bind (·[rIdx]?)).getD #[])[0]? then
                let s2 := setOps s1 t [toOp o' s!"{rIdx}:{t}:0" (memOf s1 t)]
                if (step s2 t).isSome then ok := false
          let s3 := stepN kinds s1 ht 6
          acc := { acc with s := s3, recs := acc.recs ++ [curFile s3], blockedOK := ok }
          cursor := cursor.set! ht 1
          skipTag := s!"{rIdx}:{ht}:0"
      for tag in observed do
        if tag == skipTag then continue
        match parseTag tag with
        | some (_, t, i) =>
          let ops := (progs[t]?.bind (·[rIdx]?)).getD #[]
          if t ≥ nT || i ≥ ops.size || (ops[i]!).k != "app" then
            acc := { acc with bad := acc.bad ++ [s!"the record carries {tag}, which no update wrote"] }
          else if i < (cursor[t]?.getD 0) then
            acc := { acc with bad := acc.bad ++ [s!"{tag} appears twice or out of its writer's order"] }
          else
            let (c', a') := runUpto kinds progs rIdx t cursor i acc
            cursor := c'; acc := a'
        | none => acc := { acc with bad := acc.bad ++ [s!"unparsable tag {tag}"] }
      for t in List.range nT do
        let n := ((progs[t]?.bind (·[rIdx]?)).getD #[]).size
        if n > 0 then
          let (c', a') := runUpto kinds progs rIdx t cursor (n - 1) acc
          cursor := c'; acc := a'
      rIdx := rIdx + 1
    let final := curFile acc.s
    -- the model's view of the observation: everything the implementation reported, with the parts the model decides replaced
    let base : List (String × Json) := match r with
      | Json.obj kvs => kvs.toList.filter fun (k, _) => !(["final", "final_err", "errs", "overlap"].contains k)
      | _ => []
    let m := jObj (base ++ [("final", final.toJson), ("final_err", Json.str ""), ("errs", jArr []), ("overlap", jNat 0)])
    -- property predicates on the implementation's observation
    let errs := (getStrList r "errs").toOption.getD ["?"]
    let overlap := (getNat r "overlap").toOption.getD 0
    let finalErr := (getStr r "final_err").toOption.getD "?"
    let loads := (getArr r "loads").toOption.getD []
    let histStates := acc.recs.map (·.hist)
    let scalarStates := acc.recs.map fun x => (x.state, x.detail, x.size)
    let badLoad : Option String := loads.findSome? fun l =>
      match getStr l "err" with
      | .ok "" =>
        match (l.getObjVal? "rec").bind recOf with
        | .ok rec =>
          if !histStates.contains rec.hist then some s!"a load returned a record whose update history {rec.hist} is not a prefix state of the serial order"
          else if !scalarStates.contains (rec.state, rec.detail, rec.size) then
            some s!"a load returned state/detail/size ({rec.state}, {rec.detail.take 20}, {rec.size}) that no update stored together"
          else none
        | .error _ => some "a load returned no record"
      | .ok e => some s!"a load failed: {e}"
      | .error _ => some "malformed load observation"
    let (holds, why, sig) : Bool × String × String :=
      if !factsOK then (true, "", "")   -- the model no longer describes the source: only the correspondence is reported
      else if (optField r "hang").isSome then (false, "the scenario did not finish (a writer or reader is stuck)", "C14/stuck")
      else if overlap > 0 then (false, s!"{overlap} operations completed on the status file while another update held the lock", "C14/no-mutual-exclusion")
      else if !acc.blockedOK then (false, "model: a contender was not blocked", "C14/model")
      else if finalErr != "" then (false, s!"the stored record is unreadable at the end: {finalErr}", "C14/record-corrupt")
      else if !errs.isEmpty then (false, s!"an operation failed: {errs.head!}", "C14/operation-failed")
      else if !acc.bad.isEmpty then (false, acc.bad.head!, "C14/not-a-serial-order")
      else if implFinal != some final then
        (false, s!"the stored record is not the serial application of all updates: expected {final.toJson.compress.take 300}", "C14/lost-or-stale-update")
      else match badLoad with
        | some w => (false, w, "C14/torn-read")
        | none => (true, "", "")
    pure { m := m, prop := some holds, why := why, sig := sig }
  | "scanlock" =>
    if let some e := optField r "error" then throw s!"harness error: {e.compress}"
    -- the package removes nothing but whole unit directories (regenerated fact): a look-up leaves the lock file in place
    let keeps : Bool := Receptor.Facts.st_removals = "stdio_utils.go:os.RemoveAll(path)"
    let spec := jObj [("known", Json.bool true), ("same_lock_file", Json.bool true)]
    let m := if keeps then spec else jObj [("unmodelled", Json.str "the package removes or renames files next to a record")]
    let holds := canonEq r spec
    pure { m := m, prop := some holds,
           why := if holds then "" else "looking up a unit that exists on disk replaced the lock file of its record while another process had it open: the two no longer exclude each other",
           sig := if holds then "" else "C14/lock-file-replaced" }
  | _ => throw s!"bad-op status {op}"

end Receptor.Drive.Status
