import Receptor.Model.Work
/-!
# A node's work units under a history of control commands — properties C15 and C19 over histories

The single-command decisions of `Receptor.Work` (`dispatch`, `gate`, `redact`, `allocateRemote`) composed into a
state machine: the units a node holds (with the parameters as stored on disk, unredacted), and what a history of
submit / cancel / release / force-release / results / status / list commands and restarts does to them and shows.
-/
namespace Receptor.WorkNode
open Receptor.Work

structure WUnit where
  id : Nat
  cfg : TypeCfg
  params : Params          -- as stored on disk (unredacted, needed to resume a remote submission)
  tls : Bytes              -- the TLS client profile named by a remote submission
  cancelled : Bool := false
  reads : Nat := 0         -- how many times its results were read
  deriving DecidableEq, Repr

structure Node where
  units : List WUnit := []
  next : Nat := 0
  key : Bool := true       -- a verifying key is configured
  deriving DecidableEq, Repr

structure Cmd where
  sub : Sub
  target : Nat := 0        -- the unit addressed (ignored by submit and list)
  cfg : TypeCfg := ⟨false, false, true, false⟩   -- submit: the work type named (and its signwork flag)
  params : Params := []    -- submit
  tls : Bytes := []        -- submit: TLS client profile
  conn : Conn
  tok : Token
  deriving DecidableEq, Repr

inductive Op where
  | cmd (c : Cmd)
  | restart                -- the node is stopped and started again on the same data directory
  deriving DecidableEq, Repr

inductive Out where
  | done                                   -- the command took effect
  | refused (g : Gate)
  | refusedSecrets                         -- "cannot send secrets over a non-TLS connection"
  | notFound
  | shown (l : List (Nat × Params))        -- status / list: unit id and the parameters reported
  | restarted
  deriving DecidableEq, Repr

def findUnit (n : Node) (id : Nat) : Option WUnit := n.units.find? (·.id == id)

/-- the work type whose policy applies to the command: the one named by a submit, the unit's otherwise -/
def cfgFor (n : Node) (c : Cmd) : TypeCfg :=
  if c.sub = .submit then c.cfg else
  match findUnit n c.target with
  | some u => u.cfg
  | none => c.cfg

def report (u : WUnit) : Nat × Params := (u.id, redact u.params)

def applyEffect (n : Node) (c : Cmd) : Node × Out :=
  match c.sub with
  | .submit =>
    if c.cfg.isRemote then
      match (allocateRemote true c.tls c.params).1 with
      | .refused => (n, .refusedSecrets)
      | .stored ps => ({ n with units := n.units ++ [{ id := n.next, cfg := c.cfg, params := ps, tls := c.tls }], next := n.next + 1 }, .done)
    else ({ n with units := n.units ++ [{ id := n.next, cfg := c.cfg, params := c.params, tls := c.tls }], next := n.next + 1 }, .done)
  | .cancel => ({ n with units := n.units.map fun u => if u.id == c.target then { u with cancelled := true } else u }, .done)
  | .release | .forceRelease => ({ n with units := n.units.filter fun u => !(u.id == c.target) }, .done)
  | .results => ({ n with units := n.units.map fun u => if u.id == c.target then { u with reads := u.reads + 1 } else u }, .done)
  | .status | .list => (n, .done)   -- not reached: these are never dispatched as an effect

def step (n : Node) : Op → Node × Out
  | .restart => (n, .restarted)     -- the units are read back from the disk as they were stored
  | .cmd c =>
    match dispatch true c.sub (findUnit n c.target).isSome (cfgFor n c) c.conn c.tok n.key with
    | .effect => applyEffect n c
    | .refused g => (n, .refused g)
    | .notFound => (n, .notFound)
    | .info =>
      if c.sub = .list then (n, .shown (n.units.map report))
      else match findUnit n c.target with
        | some u => (n, .shown [report u])
        | none => (n, .notFound)

/-- a history: the state after it and everything it showed -/
def run : Node → List Op → Node × List Out
  | n, [] => (n, [])
  | n, op :: rest =>
    let r := step n op
    let r2 := run r.1 rest
    (r2.1, r.2 :: r2.2)

/-- a command that, under the policy of the work type it concerns, needs a valid token and has none -/
def unauthorised (n : Node) (c : Cmd) : Bool :=
  shouldVerify (cfgFor n c) && c.conn != .unix && !(c.tok.present && n.key && c.tok.valid)

/-- the points of a history at which something happened: the node changed (a unit created, stopped, removed or
read) or the command was answered as done — each with the state it was issued in -/
def effects : Node → List Op → List (Node × Cmd)
  | _, [] => []
  | n, .restart :: rest => effects n rest
  | n, .cmd c :: rest =>
    let r := step n (.cmd c)
    (if r.1 ≠ n ∨ r.2 = .done then [(n, c)] else []) ++ effects r.1 rest

/-- the rule of `AllocateRemoteUnit` as a property of a stored unit -/
def TlsOK (u : WUnit) : Prop := u.cfg.isRemote = true → hasSecrets u.params = true → u.tls ≠ []

end Receptor.WorkNode
