/-!
# Service advertisements (`handleServiceAdvertisement`, local add/remove) — property C18

`step` is one call of `handleServiceAdvertisement`.  Advertisement times are logical
naturals.  Whether a withdrawal leaves a tombstone (its timestamp) behind is a regenerated
fact: the pinned tree deletes the entry and with it every memory of the withdrawal.
-/
namespace Receptor.Ads

abbrev Node := List Nat
abbrev Svc := List Nat

/-- the payload of an advertisement the property speaks of: connection type and tags -/
structure Info where
  connType : Nat
  tags : List (List Nat × List Nat)
  deriving DecidableEq, Repr

structure Msg where
  node : Node
  svc : Svc
  time : Nat
  info : Info
  cancel : Bool
  deriving DecidableEq, Repr

inductive Entry where
  | live (time : Nat) (info : Info)
  | tomb (time : Nat)               -- a remembered withdrawal (only with tombstones)
  deriving DecidableEq, Repr

def Entry.time : Entry → Nat
  | .live t _ => t
  | .tomb t => t

structure State where
  table : List ((Node × Svc) × Entry)
  conns : List Node
  deriving DecidableEq, Repr

def get? (s : State) (k : Node × Svc) : Option Entry := (s.table.find? fun e => e.1 == k).map (·.2)
def erase (s : State) (k : Node × Svc) : State := { s with table := s.table.filter fun e => e.1 != k }
def put (s : State) (k : Node × Svc) (v : Entry) : State := { (erase s k) with table := (erase s k).table ++ [(k, v)] }

/-- the advertisements a node lists (what `Status().Advertisements` shows) -/
def listed (s : State) : List ((Node × Svc) × Nat × Info) :=
  s.table.filterMap fun e => match e.2 with
    | .live t i => some (e.1, t, i)
    | .tomb _ => none

inductive Action where
  | relay (to : Node) (m : Msg)
  deriving DecidableEq, Repr

def floodTo (s : State) (recv : Node) (m : Msg) : List Action :=
  (s.conns.filter fun c => c != recv).map fun c => Action.relay c m

/-- `handleServiceAdvertisement`: keep the current entry unless the message is newer; a
cancel removes the entry (or, with tombstones, replaces it by its timestamp); relay to the
other neighbours whenever the message was not ignored. -/
def step (tombstones : Bool) (s : State) (m : Msg) (recv : Node) : State × List Action :=
  let k := (m.node, m.svc)
  match get? s k with
  | some cur => if m.time > cur.time then
      (if m.cancel then (if tombstones then put s k (.tomb m.time) else erase s k)
       else put s k (.live m.time m.info), floodTo s recv m)
    else (s, [])
  | none =>
    (if m.cancel then (if tombstones then put s k (.tomb m.time) else s)
     else put s k (.live m.time m.info), floodTo s recv m)

def run (tombstones : Bool) : State → List (Msg × Node) → State × List (List Action)
  | s, [] => (s, [])
  | s, (m, recv) :: rest =>
    let (s', a) := step tombstones s m recv
    let (s'', more) := run tombstones s' rest
    (s'', a :: more)

/-- greatest timestamp among the messages about `(node, svc)` in a history -/
def maxTime (k : Node × Svc) (h : List (Msg × Node)) : Nat :=
  h.foldl (fun a e => if (e.1.node, e.1.svc) == k then max a e.1.time else a) 0

/-! ## the owner's side: a periodic advertisement round that overlaps the closing of the listener -/

/-- `sendServiceAds` collects the advertised listeners (at `collectAt`, under the listener lock) and sends one
advertisement each afterwards (at `sendAt`); in between (`closeAt`) the listener is closed, which sends the
withdrawal at once.  `stampAtCollection` (regenerated fact): the advertisement carries the time of the collection,
when the listener was seen to exist, not the time of sending. -/
structure OwnerRace where
  collectAt : Nat
  closeAt : Nat
  sendAt : Nat
  deriving DecidableEq, Repr

def ownerAd (stampAtCollection : Bool) (node : Node) (svc : Svc) (info : Info) (r : OwnerRace) : Msg :=
  { node := node, svc := svc, time := if stampAtCollection then r.collectAt else r.sendAt, info := info, cancel := false }

def ownerWithdrawal (node : Node) (svc : Svc) (r : OwnerRace) : Msg :=
  { node := node, svc := svc, time := r.closeAt, info := ⟨0, []⟩, cancel := true }

/-! ## `PacketConn.Close` against an advertisement round of the same node

Both take the listener lock: the round while it collects the advertised listeners (stamping each advertisement),
`Close` while it unregisters the socket and stamps the withdrawal.  What one does under the lock is one atomic block for
the other.  `blocks`: the atomic blocks of `Close` in order; the round's collection happens before block `pos`
(`pos = blocks.length`: after all of them).  The clock ticks at every stamp. -/

inductive CloseAct where
  | unregister | stampWithdrawal
  deriving DecidableEq, Repr

structure CloseSim where
  clock : Nat := 0
  registered : Bool := true
  ad : Option Nat := none
  wd : Option Nat := none
  deriving DecidableEq, Repr

def collect (s : CloseSim) : CloseSim :=
  if s.registered then { s with ad := some s.clock, clock := s.clock + 1 } else s

def act (s : CloseSim) : CloseAct → CloseSim
  | .unregister => { s with registered := false }
  | .stampWithdrawal => { s with wd := some s.clock, clock := s.clock + 1 }

def simBlocks : List (List CloseAct) → Nat → Nat → CloseSim → CloseSim
  | [], i, pos, s => if i ≤ pos then collect s else s
  | b :: rest, i, pos, s =>
    let s1 := if i = pos then collect s else s
    simBlocks rest (i + 1) pos (b.foldl act s1)

/-- the time stamps of the advertisement the round emits (if it emits one) and of the withdrawal -/
def closeVsRound (blocks : List (List CloseAct)) (pos : Nat) : Option (Nat × Nat) :=
  let s := simBlocks blocks 0 pos {}
  match s.ad, s.wd with
  | some a, some w => some (a, w)
  | _, _ => none

/-- the source's `Close`: one block under the lock — unregister, then stamp the withdrawal -/
def closeOfSource : List (List CloseAct) := [[.unregister, .stampWithdrawal]]

/-- the variant that stamps (and floods) the withdrawal before it takes the lock -/
def closeStampFirst : List (List CloseAct) := [[.stampWithdrawal], [.unregister]]

end Receptor.Ads
