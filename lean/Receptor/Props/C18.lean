import Receptor.Proofs.Ads
import Receptor.Generated.Facts
/-!
# C18 — advertisements converge; a withdrawn service is never resurrected

The pinned tree kept no memory of a withdrawal: the full-strength statements hold for the tombstone
variant of the model and are proved for it; for the variant without tombstones the proved statements
are the `_partial` ones, and the negation of the full statement is proved on concrete witnesses
(`C18_witness_*`), which the check replayed on the implementation.  The source now remembers
withdrawals (`ads_tombstones = true`, repaired in /repo): the full-strength theorems are the ones that
apply to it.
-/
namespace Receptor.Ads

/-- **Tie (translator)**: a message that is not newer than a remembered withdrawal is ignored; keep-unless-newer
test; a cancel deletes the entry and records its time, an advertisement forgets the withdrawal; relay through
`flood(data, receivedFrom)` only when the message was not ignored. -/
theorem C18_facts :
    Receptor.Facts.ads_keep_test = "si.Time.After(curSvc.Time)"
    ∧ Receptor.Facts.ads_tombstone_test = "withdrawn && !si.Time.After(withdrawnAt)"
    ∧ Receptor.Facts.ads_tombstones = true
    ∧ Receptor.Facts.ads_relay = "keepCur:return;s.flood(data, receivedFrom)"
    ∧ Receptor.Facts.ads_stamp = "collect:Time=time.Now(),under-listenerLock;send:unstamped"
    ∧ Receptor.Facts.ads_close_order = "lock<unregister<withdraw" := by decide +kernel

def about (k : Node × Svc) (m : Msg) : Bool := (m.node, m.svc) == k

/-- the entry of key `k` after a history, starting from `cur` -/
def fold (tb : Bool) (k : Node × Svc) : Option Entry → List (Msg × Node) → Option Entry
  | cur, [] => cur
  | cur, (m, _) :: rest => fold tb k (if about k m then upd tb cur m else cur) rest

theorem run_get? (tb : Bool) (k : Node × Svc) : ∀ (h : List (Msg × Node)) (s : State),
    get? (run tb s h).1 k = fold tb k (get? s k) h := by
  intro h
  induction h with
  | nil => intro s; rfl
  | cons x rest ih =>
    intro s
    obtain ⟨m, recv⟩ := x
    simp only [run, fold]
    rw [ih, step_get?]
    by_cases hk : k = (m.node, m.svc)
    · simp [about, hk]
    · have : about k m = false := by simp [about]; exact fun h => hk h.symm
      simp [hk, this]

/-- **ads_newer_wins.** An advertisement or withdrawal that is not newer than the entry a node
holds for that service changes nothing and is not relayed — in either variant. -/
theorem ads_newer_wins (tb : Bool) (s : State) (m : Msg) (recv : Node) (cur : Entry)
    (hc : get? s (m.node, m.svc) = some cur) (hold : m.time ≤ cur.time) :
    step tb s m recv = (s, []) := by
  unfold step
  have : ¬ (m.time > cur.time) := by omega
  simp [hc, this]

/-- the timestamp of an entry never decreases while the entry exists -/
theorem entry_time_monotone (tb : Bool) (cur : Entry) (m : Msg) (new : Entry)
    (h : upd tb (some cur) m = some new) : cur.time ≤ new.time := by
  simp only [upd] at h
  split at h
  · rename_i hgt
    split at h
    · split at h
      · cases h; show cur.time ≤ m.time; omega
      · cases h
    · cases h; show cur.time ≤ m.time; omega
  · cases h; exact Nat.le_refl _

/-! ### with tombstones: the entry is decided by the newest message, whatever the order -/

/-- the invariant: the entry carries the greatest timestamp seen for the key and comes from a
message of the history with that timestamp; no entry means no message yet -/
def Good (k : Node × Svc) (cur : Option Entry) (h : List (Msg × Node)) : Prop :=
  match cur with
  | none => ∀ x ∈ h, about k x.1 = false
  | some e => (∀ x ∈ h, about k x.1 = true → x.1.time ≤ e.time) ∧
      ∃ x ∈ h, about k x.1 = true ∧ x.1.time = e.time ∧
        (match e with
         | .live _ i => x.1.cancel = false ∧ x.1.info = i
         | .tomb _ => x.1.cancel = true)

theorem good_step (k : Node × Svc) (cur : Option Entry) (pre : List (Msg × Node)) (m : Msg) (recv : Node)
    (hg : Good k cur pre) : Good k (if about k m then upd true cur m else cur) (pre ++ [(m, recv)]) := by
  by_cases ha : about k m = true
  · simp only [ha, if_true]
    cases cur with
    | none =>
      simp only [Good] at hg
      simp only [upd]
      by_cases hc : m.cancel = true
      · simp only [hc, if_true, Good]
        refine ⟨?_, (m, recv), by simp, ha, rfl, hc⟩
        intro x hx hax
        simp only [List.mem_append, List.mem_singleton] at hx
        cases hx with
        | inl h => have := hg x h; rw [this] at hax; cases hax
        | inr h => subst h; simp [Entry.time]
      · simp only [hc, Bool.false_eq_true, if_false, Good]
        refine ⟨?_, (m, recv), by simp, ha, rfl, by simpa using hc, rfl⟩
        intro x hx hax
        simp only [List.mem_append, List.mem_singleton] at hx
        cases hx with
        | inl h => have := hg x h; rw [this] at hax; cases hax
        | inr h => subst h; simp [Entry.time]
    | some e =>
      obtain ⟨hmax, x0, hx0, hax0, ht0, hk0⟩ := hg
      simp only [upd]
      by_cases hgt : m.time > e.time
      · simp only [hgt, if_true]
        have hle : ∀ x ∈ pre ++ [(m, recv)], about k x.1 = true → x.1.time ≤ m.time := by
          intro x hx hax
          simp only [List.mem_append, List.mem_singleton] at hx
          cases hx with
          | inl h => have := hmax x h hax; omega
          | inr h => subst h; exact Nat.le_refl _
        by_cases hc : m.cancel = true
        · simp only [hc, if_true, Good]
          exact ⟨by simpa [Entry.time] using hle, (m, recv), by simp, ha, rfl, hc⟩
        · simp only [hc, Bool.false_eq_true, if_false, Good]
          exact ⟨by simpa [Entry.time] using hle, (m, recv), by simp, ha, rfl, by simpa using hc, rfl⟩
      · simp only [hgt, if_false, Good]
        refine ⟨?_, x0, by simp [hx0], hax0, ht0, hk0⟩
        intro x hx hax
        simp only [List.mem_append, List.mem_singleton] at hx
        cases hx with
        | inl h => exact hmax x h hax
        | inr h => subst h; show m.time ≤ e.time; omega
  · have ha' : about k m = false := by simpa using ha
    simp only [ha', Bool.false_eq_true, if_false]
    cases cur with
    | none =>
      simp only [Good] at hg ⊢
      intro x hx
      simp only [List.mem_append, List.mem_singleton] at hx
      cases hx with
      | inl h => exact hg x h
      | inr h => subst h; exact ha'
    | some e =>
      obtain ⟨hmax, x0, hx0, hax0, ht0, hk0⟩ := hg
      refine ⟨?_, x0, by simp [hx0], hax0, ht0, hk0⟩
      intro x hx hax
      simp only [List.mem_append, List.mem_singleton] at hx
      cases hx with
      | inl h => exact hmax x h hax
      | inr h => subst h; rw [ha'] at hax; cases hax

theorem good_fold (k : Node × Svc) : ∀ (h pre : List (Msg × Node)) (cur : Option Entry),
    Good k cur pre → Good k (fold true k cur h) (pre ++ h) := by
  intro h
  induction h with
  | nil => intro pre cur hg; simpa [fold] using hg
  | cons x rest ih =>
    intro pre cur hg
    obtain ⟨m, recv⟩ := x
    simp only [fold]
    have := ih (pre ++ [(m, recv)]) _ (good_step k cur pre m recv hg)
    simpa [List.append_assoc] using this

/-- **ads_no_resurrection (tombstone variant).** Starting from a node that knows nothing, after
any history of advertisements and withdrawals in any order: if the node lists the service,
then the listed entry is the content of an advertisement of the history that is at least as
new as *every* message about the service — in particular as every withdrawal.  A withdrawn
service is therefore listed again only through an advertisement that is not older than the
withdrawal, and an older advertisement never replaces a newer one. -/
theorem ads_no_resurrection (k : Node × Svc) (h : List (Msg × Node)) (conns : List Node) (t : Nat) (i : Info)
    (hl : get? (run true { table := [], conns := conns } h).1 k = some (.live t i)) :
    (∀ x ∈ h, about k x.1 = true → x.1.time ≤ t) ∧
    ∃ x ∈ h, about k x.1 = true ∧ x.1.time = t ∧ x.1.cancel = false ∧ x.1.info = i := by
  rw [run_get?] at hl
  have h0 : Good k (get? { table := [], conns := conns } k) [] := by
    simp [get?, Good]
  have hg := good_fold k h [] _ h0
  simp only [List.nil_append] at hg
  rw [hl] at hg
  obtain ⟨hmax, x, hx, hax, ht, hc, hi⟩ := hg
  exact ⟨by simpa [Entry.time] using hmax, x, hx, hax, by simpa [Entry.time] using ht, hc, hi⟩

/-- **order independence (tombstone variant)**: when the messages about a service carry distinct
timestamps, the entry every node ends up with depends only on the *set* of messages it has
processed — the one with the greatest timestamp — so nodes that have seen the same messages
agree, whatever the delivery order was. -/
theorem ads_converge_same_messages (k : Node × Svc) (h1 h2 : List (Msg × Node)) (c1 c2 : List Node)
    (hperm : ∀ x, (∃ r, (x, r) ∈ h1) ↔ (∃ r, (x, r) ∈ h2))
    (hdist : ∀ x y r r', (x, r) ∈ h1 → (y, r') ∈ h1 → about k x = true → about k y = true → x.time = y.time → x = y)
    (t : Nat) (i : Info) (hl : get? (run true { table := [], conns := c1 } h1).1 k = some (.live t i)) :
    get? (run true { table := [], conns := c2 } h2).1 k = some (.live t i) := by
  obtain ⟨hmax1, x1, hx1, hax1, ht1, hc1, hi1⟩ := ads_no_resurrection k h1 c1 t i hl
  -- the other node has an entry (it saw x1 too) carrying the maximal time, from some message y
  rw [run_get?]
  have h0 : Good k (get? { table := [], conns := c2 } k) [] := by simp [get?, Good]
  have hg := good_fold k h2 [] _ h0
  simp only [List.nil_append] at hg
  have hx1' : ∃ r, (x1.1, r) ∈ h2 := (hperm x1.1).1 ⟨x1.2, hx1⟩
  obtain ⟨r2, hx12⟩ := hx1'
  cases hf : fold true k (get? { table := [], conns := c2 } k) h2 with
  | none =>
    rw [hf] at hg
    have := hg (x1.1, r2) hx12
    simp only at this
    rw [hax1] at this; cases this
  | some e =>
    rw [hf] at hg
    obtain ⟨hmax2, y, hy, hay, hty, hky⟩ := hg
    have hy1 : ∃ r, (y.1, r) ∈ h1 := (hperm y.1).2 ⟨y.2, hy⟩
    obtain ⟨r1, hy1⟩ := hy1
    have e1 : x1.1.time ≤ e.time := hmax2 (x1.1, r2) hx12 hax1
    have e2 : y.1.time ≤ t := hmax1 (y.1, r1) hy1 hay
    have hteq : x1.1.time = y.1.time := by omega
    have hxy : x1.1 = y.1 := hdist x1.1 y.1 x1.2 r1 hx1 hy1 hax1 hay hteq
    cases e with
    | live t' i' =>
      obtain ⟨hc, hi⟩ := hky
      simp [Entry.time] at hty
      rw [← hxy] at hi hty
      rw [hi1] at hi; rw [ht1] at hty
      rw [hi, hty]
    | tomb t' =>
      simp only at hky
      rw [← hxy, hc1] at hky; cases hky

/-! ### the variant the source implements (no tombstones) -/

/-- **Witness (resurrection).** Advertisement at time 1, withdrawal at time 2, then a delayed
copy of the advertisement of time 1: the service is listed again. -/
theorem C18_witness_resurrection :
    let ad : Msg := { node := [1], svc := [2], time := 1, info := ⟨0, []⟩, cancel := false }
    let wd : Msg := { node := [1], svc := [2], time := 2, info := ⟨0, []⟩, cancel := true }
    (listed (run false { table := [], conns := [[9]] } [(ad, [9]), (wd, [9]), (ad, [9])]).1).length = 1
    ∧ (listed (run true { table := [], conns := [[9]] } [(ad, [9]), (wd, [9]), (ad, [9])]).1).length = 0 := by
  decide

/-- **Witness (a withdrawal is relayed again and again).** The same withdrawal delivered twice
is relayed twice when nothing is remembered about it — in a cyclic topology it circulates
without end; with tombstones the second copy is dropped. -/
theorem C18_witness_cancel_reflooded :
    let wd : Msg := { node := [1], svc := [2], time := 2, info := ⟨0, []⟩, cancel := true }
    (run false { table := [], conns := [[8], [9]] } [(wd, [9]), (wd, [9])]).2 = [[.relay [8] wd], [.relay [8] wd]]
    ∧ (run true { table := [], conns := [[8], [9]] } [(wd, [9]), (wd, [9])]).2 = [[.relay [8] wd], []] := by
  decide

/-- **ads_in_order_partial.** Without tombstones the newest message still decides as long as
the messages about a service arrive in timestamp order (single path, FIFO links): after a
history whose messages about `k` have strictly increasing times, the entry for `k` is that of
the last such message. -/
theorem ads_in_order_partial (k : Node × Svc) : ∀ (h : List (Msg × Node)) (cur : Option Entry) (lo : Nat),
    (∀ e, cur = some e → e.time ≤ lo) →
    (h.filter fun x => about k x.1).Pairwise (fun a b => a.1.time < b.1.time) →
    (∀ x ∈ h, about k x.1 = true → lo < x.1.time) →
    fold false k cur h =
      match (h.filter fun x => about k x.1).getLast? with
      | none => cur
      | some x => if x.1.cancel then none else some (.live x.1.time x.1.info) := by
  intro h
  induction h with
  | nil => intro cur lo _ _ _; rfl
  | cons x rest ih =>
    intro cur lo hcur hpw hlo
    obtain ⟨m, recv⟩ := x
    simp only [fold]
    by_cases ha : about k m = true
    · simp only [ha, if_true]
      have hm : lo < m.time := hlo (m, recv) (by simp) ha
      -- the message is newer than the entry: it decides
      have hupd : upd false cur m = if m.cancel then none else some (.live m.time m.info) := by
        cases cur with
        | none => simp only [upd]; split <;> simp
        | some e =>
          have := hcur e rfl
          have hgt : m.time > e.time := by omega
          simp only [upd, hgt, if_true]; split <;> simp
      simp only [List.filter, ha] at hpw ⊢
      rw [List.pairwise_cons] at hpw
      have hrest := ih (upd false cur m) m.time
        (by intro e he; rw [hupd] at he; split at he
            · cases he
            · cases he; simp [Entry.time])
        hpw.2
        (by intro y hy hay
            exact hpw.1 y (by simp [List.mem_filter, hy, hay]))
      rw [hrest]
      cases hl : (rest.filter fun x => about k x.1).getLast? with
      | none =>
        have : rest.filter (fun x => about k x.1) = [] := by
          cases hr : rest.filter (fun x => about k x.1) with
          | nil => rfl
          | cons a l => rw [hr] at hl; simp [List.getLast?] at hl
        simp [this, hupd]
      | some y =>
        have hne : rest.filter (fun x => about k x.1) ≠ [] := by
          intro h0; rw [h0] at hl; simp at hl
        rw [List.getLast?_cons_of_ne_nil hne] <;> simp [hl]
    · have ha' : about k m = false := by simpa using ha
      simp only [ha', Bool.false_eq_true, if_false, List.filter]
      exact ih cur lo hcur (by simpa [List.filter, ha'] using hpw)
        (fun y hy hay => hlo y (by simp [hy]) hay)


/-- **withdrawn_stays_withdrawn.** Whatever else a node hears, in whatever order and however often: if the history
contains a withdrawal of a service and every advertisement of that service in the history is older than it, the
node does not list the service. -/
theorem withdrawn_stays_withdrawn (k : Node × Svc) (h : List (Msg × Node)) (conns : List Node) (wd : Msg) (r : Node)
    (hwd : (wd, r) ∈ h) (hk : about k wd = true)
    (hold : ∀ x ∈ h, about k x.1 = true → x.1.cancel = false → x.1.time < wd.time) (t : Nat) (i : Info) :
    get? (run true { table := [], conns := conns } h).1 k ≠ some (.live t i) := by
  intro hl
  obtain ⟨hmax, x, hx, hax, htx, hcx, _⟩ := ads_no_resurrection k h conns t i hl
  have h1 := hmax (wd, r) hwd hk
  have h2 := hold x hx hax hcx
  simp only at h1
  omega

/-- **owner_race_no_resurrection.** A periodic advertisement round of the owner that overlaps the closing of the
listener: the advertisement carries the time at which the listener was seen to exist, which precedes the withdrawal,
so no node that receives the two messages — in either order, repeated, mixed with anything older — lists the
closed service. -/
theorem owner_race_no_resurrection (node : Node) (svc : Svc) (info : Info) (rc : OwnerRace) (hlt : rc.collectAt < rc.closeAt)
    (h : List (Msg × Node)) (conns : List Node) (r : Node)
    (hwd : (ownerWithdrawal node svc rc, r) ∈ h)
    (hold : ∀ x ∈ h, about (node, svc) x.1 = true → x.1.cancel = false → x.1.time ≤ (ownerAd true node svc info rc).time)
    (t : Nat) (i : Info) :
    get? (run true { table := [], conns := conns } h).1 (node, svc) ≠ some (.live t i) := by
  apply withdrawn_stays_withdrawn (node, svc) h conns (ownerWithdrawal node svc rc) r hwd
  · simp [about, ownerWithdrawal]
  · intro x hx ha hc
    have := hold x hx ha hc
    simp only [ownerAd, if_true, ownerWithdrawal] at this ⊢
    omega

/-- Witness: stamped when it is sent, the stale advertisement is newer than the withdrawal and resurrects the
closed service at every node, in either order of arrival. -/
theorem C18_witness_stamped_at_send :
    let rc : OwnerRace := { collectAt := 1, closeAt := 2, sendAt := 3 }
    let inf : Info := ⟨0, []⟩
    (listed (run true { table := [], conns := [] } [(ownerWithdrawal [1] [2] rc, [9]), (ownerAd false [1] [2] inf rc, [9])]).1).length = 1
    ∧ (listed (run true { table := [], conns := [] } [(ownerAd false [1] [2] inf rc, [9]), (ownerWithdrawal [1] [2] rc, [9])]).1).length = 1
    ∧ (listed (run true { table := [], conns := [] } [(ownerWithdrawal [1] [2] rc, [9]), (ownerAd true [1] [2] inf rc, [9])]).1).length = 0
    ∧ (listed (run true { table := [], conns := [] } [(ownerAd true [1] [2] inf rc, [9]), (ownerWithdrawal [1] [2] rc, [9])]).1).length = 0 := by
  decide


/-- the blocks of `Close` as the source has them (regenerated fact `ads_close_order`) -/
def closeOfFacts : List (List CloseAct) :=
  if Receptor.Facts.ads_close_order = "lock<unregister<withdraw" then closeOfSource else closeStampFirst

theorem closeOfFacts_eq : closeOfFacts = closeOfSource := by decide +kernel

def olderThanWithdrawal (r : Option (Nat × Nat)) : Bool :=
  match r with
  | some (a, w) => a < w
  | none => true

/-- **close_serialised_with_rounds.** Wherever an advertisement round falls relative to `Close`: either it does not see
the socket any more and emits nothing, or its advertisement is older than the withdrawal. -/
theorem close_serialised_with_rounds (pos : Nat) (h : pos ≤ closeOfSource.length) :
    olderThanWithdrawal (closeVsRound closeOfSource pos) = true := by
  have h1 : pos = 0 ∨ pos = 1 := by
    simp only [closeOfSource, List.length_cons, List.length_nil] at h
    omega
  rcases h1 with rfl | rfl <;> decide

/-- Witness: with the withdrawal stamped before the lock is taken, a round in between emits an advertisement newer than it -/
theorem C18_witness_stamp_before_lock : closeVsRound closeStampFirst 1 = some (1, 0) := by decide


end Receptor.Ads
