import Receptor.Model.Work
import Receptor.Proofs.WorkNode
import Receptor.Generated.Facts
/-!
# C19 — secret work parameters are never disclosed by the API nor sent without TLS
-/
namespace Receptor.Work

/-- **Tie (translator)**: the redaction test (lower-cased key, prefix `secret_`) in
`remoteUnit.Status`, the same test before `AllocateUnit` in `AllocateRemoteUnit`, every
status/list response built from `Status()` (never `UnredactedStatus`), the unredacted copy used
only to build the submission sent to the remote node (and, for Kubernetes units, the API calls
to the cluster). -/
theorem C19_facts :
    Receptor.Facts.redact_test = "strings.HasPrefix(strings.ToLower(k), \"secret_\")"
    ∧ Receptor.Facts.redact_alloc_test = "strings.HasPrefix(strings.ToLower(k), \"secret_\")"
    ∧ Receptor.Facts.redact_alloc_order = "secrets-test,refuse-without-tls,AllocateUnit"
    ∧ Receptor.Facts.redact_cfr_source = "w.UnitStatus(unitID);unit.Status()"
    ∧ Receptor.Facts.redact_unredacted_users = "connectUsingKubeconfig,createPod,startRemoteUnit" := by decide +kernel

/-- **redacted_has_no_secret_key.** No parameter whose name begins with `secret_` in any letter
case survives redaction. -/
theorem redacted_has_no_secret_key (ps : Params) : ∀ e ∈ redact ps, isSecretKey e.1 = false := by
  intro e he
  simp only [redact, List.mem_filter] at he
  simpa using he.2

/-- **non_secret_unchanged.** Every other parameter is reported, with its value, and nothing is
invented. -/
theorem non_secret_unchanged (ps : Params) (e : Bytes × Bytes) :
    e ∈ redact ps ↔ e ∈ ps ∧ isSecretKey e.1 = false := by
  simp [redact, List.mem_filter]

/-- any letter case of the prefix is recognised -/
theorem secret_any_case (k : Bytes) (h : lowerB (k.take 7) = secretPrefix) : isSecretKey k = true := by
  have : (lowerB k).take 7 = lowerB (k.take 7) := by simp [lowerB, List.map_take]
  simp [isSecretKey, this, h]

/-- redaction is idempotent and order-preserving (a status of a status shows the same) -/
theorem redact_idem (ps : Params) : redact (redact ps) = redact ps := by
  simp [redact, List.filter_filter]

/-- **refused_before_store.** A remote submission with a secret parameter and no TLS client
profile is refused, and (the check coming first) nothing has been written or sent. -/
theorem refused_before_store (ps : Params) (h : hasSecrets ps = true) :
    allocateRemote true [] ps = (.refused, false) := by
  simp [allocateRemote, h]

/-- … and only then: with a TLS profile, or without secrets, the parameters are stored as given -/
theorem stored_otherwise (tls : Bytes) (ps : Params) (h : hasSecrets ps = false ∨ tls ≠ []) :
    allocateRemote true tls ps = (.stored ps, true) := by
  rcases h with h | h
  · simp [allocateRemote, h]
  · simp [allocateRemote, h]

/-- Non-vacuity: mixed-case secret keys and a look-alike. -/
example : redact [([83, 69, 67, 82, 69, 84, 95, 120], [1]), ([115, 101, 99, 114, 101, 116], [2]), ([115, 101, 99, 114, 101, 116, 95], [3])]
    = [([115, 101, 99, 114, 101, 116], [2])] := by decide

end Receptor.Work

/-! ## over histories -/
namespace Receptor.WorkNode
open Receptor.Work

/-- **never_disclosed.** From the moment of submission to release, across any sequence of submit, status, list,
cancel, release, results commands (with or without tokens, on any connection) and restarts, from any state:
no response shows a parameter whose name begins with `secret_` in any letter case. -/
theorem never_disclosed : ∀ (ops : List Op) (n : Node) (o : Out), o ∈ (run n ops).2 →
    ∀ l, o = .shown l → ∀ q ∈ l, ∀ e ∈ q.2, isSecretKey e.1 = false := by
  intro ops
  induction ops with
  | nil => intro n o ho; simp [run] at ho
  | cons op rest ih =>
    intro n o ho l hl q hq e he
    simp only [run, List.mem_cons] at ho
    cases ho with
    | inr h1 => exact ih _ o h1 l hl q hq e he
    | inl h1 =>
      subst hl
      obtain ⟨u, _, rfl⟩ := step_shown n op l h1.symm q hq
      exact redacted_has_no_secret_key u.params e he

/-- **reported_is_redacted_submission.** … while all other parameters are reported unchanged: whatever a
response shows for a unit is exactly the parameter map of some earlier submission with the secret entries
removed — after any number of other commands and restarts in between. -/
theorem reported_is_redacted_submission : ∀ (ops : List Op) (n : Node) (prev : List Cmd),
    (∀ u ∈ n.units, ∃ c ∈ prev, c.sub = .submit ∧ u.params = c.params) →
    ∀ o ∈ (run n ops).2, ∀ l, o = .shown l → ∀ q ∈ l,
      ∃ c, (c ∈ prev ∨ Op.cmd c ∈ ops) ∧ c.sub = .submit ∧ q.2 = redact c.params := by
  intro ops
  induction ops with
  | nil => intro n prev _ o ho; simp [run] at ho
  | cons op rest ih =>
    intro n prev hinv o ho l hl q hq
    simp only [run, List.mem_cons] at ho
    cases ho with
    | inl h1 =>
      subst hl
      obtain ⟨u, hu, rfl⟩ := step_shown n op l h1.symm q hq
      obtain ⟨c, hc, hs, hp⟩ := hinv u hu
      exact ⟨c, Or.inl hc, hs, by simp [report, hp]⟩
    | inr h1 =>
      -- the invariant for the next state, with this step's command added to the known submissions
      have hinv' : ∀ u ∈ (step n op).1.units, ∃ c, (c ∈ prev ∨ Op.cmd c = op) ∧ c.sub = .submit ∧ u.params = c.params := by
        intro u' hu'
        rcases step_units n op with h | ⟨c, hop, hs, hunits, _⟩ | h
        · rw [h] at hu'
          obtain ⟨c, hc, hs, hp⟩ := hinv u' hu'
          exact ⟨c, Or.inl hc, hs, hp⟩
        · rw [hunits, List.mem_append] at hu'
          cases hu' with
          | inl h2 =>
            obtain ⟨c', hc, hs', hp⟩ := hinv u' h2
            exact ⟨c', Or.inl hc, hs', hp⟩
          | inr h2 =>
            simp only [List.mem_singleton] at h2
            subst h2
            exact ⟨c, Or.inr hop.symm, hs, rfl⟩
        · obtain ⟨u, hu, _, hpar, _, _⟩ := h u' hu'
          obtain ⟨c, hc, hs, hp⟩ := hinv u hu
          exact ⟨c, Or.inl hc, hs, by rw [← hpar, hp]⟩
      cases op with
      | restart =>
        obtain ⟨c, hc, hs, hp⟩ := ih (step n .restart).1 prev
          (by intro u hu
              obtain ⟨c, hc, hs, hp⟩ := hinv' u hu
              cases hc with
              | inl h => exact ⟨c, h, hs, hp⟩
              | inr h => cases h) o h1 l hl q hq
        refine ⟨c, ?_, hs, hp⟩
        cases hc with
        | inl h => exact Or.inl h
        | inr h => exact Or.inr (List.mem_cons_of_mem _ h)
      | cmd c0 =>
        obtain ⟨c, hc, hs, hp⟩ := ih (step n (.cmd c0)).1 (c0 :: prev)
          (by intro u hu
              obtain ⟨c, hc, hs, hp⟩ := hinv' u hu
              cases hc with
              | inl h => exact ⟨c, List.mem_cons_of_mem _ h, hs, hp⟩
              | inr h =>
                have : c = c0 := by injection h
                subst this
                exact ⟨c, List.mem_cons_self .., hs, hp⟩) o h1 l hl q hq
        refine ⟨c, ?_, hs, hp⟩
        cases hc with
        | inl h =>
          simp only [List.mem_cons] at h
          cases h with
          | inl h => subst h; exact Or.inr (List.mem_cons_self ..)
          | inr h => exact Or.inl h
        | inr h => exact Or.inr (List.mem_cons_of_mem _ h)

/-- the same from a node that holds nothing yet: every reported map is a redacted submission of this history -/
theorem reported_is_redacted_submission_from_empty (ops : List Op) (key : Bool) :
    ∀ o ∈ (run { key := key } ops).2, ∀ l, o = .shown l → ∀ q ∈ l,
      ∃ c, Op.cmd c ∈ ops ∧ c.sub = .submit ∧ q.2 = redact c.params := by
  intro o ho l hl q hq
  obtain ⟨c, hc, hs, hp⟩ := reported_is_redacted_submission ops { key := key } [] (by intro u hu; cases hu) o ho l hl q hq
  cases hc with
  | inl h => cases h
  | inr h => exact ⟨c, h, hs, hp⟩

/-- **secrets_only_with_tls.** In every history, every remote unit the node ever stores whose parameters
contain a secret names a TLS client profile (the refusal comes before anything is stored). -/
theorem secrets_only_with_tls : ∀ (ops : List Op) (n : Node), (∀ u ∈ n.units, TlsOK u) →
    ∀ u ∈ (run n ops).1.units, TlsOK u := by
  intro ops
  induction ops with
  | nil => intro n h; simpa [run] using h
  | cons op rest ih =>
    intro n h
    simp only [run]
    apply ih
    intro u' hu'
    rcases step_units n op with h1 | ⟨c, _, _, hunits, htls⟩ | h1
    · rw [h1] at hu'; exact h u' hu'
    · rw [hunits, List.mem_append] at hu'
      cases hu' with
      | inl h2 => exact h u' h2
      | inr h2 =>
        simp only [List.mem_singleton] at h2
        subst h2
        exact htls
    · obtain ⟨u, hu, _, hpar, htl, hcfg⟩ := h1 u' hu'
      have := h u hu
      unfold TlsOK at this ⊢
      rw [← hpar, ← htl, ← hcfg]
      exact this

/-- Non-vacuity: a submission with a mixed-case secret and a plain parameter, a restart, a status and a list. -/
example :
    (run {} [.cmd { sub := .submit, cfg := ⟨true, false, true, false⟩, tls := [1], conn := .unix, tok := ⟨false, false⟩,
                    params := [([83, 69, 67, 82, 69, 84, 95, 120], [1]), ([97], [2])] },
             .restart,
             .cmd { sub := .status, target := 0, conn := .other, tok := ⟨false, false⟩ },
             .cmd { sub := .list, conn := .other, tok := ⟨false, false⟩ },
             .cmd { sub := .submit, cfg := ⟨true, false, true, false⟩, tls := [], conn := .unix, tok := ⟨false, false⟩,
                    params := [([83, 69, 67, 82, 69, 84, 95, 120], [1])] }]).2
      = [.done, .restarted, .shown [(0, [([97], [2])])], .shown [(0, [([97], [2])])], .refusedSecrets] := by
  decide

end Receptor.WorkNode
