/-!
# Wire codec of data packets (`translateDataFromMessage` / `translateDataToMessage`), C02/C07

Layout constants (minimum length, field offsets, TTL index, service field width) are a
`Layout` value; the one the source uses is regenerated as `Receptor.Facts.wire_*`.
Node IDs, service names and payloads are byte lists (`Nat`s < 256).
-/
namespace Receptor.Wire

abbrev Bytes := List Nat

structure Msg where
  fromNode : Bytes
  toNode : Bytes
  fromSvc : Bytes
  toSvc : Bytes
  ttl : Nat
  data : Bytes
  deriving DecidableEq, Repr

structure Layout where
  minLen : Nat
  fromOff : Nat
  toOff : Nat
  fsvcOff : Nat
  tsvcOff : Nat
  dataOff : Nat
  ttlIdx : Nat
  svcLen : Nat
  deriving DecidableEq, Repr

def stdLayout : Layout :=
  { minLen := 36, fromOff := 4, toOff := 12, fsvcOff := 20, tsvcOff := 28, dataOff := 36, ttlIdx := 1, svcLen := 8 }

def beVal (bs : Bytes) : Nat := bs.foldl (fun a b => a * 256 + b) 0

/-- `binary.Write(buf, BigEndian, uint64)` -/
def u64BE (v : Nat) : Bytes :=
  [v / 72057594037927936 % 256, v / 281474976710656 % 256, v / 1099511627776 % 256, v / 4294967296 % 256,
   v / 16777216 % 256, v / 65536 % 256, v / 256 % 256, v % 256]

/-- `fixedLenBytesFromString(s, l)`: `make([]byte, l); copy(bytes, s)` -/
def fixedLen (s : Bytes) (l : Nat) : Bytes := s.take l ++ List.replicate (l - s.length) 0

/-- `stringFromFixedLenBytes`: strip trailing NULs -/
def stripZeros (b : Bytes) : Bytes := (b.reverse.dropWhile (· == 0)).reverse

/-- `translateDataFromMessage` for the standard layout: `[MsgTypeData, ttl, 0, 0]`, the two
name hashes, the two NUL-padded service names, the payload.  `h` is the name hash. -/
def encode (h : Bytes → Nat) (m : Msg) : Bytes :=
  [0, m.ttl % 256, 0, 0] ++ u64BE (h m.fromNode) ++ u64BE (h m.toNode)
    ++ fixedLen m.fromSvc 8 ++ fixedLen m.toSvc 8 ++ m.data

inductive DecErr where
  | short | hash
  deriving DecidableEq, Repr

/-- `translateDataToMessage` with hash table `tbl` (`GetNameFromHash`) -/
def decode (L : Layout) (tbl : Nat → Option Bytes) (d : Bytes) : Except DecErr Msg :=
  if d.length < L.minLen then .error .short else
  match tbl (beVal ((d.drop L.fromOff).take 8)) with
  | none => .error .hash
  | some fn =>
    match tbl (beVal ((d.drop L.toOff).take 8)) with
    | none => .error .hash
    | some tn =>
      .ok { fromNode := fn, toNode := tn,
            fromSvc := stripZeros ((d.drop L.fsvcOff).take L.svcLen),
            toSvc := stripZeros ((d.drop L.tsvcOff).take L.svcLen),
            ttl := d.getD L.ttlIdx 0, data := d.drop L.dataOff }

/-- the layout given by regenerated facts -/
def layoutOfFacts (minLen fromOff toOff fsvcOff tsvcOff dataOff ttlIdx svcLen : Nat) : Layout :=
  { minLen, fromOff, toOff, fsvcOff, tsvcOff, dataOff, ttlIdx, svcLen }

/-- a service name the codec preserves: at most 8 bytes, not ending in NUL -/
def svcOK (s : Bytes) : Prop := s.length ≤ 8 ∧ s.getLast? ≠ some 0

instance (s : Bytes) : Decidable (svcOK s) := by unfold svcOK; exact inferInstance

end Receptor.Wire
