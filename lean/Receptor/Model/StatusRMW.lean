/-!
# Status-file read-modify-write protocol (`StatusFileData.Save / Load / UpdateFullStatus`) — C14

Any number of writers (goroutines of the daemon, the runner process) and readers operate on
one status file.  Every operation is a sequence of micro-steps; a schedule (a list of thread
ids) interleaves them arbitrarily.  The lock file is an exclusive lock: `acquire` is enabled
only while nobody holds it.

* update `f` (`UpdateFullStatus`): acquire · read the stored record (or keep the in-memory
  copy if the file is empty) and apply `f` · truncate · write · release
* save `v` (`Save` of a freshly built record `v`): acquire · truncate (the `O_TRUNC` open) ·
  write · release
* load (`Load`): acquire · read · release

`lockFirst` is the regenerated fact that every operation takes the lock before it opens the
file; without it (`Save` truncating before the lock, say) the truncate micro-step is not
protected.
-/
namespace Receptor.StatusRMW

inductive Op (α : Type) where
  | update (f : α → α)
  | save (v : α)
  | load

/-- the function an operation applies to the stored record (`none`: it only reads) -/
def Op.fn {α} : Op α → Option (α → α)
  | .update f => some f
  | .save v => some fun _ => v
  | .load => none

/-- where a thread is inside its current operation -/
inductive Pc (α : Type) where
  | idle                    -- not started / between operations
  | acqU (f : α → α)        -- update: lock held, nothing read yet
  | modified (v : α)        -- update: new record computed
  | truncated (v : α)       -- update: file truncated, record not yet written
  | written                 -- update/load: done with the file, lock still held
  | acqL                    -- load: lock held, nothing read yet

structure Th (α : Type) where
  ops : List (Op α)
  done : List (Op α)        -- ghost: the operations this thread has completed, oldest first
  pc : Pc α
  mem : α                   -- the writer's in-memory copy of the record

structure St (α : Type) where
  file : Option α           -- `none` = empty file
  owner : Option Nat
  th : List (Th α)
  log : List (Nat × (α → α)) -- (thread, function) of every write operation, in lock-acquisition order
  reads : List (Option α)   -- what every completed load saw

def setTh {α} (s : St α) (t : Nat) (x : Th α) : St α := { s with th := s.th.set t x }

/-- one micro-step of thread `t`; `none` when the thread is finished or blocked on the lock -/
def step {α} (s : St α) (t : Nat) : Option (St α) :=
  match s.th[t]? with
  | none => none
  | some x =>
    match x.ops, x.pc with
    | [], _ => none
    | .update f :: _, .idle =>
      if s.owner = none then
        some { (setTh s t { x with pc := .acqU f }) with owner := some t, log := s.log ++ [(t, f)] }
      else none
    | .save v :: _, .idle =>
      if s.owner = none then
        some { (setTh s t { x with pc := .modified v, mem := v }) with owner := some t, log := s.log ++ [(t, fun _ => v)] }
      else none
    | .load :: _, .idle =>
      if s.owner = none then some { (setTh s t { x with pc := .acqL }) with owner := some t } else none
    | _ :: _, .acqU f =>
      let v := f (match s.file with | some r => r | none => x.mem)
      some (setTh s t { x with pc := .modified v, mem := v })
    | _ :: _, .modified v => some { (setTh s t { x with pc := .truncated v }) with file := none }
    | _ :: _, .truncated v => some { (setTh s t { x with pc := .written }) with file := some v }
    | _ :: _, .acqL =>
      some { (setTh s t { x with pc := .written, mem := (match s.file with | some r => r | none => x.mem) }) with
             reads := s.reads ++ [s.file] }
    | op :: rest, .written => some { (setTh s t { x with ops := rest, done := x.done ++ [op], pc := .idle }) with owner := none }

/-- run a schedule; steps of finished or blocked threads are skipped -/
def run {α} (s : St α) : List Nat → St α
  | [] => s
  | t :: rest => run ((step s t).getD s) rest

def applyAll {α} (fs : List (α → α)) (r : α) : α := fs.foldl (fun a f => f a) r

def init {α} (r0 : α) (progs : List (List (Op α))) : St α :=
  { file := some r0, owner := none, th := progs.map fun p => { ops := p, done := [], pc := .idle, mem := r0 }, log := [], reads := [] }

def finished {α} (s : St α) : Prop := ∀ x ∈ s.th, x.ops = []

/-- the functions written so far, in lock-acquisition order -/
def St.fns {α} (s : St α) : List (α → α) := s.log.map (·.2)

/-- the functions thread `t` contributed, in lock-acquisition order -/
def fnsOfLog {α} (log : List (Nat × (α → α))) (t : Nat) : List (α → α) := (log.filter fun e => e.1 == t).map (·.2)

def St.fnsOf {α} (s : St α) (t : Nat) : List (α → α) := fnsOfLog s.log t

/-- the operation a thread is in the middle of -/
def Th.cur {α} (x : Th α) : List (Op α) :=
  match x.pc, x.ops with
  | .idle, _ => []
  | _, op :: _ => [op]
  | _, [] => []

def opFns {α} (ops : List (Op α)) : List (α → α) := ops.filterMap Op.fn

end Receptor.StatusRMW
