import Receptor.Model.Sockets
import Receptor.Generated.Facts
import Receptor.Model.ListenerClose
/-!
# C17 — sockets, listeners and streams close at any time without crash or leak
-/
namespace Receptor.Sock

/-- **Tie (translator)**: a deliverer that sees the socket cancelled just returns (it does not close the
receive channel); `ReadFrom` watches the context in both of its selects; withdrawing an advertisement
checks the table entry; `PacketConn.Close` unbinds, cancels and withdraws; the clean-up goroutine of a
successful dial waits for the end of the QUIC connection (or of the node) and then closes the socket. -/
theorem C17_facts :
    Receptor.Facts.sock_handoff_on_cancel = "return nil"
    ∧ Receptor.Facts.sock_readfrom_selects = "m = <-pc.recvChan|<-pc.context.Done();m = <-pc.recvChan|<-pc.context.Done()|<-time.After(time.Until(pc.GetReadDeadline()))"
    ∧ Receptor.Facts.sock_ad_remove_checked = true
    ∧ Receptor.Facts.sock_close = "Lock;defer-Unlock;unbind;cancel;advertise:withdraw;return nil"
    ∧ Receptor.Facts.sock_dial_cleanup = "<-qc.Context().Done()|<-s.context.Done();_ = qs.Close();_ = pc.Close()"
    ∧ Receptor.Facts.sock_listener_close_order = "quic-listener<packet-conn" := by decide +kernel

theorem modSock_panicked (s : St) (i : Nat) (f : Sock → Sock) : (modSock s i f).panicked = s.panicked := by
  unfold modSock; split <;> rfl

theorem modSock_registry (s : St) (i : Nat) (f : Sock → Sock) : (modSock s i f).registry = s.registry := by
  unfold modSock; split <;> rfl

theorem closeSock_panicked (s : St) (i : Nat) (h : s.panicked = false) : (closeSock allGuards s i).panicked = false := by
  unfold closeSock
  split
  · exact h
  · simp only [allGuards]
    split
    · split
      · simp [modSock_panicked, h]
      · simp [modSock_panicked, h]
    · simp [modSock_panicked, h]

/-- **no_crash.** No sequence of opening, closing (any number of times), sending to, reading from, waking,
subscribing, unsubscribing, dialling and ending connections — in any order, of any length — makes the
process panic. -/
theorem no_crash (ops : List Op) : (run allGuards {} ops).panicked = false := by
  suffices h : ∀ (ops : List Op) (s : St), s.panicked = false → (run allGuards s ops).panicked = false from h ops {} rfl
  intro ops
  induction ops with
  | nil => intro s h; exact h
  | cons op rest ih =>
    intro s h
    apply ih
    unfold step
    simp only [h, Bool.false_eq_true, if_false]
    cases op with
    | close i => exact closeSock_panicked s i h
    | connClose c =>
      simp only
      split
      · split
        · exact closeSock_panicked _ _ rfl
        · rfl
      · exact h
    | _ => simp only <;> (try (repeat' split)) <;> simp_all [modSock_panicked, allGuards]


/-! ### No leak: a bound name always belongs to an open socket -/

abbrev RegOK (s : St) : Prop := ∀ n ∈ s.registry, ∃ (j : Nat) (y : Sock), s.socks[j]? = some y ∧ y.open_ = true ∧ y.name = n

theorem getElem?_set_ne2 {α} (l : List α) (i j : Nat) (a : α) (h : i ≠ j) : (l.set i a)[j]? = l[j]? := by
  simp [List.getElem?_set, h]

theorem getElem?_set_eq2 {α} (l : List α) (i : Nat) (a x : α) (h : l[i]? = some x) : (l.set i a)[i]? = some a := by
  have : i < l.length := by
    cases Nat.lt_or_ge i l.length with
    | inl h' => exact h'
    | inr h' => rw [List.getElem?_eq_none h'] at h; cases h
  simp [List.getElem?_set, this]

/-- changing a socket's counters keeps the invariant -/
theorem regOK_modSock (s : St) (i : Nat) (f : Sock → Sock) (hf : ∀ x, (f x).open_ = x.open_ ∧ (f x).name = x.name)
    (h : RegOK s) : RegOK (modSock s i f) := by
  unfold modSock
  split
  · rename_i x hx
    intro n hn
    obtain ⟨j, y, hj, ho, hname⟩ := h n hn
    by_cases hij : i = j
    · subst hij
      rw [hx] at hj; cases hj
      exact ⟨i, f x, getElem?_set_eq2 _ _ _ _ hx, by rw [(hf x).1]; exact ho, by rw [(hf x).2]; exact hname⟩
    · exact ⟨j, y, by rw [getElem?_set_ne2 _ _ _ _ hij]; exact hj, ho, hname⟩
  · exact h

theorem regOK_closeSock (G : Guards) (s : St) (i : Nat) (h : RegOK s) : RegOK (closeSock G s i) := by
  unfold closeSock
  split
  · exact h
  · rename_i x hx
    -- after the name is unbound and the socket marked closed
    have base : RegOK (modSock { s with registry := s.registry.filter (· != x.name) } i fun y => { y with open_ := false, subs := 0 }) := by
      unfold modSock
      simp only [hx]
      intro n hn
      have hn' : n ∈ s.registry ∧ n ≠ x.name := by simpa using hn
      obtain ⟨j, y, hj, ho, hname⟩ := h n hn'.1
      have hij : i ≠ j := by
        intro e; subst e; rw [hx] at hj; cases hj; exact hn'.2 hname.symm
      exact ⟨j, y, by simp only; rw [getElem?_set_ne2 _ _ _ _ hij]; exact hj, ho, hname⟩
    have keep : ∀ t, RegOK t → RegOK (modSock t i fun y => { y with adEntry := false }) :=
      fun t ht => regOK_modSock t i _ (fun _ => ⟨rfl, rfl⟩) ht
    split
    · split
      · exact keep _ base
      · split
        · exact base
        · exact fun n hn => base n hn
    · exact base

theorem regOK_append (s : St) (x : Sock) (hx : x.open_ = true) (h : RegOK s) (conns : List (Nat × Bool)) :
    RegOK { s with socks := s.socks ++ [x], registry := s.registry ++ [x.name], conns := conns } := by
  intro n hn
  simp only [List.mem_append, List.mem_singleton] at hn
  rcases hn with hn | hn
  · obtain ⟨j, y, hj, ho, hname⟩ := h n hn
    have hlt : j < s.socks.length := by
      cases Nat.lt_or_ge j s.socks.length with
      | inl h' => exact h'
      | inr h' => rw [List.getElem?_eq_none h'] at hj; cases hj
    exact ⟨j, y, by simp only; rw [List.getElem?_append_left hlt]; exact hj, ho, hname⟩
  · exact ⟨s.socks.length, x, by simp, hx, hn.symm⟩

theorem regOK_step (G : Guards) (s : St) (op : Op) (h : RegOK s) : RegOK (step G s op) := by
  unfold step
  split
  · exact h
  · cases op with
    | listen name adv =>
      simp only
      split
      · exact h
      · exact regOK_append s { name := name, adv := adv, adEntry := adv } rfl h s.conns
    | close i => exact regOK_closeSock G s i h
    | dial => exact regOK_append s { name := freshName s } rfl h _
    | connClose c =>
      simp only
      split
      · split
        · exact regOK_closeSock G _ _ h
        · exact h
      · exact h
    | send i =>
      simp only
      split
      · split
        · exact regOK_modSock s i _ (fun _ => ⟨rfl, rfl⟩) h
        · exact h
      · exact h
    | recv i =>
      simp only
      split
      · split
        · exact regOK_modSock s i _ (fun _ => ⟨rfl, rfl⟩) h
        · exact h
      · exact h
    | subscribe i =>
      simp only
      split
      · split
        · exact regOK_modSock s i _ (fun _ => ⟨rfl, rfl⟩) h
        · exact h
      · exact h
    | wake i =>
      simp only
      split
      · split
        · split
          · exact h
          · exact regOK_modSock s i _ (fun _ => ⟨rfl, rfl⟩) h
        · exact h
      · exact h
    | unsubscribe i =>
      simp only
      split
      · split
        · exact regOK_modSock s i _ (fun _ => ⟨rfl, rfl⟩) h
        · exact h
      · exact h

/-- **no_leak.** After any sequence of operations every bound service name belongs to a socket that is
still open — with or without the guards: no closing order leaves a name bound. -/
theorem no_leak (G : Guards) (ops : List Op) : RegOK (run G {} ops) := by
  suffices h : ∀ (ops : List Op) (s : St), RegOK s → RegOK (run G s ops) from h ops {} (by intro n hn; cases hn)
  intro ops
  induction ops with
  | nil => intro s h; exact h
  | cons op rest ih => intro s h; exact ih _ (regOK_step G s op h)

/-- **all_closed_nothing_bound.** Once every socket has been closed, no service name is bound any more. -/
theorem all_closed_nothing_bound (G : Guards) (ops : List Op) (hc : ∀ x ∈ (run G {} ops).socks, x.open_ = false) :
    (run G {} ops).registry = [] := by
  have h := no_leak G ops
  cases hr : (run G {} ops).registry with
  | nil => rfl
  | cons n rest =>
    obtain ⟨j, y, hj, ho, _⟩ := h n (by rw [hr]; simp)
    have := hc y (List.mem_of_getElem? hj)
    rw [this] at ho; cases ho

/-- **conn_end_releases_socket.** When a dialled connection ends, the ephemeral socket it was given is
closed and its service name unbound (given that the source releases it — the defect repaired in /repo). -/
theorem conn_end_releases_socket (s : St) (c i : Nat) (x : Sock) (hp : s.panicked = false) (hc : s.conns[c]? = some (i, true))
    (hx : s.socks[i]? = some x) :
    x.name ∉ (step allGuards s (.connClose c)).registry := by
  unfold step
  simp only [hp, Bool.false_eq_true, if_false, hc, allGuards, if_true]
  unfold closeSock
  simp only [hx]
  have key : x.name ∉ (s.registry.filter (· != x.name)) := by simp
  split <;> (try split) <;> (try split) <;> simp_all [modSock_registry]

/-! ### The defects found with this model (repaired in /repo) -/

/-- two deliverers parked at a socket that is then closed: the second one to notice closes the receive channel again -/
theorem C17_witness_double_close_of_recv :
    (run { allGuards with recvCloseOnce := false } {} [.listen 7 false, .send 0, .send 0, .close 0, .wake 0, .wake 0]).panicked = true := by decide

/-- closing an advertising socket twice: the second withdrawal dereferences a missing table entry -/
theorem C17_witness_double_close_of_advertised :
    (run { allGuards with adRemoveChecked := false } {} [.listen 7 true, .close 0, .close 0]).panicked = true := by decide

/-- a dialled connection whose socket is not released when it ends: the name stays bound for ever -/
theorem C17_witness_dial_leak :
    (run { allGuards with dialReleasesSocket := false } {} [.dial, .connClose 0]).registry = [1] := by decide

/-- Non-vacuity: the same histories with the guards -/
example : (run allGuards {} [.listen 7 true, .send 0, .send 0, .close 0, .wake 0, .wake 0, .close 0, .dial, .connClose 0]).panicked = false
    ∧ (run allGuards {} [.listen 7 true, .send 0, .send 0, .close 0, .wake 0, .wake 0, .close 0, .dial, .connClose 0]).registry = [] := by decide

end Receptor.Sock

namespace Receptor.ListenerClose

/-- the order of the two closes in the source (regenerated fact) -/
def pcFirstOfFacts : Bool := decide (Receptor.Facts.sock_listener_close_order = "packet-conn<quic-listener")

theorem order_of_source : pcFirstOfFacts = false := by decide +kernel

theorem inv_init : Inv init = true := by decide

theorem inv_step_and_not_stuck : ∀ (a : Fin 6) (b : Fin 5) (t : Bool) (m o : Fin 3),
    Inv ⟨a, b, t, m, o⟩ = true →
      stuck false ⟨a, b, t, m, o⟩ = false
      ∧ (∀ s', stepA false ⟨a, b, t, m, o⟩ = some s' → Inv s' = true)
      ∧ (∀ s', stepB ⟨a, b, t, m, o⟩ = some s' → Inv s' = true) := by
  decide

theorem inv_run : ∀ (sched : List Bool) (s : St), Inv s = true → Inv (run false s sched) = true := by
  intro sched
  induction sched with
  | nil => intro s h; exact h
  | cons w rest ih =>
    intro s h
    obtain ⟨a, b, t, m, o⟩ := s
    obtain ⟨_, hA, hB⟩ := inv_step_and_not_stuck a b t m o h
    cases w with
    | true =>
      simp only [run]
      cases hs : stepA false ⟨a, b, t, m, o⟩ with
      | none => simpa [hs] using ih _ h
      | some s' => simpa [hs] using ih s' (hA s' hs)
    | false =>
      simp only [run]
      cases hs : stepB ⟨a, b, t, m, o⟩ with
      | none => simpa [hs] using ih _ h
      | some s' => simpa [hs] using ih s' (hB s' hs)

/-- **listener_close_never_wedges.** With the QUIC listener closed before the packet connection, under every schedule of
the caller and the transport's read loop: as long as `Listener.Close` has not returned, somebody can move. -/
theorem listener_close_never_wedges (sched : List Bool) : stuck false (run false init sched) = false := by
  have h := inv_run sched init inv_init
  generalize run false init sched = s at h
  obtain ⟨a, b, t, m, o⟩ := s
  exact (inv_step_and_not_stuck a b t m o h).1

/-- Witness: the other order has a schedule after which both wait for each other for ever -/
theorem C17_witness_listener_close_wedges : stuck true (run true init [true, true, false]) = true := by decide


end Receptor.ListenerClose
