import Receptor.Drive.Util
import Receptor.Model.Forward
namespace Receptor.Drive.Unreach
open Lean Receptor.Drive Receptor.Forward

/-- `monitorUnreachable`'s cancel condition (as in `Receptor.Forward.dialCancelledBy`; problems other
than the three standard strings can only be "not service unknown") -/
def cancels (remoteNode : Node) (remoteSvc : Svc) (problem : String) (toNode : Node) (toSvc : Svc) : Bool :=
  problem == "service unknown" && toNode == remoteNode && toSvc == remoteSvc

def handle (op : String) (a r : Json) : Except String Reply := do
  match op with
  | "deliver" =>
    let me ← getHex a "me"
    let sockets ← getHexList a "sockets"
    let dials ← (← getArr a "dials").mapM fun d => do pure ((← getHex d "socket"), (← getHex d "node"), (← getHex d "svc"))
    let notices ← (← getArr a "notices").mapM fun n => do
      pure ((← getHex n "reporter"), (← getHex n "from"), (← getHex n "fsvc"), (← getHex n "to"), (← getHex n "tsvc"), (← getStr n "problem"))
    let socks := sockets.eraseDups.filter fun s => s != pingSvc && s != unreachSvc && s.length ≤ 8
    let perSock := socks.map fun svc =>
      let got := notices.filter fun (_, f, fs, _, _, _) => socketGetsNotice me svc
        { fromNode := f, toNode := [], fromSvc := fs, toSvc := [], problem := .expired }
      (toHex svc, jArr (got.map fun (rep, f, fs, t, ts, pr) =>
        jObj [("n", jObj [("from", jHex f), ("to", jHex t), ("fsvc", jHex fs), ("tsvc", jHex ts), ("problem", Json.str pr)]),
              ("rfrom", jHex rep)]))
    let cancelled := dials.map fun (sock, node, svc) =>
      socks.contains sock && notices.any fun (_, f, fs, t, ts, pr) =>
        socketGetsNotice me sock { fromNode := f, toNode := [], fromSvc := fs, toSvc := [], problem := .expired }
          && cancels node svc pr t ts
    let m := jObj [("ok", jObj [("sockets", jObj perSock), ("cancelled", jArr (cancelled.map Json.bool)),
                               ("rets", jArr (notices.map fun _ => Json.str "ok"))])]
    let holds := r == m
    pure { m := m, prop := some holds,
           why := if holds then "" else "notice handed to the wrong sockets, or a dial cancelled / not cancelled against the rule",
           sig := if holds then "" else "C16/deliver/socket-filter-or-dial-cancel" }
  | "churn" =>
    -- liveness only: whatever sockets are closed meanwhile, the sender's notices arrive and the node keeps working
    let m := jObj [("ok", jObj [("live", Json.bool true)])]
    let holds := r == m
    pure { m := m, prop := some holds,
           why := if holds then "" else "closing unrelated sockets while a notice was being fanned out wedged the node's notice delivery",
           sig := if holds then "" else "C16/churn/notice-delivery-wedged" }
  | "localdial" =>
    -- the model: a packet from this node to an unbound, non-reserved service of this node
    let me : Node := [109, 101]
    let cfg : NodeCfg := { route := fun _ => none, conn := fun _ => false, listener := fun _ => false, fw := fun _ _ _ _ => .accept, maxHops := 30 }
    let p : Packet := { fromNode := me, fromSvc := [101, 112, 104], toNode := me, toSvc := [110, 111, 115, 117, 99, 104, 115, 118], ttl := 30, body := .raw [0] }
    let syncErr := Receptor.Forward.handle stdHops me cfg p == Outcome.err .serviceUnknown
    let m := jObj [("failed", Json.bool syncErr), ("fast", Json.bool syncErr), ("unknown", Json.bool syncErr)]
    let holds := r == m
    pure { m := m, prop := some holds,
           why := if holds then "" else "a stream dial to a service of this very node that nobody listens on did not fail at once with 'service unknown' (the error returned by the send was lost; the dial waited for a time-out)",
           sig := if holds then "" else "C16/localdial/not-failed-at-once" }
  | _ => throw s!"bad-op unreach {op}"

end Receptor.Drive.Unreach
