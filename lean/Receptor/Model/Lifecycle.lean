/-!
# Life cycle of a command work unit's status record — property C13

Two processes rewrite the record, each rewrite an atomic read-modify-write (property C14): the
daemon (submit path, Start, Cancel) and the detached command runner (pending, running ticks,
final state, or "Killed" when interrupted).  A scheduler picks any enabled step.  The stored
state is 0 pending, 1 running, 2 succeeded, 3 failed, 4 cancelled.
-/
namespace Receptor.Life

/-- where the runner process is -/
inductive RPhase where
  | notStarted         -- the daemon has not launched it yet
  | launched           -- process exists, nothing written yet
  | ticking            -- command started; status rewritten every 250 ms
  | cmdDone (ok : Bool) -- the command exited; the final status is not written yet
  | exited
  deriving DecidableEq, Repr

/-- where a cancel request is -/
inductive CPhase where
  | none
  | signalled          -- the runner was alive when the daemon sent the interrupt; the daemon waits for its exit
  | done
  deriving DecidableEq, Repr

structure St where
  state : Nat := 0
  size : Nat := 0
  out : Nat := 0              -- bytes the command has written so far
  r : RPhase := .notStarted
  interrupted : Bool := false -- an interrupt is pending for the runner
  c : CPhase := .none
  deriving DecidableEq, Repr

inductive Ev where
  | dPending             -- daemon: "Waiting for Input Data" / "Starting Worker" / "Launching command runner" (pending, size 0)
  | dLaunch              -- daemon: start the runner process
  | rInit                -- runner: pending "Not started yet", then start the command
  | output (n : Nat)     -- the command writes n bytes
  | rTick                -- runner: running, current output size
  | cmdExit (ok : Bool)  -- the command exits
  | rFinal               -- runner: succeeded / failed with the final size, then exit
  | rKilled              -- runner: handles the interrupt: kill the command, failed "Killed", exit
  | cancel               -- daemon: Cancel(): interrupt the runner if its process still exists
  | dCancelWrite         -- daemon: after the runner's exit: cancelled
  deriving DecidableEq, Repr

/-- `keepSucceeded`: Cancel's final write leaves a record that says succeeded alone (regenerated fact) -/
def step (keepSucceeded : Bool) (s : St) : Ev → St
  | .dPending => if s.r = .notStarted then { s with state := 0, size := 0 } else s
  | .dLaunch => if s.r = .notStarted then { s with r := .launched } else s
  | .rInit => if s.r = .launched then { s with state := 0, size := 0, r := .ticking } else s
  | .output n => if s.r = .ticking then { s with out := s.out + n } else s
  | .rTick => if s.r = .ticking then { s with state := 1, size := s.out } else s
  | .cmdExit ok => if s.r = .ticking then { s with r := .cmdDone ok } else s
  | .rFinal =>
    match s.r with
    | .cmdDone ok => { s with state := if ok then 2 else 3, size := s.out, r := .exited }
    | _ => s
  | .rKilled =>
    -- the interrupt is noticed only in the loop that waits for the command (before launch of the command the
    -- default action ends the process without a write; after the command's exit nobody reads the signal)
    if s.interrupted then
      match s.r with
      | .ticking => { s with state := 3, size := s.out, r := .exited, interrupted := false }
      | .launched => { s with r := .exited, interrupted := false }
      | _ => s
    else s
  | .cancel =>
    if s.c ≠ .none then s
    else match s.r with
      | .notStarted => s                      -- no pid recorded: nothing to do
      | .exited => { s with c := .done }      -- "process already finished": nothing written
      | _ => { s with interrupted := true, c := .signalled }
  | .dCancelWrite =>
    if s.c = .signalled ∧ s.r = .exited then
      if keepSucceeded ∧ s.state = 2 then { s with c := .done } else { s with state := 4, c := .done }
    else s

def run (k : Bool) (s : St) (evs : List Ev) : St := evs.foldl (step k) s

/-- the stage of a state: pending < running < finished -/
def stage (st : Nat) : Nat := if st = 0 then 0 else if st = 1 then 1 else 2

/-- the states the record goes through -/
def trace (k : Bool) : St → List Ev → List (Nat × Nat)
  | _, [] => []
  | s, e :: rest => let s' := step k s e; (s'.state, s'.size) :: trace k s' rest


/-! ## Unit IDs and release -/

abbrev ID := List Nat

/-- `generateUnitID` (under the index write lock): random candidates are drawn until one is neither
in the index nor a directory of the data directory -/
def alloc (used : List ID) (candidates : List ID) : Option ID := candidates.find? fun c => !used.contains c

/-- a series of submissions; each has its own stream of random candidates; the lock makes them one after another -/
def allocAll : List ID → List (List ID) → List ID
  | _, [] => []
  | used, cs :: rest =>
    match alloc used cs with
    | some id => id :: allocAll (id :: used) rest
    | none => allocAll used rest

/-- the unit index and the unit directories -/
structure Table where
  index : List ID
  dirs : List ID
  deriving DecidableEq, Repr

/-- a successful `Release`: the directory is removed, then the unit is deleted from the index -/
def release (t : Table) (id : ID) : Table := { index := t.index.filter (· != id), dirs := t.dirs.filter (· != id) }

/-- `Release(force)`: up to three attempts to remove the directory; when they all fail a release that is
not forced fails and changes nothing, a forced one deletes the unit from the index only -/
def releaseResult (t : Table) (id : ID) (removeOK force : Bool) : Table × Bool :=
  if removeOK then (release t id, true)
  else if force then ({ t with index := t.index.filter (· != id) }, true)
  else (t, false)

/-- `findUnit`: in the index, or found again on disk -/
def known (t : Table) (id : ID) : Bool := t.index.contains id || t.dirs.contains id

end Receptor.Life
