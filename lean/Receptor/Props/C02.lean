import Receptor.Proofs.Wire
import Receptor.Proofs.Framer
import Receptor.Proofs.Forward
import Receptor.Proofs.ForwardSched
import Receptor.Generated.Facts
/-!
# C02 — datagrams arrive intact, only at the addressed service, with the true source
-/
namespace Receptor.C02
open Receptor.Wire Receptor.Framer Receptor.Forward

abbrev Bytes := List Nat

/-- the packet layout the source currently uses (regenerated facts) -/
def layoutFacts : Layout :=
  layoutOfFacts Receptor.Facts.wire_min_len Receptor.Facts.wire_from_off Receptor.Facts.wire_to_off
    Receptor.Facts.wire_fsvc_off Receptor.Facts.wire_tsvc_off Receptor.Facts.wire_data_off
    Receptor.Facts.wire_ttl_idx Receptor.Facts.wire_svc_len

/-- **Tie (translator)**: field offsets and widths of `translateDataToMessage` /
`translateDataFromMessage`, the framer's two-byte little-endian length, and the dispatch
order of `handleMessageData` (destination test before the registry lookup by ToService). -/
theorem C02_facts :
    layoutFacts = stdLayout
    ∧ Receptor.Facts.wire_enc_header = "MsgTypeData,msg.HopsToLive,0,0"
    ∧ Receptor.Facts.wire_enc_order = "FromNode,ToNode,FromService:8,ToService:8,Data"
    ∧ Receptor.Facts.wire_hash_endian = "BigEndian"
    ∧ Receptor.Facts.frame_len_bytes = 2 ∧ Receptor.Facts.frame_endian = "LittleEndian"
    ∧ Receptor.Facts.frame_get = "buffer[2:msgSize+2];buffer[msgSize+2:]"
    ∧ Receptor.Facts.dispatch_key = "md.ToNode == s.nodeID;s.listenerRegistry[md.ToService]" := by decide

/-- **decode_encode.** For every payload, TTL, node IDs known to the hash table without
collision, and service names of at most 8 bytes not ending in NUL (in particular 1–8
non-zero bytes), decoding an encoded packet returns exactly the packet. -/
theorem decode_encode (h : Bytes → Nat) (tbl : Nat → Option Bytes) (m : Msg)
    (hh : ∀ n, h n < 18446744073709551616)
    (hf : tbl (h m.fromNode) = some m.fromNode) (ht : tbl (h m.toNode) = some m.toNode)
    (hfs : svcOK m.fromSvc) (hts : svcOK m.toSvc) (httl : m.ttl < 256) :
    decode stdLayout tbl (encode h m) = .ok m := by
  have e : encode h m = [0, m.ttl % 256, 0, 0] ++ (u64BE (h m.fromNode) ++ (u64BE (h m.toNode)
      ++ (fixedLen m.fromSvc 8 ++ (fixedLen m.toSvc 8 ++ m.data)))) := by
    simp [encode, List.append_assoc]
  have l1 := u64BE_length (h m.fromNode)
  have l2 := u64BE_length (h m.toNode)
  have l3 := fixedLen_length m.fromSvc 8
  have l4 := fixedLen_length m.toSvc 8
  have d4 : (encode h m).drop 4 = u64BE (h m.fromNode) ++ (u64BE (h m.toNode)
      ++ (fixedLen m.fromSvc 8 ++ (fixedLen m.toSvc 8 ++ m.data))) := by
    rw [e]; exact drop_prefix _ _ 4 rfl
  have d12 : (encode h m).drop 12 = u64BE (h m.toNode)
      ++ (fixedLen m.fromSvc 8 ++ (fixedLen m.toSvc 8 ++ m.data)) := by
    have : (encode h m).drop 12 = ((encode h m).drop 4).drop 8 := by simp
    rw [this, d4]; exact drop_prefix _ _ 8 l1
  have d20 : (encode h m).drop 20 = fixedLen m.fromSvc 8 ++ (fixedLen m.toSvc 8 ++ m.data) := by
    have : (encode h m).drop 20 = ((encode h m).drop 12).drop 8 := by simp
    rw [this, d12]; exact drop_prefix _ _ 8 l2
  have d28 : (encode h m).drop 28 = fixedLen m.toSvc 8 ++ m.data := by
    have : (encode h m).drop 28 = ((encode h m).drop 20).drop 8 := by simp
    rw [this, d20]; exact drop_prefix _ _ 8 l3
  have d36 : (encode h m).drop 36 = m.data := by
    have : (encode h m).drop 36 = ((encode h m).drop 28).drop 8 := by simp
    rw [this, d28]; exact drop_prefix _ _ 8 l4
  have hlen : ¬ ((encode h m).length < 36) := by
    rw [e]; simp only [List.length_append, l1, l2, l3, l4]; simp; omega
  unfold decode
  simp only [stdLayout, hlen, if_false]
  rw [d4, take_prefix _ _ 8 l1, beVal_u64BE _ (hh _), hf]
  simp only
  rw [d12, take_prefix _ _ 8 l2, beVal_u64BE _ (hh _), ht]
  simp only
  rw [d20, take_prefix _ _ 8 l3, d28, take_prefix _ _ 8 l4, d36]
  rw [stripZeros_fixedLen _ hfs, stripZeros_fixedLen _ hts]
  have : (encode h m).getD 1 0 = m.ttl := by rw [e]; simp; omega
  rw [this]

/-- Non-vacuity of `decode_encode`: an 8-byte and a 1-byte service name, empty payload. -/
example : svcOK [1, 2, 3, 4, 5, 6, 7, 8] ∧ svcOK [255] ∧ ¬ svcOK [1, 0] := by decide

/-- **decode_total / short packets**: fewer than 36 bytes is an error, for every table
(the decoder is a total function: it cannot index out of range). -/
theorem decode_short (tbl : Nat → Option Bytes) (d : Bytes) (h : d.length < 36) :
    decode stdLayout tbl d = .error .short := by
  simp [decode, stdLayout, h]

/-- the decoder's only outcomes on ≥ 36 bytes are a packet or "hash not found" -/
theorem decode_outcomes (tbl : Nat → Option Bytes) (d : Bytes) :
    (∃ m, decode stdLayout tbl d = .ok m) ∨ decode stdLayout tbl d = .error .short
      ∨ decode stdLayout tbl d = .error .hash := by
  unfold decode
  split
  · exact Or.inr (Or.inl rfl)
  · split
    · exact Or.inr (Or.inr rfl)
    · split
      · exact Or.inr (Or.inr rfl)
      · exact Or.inl ⟨_, rfl⟩

/-- **deframe_any_schedule.** For every list of messages (each shorter than 65536 bytes)
and every schedule of `RecvData` / `GetMessage` calls whose received chunks concatenate to the
framed stream — every chunking, including one-byte chunks and cuts inside a length prefix,
and every placement of the reads — the messages returned so far followed by those still
buffered are exactly the messages sent, in order, and nothing else is left. -/
theorem deframe_any_schedule (msgs : List Bytes) (hm : ∀ m ∈ msgs, m.length < 65536)
    (ops : List Op) (hc : chunksOf ops = (msgs.map frame).flatten) :
    (runOps [] ops).1 ++ (drain (runOps [] ops).2).1 = msgs ∧ (drain (runOps [] ops).2).2 = [] := by
  have := runOps_drain ops []
  simp only [List.nil_append, hc, drain_frames msgs hm] at this
  exact this

/-- messages are never returned early, reordered or invented: at any point of any schedule the
messages returned so far are a prefix of the messages sent -/
theorem deframe_prefix (msgs : List Bytes) (hm : ∀ m ∈ msgs, m.length < 65536)
    (ops : List Op) (hc : chunksOf ops = (msgs.map frame).flatten) :
    (runOps [] ops).1 <+: msgs := by
  have := (deframe_any_schedule msgs hm ops hc).1
  exact ⟨_, this⟩

/-- Non-vacuity: two messages cut into three chunks (one cut inside a length prefix), a read
attempted too early. -/
example : (runOps [] [.recv [2], .get, .recv [0, 7, 8, 0], .get, .recv [0], .get]).1 = [[7, 8], []]
    ∧ chunksOf [.recv [2], .get, .recv [0, 7, 8, 0], .get, .recv [0], .get]
        = ([[7, 8], []].map frame).flatten := by decide

/-- **deliver_exactly_once_at_addressee.** On a network whose tables route the packet to its
destination in `d ≤ ttl` links, one send is relayed along exactly those links and ends in
exactly one event: delivery at the destination node to the listener registered under the
addressed service — with the source node, source service and payload the sender put in
(`walk` carries the packet unchanged; only the budget decreases). -/
theorem deliver_exactly_once_at_addressee (net : Net) (p : Packet) (v0 : Node) (vs : List Node)
    (hr : IsRoute net p (v0 :: vs)) (hh : p.ttl < 256) (hd : vs.length ≤ p.ttl)
    (hfw : (net p.toNode).fw p.fromNode p.fromSvc p.toNode p.toSvc = .accept)
    (hsvc : p.toSvc ≠ pingSvc ∧ p.toSvc ≠ unreachSvc) (hl : (net p.toNode).listener p.toSvc = true) :
    route net v0 p = (links (v0 :: vs), ((v0 :: vs).getLast (by simp), .delivered)) := by
  unfold route
  rw [walk_route net p vs v0 (p.ttl + 1) p.ttl hr hd hh (by omega)]
  simp only [Prod.mk.injEq, true_and]
  unfold handle
  simp only [hfw, if_true, hsvc.1, hsvc.2, if_false, hl]

/-- a packet for a service nobody listens on is never handed to another listener: the only
possible outcomes at the destination are an error to a local sender or a notice -/
theorem no_misdelivery (me : Node) (cfg : NodeCfg) (p : Packet)
    (hl : cfg.listener p.toSvc = false) : handle stdHops me cfg p ≠ .delivered := by
  unfold handle
  intro h
  split at h
  · cases h
  · split at h <;> cases h
  · split at h
    · split at h
      · split at h
        · cases h
        · split at h <;> cases h
      · split at h
        · split at h <;> cases h
        · simp [hl] at h
          split at h <;> cases h
    · split at h
      · split at h <;> cases h
      · split at h
        · cases h
        · split at h <;> cases h

theorem addresseesFrom_not_mem (k : Nat) (ids : List Node) (t : Node) (h : t ∉ ids) : addresseesFrom k ids t = [] := by
  induction ids generalizing k with
  | nil => rfl
  | cons id rest ih =>
    simp only [List.mem_cons, not_or] at h
    have hne : ¬ id = t := fun e => h.1 e.symm
    simp [addresseesFrom, hne, ih (k + 1) h.2]

/-- **addressee_unique.** In a mesh whose node IDs are pairwise different as byte strings — IDs that differ only in
letter case included — a datagram addressed to a node is treated as local by that node and by no other. -/
theorem addressee_unique (ids : List Node) (h : ids.Nodup) (to : Nat) (hto : to < ids.length) :
    addressees ids ids[to] = [to] := by
  have gen : ∀ (ids : List Node) (k to : Nat) (hto : to < ids.length), ids.Nodup →
      addresseesFrom k ids ids[to] = [k + to] := by
    intro ids
    induction ids with
    | nil => intro k to hto; simp at hto
    | cons id rest ih =>
      intro k to hto hnd
      have hnd' := List.nodup_cons.mp hnd
      cases to with
      | zero =>
        simp only [List.getElem_cons_zero, addresseesFrom, if_true, Nat.add_zero]
        rw [addresseesFrom_not_mem (k + 1) rest id hnd'.1]
        rfl
      | succ j =>
        have hj : j < rest.length := by simpa using hto
        simp only [List.getElem_cons_succ, addresseesFrom]
        have hne : ¬ id = rest[j] := by
          intro e
          exact hnd'.1 (e ▸ List.getElem_mem hj)
        simp only [hne, if_false, List.nil_append]
        rw [ih (k + 1) j hj hnd'.2]
        congr 1
        omega
  have := gen ids 0 to hto h
  simpa [addressees] using this

/-- Non-vacuity: IDs differing only in case are different nodes -/
example : addressees [[104, 117, 98], [72, 85, 66], [72, 117, 98]] [72, 85, 66] = [1] := by decide

/-- **stream_link_roundtrip.** A stream backend (TCP, WebSocket): every datagram is encoded, framed with its length and
written to the byte stream; the receiver reads the stream in chunks of any sizes, at any moments, deframes and decodes.
What it obtains is exactly the datagrams that were sent, in order — names, services, hop count and payload. -/
theorem stream_link_roundtrip (h : Bytes → Nat) (tbl : Nat → Option Bytes) (ms : List Msg)
    (hh : ∀ n, h n < 18446744073709551616)
    (hwf : ∀ m ∈ ms, tbl (h m.fromNode) = some m.fromNode ∧ tbl (h m.toNode) = some m.toNode ∧ svcOK m.fromSvc ∧ svcOK m.toSvc ∧ m.ttl < 256)
    (hlen : ∀ m ∈ ms, (encode h m).length < 65536)
    (ops : List Op) (hc : chunksOf ops = ((ms.map (encode h)).map frame).flatten) :
    ((runOps [] ops).1 ++ (drain (runOps [] ops).2).1).map (decode stdLayout tbl) = ms.map Except.ok := by
  have hm : ∀ b ∈ ms.map (encode h), b.length < 65536 := by
    intro b hb
    obtain ⟨m, hm, rfl⟩ := List.mem_map.mp hb
    exact hlen m hm
  obtain ⟨h1, _⟩ := deframe_any_schedule (ms.map (encode h)) hm ops hc
  rw [h1, List.map_map]
  apply List.map_congr_left
  intro m hmem
  obtain ⟨a, b, c, d, e⟩ := hwf m hmem
  exact decode_encode h tbl m hh a b c d e


/-! ## Concurrent senders: any number of datagrams in flight, any schedule of their steps -/

/-- **concurrent_sends_independent.** For every network, every burst of sends (any senders, any addressees, any number)
and every schedule of single steps — any interleaving of the `handleMessageData` calls of the datagrams in flight —
once nothing is in flight any more, the datagrams that ended are exactly those of the sends followed one at a time:
send `k` ended once, at the node and with the outcome `Forward.route` gives it alone.  No schedule loses a datagram,
delivers one twice, or moves one to another listener. -/
theorem concurrent_sends_independent (net : Net) (sends : List (Node × Packet)) (sched : List Nat)
    (hq : ((launch sends).run stdHops net sched).flights = []) :
    ((launch sends).run stdHops net sched).ended.Perm (aloneFrom net 0 sends) := by
  have h := run_fates stdHops net sched (launch sends)
  unfold Sky.fates at h
  rw [hq] at h
  simpa [launch, launch_fates] using h

/-- …and at every moment of every schedule (whether or not anything is still in flight): whatever has ended is part of
that list — nothing is delivered that the send followed alone would not deliver, and nothing twice. -/
theorem concurrent_sends_safe_at_every_moment (net : Net) (sends : List (Node × Packet)) (sched : List Nat) :
    ∃ later : List Ended, (((launch sends).run stdHops net sched).ended ++ later).Perm (aloneFrom net 0 sends) := by
  have h := run_fates stdHops net sched (launch sends)
  unfold Sky.fates at h
  have h2 : (launch sends).ended ++ (launch sends).flights.map (Flight.fate stdHops net) = aloneFrom net 0 sends := by
    simp [launch, launch_fates]
  rw [h2] at h
  exact ⟨_, h⟩

/-- each send ends exactly once: the identities of the ended datagrams are `0 … n-1`, each once -/
theorem each_send_ends_once (net : Net) (sends : List (Node × Packet)) (sched : List Nat)
    (hq : ((launch sends).run stdHops net sched).flights = []) :
    (((launch sends).run stdHops net sched).ended.map Prod.fst).Perm (List.range sends.length) := by
  have h := (concurrent_sends_independent net sends sched hq).map Prod.fst
  rw [aloneFrom_ids] at h
  simpa [List.range_eq_range'] using h

/-- the premise "nothing is in flight any more" is met by a schedule for every burst: the steps a datagram may take are
bounded by its budget, so picking the first datagram in flight often enough empties the network -/
theorem some_schedule_drains (net : Net) (sends : List (Node × Packet)) :
    ∃ sched, ((launch sends).run stdHops net sched).flights = [] :=
  ⟨_, drains stdHops net _ (launch sends) (Nat.le_refl _)⟩

/-- a line 1 — 2 — 3 with a listener for service `[9]` on node 3 and on node 1 -/
def lineNet : Net := fun v =>
  { route := fun t => if t = v then none else if v = [2] then some t else some [2],
    conn := fun _ => true, listener := fun s => s = [9] && v != [2],
    fw := fun _ _ _ _ => .accept, maxHops := 30 }

def pk (a b : Node) (pay : Nat) : Packet := { fromNode := a, toNode := b, fromSvc := [7], toSvc := [9], ttl := 30, body := .raw [pay] }

/-- Non-vacuity: two datagrams crossing each other on the line, steps interleaved 1,1,0,1,0,0 — both delivered, each at
its addressee; the first to end is the second send. -/
example : ((launch [([1], pk [1] [3] 5), ([3], pk [3] [1] 6)]).run stdHops lineNet [1, 1, 0, 1, 0, 0]).flights.length = 0
    ∧ ((launch [([1], pk [1] [3] 5), ([3], pk [3] [1] 6)]).run stdHops lineNet [1, 1, 0, 1, 0, 0]).ended
        = [(1, ([1], .delivered)), (0, ([3], .delivered))] := by decide


/-- the source's choice (regenerated fact) -/
def copyOnSendOfFacts : Bool := decide (Receptor.Facts.send_local_copy = "local:copy")

/-- **local_send_intact.** A datagram sent to a listener on the same node arrives as it was when it was sent, whatever the
sender writes into its buffer after `WriteTo` has returned. -/
theorem local_send_intact (sent after : Bytes) : localRead copyOnSendOfFacts sent after = sent := by
  have : copyOnSendOfFacts = true := by decide +kernel
  simp [localRead, this]

/-- Witness: a message that shares the caller's buffer shows the reader bytes of the next send -/
theorem C02_witness_shared_buffer : localRead false [1, 1, 1] [2, 2, 1] = [2, 2, 1] ∧ localRead true [1, 1, 1] [2, 2, 1] = [1, 1, 1] := by
  decide

end Receptor.C02
