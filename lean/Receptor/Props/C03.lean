import Receptor.Model.Bridge
import Receptor.Generated.Facts
/-!
# C03 — mesh streams are reliable ordered byte pipes (the part that is Receptor's own code)

Reliability, ordering and retransmission over lossy, reordering links are quic-go's; what Receptor
adds is the relay loop of the bridges and the end points.  The theorems are about that loop; the
end-to-end statement is exercised by the `stream` engine on lossy multi-hop meshes.
-/
namespace Receptor.Bridge

/-- **Tie (translator)**: the relay loop reads, notes an error, writes what was read *before* it acts on the
error, then closes the destination and stops; `BridgeConns` runs one relay per direction and waits for both;
a dial writes one zero byte, the listener reads and checks it — accepting it also when it arrives together
with the end of the stream; `Conn.Close` closes the writing side of the stream only; `ReadFrom` copies the
datagram's payload; both QUIC transports get a PacketConn that treats a momentarily missing next-hop
connection as loss of the datagram; a pending dial is cancelled by a notice about exactly its remote node and service. -/
theorem C03_facts :
    Receptor.Facts.bridge_loop = "read;err:shouldClose;n>0:write(buf[:n]),short->shouldClose;shouldClose:close(c2),return"
    ∧ Receptor.Facts.bridge_conns = "two-halves;wait-both"
    ∧ Receptor.Facts.stream_first_byte = "dial:write(0);accept:read(1);byte-with-eof:accepted;check(n==1,byte==0)"
    ∧ Receptor.Facts.stream_close = "Close:stream-write-side;CloseConnection:connection"
    ∧ Receptor.Facts.stream_readfrom_copy = "copy(p, m.Data)"
    ∧ Receptor.Facts.stream_quic_adapter = "transports:2;lost-not-fatal:errors.Is(err, ErrNoConnectionToNextHop)"
    ∧ Receptor.Facts.unreach_dial_cancel = "msg.Problem == ProblemServiceUnknown && msg.ToNode == remoteAddr.node && msg.ToService == remoteAddr.service" := by
  decide +kernel

theorem bridgeHalf_acc (w : Writer) (hw : w.failAt = none) : ∀ (reads : List ReadRes) (o : Out), o.closed = false →
    (bridgeHalf true w reads o).written = o.written ++ upToFirstErr reads
    ∧ (bridgeHalf true w reads o).closed = hasErr reads := by
  intro reads
  induction reads with
  | nil => intro o ho; simp [bridgeHalf, upToFirstErr, hasErr, ho]
  | cons r rest ih =>
    intro o ho
    unfold bridgeHalf
    simp only [ho, Bool.false_eq_true, if_false, Bool.not_true, Bool.and_false, hw]
    have hfail : ∀ n : Nat, ((none : Option Nat) == some n) = false := fun _ => rfl
    simp only [hfail, Bool.and_false, Bool.not_false, Bool.and_true, Bool.or_false]
    by_cases he : r.err = true
    · simp only [he, if_true]
      by_cases hd : r.data.isEmpty = true
      · have : r.data = [] := by simpa using hd
        simp [hd, upToFirstErr, he, hasErr, this]
      · simp [hd, upToFirstErr, he, hasErr]
    · have he' : r.err = false := by simpa using he
      simp only [he', Bool.false_eq_true, if_false]
      by_cases hd : r.data.isEmpty = true
      · have hdd : r.data = [] := by simpa using hd
        simp only [hd, Bool.not_true, Bool.false_eq_true, if_false]
        obtain ⟨h1, h2⟩ := ih o ho
        refine ⟨?_, ?_⟩
        · rw [h1]; simp [upToFirstErr, he', hdd]
        · rw [h2]; simp [hasErr, he']
      · simp only [hd, Bool.not_false, if_true]
        obtain ⟨h1, h2⟩ := ih { written := o.written ++ r.data, closed := false, writes := o.writes + 1 } rfl
        refine ⟨?_, ?_⟩
        · rw [h1]; simp [upToFirstErr, he', List.append_assoc]
        · rw [h2]; simp [hasErr, he']

/-- **bridge_copies_exactly.** Whatever the chunking of the reads — including a last read that returns
bytes *together with* end-of-stream — a relay whose destination accepts its writes has written exactly
the bytes read up to and including that last read, in order, and has closed the destination if and only
if the source ended. -/
theorem bridge_copies_exactly (reads : List ReadRes) :
    (bridgeHalf true {} reads {}).written = upToFirstErr reads ∧ (bridgeHalf true {} reads {}).closed = hasErr reads := by
  have := bridgeHalf_acc {} rfl reads {} rfl
  simpa using this

/-- **bridge_prefix_while_open.** While the source has not ended, what has been written is exactly what has been read. -/
theorem bridge_prefix_while_open (reads : List ReadRes) (h : hasErr reads = false) :
    (bridgeHalf true {} reads {}).written = reads.flatMap (·.data) ∧ (bridgeHalf true {} reads {}).closed = false := by
  obtain ⟨h1, h2⟩ := bridge_copies_exactly reads
  refine ⟨?_, by rw [h2, h]⟩
  rw [h1]
  clear h1 h2
  induction reads with
  | nil => rfl
  | cons r rest ih =>
    have hr : r.err = false := by
      simp only [hasErr, List.any_cons, Bool.or_eq_false_iff] at h; exact h.1
    have hrest : hasErr rest = false := by
      simp only [hasErr, List.any_cons, Bool.or_eq_false_iff] at h; exact h.2
    simp [upToFirstErr, hr, ih hrest]

/-- the variant that stops before writing what came with the end of the stream loses those bytes -/
theorem C03_witness_final_chunk_lost :
    (bridgeHalf false {} [⟨[104, 101, 97, 100], false⟩, ⟨[116, 97, 105, 108], true⟩] {}).written = [104, 101, 97, 100]
    ∧ (bridgeHalf true {} [⟨[104, 101, 97, 100], false⟩, ⟨[116, 97, 105, 108], true⟩] {}).written = [104, 101, 97, 100, 116, 97, 105, 108] := by
  decide

end Receptor.Bridge
