import Sp.Flood2
namespace Flood
variable {adj : Node → Adj}

theorem nbr_ne (ht : Topo adj) {a b : Node} (h : hasKey (adj a) b = true) : a ≠ b := by
  intro e; subst e; rw [ht.irrefl a] at h; cases h

/-- delivery that changes neither `info` nor `known` at the receiver and relays nothing
    (own update, duplicate id, or stale update) -/
theorem good_deliver_frame (ht : Topo adj) {seq0 : Node → Nat} {σ : Net} (hg : Good adj seq0 σ)
    {a b : Node} {u : Update} (hu : u ∈ σ.q a b) (r : NodeSt × Bool)
    (hinfo : r.1.info = (σ.st b).info) (hknown : r.1.known = (σ.st b).known) (hrel : r.2 = false)
    (hseen : (r.1.seen = (σ.st b).seen ∧ (u.origin = b ∨ u.id ∈ (σ.st b).seen)) ∨
             (r.1.seen = u.id :: (σ.st b).seen ∧ u.origin ≠ b ∧
               ∃ k, (σ.st b).info u.origin = some k ∧ u.seq ≤ k)) :
    Good adj seq0 (deliverR adj σ a b u r) := by
  obtain ⟨hab, huseq, huid, huconns⟩ := hg.qOk a b u hu
  have hst : ∀ x, ((deliverR adj σ a b u r).st x).info = (σ.st x).info := by
    intro x; by_cases hx : x = b
    · subst hx; rw [deliver_st_b]; exact hinfo
    · rw [deliver_st_ne _ _ _ _ _ _ hx]
  have hkn : ∀ x, ((deliverR adj σ a b u r).st x).known = (σ.st x).known := by
    intro x; by_cases hx : x = b
    · subst hx; rw [deliver_st_b]; exact hknown
    · rw [deliver_st_ne _ _ _ _ _ _ hx]
  have upd : ∀ n m, Upd (deliverR adj σ a b u r) n m ↔ Upd σ n m := by
    intro n m; simp only [Upd, hst, deliver_seq]
  have memq : ∀ x y u', u' ∈ (deliverR adj σ a b u r).q x y → u' ∈ σ.q x y := by
    intro x y u' h
    rcases mem_deliver_q h with h | ⟨_, h2, _⟩
    · exact h
    · rw [hrel] at h2; cases h2
  -- if the stale update's id is the current id of m, the receiver is already up to date
  have staleUpd : ∀ m, (r.1.seen = u.id :: (σ.st b).seen) → σ.cur m = some u.id → Upd σ b m := by
    intro m hs hc
    rcases hseen with ⟨hs', _⟩ | ⟨_, _, k, hk, hle⟩
    · -- seen unchanged contradicts hs only if list equal to cons of itself; derive by length
      have : (σ.st b).seen.length = (u.id :: (σ.st b).seen).length := by rw [← hs, hs']
      simp at this
    · obtain ⟨ho, hsq⟩ := hg.idUniq a b u m hu hc
      subst ho
      have := hg.noFuture b _ k hk
      have hk' : k = σ.seq u.origin := by omega
      subst hk'; exact hk
  have seenb : ∀ j, j ∈ r.1.seen → j ∈ (σ.st b).seen ∨ (r.1.seen = u.id :: (σ.st b).seen ∧ j = u.id) := by
    intro j hj
    rcases hseen with ⟨hs, _⟩ | ⟨hs, _⟩
    · left; rw [hs] at hj; exact hj
    · rw [hs] at hj
      rcases List.mem_cons.mp hj with h | h
      · right; exact ⟨hs, h⟩
      · left; exact h
  refine ⟨hg.seqMono, ?_, ?_, hg.curUsed, ?_, ?_, ?_, ?_, ?_, ?_⟩
  · intro n m k hk; rw [hst] at hk; exact hg.noFuture n m k hk
  · intro n j hj
    by_cases hn : n = b
    · subst hn; rw [deliver_st_b] at hj
      rcases seenb j hj with h | ⟨_, h⟩
      · exact hg.seenUsed n j h
      · subst h; exact huid
    · rw [deliver_st_ne _ _ _ _ _ _ hn] at hj; exact hg.seenUsed n j hj
  · intro x y u' h; exact hg.qOk x y u' (memq x y u' h)
  · intro x y u' h hs
    obtain ⟨h1, h2⟩ := hg.qCur x y u' (memq x y u' h) hs
    exact ⟨h1, h2.imp id (fun h => (upd _ _).mpr h)⟩
  · intro x y u' m h hc; exact hg.idUniq x y u' m (memq x y u' h) hc
  · intro c m j hc hj hcm
    rw [upd]
    by_cases hcb : c = b
    · subst hcb; rw [deliver_st_b] at hj
      rcases seenb j hj with h | ⟨hs, h⟩
      · exact hg.seenCur c m j hc h hcm
      · subst h; exact staleUpd m hs hc
    · rw [deliver_st_ne _ _ _ _ _ _ hcb] at hj; exact hg.seenCur c m j hc hj hcm
  · intro m hm n hn b' hb' hb'm
    have hn' : n = m ∨ Upd σ n m := hn.imp id (fun h => (upd _ _).mp h)
    rcases hg.K m hm n hn' b' hb' hb'm with h | ⟨u', hu', ho, hs, hid⟩
    · left; exact (upd _ _).mpr h
    · by_cases hb'b : b' = b
      · subst hb'b
        rcases hseen with ⟨hs', hw⟩ | ⟨hs', hob, k, hk, hle⟩
        · right
          refine ⟨u', mem_q_deliver hu' (Or.inr ?_), ho, hs, ?_⟩
          · intro e; subst e
            rcases hw with hw | hw
            · exact hb'm (by rw [← hw, ho])
            · exact hid hw
          · rw [deliver_st_b, hs']; exact hid
        · by_cases hid' : u'.id = u.id
          · left
            have hcur := (hg.qCur n b' u' hu' (by rw [ho]; exact hs)).1
            rw [ho, hid'] at hcur
            exact (upd _ _).mpr (staleUpd m hs' hcur)
          · right
            refine ⟨u', mem_q_deliver hu' (Or.inr (fun e => hid' (by rw [e]))), ho, hs, ?_⟩
            rw [deliver_st_b, hs']
            intro hmem
            rcases List.mem_cons.mp hmem with h | h
            · exact hid' h
            · exact hid h
      · right
        refine ⟨u', mem_q_deliver hu' (Or.inl (fun h => hb'b h.2)), ho, hs, ?_⟩
        rw [deliver_st_ne _ _ _ _ _ _ hb'b]; exact hid
  · intro n m hnm hm hupd
    rw [hkn]; exact hg.K2 n m hnm hm ((upd _ _).mp hupd)

end Flood
