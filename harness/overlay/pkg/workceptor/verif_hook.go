package workceptor

// Injected by /verif (go build/test -overlay) next to an instrumented copy of workunitbase.go:
// every rewrite of a status record — in the daemon and in the command-runner process — is
// reported while the status lock is held, so the lines of one unit are in the order of the writes.
// Nothing happens unless VERIF_STATUS_LOG names a file.

import (
	"encoding/json"
	"os"
	"strconv"
	"strings"
	"sync"
	"syscall"
	"time"
)

var (
	verifCrashMu    sync.Mutex
	verifCrashSeen  = map[string]int{}
	verifCrashArmed string
)

// verifCrashPoint: a crash point of property C04.  The harness arms one by writing "role point n" into the
// file named by VERIF_CRASH_FILE; the process whose VERIF_ROLE is that role kills itself (SIGKILL) the n-th
// time it passes that point after the arming.
func verifCrashPoint(name string) {
	p := os.Getenv("VERIF_CRASH_FILE")
	if p == "" {
		return
	}
	b, err := os.ReadFile(p)
	if err != nil {
		return
	}
	f := strings.Fields(string(b))
	if len(f) != 3 || f[0] != os.Getenv("VERIF_ROLE") || f[1] != name {
		return
	}
	n, _ := strconv.Atoi(f[2])
	verifCrashMu.Lock()
	if verifCrashArmed != string(b) {
		verifCrashArmed = string(b)
		verifCrashSeen = map[string]int{}
	}
	verifCrashSeen[name]++
	hit := verifCrashSeen[name] == n
	verifCrashMu.Unlock()
	if hit {
		_ = os.WriteFile(p+".hit", []byte(name), 0o600)
		_ = syscall.Kill(os.Getpid(), syscall.SIGKILL)
		time.Sleep(time.Hour)
	}
}

func verifStatusHook(filename string, had bool, old *StatusFileData, cur *StatusFileData) {
	p := os.Getenv("VERIF_STATUS_LOG")
	if p == "" {
		return
	}
	rec := map[string]interface{}{"file": filename, "pid": os.Getpid(), "had": had, "ns": time.Now().UnixNano(),
		"new_state": cur.State, "new_size": cur.StdoutSize, "new_detail": cur.Detail}
	if old != nil {
		rec["old_state"], rec["old_size"] = old.State, old.StdoutSize
	}
	b, _ := json.Marshal(rec)
	b = append(b, '\n')
	f, err := os.OpenFile(p, os.O_CREATE|os.O_APPEND|os.O_WRONLY, 0o600)
	if err != nil {
		return
	}
	_, _ = f.Write(b)
	_ = f.Close()
}
