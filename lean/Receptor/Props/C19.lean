import Receptor.Model.Work
import Receptor.Generated.Facts
/-!
# C19 — secret work parameters are never disclosed by the API nor sent without TLS
-/
namespace Receptor.Work

/-- **Tie (translator)**: the redaction test (lower-cased key, prefix `secret_`) in
`remoteUnit.Status`, the same test before `AllocateUnit` in `AllocateRemoteUnit`, every
status/list response built from `Status()` (never `UnredactedStatus`), the unredacted copy used
only to build the submission sent to the remote node (and, for Kubernetes units, the API calls
to the cluster). -/
theorem C19_facts :
    Receptor.Facts.redact_test = "strings.HasPrefix(strings.ToLower(k), \"secret_\")"
    ∧ Receptor.Facts.redact_alloc_test = "strings.HasPrefix(strings.ToLower(k), \"secret_\")"
    ∧ Receptor.Facts.redact_alloc_order = "secrets-test,refuse-without-tls,AllocateUnit"
    ∧ Receptor.Facts.redact_cfr_source = "w.UnitStatus(unitID);unit.Status()"
    ∧ Receptor.Facts.redact_unredacted_users = "connectUsingKubeconfig,createPod,startRemoteUnit" := by decide +kernel

/-- **redacted_has_no_secret_key.** No parameter whose name begins with `secret_` in any letter
case survives redaction. -/
theorem redacted_has_no_secret_key (ps : Params) : ∀ e ∈ redact ps, isSecretKey e.1 = false := by
  intro e he
  simp only [redact, List.mem_filter] at he
  simpa using he.2

/-- **non_secret_unchanged.** Every other parameter is reported, with its value, and nothing is
invented. -/
theorem non_secret_unchanged (ps : Params) (e : Bytes × Bytes) :
    e ∈ redact ps ↔ e ∈ ps ∧ isSecretKey e.1 = false := by
  simp [redact, List.mem_filter]

/-- any letter case of the prefix is recognised -/
theorem secret_any_case (k : Bytes) (h : lowerB (k.take 7) = secretPrefix) : isSecretKey k = true := by
  have : (lowerB k).take 7 = lowerB (k.take 7) := by simp [lowerB, List.map_take]
  simp [isSecretKey, this, h]

/-- redaction is idempotent and order-preserving (a status of a status shows the same) -/
theorem redact_idem (ps : Params) : redact (redact ps) = redact ps := by
  simp [redact, List.filter_filter]

/-- **refused_before_store.** A remote submission with a secret parameter and no TLS client
profile is refused, and (the check coming first) nothing has been written or sent. -/
theorem refused_before_store (ps : Params) (h : hasSecrets ps = true) :
    allocateRemote true [] ps = (.refused, false) := by
  simp [allocateRemote, h]

/-- … and only then: with a TLS profile, or without secrets, the parameters are stored as given -/
theorem stored_otherwise (tls : Bytes) (ps : Params) (h : hasSecrets ps = false ∨ tls ≠ []) :
    allocateRemote true tls ps = (.stored ps, true) := by
  rcases h with h | h
  · simp [allocateRemote, h]
  · simp [allocateRemote, h]

/-- Non-vacuity: mixed-case secret keys and a look-alike. -/
example : redact [([83, 69, 67, 82, 69, 84, 95, 120], [1]), ([115, 101, 99, 114, 101, 116], [2]), ([115, 101, 99, 114, 101, 116, 95], [3])]
    = [([115, 101, 99, 114, 101, 116], [2])] := by decide

end Receptor.Work
