package netceptor

// C01 silent-link detection, receiver half: protoReader against a scripted session.  The record
// `lastReceivedData` must be refreshed by datagrams only, never by receive timeouts.

import (
	"context"
	"encoding/json"
	"io"
	"sync"
	"testing"
	"time"
)

type agingArgs struct {
	Events []string `json:"events"` // "data" | "timeout"
}

type agingSession struct {
	events []string
	idx    int
	calls  chan int
	resume chan struct{}
	ctx    context.Context
}

func (a *agingSession) Send([]byte) error { return nil }
func (a *agingSession) Close() error      { return nil }
func (a *agingSession) Recv(time.Duration) ([]byte, error) {
	i := a.idx
	a.idx++
	// rendezvous: announce the call, then wait until the harness has looked at the record
	select {
	case a.calls <- i:
	case <-a.ctx.Done():
		return nil, io.EOF
	}
	select {
	case <-a.resume:
	case <-a.ctx.Done():
		return nil, io.EOF
	}
	if i >= len(a.events) {
		<-a.ctx.Done()
		return nil, io.EOF
	}
	if a.events[i] == "data" {
		return []byte{0xEE, 1, 2, 3}, nil
	}
	return nil, ErrTimeout
}

func agingApply(op string, raw json.RawMessage) interface{} {
	var a agingArgs
	if err := json.Unmarshal(raw, &a); err != nil {
		panic(err)
	}
	if op != "reader" {
		panic("verif: unknown op " + op)
	}
	ctx, cancel := context.WithCancel(context.Background())
	defer cancel()
	t0 := time.Unix(1000, 0)
	ci := &connInfo{ReadChan: make(chan []byte), WriteChan: make(chan []byte), Context: ctx, CancelFunc: cancel,
		lastReceivedData: t0, lastReceivedLock: &sync.RWMutex{}, logger: verifQuietLogger()}
	go func() {
		for {
			select {
			case <-ci.ReadChan:
			case <-ctx.Done():
				return
			}
		}
	}()
	sess := &agingSession{events: a.Events, calls: make(chan int), resume: make(chan struct{}), ctx: ctx}
	go ci.protoReader(sess)
	stamped := []bool{}
	last := t0
	wait := func(i int) bool {
		select {
		case got := <-sess.calls:
			return got == i
		case <-time.After(10 * time.Second):
			return false
		}
	}
	if !wait(0) {
		return map[string]interface{}{"err": "reader never called Recv"}
	}
	sess.resume <- struct{}{}
	for i := range a.Events {
		if !wait(i + 1) { // the reader is back for the next datagram: event i is fully processed
			return map[string]interface{}{"err": "reader stopped"}
		}
		ci.lastReceivedLock.RLock()
		now := ci.lastReceivedData
		ci.lastReceivedLock.RUnlock()
		stamped = append(stamped, !now.Equal(last))
		last = now
		sess.resume <- struct{}{}
	}
	return map[string]interface{}{"ok": stamped}
}

func agingGen(v *verifRun) {
	for i := 0; i < v.n; i++ {
		var ev []string
		for k := v.rng.Intn(12); k >= 0; k-- {
			if v.rng.Intn(3) == 0 {
				ev = append(ev, "data")
			} else {
				ev = append(ev, "timeout")
			}
		}
		v.do(agingApply, "reader", agingArgs{Events: ev})
	}
}

func TestVerifAging(t *testing.T) {
	v := verifOpen(t, "aging")
	v.run(agingApply, agingGen)
}
