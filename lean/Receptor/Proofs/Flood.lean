/-! Feasibility prototype: one flooding round from a quiescent state yields the true adjacency
    at every node of the component (C01 protocol layer). Static symmetric topology. -/
namespace Flood

abbrev Node := Nat
abbrev UId := Nat
abbrev Adj := List (Node × Nat)

structure Update where
  origin : Node
  id : UId
  seq : Nat
  conns : Adj
deriving DecidableEq

structure NodeSt where
  info  : Node → Option Nat
  known : Node → Option Adj
  seen  : List UId

structure Net where
  st   : Node → NodeSt
  q    : Node → Node → List Update
  seq  : Node → Nat
  cur  : Node → Option UId      -- ghost: id of the latest own update
  used : List UId

def hasKey (l : Adj) (x : Node) : Bool := l.any (fun e => e.1 == x)

/-- handleRoutingUpdate's prune: every other origin that the update does not list loses its edge to the update's origin -/
def prune (me : Node) (u : Update) (k : Node → Option Adj) : Node → Option Adj := fun x =>
  if x = me then k x
  else if hasKey u.conns x then k x
  else (k x).map (fun l => l.filter (fun e => e.1 != u.origin))

def accept (me : Node) (s : NodeSt) (u : Update) : NodeSt :=
  let k1 : Node → Option Adj := fun x => if x = u.origin then some u.conns else s.known x
  { info := fun x => if x = u.origin then some u.seq else s.info x
    known := if s.known u.origin = some u.conns then s.known else prune me u k1
    seen := s.seen }

/-- returns new state and whether the update is relayed -/
def handle (me : Node) (s : NodeSt) (u : Update) : NodeSt × Bool :=
  if u.origin = me then (s, false)
  else if u.id ∈ s.seen then (s, false)
  else
    let s1 : NodeSt := { s with seen := u.id :: s.seen }
    match s.info u.origin with
    | some k => if u.seq ≤ k then (s1, false) else (accept me s1 u, true)
    | none => (accept me s1 u, true)

variable (adj : Node → Adj)

def nbr (a b : Node) : Prop := hasKey (adj a) b = true

def originate (σ : Net) (m : Node) (i : UId) : Net :=
  let u : Update := ⟨m, i, σ.seq m + 1, adj m⟩
  { st := σ.st
    q := fun a b => if a = m ∧ hasKey (adj m) b then u :: σ.q a b else σ.q a b
    seq := fun x => if x = m then σ.seq m + 1 else σ.seq x
    cur := fun x => if x = m then some i else σ.cur x
    used := i :: σ.used }

def deliverR (σ : Net) (a b : Node) (u : Update) (r : NodeSt × Bool) : Net :=
  { st := fun x => if x = b then r.1 else σ.st x
    q := fun x y =>
      if x = a ∧ y = b then (σ.q a b).erase u
      else if r.2 = true ∧ x = b ∧ y ≠ a ∧ hasKey (adj b) y then u :: σ.q x y
      else σ.q x y
    seq := σ.seq
    cur := σ.cur
    used := σ.used }

def deliver (σ : Net) (a b : Node) (u : Update) : Net :=
  deliverR adj σ a b u (handle b (σ.st b) u)

inductive Step : Net → Net → Prop
  | orig (σ : Net) (m : Node) (i : UId) : i ∉ σ.used → Step σ (originate adj σ m i)
  | dlv (σ : Net) (a b : Node) (u : Update) : u ∈ σ.q a b → Step σ (deliver adj σ a b u)

inductive Reach (σ0 : Net) : Net → Prop
  | base : Reach σ0 σ0
  | step {σ σ'} : Reach σ0 σ → Step adj σ σ' → Reach σ0 σ'

end Flood

namespace Flood
variable {adj : Node → Adj}

/-! ### case analysis of `handle` -/
inductive HCase (me : Node) (s : NodeSt) (u : Update) : NodeSt × Bool → Prop
  | self : u.origin = me → HCase me s u (s, false)
  | dup : u.origin ≠ me → u.id ∈ s.seen → HCase me s u (s, false)
  | stale (k : Nat) : u.origin ≠ me → u.id ∉ s.seen → s.info u.origin = some k → u.seq ≤ k →
      HCase me s u ({ s with seen := u.id :: s.seen }, false)
  | acc : u.origin ≠ me → u.id ∉ s.seen → (∀ k, s.info u.origin = some k → k < u.seq) →
      HCase me s u (accept me { s with seen := u.id :: s.seen } u, true)

theorem handle_cases (me : Node) (s : NodeSt) (u : Update) : HCase me s u (handle me s u) := by
  unfold handle
  by_cases h1 : u.origin = me
  · simp only [h1, if_true]; exact HCase.self h1
  · simp only [h1, if_false]
    by_cases h2 : u.id ∈ s.seen
    · simp only [h2, if_true]; exact HCase.dup h1 h2
    · simp only [h2, if_false]
      cases hk : s.info u.origin with
      | none =>
        simp only
        exact HCase.acc h1 h2 (by intro k hk'; rw [hk] at hk'; cases hk')
      | some k =>
        simp only
        by_cases h3 : u.seq ≤ k
        · simp only [h3, if_true]; exact HCase.stale k h1 h2 hk h3
        · simp only [h3, if_false]
          exact HCase.acc h1 h2 (by intro k' hk'; rw [hk] at hk'; cases hk'; omega)

/-! ### adjacency facts -/
structure Topo (adj : Node → Adj) : Prop where
  sym : ∀ a b, hasKey (adj a) b = true → hasKey (adj b) a = true
  irrefl : ∀ a, hasKey (adj a) a = false

theorem filter_ne_self_of_not_key (l : Adj) (o : Node) (h : hasKey l o = false) :
    l.filter (fun e => e.1 != o) = l := by
  apply List.filter_eq_self.mpr
  intro e he
  simp only [hasKey, List.any_eq_false] at h
  have := h e he
  simpa using this

def Upd (σ : Net) (n m : Node) : Prop := (σ.st n).info m = some (σ.seq m)

structure Good (adj : Node → Adj) (seq0 : Node → Nat) (σ : Net) : Prop where
  seqMono : ∀ m, seq0 m ≤ σ.seq m
  noFuture : ∀ n m k, (σ.st n).info m = some k → k ≤ σ.seq m
  seenUsed : ∀ n i, i ∈ (σ.st n).seen → i ∈ σ.used
  curUsed : ∀ m i, σ.cur m = some i → i ∈ σ.used
  qOk : ∀ a b u, u ∈ σ.q a b → hasKey (adj a) b = true ∧ u.seq ≤ σ.seq u.origin ∧ u.id ∈ σ.used ∧
          u.conns = adj u.origin
  qCur : ∀ a b u, u ∈ σ.q a b → u.seq = σ.seq u.origin → σ.cur u.origin = some u.id ∧ (a = u.origin ∨ Upd σ a u.origin)
  idUniq : ∀ a b u m, u ∈ σ.q a b → σ.cur m = some u.id → u.origin = m ∧ u.seq = σ.seq m
  seenCur : ∀ c m i, σ.cur m = some i → i ∈ (σ.st c).seen → c ≠ m → Upd σ c m
  K : ∀ m, seq0 m < σ.seq m → ∀ n, (n = m ∨ Upd σ n m) → ∀ b, hasKey (adj n) b = true → b ≠ m →
        Upd σ b m ∨ ∃ u, u ∈ σ.q n b ∧ u.origin = m ∧ u.seq = σ.seq m ∧ u.id ∉ (σ.st b).seen
  K2 : ∀ n m, n ≠ m → seq0 m < σ.seq m → Upd σ n m → (σ.st n).known m = some (adj m)

/-! ### originate preserves Good -/
theorem good_originate {seq0 : Node → Nat} {σ : Net} (ht : Topo adj) (hg : Good adj seq0 σ)
    (m : Node) (i : UId) (hi : i ∉ σ.used) : Good adj seq0 (originate adj σ m i) := by
  have updNe : ∀ n x, x ≠ m → (Upd (originate adj σ m i) n x ↔ Upd σ n x) := by
    intro n x hx; simp [Upd, originate, hx]
  have updM : ∀ n, ¬ Upd (originate adj σ m i) n m := by
    intro n h
    simp only [Upd, originate, if_true] at h
    have := hg.noFuture n m _ h; omega
  have memq : ∀ a b u, u ∈ (originate adj σ m i).q a b →
      u ∈ σ.q a b ∨ (u = ⟨m, i, σ.seq m + 1, adj m⟩ ∧ a = m ∧ hasKey (adj m) b = true) := by
    intro a b u hu
    simp only [originate] at hu
    split at hu
    · rename_i hc
      rcases List.mem_cons.mp hu with h | h
      · right; exact ⟨h, hc.1, hc.2⟩
      · left; exact h
    · left; exact hu
  have qmono : ∀ a b u, u ∈ σ.q a b → u ∈ (originate adj σ m i).q a b := by
    intro a b u hu
    simp only [originate]
    split
    · exact List.mem_cons_of_mem _ hu
    · exact hu
  refine ⟨?_, ?_, ?_, ?_, ?_, ?_, ?_, ?_, ?_, ?_⟩
  · intro x; have := hg.seqMono x; simp only [originate]; split <;> (try subst_vars) <;> omega
  · intro n x k hk
    have := hg.noFuture n x k (by simpa [originate] using hk)
    simp only [originate]; split <;> (try subst_vars) <;> omega
  · intro n j hj
    have := hg.seenUsed n j (by simpa [originate] using hj)
    simp [originate, this]
  · intro x j hj
    simp only [originate] at hj ⊢
    split at hj
    · cases hj; simp
    · exact List.mem_cons_of_mem _ (hg.curUsed x j hj)
  · intro a b u hu
    rcases memq a b u hu with h | ⟨h, ha, hb⟩
    · obtain ⟨h1, h2, h3, h4⟩ := hg.qOk a b u h
      refine ⟨h1, ?_, by simp [originate, h3], h4⟩
      simp only [originate]; split <;> (try subst_vars) <;> omega
    · subst h; subst ha
      exact ⟨hb, by simp [originate], by simp [originate], rfl⟩
  · intro a b u hu hseq
    rcases memq a b u hu with h | ⟨h, ha, hb⟩
    · have hne : u.origin ≠ m := by
        intro he
        have := (hg.qOk a b u h).2.1
        simp only [originate, he, if_true] at hseq
        rw [he] at this; omega
      have hseq' : u.seq = σ.seq u.origin := by simpa [originate, hne] using hseq
      obtain ⟨h1, h2⟩ := hg.qCur a b u h hseq'
      refine ⟨by simpa [originate, hne] using h1, ?_⟩
      rcases h2 with h2 | h2
      · left; exact h2
      · right; exact (updNe a _ hne).mpr h2
    · subst h; subst ha
      exact ⟨by simp [originate], Or.inl rfl⟩
  · intro a b u x hu hc
    rcases memq a b u hu with h | ⟨h, ha, hb⟩
    · have hid := (hg.qOk a b u h).2.2.1
      by_cases hx : x = m
      · subst hx
        simp only [originate, if_true] at hc
        cases hc; exact absurd hid hi
      · have hc' : σ.cur x = some u.id := by simpa [originate, hx] using hc
        obtain ⟨h1, h2⟩ := hg.idUniq a b u x h hc'
        exact ⟨h1, by simp [originate, hx, h2]⟩
    · subst h; subst ha
      by_cases hx : x = a
      · subst hx; exact ⟨rfl, by simp [originate]⟩
      · have hc' : σ.cur x = some i := by simpa [originate, hx] using hc
        exact absurd (hg.curUsed x i hc') hi
  · intro c x j hc hj hcx
    have hj' : j ∈ (σ.st c).seen := by simpa [originate] using hj
    by_cases hx : x = m
    · subst hx
      simp only [originate, if_true] at hc
      cases hc
      exact absurd (hg.seenUsed c _ hj') hi
    · have hc' : σ.cur x = some j := by simpa [originate, hx] using hc
      exact (updNe c x hx).mpr (hg.seenCur c x j hc' hj' hcx)
  · intro x hx n hn b hb hbx
    by_cases hxm : x = m
    · subst hxm
      have hnm : n = x := by
        rcases hn with h | h
        · exact h
        · exact absurd h (updM n)
      subst hnm
      right
      refine ⟨⟨n, i, σ.seq n + 1, adj n⟩, ?_, rfl, by simp [originate], ?_⟩
      · simp [originate, hb]
      · intro hmem
        have : i ∈ (σ.st b).seen := by simpa [originate] using hmem
        exact hi (hg.seenUsed b i this)
    · have hx' : seq0 x < σ.seq x := by simpa [originate, hxm] using hx
      have hn' : n = x ∨ Upd σ n x := by
        rcases hn with h | h
        · left; exact h
        · right; exact (updNe n x hxm).mp h
      rcases hg.K x hx' n hn' b hb hbx with h | ⟨u, hu, h1, h2, h3⟩
      · left; exact (updNe b x hxm).mpr h
      · right
        exact ⟨u, qmono _ _ _ hu, h1, by simp [originate, hxm, h2], by simpa [originate] using h3⟩
  · intro n x hnx hx hupd
    by_cases hxm : x = m
    · subst hxm; exact absurd hupd (updM n)
    · have hx' : seq0 x < σ.seq x := by simpa [originate, hxm] using hx
      have := hg.K2 n x hnx hx' ((updNe n x hxm).mp hupd)
      simpa [originate] using this

end Flood
