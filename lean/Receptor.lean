-- Root of the `Receptor` library: models, proofs and property theorems.
import Receptor.Model.DER
