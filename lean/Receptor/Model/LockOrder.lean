/-!
# Lock order and wait-for cycles (used by C08: "no control-service input can wedge a node")

Threads hold locks and wait for one more.  If every request a thread can make while holding a
lock goes upwards in one fixed order, no set of threads can wait for each other in a cycle.
The requests the source can make ("while holding A, B may be requested, at site S") are a
regenerated fact (`/verif/extract/locks.go`, resolved with go/types).
-/
namespace Receptor.LockOrder

structure Thread where
  held : List String
  want : String

/-- every thread of the set waits for a lock that another thread of the set holds -/
def Deadlocked (ths : List Thread) : Prop := ths ≠ [] ∧ ∀ t ∈ ths, ∃ u ∈ ths, t.want ∈ u.held

def rankIn (order : List String) (l : String) : Nat := order.idxOf l

structure Edge where
  src : String
  dst : String
  site : String
  deriving DecidableEq, Repr

def zipEdges : List String → List String → List String → List Edge
  | a :: as, b :: bs, c :: cs => { src := a, dst := b, site := c } :: zipEdges as bs cs
  | _, _, _ => []

/-- every edge that is not exempt names known locks and goes upwards in `order` -/
def respects (order : List String) (exempt : List Edge) (edges : List Edge) : Bool :=
  edges.all fun e => exempt.contains e || (order.contains e.src && order.contains e.dst && rankIn order e.src < rankIn order e.dst)

end Receptor.LockOrder
