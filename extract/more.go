package main

// factsMore: facts for the remaining properties (one function per property group).
func factsMore(x *extractor) {
}
