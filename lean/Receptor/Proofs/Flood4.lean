import Sp.Flood3
namespace Flood
variable {adj : Node → Adj}

/-- delivery of an update that is accepted (newer than what the receiver knows) and relayed -/
theorem good_deliver_accept (ht : Topo adj) {seq0 : Node → Nat} {σ : Net} (hg : Good adj seq0 σ)
    {a b : Node} {u : Update} (hu : u ∈ σ.q a b)
    (hob : u.origin ≠ b) (hns : u.id ∉ (σ.st b).seen)
    (hlt : ∀ k, (σ.st b).info u.origin = some k → k < u.seq) :
    Good adj seq0 (deliverR adj σ a b u
      (accept b { σ.st b with seen := u.id :: (σ.st b).seen } u, true)) := by
  obtain ⟨hab, huseq, huid, huconns⟩ := hg.qOk a b u hu
  have hneab : a ≠ b := nbr_ne ht hab
  generalize hr : (accept b { σ.st b with seen := u.id :: (σ.st b).seen } u, true) = r
  have hr1 : r.1 = accept b { σ.st b with seen := u.id :: (σ.st b).seen } u := by rw [← hr]
  have hr2 : r.2 = true := by rw [← hr]
  have infob : ∀ x, ((deliverR adj σ a b u r).st b).info x =
      if x = u.origin then some u.seq else (σ.st b).info x := by
    intro x; rw [deliver_st_b, hr1, accept_info]
  have seenb : ((deliverR adj σ a b u r).st b).seen = u.id :: (σ.st b).seen := by
    rw [deliver_st_b, hr1, accept_seen]
  have notUpd : ¬ Upd σ b u.origin := by
    intro h; have := hlt _ h; omega
  have updNe : ∀ n m, ¬ (n = b ∧ m = u.origin) → (Upd (deliverR adj σ a b u r) n m ↔ Upd σ n m) := by
    intro n m hnm
    simp only [Upd, deliver_seq]
    by_cases hn : n = b
    · subst hn
      have hm : m ≠ u.origin := fun h => hnm ⟨rfl, h⟩
      rw [infob, if_neg hm]
    · rw [deliver_st_ne _ _ _ _ _ _ hn]
  have updBO : Upd (deliverR adj σ a b u r) b u.origin ↔ u.seq = σ.seq u.origin := by
    simp only [Upd, deliver_seq, infob, if_true]
    constructor
    · intro h; exact Option.some.inj h
    · intro h; rw [h]
  refine ⟨hg.seqMono, ?_, ?_, hg.curUsed, ?_, ?_, ?_, ?_, ?_, ?_⟩
  · -- noFuture
    intro n m k hk
    by_cases hn : n = b
    · subst hn
      rw [infob] at hk
      split at hk
      · rename_i hm; subst hm; cases hk; exact huseq
      · exact hg.noFuture n m k hk
    · rw [deliver_st_ne _ _ _ _ _ _ hn] at hk; exact hg.noFuture n m k hk
  · -- seenUsed
    intro n j hj
    by_cases hn : n = b
    · subst hn; rw [seenb] at hj
      rcases List.mem_cons.mp hj with h | h
      · subst h; exact huid
      · exact hg.seenUsed n j h
    · rw [deliver_st_ne _ _ _ _ _ _ hn] at hj; exact hg.seenUsed n j hj
  · -- qOk
    intro x y u' h
    rcases mem_deliver_q h with h | ⟨h1, _, hx, _, hy⟩
    · exact hg.qOk x y u' h
    · subst h1; subst hx; exact ⟨hy, huseq, huid, huconns⟩
  · -- qCur
    intro x y u' h hs
    simp only [deliver_seq] at hs
    rcases mem_deliver_q h with h | ⟨h1, _, hx, _, hy⟩
    · obtain ⟨h1, h2⟩ := hg.qCur x y u' h hs
      refine ⟨h1, ?_⟩
      rcases h2 with h2 | h2
      · left; exact h2
      · by_cases hc : x = b ∧ u'.origin = u.origin
        · obtain ⟨hx, ho⟩ := hc
          subst hx; rw [ho] at h2; exact absurd h2 notUpd
        · right; exact (updNe _ _ hc).mpr h2
    · subst h1; subst hx
      exact ⟨(hg.qCur a x u' hu hs).1, Or.inr (updBO.mpr hs)⟩
  · -- idUniq
    intro x y u' m h hc
    rcases mem_deliver_q h with h | ⟨h1, _, _, _, _⟩
    · exact hg.idUniq x y u' m h hc
    · subst h1; exact hg.idUniq a b u' m hu hc
  · -- seenCur
    intro c m j hc hj hcm
    simp only [deliver_cur] at hc
    by_cases hcb : c = b
    · subst hcb
      rw [seenb] at hj
      rcases List.mem_cons.mp hj with h | h
      · subst h
        obtain ⟨ho, hs⟩ := hg.idUniq a c u m hu hc
        subst ho; exact updBO.mpr hs
      · have hold := hg.seenCur c m j hc h hcm
        by_cases hmo : m = u.origin
        · subst hmo; exact absurd hold notUpd
        · exact (updNe _ _ (fun hh => hmo hh.2)).mpr hold
    · rw [deliver_st_ne _ _ _ _ _ _ hcb] at hj
      exact (updNe _ _ (fun hh => hcb hh.1)).mpr (hg.seenCur c m j hc hj hcm)
  · -- K
    intro m hm n hn b' hb' hb'm
    simp only [deliver_seq] at hm ⊢
    by_cases hcase : n = b ∧ m = u.origin
    · -- the receiver has just become up to date about m = origin (or is claimed to be)
      obtain ⟨hnb, hmo⟩ := hcase
      subst hnb; subst hmo
      have hsq : u.seq = σ.seq u.origin := by
        rcases hn with h | h
        · exact absurd h.symm hob
        · exact updBO.mp h
      have hb'n : b' ≠ n := fun e => by subst e; rw [ht.irrefl] at hb'; cases hb'
      obtain ⟨hcur, hsender⟩ := hg.qCur a n u hu hsq
      by_cases hb'a : b' = a
      · subst hb'a
        rcases hsender with h | h
        · exact absurd h hb'm
        · left; exact (updNe _ _ (fun hh => hb'n hh.1)).mpr h
      · by_cases hseen' : u.id ∈ (σ.st b').seen
        · left
          exact (updNe _ _ (fun hh => hb'n hh.1)).mpr (hg.seenCur b' _ _ hcur hseen' hb'm)
        · right
          refine ⟨u, relayed_mem hr2 hneab hb'a hb', rfl, hsq, ?_⟩
          rw [deliver_st_ne _ _ _ _ _ _ hb'n]; exact hseen'
    · have hn' : n = m ∨ Upd σ n m := hn.imp id (fun h => (updNe _ _ hcase).mp h)
      rcases hg.K m hm n hn' b' hb' hb'm with h | ⟨u', hu', ho, hs, hid⟩
      · left
        by_cases hc2 : b' = b ∧ m = u.origin
        · obtain ⟨h1, h2⟩ := hc2; subst h1; subst h2; exact absurd h notUpd
        · exact (updNe _ _ hc2).mpr h
      · by_cases hb'b : b' = b
        · subst hb'b
          by_cases hid' : u'.id = u.id
          · left
            have hcur := (hg.qCur n b' u' hu' (by rw [ho]; exact hs)).1
            rw [ho, hid'] at hcur
            obtain ⟨hoo, hss⟩ := hg.idUniq a b' u m hu hcur
            subst hoo; exact updBO.mpr hss
          · right
            refine ⟨u', mem_q_deliver hu' (Or.inr (fun e => hid' (by rw [e]))), ho, hs, ?_⟩
            rw [seenb]
            intro hmem
            rcases List.mem_cons.mp hmem with h | h
            · exact hid' h
            · exact hid h
        · right
          refine ⟨u', mem_q_deliver hu' (Or.inl (fun h => hb'b h.2)), ho, hs, ?_⟩
          rw [deliver_st_ne _ _ _ _ _ _ hb'b]; exact hid
  · -- K2
    intro n m hnm hm hupd
    simp only [deliver_seq] at hm
    by_cases hn : n = b
    · subst hn
      rw [deliver_st_b, hr1]
      by_cases hmo : m = u.origin
      · subst hmo; exact accept_known_origin ht n _ u hob huconns
      · have hold := hg.K2 n m hnm hm ((updNe _ _ (fun hh => hmo hh.2)).mp hupd)
        exact accept_known_other ht n _ u m hmo (Ne.symm hnm) huconns hold
    · rw [deliver_st_ne _ _ _ _ _ _ hn]
      exact hg.K2 n m hnm hm ((updNe _ _ (fun hh => hn hh.1)).mp hupd)

end Flood
