import Sp.Flood4
namespace Flood
variable {adj : Node → Adj}

theorem good_deliver (ht : Topo adj) {seq0 : Node → Nat} {σ : Net} (hg : Good adj seq0 σ)
    {a b : Node} {u : Update} (hu : u ∈ σ.q a b) : Good adj seq0 (deliver adj σ a b u) := by
  unfold deliver
  have hc := handle_cases b (σ.st b) u
  generalize handle b (σ.st b) u = r at hc
  cases hc with
  | self h => exact good_deliver_frame ht hg hu _ rfl rfl rfl (Or.inl ⟨rfl, Or.inl h⟩)
  | dup h1 h2 => exact good_deliver_frame ht hg hu _ rfl rfl rfl (Or.inl ⟨rfl, Or.inr h2⟩)
  | stale k h1 h2 h3 h4 =>
    exact good_deliver_frame ht hg hu _ rfl rfl rfl (Or.inr ⟨rfl, h1, k, h3, h4⟩)
  | acc h1 h2 h3 => exact good_deliver_accept ht hg hu h1 h2 h3

theorem good_step (ht : Topo adj) {seq0 : Node → Nat} {σ σ' : Net} (hg : Good adj seq0 σ)
    (hs : Step adj σ σ') : Good adj seq0 σ' := by
  cases hs with
  | orig m i hi => exact good_originate ht hg m i hi
  | dlv a b u hu => exact good_deliver ht hg hu

theorem good_reach (ht : Topo adj) {seq0 : Node → Nat} {σ0 σ : Net} (h0 : Good adj seq0 σ0)
    (hr : Reach adj σ0 σ) : Good adj seq0 σ := by
  induction hr with
  | base => exact h0
  | step _ hs ih => exact good_step ht ih hs

/-- a quiescent start state with nobody knowing the future is Good w.r.t. its own counters -/
structure Start (adj : Node → Adj) (σ0 : Net) : Prop where
  quiet : ∀ a b, σ0.q a b = []
  noFuture : ∀ n m k, (σ0.st n).info m = some k → k ≤ σ0.seq m
  seenUsed : ∀ n i, i ∈ (σ0.st n).seen → i ∈ σ0.used
  curUsed : ∀ m i, σ0.cur m = some i → i ∈ σ0.used
  seenCur : ∀ c m i, σ0.cur m = some i → i ∈ (σ0.st c).seen → c ≠ m → Upd σ0 c m

theorem good_start {σ0 : Net} (h : Start adj σ0) : Good adj σ0.seq σ0 := by
  refine ⟨fun _ => Nat.le_refl _, h.noFuture, h.seenUsed, h.curUsed, ?_, ?_, ?_, h.seenCur, ?_, ?_⟩
  · intro a b u hu; rw [h.quiet] at hu; cases hu
  · intro a b u hu; rw [h.quiet] at hu; cases hu
  · intro a b u m hu; rw [h.quiet] at hu; cases hu
  · intro m hm; exact absurd hm (Nat.lt_irrefl _)
  · intro n m _ hm; exact absurd hm (Nat.lt_irrefl _)

/-- connectivity in the true topology -/
inductive Conn (adj : Node → Adj) (m : Node) : Node → Prop
  | refl : Conn adj m m
  | step {n b : Node} : Conn adj m n → hasKey (adj n) b = true → Conn adj m b

/-- **One flooding round from a quiescent state.** After every node has originated at least once and
    the network is quiescent again, every node knows the true adjacency of every node of its component,
    whatever the interleaving of originations and deliveries was. -/
theorem flood_round_truth (ht : Topo adj) {σ0 σ : Net} (h0 : Start adj σ0)
    (hr : Reach adj σ0 σ) (hquiet : ∀ a b, σ.q a b = [])
    (m : Node) (horig : σ0.seq m < σ.seq m) (n : Node) (hconn : Conn adj m n) (hnm : n ≠ m) :
    (σ.st n).known m = some (adj m) := by
  have hg := good_reach ht (good_start h0) hr
  have closed : ∀ x, Conn adj m x → x = m ∨ Upd σ x m := by
    intro x hx
    induction hx with
    | refl => left; rfl
    | @step x' b' _ hk ih =>
      by_cases hb : b' = m
      · left; exact hb
      · rcases hg.K m horig x' ih b' hk hb with h | ⟨u, hu, _⟩
        · right; exact h
        · rw [hquiet] at hu; cases hu
  rcases closed n hconn with h | h
  · exact absurd h hnm
  · exact hg.K2 n m hnm horig h

#print axioms flood_round_truth
end Flood
