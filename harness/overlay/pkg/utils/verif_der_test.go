package utils

// C20 correspondence harness: MakeReceptorSAN / ReceptorNames against the Lean DER model.

import (
	"crypto/x509/pkix"
	"encoding/json"
	"net"
	"testing"
	"unicode/utf8"
)

type derArgs struct {
	DNS   []string `json:"dns"`
	IPs   []string `json:"ips"`
	IDs   []string `json:"ids"`
	Bytes string   `json:"bytes"`
}

func derSAN(a derArgs) (*pkix.Extension, error) {
	dns := []string{}
	for _, d := range a.DNS {
		dns = append(dns, string(verifUnhex(d)))
	}
	ips := []net.IP{}
	for _, d := range a.IPs {
		ips = append(ips, net.IP(verifUnhex(d)))
	}
	ids := []string{}
	for _, d := range a.IDs {
		ids = append(ids, string(verifUnhex(d)))
	}
	return MakeReceptorSAN(dns, ips, ids)
}

func derNames(ext []byte) interface{} {
	names, err := ReceptorNames([]pkix.Extension{{Id: OIDSubjectAltName, Value: ext}})
	if err != nil {
		return map[string]interface{}{"err": true}
	}
	return map[string]interface{}{"ok": verifStrHexs(names)}
}

func derApply(op string, raw json.RawMessage) interface{} {
	var a derArgs
	if err := json.Unmarshal(raw, &a); err != nil {
		panic(err)
	}
	switch op {
	case "san":
		ext, err := derSAN(a)
		if err != nil {
			return map[string]interface{}{"err": true}
		}
		return map[string]interface{}{"ok": verifHex(ext.Value)}
	case "names":
		return derNames(verifUnhex(a.Bytes))
	case "roundtrip":
		ext, err := derSAN(a)
		if err != nil {
			return map[string]interface{}{"err": true}
		}
		return derNames(ext.Value)
	}
	panic("verif: unknown op " + op)
}

func (v *verifRun) derString(n int) string {
	// mostly valid UTF-8 of exactly n bytes, mixing 1..4-byte runes
	b := make([]byte, 0, n)
	for len(b) < n {
		left := n - len(b)
		var r rune
		switch k := v.rng.Intn(10); {
		case k < 6 || left < 2:
			r = rune(1 + v.rng.Intn(0x7f))
		case k < 8 || left < 3:
			r = rune(0x80 + v.rng.Intn(0x780))
		case k < 9 || left < 4:
			r = rune(0x800 + v.rng.Intn(0xd000-0x800))
		default:
			r = rune(0x10000 + v.rng.Intn(0x100000))
		}
		b = utf8.AppendRune(b, r)
	}
	return string(b[:n])
}

func derGen(v *verifRun) {
	// boundary lengths around every DER length-form threshold of every nesting level
	lens := []int{0, 1, 2, 100, 110, 111, 112, 113, 114, 115, 116, 123, 124, 125, 126, 127, 128, 129, 200,
		236, 237, 238, 239, 240, 241, 242, 243, 244, 245, 250, 251, 252, 253, 254, 255, 256, 257, 300, 1000, 65500, 65519, 65520, 65521, 65535, 65536, 70000}
	for _, n := range lens {
		a := derArgs{DNS: []string{}, IPs: []string{}, IDs: []string{verifHex([]byte(v.derString(n)))}}
		v.do(derApply, "san", a)
		v.do(derApply, "roundtrip", a)
	}
	for i := 0; i < v.n; i++ {
		a := derArgs{DNS: []string{}, IPs: []string{}, IDs: []string{}}
		for k := v.rng.Intn(3); k > 0; k-- {
			a.DNS = append(a.DNS, verifHex([]byte(v.derString(v.pick([]int{0, 1, 5, 20, 127, 128, 300})))))
		}
		for k := v.rng.Intn(3); k > 0; k-- {
			if v.rng.Intn(2) == 0 {
				a.IPs = append(a.IPs, verifHex(v.bytesN(4)))
			} else {
				ip := v.bytesN(16)
				if v.rng.Intn(3) == 0 { // IPv4-mapped: exercises To4()
					ip = net.IP(v.bytesN(4)).To16()
				}
				a.IPs = append(a.IPs, verifHex(ip))
			}
		}
		nid := v.pick([]int{0, 1, 1, 1, 2, 3, 5})
		for k := 0; k < nid; k++ {
			var s string
			switch v.rng.Intn(12) {
			case 0:
				s = string(v.bytesN(v.rng.Intn(6))) // often invalid UTF-8
			case 1:
				if len(a.IDs) > 0 { // duplicate
					s = string(verifUnhex(a.IDs[0]))
				}
			default:
				s = v.derString(v.pick(append(lens[:38], v.rng.Intn(300))))
			}
			a.IDs = append(a.IDs, verifHex([]byte(s)))
		}
		v.do(derApply, "san", a)
		v.do(derApply, "roundtrip", a)
		// decoder on valid and corrupted encodings
		if ext, err := derSAN(a); err == nil {
			b := append([]byte{}, ext.Value...)
			v.do(derApply, "names", derArgs{Bytes: verifHex(b)})
			for m := 0; m < 3 && len(b) > 0; m++ {
				c := append([]byte{}, b...)
				switch v.rng.Intn(5) {
				case 0:
					c[v.rng.Intn(len(c))] ^= byte(1 << uint(v.rng.Intn(8)))
				case 1:
					c = c[:v.rng.Intn(len(c))]
				case 2:
					c[v.rng.Intn(len(c))] = byte(v.rng.Intn(256))
				case 3:
					p := v.rng.Intn(len(c))
					c = append(c[:p], append([]byte{byte(v.rng.Intn(256))}, c[p:]...)...)
				case 4:
					p := v.rng.Intn(len(c))
					c = append(c[:p], c[p+1:]...)
				}
				v.do(derApply, "names", derArgs{Bytes: verifHex(c)})
			}
		}
	}
}

func TestVerifDER(t *testing.T) {
	v := verifOpen(t, "der")
	v.run(derApply, derGen)
}
