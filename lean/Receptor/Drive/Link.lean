import Receptor.Drive.Util
import Receptor.Model.Forward
import Receptor.Generated.Facts
namespace Receptor.Drive.Link
open Lean Receptor.Drive

open Receptor.Forward (addressees)

def exactDispatch : Bool := Receptor.Facts.dispatch_key = "md.ToNode == s.nodeID;s.listenerRegistry[md.ToService]"

def handle (op : String) (a r : Json) : Except String Reply := do
  match op with
  | "send" =>
    if let some e := optField r "error" then throw s!"harness error: {e.compress}"
    let ids ← getHexList a "ids"
    let sends ← getArr a "sends"
    let obs ← getArr r "sends"
    let spec ← sends.mapM fun s => do
      let to ← getNat s "to"
      let target := ids.getD to []
      pure (jObj [("at", jArr ((addressees ids target).map jNat)), ("equal", Json.bool true), ("werr", Json.str "")])
    let specJ := jObj [("sends", jArr spec)]
    let m := if exactDispatch then specJ
             else jObj [("unmodelled", Json.str "the local-dispatch test of the source is not plain equality of node IDs")]
    let holds := canonEq r specJ
    -- which kind of failure, for the signature
    let lost := obs.any fun o => ((getArr o "at").toOption.getD []).isEmpty
    let altered := obs.any fun o => (getBool o "equal").toOption.getD true == false
    pure { m := m, prop := some holds,
           why := if holds then "" else (if altered then "a datagram arrived with bytes other than the bytes sent"
                  else if lost then "a datagram of at most the advertised MTU, sent to a listening service of a reachable node, did not arrive"
                  else "a datagram was delivered to a listener other than the one addressed, or more than once"),
           sig := if holds then "" else (if altered then "C02/link/bytes-altered" else if lost then "C02/link/datagram-lost" else "C02/link/wrong-listener") }
  | "localburst" =>
    if let some e := optField r "error" then throw s!"harness error: {e.compress}"
    let n ← getNat a "n"
    -- does a local send hand the reader its own copy of the bytes?  (regenerated fact)
    let copies : Bool := Receptor.Facts.send_local_copy = "local:copy"
    let spec := jObj [("received", jNat n), ("mixed", jNat 0), ("werr", Json.str "")]
    let m := if copies then spec
             else jObj [("unmodelled", Json.str "a local send shares the caller's buffer with the reader: what arrives depends on when the caller reuses it")]
    let holds := canonEq r spec
    let mixed := (getNat r "mixed").toOption.getD 0
    pure { m := m, prop := some holds,
           why := if holds then "" else (if mixed > 0 then s!"{mixed} of {n} datagrams sent to a listener on the same node arrived with bytes of a later send mixed in (the sender reused its buffer after WriteTo had returned)"
                  else "a burst of datagrams to a listener on the same node did not arrive completely"),
           sig := if holds then "" else (if mixed > 0 then "C02/link/local-send-shares-the-callers-buffer" else "C02/link/datagram-lost") }
  | _ => throw s!"bad-op link {op}"

end Receptor.Drive.Link
