import Receptor.Proofs.DER
import Receptor.Generated.Facts
/-!
# C20 — issued certificates carry exactly the requested names

Property theorems only.  `makeSAN`/`receptorNames` are the byte-level models of
`MakeReceptorSAN`/`ReceptorNames` (tied to the Go code by the `der` engine of
the correspondence check).
-/
namespace Receptor.DER

/-- **Tie (translator)**: the source currently strips the header by parsing it. -/
theorem C20_facts : stripOfFact Receptor.Facts.der_strip = some .parsed := by decide

/-- **Tie (translator)**: the peer verifier that judges issued certificates is a closure that reads the clock at
every handshake (every validity window is judged at the time of use, not at the time the verifier was made). -/
theorem C20_verifier_facts :
    Receptor.Facts.rvf_closure = "single-return-closure;CurrentTime:time.Now()x2;empty-chain:refused" := by decide +kernel

/-- **C20 main theorem.** For every list of DNS names, IP addresses and node IDs
(any lengths, any valid UTF-8 — in particular across the 127/128-byte DER
length threshold), reading the receptor names back from the extension that
`MakeReceptorSAN` (with a parsed header strip) builds returns exactly the
requested IDs, in order, duplicates included.  The only size hypothesis is
Go's own: the extension is shorter than 2^31 bytes. -/
theorem receptorNames_makeSAN (dns ips ids : List Bytes)
    (hv : ∀ id ∈ ids, validUTF8 id = true)
    (hsz : (makeSAN .parsed dns ips ids).length < 2147483648) :
    receptorNames (makeSAN .parsed dns ips ids) = .ok ids := by
  unfold makeSAN at hsz ⊢
  -- abbreviations
  generalize hbody : ((dns.map dnsEntry).flatten ++ (ips.map ipEntry).flatten
      ++ (ids.map (otherNameEntry .parsed)).flatten) = body at hsz ⊢
  have hbl : body.length < 2147483648 := by have := tlv_length_gt 0x30 body; omega
  unfold receptorNames
  have e0 := decTLV_tlv 0x30 body [] (by decide) hbl
  simp only [List.append_nil] at e0
  rw [e0]
  simp only [ne_eq, not_true_eq_false, if_false]
  -- every entry's content is shorter than the body
  have hdns : ∀ a ∈ dns, a.length < 2147483648 := by
    intro a ha
    have h1 := flatten_map_length_le dnsEntry dns a ha
    have h2 := tlv_length_gt 0x82 a
    have : (dnsEntry a).length ≤ body.length := by rw [← hbody]; simp only [List.length_append]; omega
    unfold dnsEntry at this; omega
  have hips : ∀ a ∈ ips, (normIP a).length < 2147483648 := by
    intro a ha
    have h1 := flatten_map_length_le ipEntry ips a ha
    have h2 := tlv_length_gt 0x87 (normIP a)
    have : (ipEntry a).length ≤ body.length := by rw [← hbody]; simp only [List.length_append]; omega
    unfold ipEntry at this; omega
  have hids : ∀ a ∈ ids, (oidReceptor ++ tlv 0xA0 (tlv 0x0C a)).length < 2147483648 := by
    intro a ha
    have h1 := flatten_map_length_le (otherNameEntry .parsed) ids a ha
    have h2 := tlv_length_gt 0xA0 (oidReceptor ++ tlv 0xA0 (tlv 0x0C a))
    have : (otherNameEntry .parsed a).length ≤ body.length := by
      rw [← hbody]; simp only [List.length_append]; omega
    rw [otherNameEntry_parsed] at this; omega
  -- decode the three groups
  have d3 : decAll ((ids.map (otherNameEntry .parsed)).flatten ++ [])
      = some (ids.map (fun a => (0xA0, oidReceptor ++ tlv 0xA0 (tlv 0x0C a))) ++ []) := by
    have := decAll_map_tlv 0xA0 (fun a => oidReceptor ++ tlv 0xA0 (tlv 0x0C a)) ids [] [] (by decide)
      hids decAll_nil
    have e : ids.map (otherNameEntry .parsed)
        = ids.map (fun a => tlv 0xA0 (oidReceptor ++ tlv 0xA0 (tlv 0x0C a))) := by
      apply List.map_congr_left; intro a _; exact otherNameEntry_parsed a
    rw [e]; exact this
  simp only [List.append_nil] at d3
  have d2 := decAll_map_tlv 0x87 normIP ips _ _ (by decide) hips d3
  have d1 := decAll_map_tlv 0x82 (fun a => a) dns _ _ (by decide) hdns d2
  have eb : body = (dns.map (fun a => tlv 0x82 a)).flatten
      ++ ((ips.map (fun a => tlv 0x87 (normIP a))).flatten ++ (ids.map (otherNameEntry .parsed)).flatten) := by
    rw [← hbody, List.append_assoc]; rfl
  rw [eb, d1]
  simp only
  rw [collectNames_skip 0x82 dns _ (by decide)]
  rw [show ips.map (fun a => ((0x87 : Nat), normIP a)) = (ips.map normIP).map (fun a => (0x87, a)) by simp]
  rw [collectNames_skip 0x87 _ _ (by decide)]
  -- the node-ID entries
  clear d1 d2 d3 eb e0 hbody hsz hbl hdns hips
  induction ids with
  | nil => simp [collectNames]
  | cons x xs ih =>
    simp only [List.map_cons, collectNames]
    have hx := decOtherName_entry x (hv x (by simp)) (hids x (by simp))
    simp only [show (0xA0 : Nat) % 32 = 0 by decide, if_true, hx]
    rw [ih (fun a ha => hv a (by simp [ha])) (fun a ha => hids a (by simp [ha]))]

/-- Non-vacuity: a 113-byte ID (the first length at which the OtherName body needs a
long-form DER length) meets the hypotheses, and the round trip holds on it. -/
example : (∀ id ∈ [List.replicate 113 0x61], validUTF8 id = true)
    ∧ (makeSAN .parsed [[0x61]] [[127,0,0,1]] [List.replicate 113 0x61]).length < 2147483648
    ∧ receptorNames (makeSAN .parsed [[0x61]] [[127,0,0,1]] [List.replicate 113 0x61])
        = .ok [List.replicate 113 0x61] := by
  refine ⟨by decide +kernel, by decide +kernel, by decide +kernel⟩

/-- **Witness of the defect in the pinned tree** (`asnOtherName[2:]`): with a fixed
two-byte strip a 113-byte node ID does not read back — the decoder reports an
error instead of the name.  (For shorter IDs the two strips coincide, see
`fixed2_eq_parsed_short`.) -/
theorem C20_witness_fixed2 :
    receptorNames (makeSAN (.fixed 2) [] [] [List.replicate 113 0x61])
      ≠ .ok [List.replicate 113 0x61] := by
  decide +kernel

/-- An ID that is not valid UTF-8 is never read back as a name: the decoder reports an
error (so "never a different name" also holds outside the encoder's intended domain). -/
theorem invalid_utf8_is_error (id : Bytes) (h : validUTF8 id = false) (hl : id.length < 2147483648) :
    decString (tlv 0x0C id) = .error .invalidUTF8 := by
  have := decTLV_tlv 0x0C id [] (by decide) hl
  simp only [List.append_nil] at this
  simp [decString, this, h]

/-- With the fixed strip the encoder agrees with the parsed strip exactly while the
OtherName body stays below 128 bytes, i.e. for IDs of at most 112 bytes. -/
theorem fixed2_eq_parsed_short (id : Bytes) (h : id.length ≤ 112) :
    otherNameEntry (.fixed 2) id = otherNameEntry .parsed id := by
  have e1 : (tlv 0x0C id).length = id.length + 2 := by
    rw [tlv_length]; unfold encLen; simp [show id.length < 128 by omega]; omega
  have e2 : (tlv 0xA0 (tlv 0x0C id)).length = id.length + 4 := by
    rw [tlv_length, e1]; unfold encLen; simp [show id.length + 2 < 128 by omega]; omega
  have e3 : (oidReceptor ++ tlv 0xA0 (tlv 0x0C id)).length = id.length + 15 := by
    simp only [List.length_append, e2]
    have : oidReceptor.length = 11 := by decide
    omega
  unfold otherNameEntry stripHeader
  simp only
  rw [e3]
  unfold encLen
  simp [show id.length + 15 < 128 by omega]

end Receptor.DER
