import Lean.Data.Json
/-! JSON / hex helpers shared by the driver engines (core Lean only). -/
namespace Receptor.Drive
open Lean

def hexDigit (n : Nat) : Char :=
  if n < 10 then Char.ofNat (48 + n) else Char.ofNat (87 + n)

def toHex (bs : List Nat) : String :=
  String.ofList (bs.flatMap fun b => [hexDigit (b / 16 % 16), hexDigit (b % 16)])

def hexVal (c : Char) : Option Nat :=
  if '0' ≤ c ∧ c ≤ '9' then some (c.toNat - 48)
  else if 'a' ≤ c ∧ c ≤ 'f' then some (c.toNat - 87)
  else if 'A' ≤ c ∧ c ≤ 'F' then some (c.toNat - 55)
  else none

def fromHexChars : List Char → Option (List Nat)
  | [] => some []
  | [_] => none
  | a :: b :: rest => do
    let x ← hexVal a
    let y ← hexVal b
    let r ← fromHexChars rest
    pure ((x * 16 + y) :: r)

def fromHex (s : String) : Option (List Nat) := fromHexChars s.toList

def jHex (bs : List Nat) : Json := Json.str (toHex bs)

def getHex (j : Json) (k : String) : Except String (List Nat) := do
  let s ← (← j.getObjVal? k).getStr?
  match fromHex s with
  | some b => pure b
  | none => throw s!"bad hex in {k}"

def getHexList (j : Json) (k : String) : Except String (List (List Nat)) := do
  let arr ← (← j.getObjVal? k).getArr?
  arr.toList.mapM fun x => do
    let s ← x.getStr?
    match fromHex s with
    | some b => pure b
    | none => throw s!"bad hex in {k}"

def getStr (j : Json) (k : String) : Except String String := do (← j.getObjVal? k).getStr?
def getNat (j : Json) (k : String) : Except String Nat := do (← j.getObjVal? k).getNat?
def getBool (j : Json) (k : String) : Except String Bool := do (← j.getObjVal? k).getBool?
def getArr (j : Json) (k : String) : Except String (List Json) := do
  match ← j.getObjVal? k with
  | Json.null => pure []          -- Go marshals a nil slice as null
  | v => pure (← v.getArr?).toList
def getStrList (j : Json) (k : String) : Except String (List String) := do
  (← getArr j k).mapM fun x => x.getStr?
def getNatList (j : Json) (k : String) : Except String (List Nat) := do
  (← getArr j k).mapM fun x => x.getNat?
def optField (j : Json) (k : String) : Option Json := (j.getObjVal? k).toOption

def jArr (l : List Json) : Json := Json.arr l.toArray
def jNat (n : Nat) : Json := Json.num (JsonNumber.fromNat n)
def jObj (l : List (String × Json)) : Json := Json.mkObj l
def jStrs (l : List String) : Json := jArr (l.map Json.str)

/-- reply of an engine: model result `m` (compared with the implementation's `r` by the
runner unless it contains the key "unmodelled") and the property predicate evaluated on the
implementation's observation: `some true` held, `some false` violated, `none` not applicable. -/
structure Reply where
  m : Json
  prop : Option Bool := none
  why : String := ""
  /-- canonical class of a violation (call site + input class), the key of KNOWN_FINDINGS -/
  sig : String := ""

def Reply.toJson (r : Reply) : Json :=
  jObj [("m", r.m), ("prop", match r.prop with | none => Json.null | some b => Json.bool b),
        ("why", Json.str r.why), ("sig", Json.str r.sig)]

/-- order-insensitive comparison of two observations (the `_set` lists are multisets) -/
partial def sortJson : Json → Json
  | Json.arr xs => Json.arr ((xs.map sortJson).qsort fun a b => a.compress < b.compress)
  | Json.obj kvs => Json.mkObj (kvs.toList.map fun (k, v) => (k, sortJson v))
  | j => j
def canonEq (a b : Json) : Bool := (sortJson a).compress == (sortJson b).compress


end Receptor.Drive
