#!/bin/bash
# seed_confirm.sh <seed_dir> <name>: confirm a seeded change in a scratch worktree:
#  builds, existing tests of touched packages pass, demo fails with the change and passes without.
# Writes <seed_dir>/confirm.json. The scratch worktree is removed afterwards.
set -u
SD="$1"; NAME="$2"
export GOFLAGS=-mod=mod GOPROXY=off GOSUMDB=off GOTOOLCHAIN=local
WT=/tmp/wt_confirm_$NAME
git -C /repo worktree remove --force $WT >/dev/null 2>&1
git -C /repo worktree add -q $WT HEAD || exit 2
cd $WT
DEMO=$(ls $SD/*_test.go 2>/dev/null | head -1)
PKGDIR=$(grep -l . $SD/notes.md >/dev/null 2>&1; grep -oE 'pkg/[a-z]+' $SD/notes.md | head -50 | sort | uniq -c | sort -rn | awk '{print $2}' | head -1)
# demo package: from the "package x" line + touched files
DPKG=$(head -30 "$DEMO" | grep -oE '^package [a-z_]+' | awk '{print $2}')
case "$DPKG" in
  netceptor|netceptor_test) DDIR=pkg/netceptor;; utils|utils_test) DDIR=pkg/utils;; certificates|certificates_test) DDIR=pkg/certificates;;
  framer) DDIR=pkg/framer;; workceptor|workceptor_test) DDIR=pkg/workceptor;; controlsvc) DDIR=pkg/controlsvc;;
  backends) DDIR=pkg/backends;; *) DDIR=${3:-pkg/netceptor};;
esac
[ -n "${3:-}" ] && DDIR=$3
TOUCHED=$(grep -E '^\+\+\+ b/' $SD/patch.diff | sed 's|+++ b/||' | xargs -n1 dirname | sort -u)
res() { echo "$1" >> $SD/confirm.log; }
: > $SD/confirm.log
cp "$DEMO" $DDIR/zz_seed_demo_test.go
go test -count=1 -run 'Demo|demo|C[0-9][0-9]' ./$DDIR/ > $SD/demo_clean.out 2>&1; CLEAN=$?
git apply $SD/patch.diff || { res "patch does not apply"; exit 3; }
go build ./pkg/... ./cmd/... > $SD/build.out 2>&1; BUILD=$?
go test -count=1 -run 'Demo|demo|C[0-9][0-9]' ./$DDIR/ > $SD/demo_mut.out 2>&1; MUT=$?
rm -f $DDIR/zz_seed_demo_test.go
TESTS=0
for d in $TOUCHED; do
  ok=1
  for try in 1 2 3; do
    if go test -count=1 -skip 'TestCreatePing|TestStart$|TestCancel$|TestRelease$' ./$d/ > $SD/tests_$(echo $d | tr / _).out 2>&1; then ok=0; break; fi
  done
  [ $ok -ne 0 ] && TESTS=1
done
cd /; git -C /repo worktree remove --force $WT
echo "{\"name\":\"$NAME\",\"demo_dir\":\"$DDIR\",\"touched\":\"$(echo $TOUCHED)\",\"build_rc\":$BUILD,\"demo_clean_rc\":$CLEAN,\"demo_mutated_rc\":$MUT,\"existing_tests_rc\":$TESTS}" > $SD/confirm.json
cat $SD/confirm.json
