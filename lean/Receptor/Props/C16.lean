import Receptor.Proofs.Forward
import Receptor.Generated.Facts
import Receptor.Model.Pipeline
/-!
# C16 — senders learn when the target service does not exist; dials to it fail fast
-/
namespace Receptor.Forward

/-- `monitorUnreachable`: the dial / stream context is cancelled by a notice saying that the
service we are talking to is unknown on the node we are talking to -/
def dialCancelledBy (remoteNode : Node) (remoteSvc : Svc) (n : NoticeBody) : Bool :=
  n.problem == .serviceUnknown && n.toNode == remoteNode && n.toSvc == remoteSvc

/-- **Tie (translator)**: the unknown-or-closed-listener branch of `handleMessageData`
(synchronous error for a local sender, `service unknown` notice otherwise), the per-socket
filter of `StartUnreachable`, and the cancel condition of `monitorUnreachable`; every hop from the node's broker to
the reader of `SubscribeUnreachable` is a send on an unbuffered channel that blocks (only the context ends it): no
buffer that can fill up, no `default` branch that discards — the pipeline model's `dropAt = none`. -/
theorem C16_facts :
    Receptor.Facts.unreach_unknown_branch = "!ok || pc.context.Err() != nil;md.FromNode == s.nodeID:error;notice:ProblemServiceUnknown"
    ∧ Receptor.Facts.unreach_socket_filter = "FromNode == pc.s.NodeID() && FromService == pc.localService"
    ∧ Receptor.Facts.unreach_dial_cancel = "msg.Problem == ProblemServiceUnknown && msg.ToNode == remoteAddr.node && msg.ToService == remoteAddr.service"
    ∧ Receptor.Facts.unreach_notice_fields = "FromNode:md.FromNode;ToNode:md.ToNode;FromService:md.FromService;ToService:md.ToService"
    ∧ Receptor.Facts.unreach_sent_from = "unreach->toNode:unreach"
    ∧ Receptor.Facts.unreach_hops = "broker.deliver:select-send|<-b.ctx.Done();broker.publish:select-send|<-b.ctx.Done();broker.sub-chan:make(chan interface{});broker.publish-chan:make(chan interface{});sub.chan:make(chan UnreachableNotification);sub.forward:plain-send" := by
  decide +kernel

/-- **notice_fields_echo.** A datagram from another node that reaches a node where nothing
listens on the addressed (non-reserved) service makes that node originate exactly one packet:
a `service unknown` notice addressed to the datagram's source node, echoing the datagram's
source and destination node and service. -/
theorem notice_fields_echo (me : Node) (cfg : NodeCfg) (p : Packet)
    (hfw : cfg.fw p.fromNode p.fromSvc p.toNode p.toSvc = .accept) (hto : p.toNode = me)
    (hsvc : p.toSvc ≠ pingSvc ∧ p.toSvc ≠ unreachSvc) (hl : cfg.listener p.toSvc = false) (hfrom : p.fromNode ≠ me) :
    handle stdHops me cfg p = .spawn
      { fromNode := me, fromSvc := unreachSvc, toNode := p.fromNode, toSvc := unreachSvc, ttl := cfg.maxHops,
        body := .notice { fromNode := p.fromNode, toNode := p.toNode, fromSvc := p.fromSvc, toSvc := p.toSvc,
                          problem := .serviceUnknown } } := by
  unfold handle
  simp only [hfw]
  simp [hto, hsvc.1, hsvc.2, hl, hfrom, mkNotice]

/-- a local sender is told synchronously instead (the error `WriteTo` returns) -/
theorem local_sender_gets_error (me : Node) (cfg : NodeCfg) (p : Packet)
    (hfw : cfg.fw p.fromNode p.fromSvc p.toNode p.toSvc = .accept) (hto : p.toNode = me)
    (hsvc : p.toSvc ≠ pingSvc ∧ p.toSvc ≠ unreachSvc) (hl : cfg.listener p.toSvc = false) (hfrom : p.fromNode = me) :
    handle stdHops me cfg p = .err .serviceUnknown := by
  unfold handle
  simp only [hfw]
  simp [hto, hsvc.1, hsvc.2, hl, hfrom]

/-- when the notice arrives at the datagram's source node it is published there -/
theorem notice_published_at_origin (origin : Node) (cfg : NodeCfg) (q : Packet) (n : NoticeBody)
    (hfw : cfg.fw q.fromNode q.fromSvc q.toNode q.toSvc = .accept) (hto : q.toNode = origin)
    (hsvc : q.toSvc = unreachSvc) (hb : q.body = .notice n) :
    handle stdHops origin cfg q = .published n := by
  unfold handle
  have : unreachSvc ≠ pingSvc := by decide
  simp only [hfw]
  simp [hto, hsvc, this, hb]

/-- the body of the notice a node originates about packet `p` -/
def noticeAbout (p : Packet) (pr : Problem) : NoticeBody :=
  { fromNode := p.fromNode, toNode := p.toNode, fromSvc := p.fromSvc, toSvc := p.toSvc, problem := pr }

theorem mkNotice_body (me : Node) (cfg : NodeCfg) (p : Packet) (pr : Problem) :
    (mkNotice me cfg p pr).body = .notice (noticeAbout p pr) := rfl

/-- **notice_only_to_sender_socket.** Among all sockets open on the source node, exactly the
socket bound to the datagram's source service passes the notice on. -/
theorem notice_only_to_sender_socket (me : Node) (p : Packet) (pr : Problem)
    (hp : p.fromNode = me) (svc : Svc) :
    socketGetsNotice me svc (noticeAbout p pr) = true ↔ svc = p.fromSvc := by
  simp [noticeAbout, socketGetsNotice, hp]
  constructor <;> (intro h; exact h.symm)

/-- sockets of other nodes never see it either -/
theorem notice_not_to_other_nodes (other : Node) (p : Packet) (pr : Problem) (svc : Svc)
    (h : p.fromNode ≠ other) : socketGetsNotice other svc (noticeAbout p pr) = false := by
  simp [noticeAbout, socketGetsNotice, h]

/-- **dial_cancelled_by_notice.** The `service unknown` notice produced for a packet of a dial
to `(remote, svc)` cancels exactly that dial: it names the dialled node and service. -/
theorem dial_cancelled_by_notice (remote : Node) (p : Packet) (hto : p.toNode = remote) :
    dialCancelledBy remote p.toSvc (noticeAbout p .serviceUnknown) = true := by
  simp [noticeAbout, dialCancelledBy, hto]

/-- notices about other problems (expired, rejected) or other addresses do not cancel the dial -/
theorem other_notices_do_not_cancel (remoteNode : Node) (remoteSvc : Svc) (n : NoticeBody)
    (h : n.problem ≠ .serviceUnknown ∨ n.toNode ≠ remoteNode ∨ n.toSvc ≠ remoteSvc) :
    dialCancelledBy remoteNode remoteSvc n = false := by
  simp only [dialCancelledBy]
  rcases h with h | h | h <;> simp [h]

/-- **drop_is_silent.** A packet dropped by policy produces no packet and no event at all. -/
theorem drop_is_silent (me : Node) (cfg : NodeCfg) (p : Packet)
    (hfw : cfg.fw p.fromNode p.fromSvc p.toNode p.toSvc = .drop) :
    observe stdHops me cfg 6 p = [(p, .dropped)] := by
  simp [observe, handle, hfw]

end Receptor.Forward

namespace Receptor.Pipeline

theorem passAt_keeps : ∀ (i : Nat) (l : List (Option Nat)), (passAt false i l).filterMap id = l.filterMap id := by
  intro i
  induction i with
  | zero =>
    intro l
    match l with
    | [] => rfl
    | [none] => rfl
    | [some _] => rfl
    | none :: _ :: _ => rfl
    | some m :: none :: rest => simp [passAt]
    | some m :: some x :: rest => simp [passAt]
  | succ j ih =>
    intro l
    match l with
    | [] => rfl
    | s :: rest =>
      simp only [passAt]
      cases s <;> simp [ih rest]

theorem popLast_spec : ∀ (l : List (Option Nat)) (m : Nat) (ss : List (Option Nat)), popLast l = some (m, ss) →
    l.filterMap id = ss.filterMap id ++ [m] ∧ ss.length = l.length := by
  intro l
  induction l with
  | nil => intro m ss h; simp [popLast] at h
  | cons s rest ih =>
    intro m ss h
    match rest, s with
    | [], some x =>
      simp only [popLast, Option.some.injEq, Prod.mk.injEq] at h
      obtain ⟨rfl, rfl⟩ := h
      simp
    | [], none => simp [popLast] at h
    | r :: rest', s =>
      simp only [popLast, Option.map_eq_some_iff] at h
      obtain ⟨⟨m', ss'⟩, hp, heq⟩ := h
      simp only [Prod.mk.injEq] at heq
      obtain ⟨rfl, rfl⟩ := heq
      obtain ⟨h1, h2⟩ := ih m' ss' hp
      refine ⟨?_, by simp [h2]⟩
      cases s with
      | none => simpa using h1
      | some x => simp [h1]

/-- **no_notice_lost.** With blocking hand-offs, whatever the schedule of the stages: nothing is lost, nothing is
duplicated, the order is kept — what has been read, what is on its way and what the publisher still holds are, in
this order, exactly what was published. -/
theorem no_notice_lost : ∀ (moves : List Move) (p : Pipe), contents (run none p moves) = contents p := by
  intro moves
  induction moves with
  | nil => intro p; rfl
  | cons mv rest ih =>
    intro p
    simp only [run]
    rw [ih]
    cases mv with
    | take =>
      simp only [step]
      split
      · rename_i m rest' ss hp hs
        simp [contents, hp, hs]
      · rfl
    | pass i =>
      simp only [step, contents]
      have : (none == some i) = false := rfl
      rw [this, passAt_keeps]
    | read =>
      simp only [step]
      split
      · rename_i m ss hp
        obtain ⟨h1, _⟩ := popLast_spec _ m ss hp
        simp [contents, h1]
      · rfl

/-- what has been read is always a prefix of what was published, in order -/
theorem delivered_is_prefix (moves : List Move) (published : List Nat) (k : Nat) :
    ∃ tail, published = (run none { pending := published, slots := List.replicate k none, delivered := [] } moves).delivered ++ tail := by
  have h := no_notice_lost moves { pending := published, slots := List.replicate k none, delivered := [] }
  have h0 : contents { pending := published, slots := List.replicate k none, delivered := [] } = published := by
    simp only [contents, List.nil_append]
    have : (List.replicate k (none : Option Nat)).filterMap id = [] := by
      induction k with
      | zero => rfl
      | succ j ih => simp [List.replicate_succ]
    simp [this]
  rw [h0] at h
  refine ⟨((run none { pending := published, slots := List.replicate k none, delivered := [] } moves).slots.filterMap id).reverse
            ++ (run none { pending := published, slots := List.replicate k none, delivered := [] } moves).pending, ?_⟩
  have h' := h.symm
  simp only [contents, List.append_assoc] at h'
  exact h'

theorem slots_progress : ∀ (l : List (Option Nat)), l.filterMap id ≠ [] →
    (∃ m ss, popLast l = some (m, ss)) ∨ (∃ i, passAt false i l ≠ l) := by
  intro l
  induction l with
  | nil => intro h; simp at h
  | cons s rest ih =>
    intro h
    match rest, s with
    | [], some m => exact Or.inl ⟨m, [none], rfl⟩
    | [], none => simp at h
    | r :: rest', s =>
      by_cases ht : (r :: rest').filterMap id = []
      · -- everything behind the first slot is empty: the first slot is full and can hand over
        have hr : r = none := by
          cases r with
          | none => rfl
          | some x => simp at ht
        subst hr
        cases s with
        | none => simp [ht] at h
        | some m => exact Or.inr ⟨0, by simp [passAt]⟩
      · rcases ih ht with ⟨m, ss, hp⟩ | ⟨i, hi⟩
        · exact Or.inl ⟨m, s :: ss, by simp [popLast, hp]⟩
        · exact Or.inr ⟨i + 1, by simpa [passAt] using hi⟩

/-- **no_deadlock.** As long as a published notice has not been read, some stage can move: the chain of blocking
hand-offs never wedges by itself (the reader only has to keep reading). -/
theorem no_deadlock (p : Pipe) (hs : p.slots ≠ []) (h : contents p ≠ p.delivered) : ∃ mv, step none p mv ≠ p := by
  by_cases hc : p.slots.filterMap id = []
  · -- nothing on its way: something is still with the publisher, and the first slot is free
    have hp : p.pending ≠ [] := by
      intro he
      apply h
      simp [contents, hc, he]
    obtain ⟨m, rest, hm⟩ := List.exists_cons_of_ne_nil hp
    obtain ⟨s, ss, hss⟩ := List.exists_cons_of_ne_nil hs
    have hsn : s = none := by
      cases s with
      | none => rfl
      | some x => rw [hss] at hc; simp at hc
    refine ⟨.take, ?_⟩
    simp only [step, hm, hss, hsn]
    intro he
    have := congrArg Pipe.pending he
    simp [hm] at this
  · rcases slots_progress p.slots hc with ⟨m, ss, hp⟩ | ⟨i, hi⟩
    · refine ⟨.read, ?_⟩
      simp only [step, hp]
      intro he
      have := congrArg (fun q => q.delivered.length) he
      simp at this
    · refine ⟨.pass i, ?_⟩
      simp only [step]
      have : (none == some i) = false := rfl
      rw [this]
      intro he
      exact hi (congrArg Pipe.slots he)

/-- Witness: a hop that discards when the next one is busy loses notices of a burst behind a slow reader -/
theorem C16_witness_drop_when_busy :
    (run (some 0) { pending := [1, 2, 3], slots := [none, none], delivered := [] }
      [.take, .pass 0, .take, .pass 0, .take, .pass 0, .read, .pass 0, .read, .pass 0, .read]).delivered = [1]
    ∧ (run none { pending := [1, 2, 3], slots := [none, none], delivered := [] }
      [.take, .pass 0, .take, .pass 0, .read, .pass 0, .take, .read, .pass 0, .read]).delivered = [1, 2, 3] := by
  decide


end Receptor.Pipeline
