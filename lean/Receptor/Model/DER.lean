/-!
# DER model of `pkg/utils/other_name.go` (property C20)

`makeSAN` builds the subjectAltName extension value byte for byte as
`MakeReceptorSAN` does (through `encoding/asn1.Marshal`, for the subset used:
SEQUENCE, OBJECT IDENTIFIER (constant), UTF8String, context tags, definite
lengths).  `receptorNames` is `ReceptorNames` for one extension value: Go's
`asn1.Unmarshal` into `[]RawValue`, then `UnmarshalWithParams(…,"tag:0")` into
`OtherNameDecode`, then `Unmarshal` into a `string`.

The header strip of the marshalled `OtherNameEncode` is a parameter
(`Strip`): the pinned tree used a fixed two-byte strip; a parsed strip removes
the real SEQUENCE header.  Which one the source uses is a regenerated fact.

Bytes are `Nat`s `< 256` (a well-formedness predicate, provably satisfied by
everything `makeSAN` emits); the driver converts from/to hex.
-/
namespace Receptor.DER

abbrev Bytes := List Nat

/-- minimal big-endian base-256 digits; `0 ↦ []` -/
def natBEAux : Nat → Nat → Bytes
  | 0, _ => []
  | f + 1, n => if n = 0 then [] else natBEAux f (n / 256) ++ [n % 256]

/-- (structural recursion on a fuel argument equal to `n`, so that `decide` can evaluate it) -/
def natBE (n : Nat) : Bytes := natBEAux n n

/-- value of big-endian digits -/
def beVal (bs : Bytes) : Nat := bs.foldl (fun a b => a * 256 + b) 0

/-- DER definite length -/
def encLen (n : Nat) : Bytes :=
  if n < 128 then [n] else (128 + (natBE n).length) :: natBE n

def tlv (tag : Nat) (content : Bytes) : Bytes := tag :: (encLen content.length ++ content)

/-- content bytes of OID 1.3.6.1.4.1.2312.19.1 -/
def oidReceptorContent : Bytes := [0x2B, 6, 1, 4, 1, 0x92, 8, 0x13, 1]
def oidReceptor : Bytes := tlv 6 oidReceptorContent

/-- UTF-8 validity exactly as Go's `utf8.Valid` (RFC 3629 ranges, no surrogates, no overlongs). -/
def validUTF8 : Bytes → Bool
  | [] => true
  | b0 :: rest =>
    if b0 < 0x80 then validUTF8 rest
    else if 0xC2 ≤ b0 ∧ b0 ≤ 0xDF then
      match rest with
      | b1 :: r => (0x80 ≤ b1 && b1 ≤ 0xBF) && validUTF8 r
      | _ => false
    else if 0xE0 ≤ b0 ∧ b0 ≤ 0xEF then
      match rest with
      | b1 :: b2 :: r =>
        let lo := if b0 = 0xE0 then 0xA0 else 0x80
        let hi := if b0 = 0xED then 0x9F else 0xBF
        (lo ≤ b1 && b1 ≤ hi) && (0x80 ≤ b2 && b2 ≤ 0xBF) && validUTF8 r
      | _ => false
    else if 0xF0 ≤ b0 ∧ b0 ≤ 0xF4 then
      match rest with
      | b1 :: b2 :: b3 :: r =>
        let lo := if b0 = 0xF0 then 0x90 else 0x80
        let hi := if b0 = 0xF4 then 0x8F else 0xBF
        (lo ≤ b1 && b1 ≤ hi) && (0x80 ≤ b2 && b2 ≤ 0xBF) && (0x80 ≤ b3 && b3 ≤ 0xBF) && validUTF8 r
      | _ => false
    else false

/-- How `MakeReceptorSAN` removes the SEQUENCE header of the marshalled OtherName. -/
inductive Strip where
  | fixed (k : Nat)   -- `asnOtherName[k:]`
  | parsed            -- the real header: tag byte + length bytes
  deriving Repr, DecidableEq

/-- Interpretation of the regenerated fact "how MakeReceptorSAN strips the header". -/
def stripOfFact : String → Option Strip
  | "parsed" => some .parsed
  | "fixed:2" => some (.fixed 2)
  | _ => none

/-- `asn1.Marshal(OtherNameEncode{OID, UTFString{id}})` -/
def otherNameSeq (id : Bytes) : Bytes :=
  tlv 0x30 (oidReceptor ++ tlv 0xA0 (tlv 0x0C id))

def stripHeader (s : Strip) (seq : Bytes) (contentLen : Nat) : Bytes :=
  match s with
  | .fixed k => seq.drop k
  | .parsed => seq.drop (1 + (encLen contentLen).length)

/-- the GeneralName `[0]` entry emitted for a node ID -/
def otherNameEntry (s : Strip) (id : Bytes) : Bytes :=
  let content := oidReceptor ++ tlv 0xA0 (tlv 0x0C id)
  tlv 0xA0 (stripHeader s (tlv 0x30 content) content.length)

def dnsEntry (name : Bytes) : Bytes := tlv 0x82 name
/-- `net.IP.To4` as used by `MakeReceptorSAN`: an IPv4-mapped 16-byte address is
shortened to its last four bytes; anything else is kept as is. -/
def normIP (ip : Bytes) : Bytes :=
  if ip.length = 16 ∧ ip.take 10 = List.replicate 10 0 ∧ (ip.drop 10).take 2 = [255, 255]
  then ip.drop 12 else ip
def ipEntry (ip : Bytes) : Bytes := tlv 0x87 (normIP ip)

inductive Err where
  | invalidUTF8 | syntax | truncated | trailing | structural
  deriving Repr, DecidableEq

deriving instance DecidableEq for Except

/-- `MakeReceptorSAN`.  It never fails: `asn1.Marshal` does not validate a string
whose field is tagged `utf8` (validity is only checked by the decoder). -/
def makeSAN (s : Strip) (dns ips ids : List Bytes) : Bytes :=
  tlv 0x30 ((dns.map dnsEntry).flatten ++ (ips.map ipEntry).flatten
        ++ (ids.map (otherNameEntry s)).flatten)

/-! ## Decoder -/

/-- Go `parseTagAndLength`, length part.  `numBytes ≤ 4`, value `< 2^31`,
no leading zero byte, long form only for values ≥ 128; indefinite refused. -/
def decLen : Bytes → Option (Nat × Bytes)
  | [] => none
  | b :: rest =>
    if b < 128 then some (b, rest)
    else
      let nb := b - 128
      if nb = 0 then none            -- indefinite length
      else if nb > 4 then none       -- length too large
      else if rest.length < nb then none
      else
        let ds := rest.take nb
        if ds.head? = some 0 then none            -- superfluous leading zeros
        else
          let v := beVal ds
          if v < 128 then none                     -- non-minimal length
          else if v ≥ 2147483648 then none         -- does not fit an int32
          else some (v, rest.drop nb)

/-- One TLV with a low tag number (< 31, the only form the encoder emits;
high-tag-number form is reported as `none` = unmodelled/refused).
Returns (identifier byte, content, rest). -/
def decTLV : Bytes → Option (Nat × Bytes × Bytes)
  | [] => none
  | t :: rest =>
    if t % 32 = 31 then none
    else
      match decLen rest with
      | none => none
      | some (n, r) => if r.length < n then none else some (t, r.take n, r.drop n)

theorem decLen_rest_le {bs n r} (h : decLen bs = some (n, r)) : r.length < bs.length := by
  match bs, h with
  | b :: rest, h =>
    unfold decLen at h
    by_cases h1 : b < 128
    · simp only [h1, if_true] at h
      cases h; simp
    · simp only [h1, if_false] at h
      split at h; · cases h
      split at h; · cases h
      split at h; · cases h
      split at h; · cases h
      split at h; · cases h
      split at h; · cases h
      simp only [Option.some.injEq, Prod.mk.injEq] at h
      rw [← h.2]; simp [List.length_drop]; omega

theorem decTLV_rest_lt {bs t c r} (h : decTLV bs = some (t, c, r)) : r.length < bs.length := by
  unfold decTLV at h
  split at h
  · cases h
  · split at h
    · cases h
    · split at h
      · cases h
      · rename_i hl
        have := decLen_rest_le hl
        split at h
        · cases h
        · cases h; simp [List.length_drop]; omega

def decAllAux : Nat → Bytes → Option (List (Nat × Bytes))
  | 0, _ => none
  | fuel + 1, bs =>
    if bs = [] then some [] else
    match decTLV bs with
    | none => none
    | some (t, c, r) =>
      match decAllAux fuel r with
      | none => none
      | some l => some ((t, c) :: l)

/-- all TLVs of a buffer (SEQUENCE OF RawValue); `none` on any syntax error.
Fuel `length + 1` always suffices because every TLV consumes at least two bytes. -/
def decAll (bs : Bytes) : Option (List (Nat × Bytes)) := decAllAux (bs.length + 1) bs

/-- Go `asn1.Unmarshal(bytes, &string)` on the content of the `[0]` wrapper:
one TLV; universal UTF8String (12) with valid UTF-8; PrintableString (19),
IA5String (22), NumericString (18), T61String (20), BMPString (30) are
accepted by Go too — reported here as `none` (unmodelled) by `strOther`. -/
def decString (bs : Bytes) : Except Err Bytes :=
  match decTLV bs with
  | none => .error .syntax
  | some (t, c, _rest) =>
    if t = 0x0C then (if validUTF8 c then .ok c else .error .invalidUTF8)
    else .error .structural

/-- Go `parseBase128Int` over the whole OID content: every sub-identifier is at most
5 bytes, does not start with 0x80, fits an int32, and the content ends on a
terminating byte (high bit clear).  `cur` = bytes consumed of the current group,
`acc` its value so far. -/
def validOIDAux : Bytes → Nat → Nat → Bool
  | [], cur, _ => cur = 0
  | b :: rest, cur, acc =>
    if cur = 5 then false
    else if cur = 0 ∧ b = 0x80 then false
    else
      let acc' := acc * 128 + b % 128
      if b < 128 then (acc' ≤ 2147483647) && validOIDAux rest 0 0
      else validOIDAux rest (cur + 1) acc'

def validOID (c : Bytes) : Bool := c ≠ [] && validOIDAux c 0 0

/-- the identifier bytes whose string decoding Go accepts but this model does not cover -/
def strOther (t : Nat) : Bool := t = 19 ∨ t = 22 ∨ t = 18 ∨ t = 20 ∨ t = 30

def highTag (bs : Bytes) : Bool := match bs with | t :: _ => t % 32 == 31 | [] => false

/-- Does decoding `ext` reach a construct outside the modelled subset (high-tag-number
identifiers, or a non-UTF8 string type that Go's `Unmarshal` into `string` also accepts)?
The correspondence check skips such inputs and counts them. -/
def unmodelled (ext : Bytes) : Bool :=
  highTag ext ||
  match decTLV ext with
  | none => false
  | some (_, c, _) =>
    let rec walk : Nat → Bytes → Bool
      | 0, _ => false
      | f + 1, bs =>
        if bs = [] then false else
        highTag bs ||
        match decTLV bs with
        | none => false
        | some (t, ec, r) =>
          (t == 0xA0 &&
            (highTag ec ||
             match decTLV ec with
             | none => false
             | some (_, oid, r1) =>
               highTag r1 ||
               match decTLV r1 with
               | none => false
               | some (_, v, _) =>
                 oid == oidReceptorContent &&
                   (highTag v || match decTLV v with
                                 | some (t3, _, _) => strOther t3
                                 | none => false)))
          || walk f r
    walk (c.length + 1) c

/-- `UnmarshalWithParams(value.FullBytes, &OtherNameDecode{}, "tag:0")` followed by the
OID comparison and the string decode: `ok none` = not a receptor name (skipped). -/
def decOtherName (t : Nat) (content : Bytes) : Except Err (Option Bytes) :=
  -- implicit [0] replaces the SEQUENCE tag: must be context-specific, constructed, tag 0
  if t ≠ 0xA0 then .error .structural else
  match decTLV content with
  | none => .error .syntax
  | some (t1, oid, r1) =>
    if t1 ≠ 6 then .error .structural else
    if !validOID oid then .error .syntax else
    match decTLV r1 with
    | none => .error .syntax
    | some (_t2, v, _r2) =>
      -- encoding/asn1 allows extra elements at the end of a SEQUENCE decoded into a struct
      if oid = oidReceptorContent then
        match decString v with
        | .ok s => .ok (some s)
        | .error e => .error e
      else .ok none

def collectNames : List (Nat × Bytes) → Except Err (List Bytes)
  | [] => .ok []
  | (t, c) :: rest =>
    if t % 32 = 0 then
      match decOtherName t c with
      | .error e => .error e
      | .ok none => collectNames rest
      | .ok (some s) =>
        match collectNames rest with
        | .error e => .error e
        | .ok l => .ok (s :: l)
    else collectNames rest

/-- `ReceptorNames` for one subjectAltName extension value -/
def receptorNames (ext : Bytes) : Except Err (List Bytes) :=
  match decTLV ext with
  | none => .error .syntax
  | some (t, c, _rest) =>
    if t ≠ 0x30 then .error .structural else
    match decAll c with
    | none => .error .syntax
    | some l => collectNames l

end Receptor.DER
