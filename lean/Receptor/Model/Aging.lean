/-!
# Connection aging (`protoReader` + `monitorConnectionAging`), C01 silent-link detection

A session records the time of the last *datagram received* (a receive timeout is not
traffic).  The aging monitor cancels a session whose record is older than the idle limit.
Times are abstract naturals (ticks of any clock).
-/
namespace Receptor.Aging

inductive Ev where
  | data (t : Nat)       -- Recv returned a datagram at time t
  | timeout (t : Nat)    -- Recv returned ErrTimeout at time t
  | check (t : Nat)      -- the aging monitor looks at the session at time t
  deriving DecidableEq, Repr

structure Sess where
  last : Nat
  cancelled : Bool := false
  deriving DecidableEq, Repr

/-- `stampOnTimeout` is the regenerated fact "a receive timeout refreshes the record" (false in
the source: the `continue` precedes the stamp) -/
def step (stampOnTimeout : Bool) (idle : Nat) (s : Sess) : Ev → Sess
  | .data t => if s.cancelled then s else { s with last := t }
  | .timeout t => if s.cancelled then s else (if stampOnTimeout then { s with last := t } else s)
  | .check t => if t - s.last > idle then { s with cancelled := true } else s

def run (stampOnTimeout : Bool) (idle : Nat) (s : Sess) (evs : List Ev) : Sess :=
  evs.foldl (step stampOnTimeout idle) s

def isData : Ev → Bool
  | .data _ => true
  | _ => false

end Receptor.Aging
