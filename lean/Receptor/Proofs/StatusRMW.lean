import Receptor.Model.StatusRMW
namespace Receptor.StatusRMW

variable {α : Type}

def Pc.isIdle : Pc α → Prop
  | .idle => True
  | _ => False

theorem applyAll_snoc (fs : List (α → α)) (f : α → α) (r : α) : applyAll (fs ++ [f]) r = f (applyAll fs r) := by
  simp [applyAll, List.foldl_append]

/-- what the lock holder's program counter says about the file -/
def HeldOK (r0 : α) (s : St α) (x : Th α) : Prop :=
  x.ops ≠ [] ∧
  match x.pc with
  | .idle => False
  | .acqU f => ∃ pre, s.fns = pre ++ [f] ∧ s.file = some (applyAll pre r0)
  | .modified v => v = applyAll s.fns r0 ∧ s.file.isSome
  | .truncated v => v = applyAll s.fns r0 ∧ s.file = none
  | .written => s.file = some (applyAll s.fns r0)
  | .acqL => s.file = some (applyAll s.fns r0)

structure Inv (r0 : α) (s : St α) : Prop where
  others : ∀ t x, s.th[t]? = some x → s.owner ≠ some t → x.pc.isIdle
  free : s.owner = none → s.file = some (applyAll s.fns r0)
  held : ∀ t, s.owner = some t → ∃ x, s.th[t]? = some x ∧ HeldOK r0 s x
  reads : ∀ r ∈ s.reads, ∃ k, k ≤ s.fns.length ∧ r = some (applyAll (s.fns.take k) r0)

theorem inv_init (r0 : α) (progs : List (List (Op α))) : Inv r0 (init r0 progs) := by
  refine ⟨?_, ?_, ?_, ?_⟩
  · intro t x hx _
    simp only [init, List.getElem?_map] at hx
    cases hp : progs[t]? with
    | none => simp [hp] at hx
    | some p => simp [hp] at hx; subst hx; trivial
  · intro _; simp [init, applyAll, St.fns]
  · intro t h; simp [init] at h
  · intro r h; simp [init] at h

theorem lt_of_getElem? {l : List (Th α)} {t : Nat} {x : Th α} (h : l[t]? = some x) : t < l.length := by
  cases Nat.lt_or_ge t l.length with
  | inl h' => exact h'
  | inr h' =>
    have : l[t]? = none := List.getElem?_eq_none h'
    rw [this] at h; cases h

theorem getElem?_set_self (l : List (Th α)) (t : Nat) (y : Th α) (ht : t < l.length) : (l.set t y)[t]? = some y := by
  simp [List.getElem?_set, ht]

theorem getElem?_set_other (l : List (Th α)) (t t' : Nat) (y : Th α) (h : t ≠ t') : (l.set t y)[t']? = l[t']? := by
  simp [List.getElem?_set, h]

/-- threads other than the (new) holder `t` stay idle when only `t`'s record changes -/
theorem others_keep {r0 : α} {s s' : St α} {t : Nat} (hi : Inv r0 s) (y : Th α)
    (hth : s'.th = s.th.set t y) (hown : s'.owner = some t) (hprev : s.owner = none ∨ s.owner = some t) :
    ∀ t' x', s'.th[t']? = some x' → s'.owner ≠ some t' → x'.pc.isIdle := by
  intro t' x' hx' hne
  by_cases htt : t = t'
  · subst htt; exact absurd hown hne
  · rw [hth, getElem?_set_other _ _ _ _ htt] at hx'
    apply hi.others t' x' hx'
    cases hprev with
    | inl h => rw [h]; simp
    | inr h => rw [h]; simp; exact htt

theorem held_intro {r0 : α} {s' : St α} {t : Nat} (l : List (Th α)) (y : Th α) (ht : t < l.length)
    (hth : s'.th = l.set t y) (hown : s'.owner = some t) (hok : HeldOK r0 s' y) :
    ∀ t', s'.owner = some t' → ∃ x, s'.th[t']? = some x ∧ HeldOK r0 s' x := by
  intro t' ht'
  rw [hown] at ht'; cases ht'
  exact ⟨y, by rw [hth]; exact getElem?_set_self l t y ht, hok⟩

/-- every micro-step preserves the invariant -/
theorem inv_step (r0 : α) (s s' : St α) (t : Nat) (hi : Inv r0 s) (hs : step s t = some s') : Inv r0 s' := by
  unfold step at hs
  cases hx : s.th[t]? with
  | none => simp [hx] at hs
  | some x =>
    have htl := lt_of_getElem? hx
    simp only [hx] at hs
    cases hops : x.ops with
    | nil => simp [hops] at hs
    | cons op rest =>
      -- a thread that is not idle must be the lock holder
      have holder : ¬ x.pc.isIdle → s.owner = some t ∧ HeldOK r0 s x := by
        intro hni
        have hown : s.owner = some t := Classical.byContradiction fun hne => hni (hi.others t x hx hne)
        obtain ⟨x0, hx0, hh⟩ := hi.held t hown
        rw [hx] at hx0; cases hx0
        exact ⟨hown, hh⟩
      have hne' : ∀ (y : Th α), y.ops = op :: rest → y.ops ≠ [] := by intro y hy; rw [hy]; simp
      cases hpc : x.pc with
      | idle =>
        cases op with
        | update f =>
          simp only [hops, hpc] at hs
          split at hs
          · rename_i hfree
            cases hs
            refine ⟨others_keep hi _ rfl rfl (Or.inl hfree), (by intro h; cases h), ?_, ?_⟩
            · refine held_intro s.th _ htl rfl rfl ⟨hne' _ rfl, ?_⟩
              exact ⟨s.fns, by simp [St.fns], hi.free hfree⟩
            · intro r hr
              obtain ⟨k, hk, hrk⟩ := hi.reads r hr
              refine ⟨k, by simp [St.fns] at hk ⊢; omega, ?_⟩
              show r = some (applyAll (List.take k ((s.log ++ [(t, f)]).map (fun e : Nat × (α → α) => e.2))) r0)
              rw [List.map_append, List.take_append_of_le_length (by simpa [St.fns] using hk)]; exact hrk
          · cases hs
        | save v =>
          simp only [hops, hpc] at hs
          split at hs
          · rename_i hfree
            cases hs
            refine ⟨others_keep hi _ rfl rfl (Or.inl hfree), (by intro h; cases h), ?_, ?_⟩
            · refine held_intro s.th _ htl rfl rfl ⟨hne' _ rfl, ?_⟩
              refine ⟨?_, ?_⟩
              · show v = applyAll ((s.log ++ [(t, fun _ => v)]).map (fun e : Nat × (α → α) => e.2)) r0
                rw [List.map_append]; simp [applyAll, List.foldl_append]
              · show s.file.isSome = true
                rw [hi.free hfree]; rfl
            · intro r hr
              obtain ⟨k, hk, hrk⟩ := hi.reads r hr
              refine ⟨k, by simp [St.fns] at hk ⊢; omega, ?_⟩
              show r = some (applyAll (List.take k ((s.log ++ [(t, fun _ => v)]).map (fun e : Nat × (α → α) => e.2))) r0)
              rw [List.map_append, List.take_append_of_le_length (by simpa [St.fns] using hk)]; exact hrk
          · cases hs
        | load =>
          simp only [hops, hpc] at hs
          split at hs
          · rename_i hfree
            cases hs
            refine ⟨others_keep hi _ rfl rfl (Or.inl hfree), (by intro h; cases h), ?_, hi.reads⟩
            exact held_intro s.th _ htl rfl rfl ⟨hne' _ rfl, hi.free hfree⟩
          · cases hs
      | acqU f =>
        obtain ⟨hown, _, hh⟩ := holder (by rw [hpc]; exact fun h => h)
        rw [hpc] at hh
        obtain ⟨pre, hlog, hfile⟩ := hh
        simp only [hops, hpc] at hs
        cases hs
        refine ⟨others_keep hi _ rfl hown (Or.inr hown), (by intro h; have h2 : s.owner = none := h; rw [hown] at h2; cases h2), ?_, hi.reads⟩
        refine held_intro s.th _ htl rfl hown ⟨hne' _ rfl, ?_⟩
        show _ = applyAll s.fns r0 ∧ s.file.isSome = true
        rw [hfile, hlog, applyAll_snoc]
        exact ⟨rfl, rfl⟩
      | modified v =>
        obtain ⟨hown, _, hh⟩ := holder (by rw [hpc]; exact fun h => h)
        rw [hpc] at hh
        simp only [hops, hpc] at hs
        cases hs
        refine ⟨others_keep hi _ rfl hown (Or.inr hown), (by intro h; have h2 : s.owner = none := h; rw [hown] at h2; cases h2), ?_, hi.reads⟩
        exact held_intro s.th _ htl rfl hown ⟨hne' _ rfl, hh.1, rfl⟩
      | truncated v =>
        obtain ⟨hown, _, hh⟩ := holder (by rw [hpc]; exact fun h => h)
        rw [hpc] at hh
        simp only [hops, hpc] at hs
        cases hs
        refine ⟨others_keep hi _ rfl hown (Or.inr hown), (by intro h; have h2 : s.owner = none := h; rw [hown] at h2; cases h2), ?_, hi.reads⟩
        refine held_intro s.th _ htl rfl hown ⟨hne' _ rfl, ?_⟩
        show some v = some (applyAll s.fns r0)
        rw [hh.1]
      | acqL =>
        obtain ⟨hown, _, hh⟩ := holder (by rw [hpc]; exact fun h => h)
        rw [hpc] at hh
        simp only [hops, hpc] at hs
        cases hs
        refine ⟨others_keep hi _ rfl hown (Or.inr hown), (by intro h; have h2 : s.owner = none := h; rw [hown] at h2; cases h2), ?_, ?_⟩
        · exact held_intro s.th _ htl rfl hown ⟨hne' _ rfl, hh⟩
        · intro r hr
          have hr' : r ∈ s.reads ++ [s.file] := hr
          simp only [List.mem_append, List.mem_singleton] at hr'
          cases hr' with
          | inl h => exact hi.reads r h
          | inr h => exact ⟨s.fns.length, Nat.le_refl _, by rw [h]; show s.file = some (applyAll (List.take s.fns.length s.fns) r0); rw [List.take_length]; exact hh⟩
      | written =>
        obtain ⟨hown, _, hh⟩ := holder (by rw [hpc]; exact fun h => h)
        rw [hpc] at hh
        simp only [hops, hpc] at hs
        cases hs
        refine ⟨?_, fun _ => hh, (by intro t' ht'; cases ht'), hi.reads⟩
        intro t' x' hx' _
        by_cases htt : t = t'
        · subst htt
          have hx2 : (s.th.set t { x with ops := rest, done := x.done ++ [op], pc := Pc.idle })[t]? = some x' := hx'
          rw [getElem?_set_self _ _ _ htl] at hx2
          cases hx2; trivial
        · have hx2 : (s.th.set t { x with ops := rest, done := x.done ++ [op], pc := Pc.idle })[t']? = some x' := hx'
          rw [getElem?_set_other _ _ _ _ htt] at hx2
          exact hi.others t' x' hx2 (by rw [hown]; simp; exact htt)

theorem inv_run (r0 : α) : ∀ (sched : List Nat) (s : St α), Inv r0 s → Inv r0 (run s sched) := by
  intro sched
  induction sched with
  | nil => intro s h; exact h
  | cons t rest ih =>
    intro s h
    simp only [run]
    cases hs : step s t with
    | none => simpa using ih s h
    | some s' => exact ih s' (inv_step r0 s s' t h hs)


/-! ## Accounting: every thread's writes appear in the log, in program order -/

structure Acct (progs : List (List (Op α))) (s : St α) : Prop where
  hist : ∀ (t : Nat) (x : Th α), s.th[t]? = some x → progs[t]? = some (x.done ++ x.ops)
  mine : ∀ (t : Nat) (x : Th α), s.th[t]? = some x → s.fnsOf t = opFns (x.done ++ x.cur)

theorem acc_init (r0 : α) (progs : List (List (Op α))) : Acct progs (init r0 progs) := by
  refine ⟨?_, ?_⟩ <;>
  · intro t x hx
    simp only [init, List.getElem?_map] at hx
    cases hp : progs[t]? with
    | none => simp [hp] at hx
    | some p => simp [hp] at hx; subst hx; simp [St.fnsOf, fnsOfLog, init, opFns, Th.cur]

theorem fnsOfLog_snoc (log : List (Nat × (α → α))) (t t' : Nat) (f : α → α) :
    fnsOfLog (log ++ [(t, f)]) t' = fnsOfLog log t' ++ (if t = t' then [f] else []) := by
  by_cases h : t = t' <;> simp [fnsOfLog, List.filter_append, h]

theorem opFns_append (a b : List (Op α)) : opFns (a ++ b) = opFns a ++ opFns b := by
  simp [opFns, List.filterMap_append]

/-- a step of `t` that leaves the log alone and keeps `done ++ ops` and `done ++ cur` of `t` -/
theorem acc_keep {progs : List (List (Op α))} {s s' : St α} {t : Nat} {x : Th α} (ha : Acct progs s)
    (hx : s.th[t]? = some x) (y : Th α) (hth : s'.th = s.th.set t y) (hlog : s'.log = s.log)
    (h1 : y.done ++ y.ops = x.done ++ x.ops) (h2 : opFns (y.done ++ y.cur) = opFns (x.done ++ x.cur)) : Acct progs s' := by
  have htl := lt_of_getElem? hx
  refine ⟨?_, ?_⟩
  · intro t' x' hx'
    by_cases htt : t = t'
    · subst htt
      rw [hth, getElem?_set_self _ _ _ htl] at hx'; cases hx'
      rw [h1]; exact ha.hist t x hx
    · rw [hth, getElem?_set_other _ _ _ _ htt] at hx'
      exact ha.hist t' x' hx'
  · intro t' x' hx'
    have hf : s'.fnsOf t' = s.fnsOf t' := by simp [St.fnsOf, hlog]
    rw [hf]
    by_cases htt : t = t'
    · subst htt
      rw [hth, getElem?_set_self _ _ _ htl] at hx'; cases hx'
      rw [h2]; exact ha.mine t x hx
    · rw [hth, getElem?_set_other _ _ _ _ htt] at hx'
      exact ha.mine t' x' hx'

/-- an acquiring step of `t` that appends `(t, f)` to the log, `f` being the function of the operation started -/
theorem acc_log {progs : List (List (Op α))} {s s' : St α} {t : Nat} {x : Th α} (ha : Acct progs s)
    (hx : s.th[t]? = some x) (y : Th α) (f : α → α) (hth : s'.th = s.th.set t y) (hlog : s'.log = s.log ++ [(t, f)])
    (h1 : y.done ++ y.ops = x.done ++ x.ops) (h2 : opFns (y.done ++ y.cur) = opFns (x.done ++ x.cur) ++ [f]) : Acct progs s' := by
  have htl := lt_of_getElem? hx
  refine ⟨?_, ?_⟩
  · intro t' x' hx'
    by_cases htt : t = t'
    · subst htt
      rw [hth, getElem?_set_self _ _ _ htl] at hx'; cases hx'
      rw [h1]; exact ha.hist t x hx
    · rw [hth, getElem?_set_other _ _ _ _ htt] at hx'
      exact ha.hist t' x' hx'
  · intro t' x' hx'
    have hf : s'.fnsOf t' = s.fnsOf t' ++ (if t = t' then [f] else []) := by
      simp only [St.fnsOf, hlog]; exact fnsOfLog_snoc _ _ _ _
    rw [hf]
    by_cases htt : t = t'
    · subst htt
      rw [hth, getElem?_set_self _ _ _ htl] at hx'; cases hx'
      rw [h2, ha.mine t x hx]; simp
    · rw [hth, getElem?_set_other _ _ _ _ htt] at hx'
      simp only [htt, if_false, List.append_nil]
      exact ha.mine t' x' hx'

theorem acc_step (progs : List (List (Op α))) (s s' : St α) (t : Nat) (ha : Acct progs s) (hs : step s t = some s') : Acct progs s' := by
  unfold step at hs
  cases hx : s.th[t]? with
  | none => simp [hx] at hs
  | some x =>
    simp only [hx] at hs
    cases hops : x.ops with
    | nil => simp [hops] at hs
    | cons op rest =>
      cases hpc : x.pc with
      | idle =>
        cases op with
        | update f =>
          simp only [hops, hpc] at hs
          split at hs
          · cases hs
            exact acc_log ha hx _ f rfl rfl (by simp [hops]) (by simp [Th.cur, hpc, hops, opFns_append, opFns, Op.fn])
          · cases hs
        | save v =>
          simp only [hops, hpc] at hs
          split at hs
          · cases hs
            exact acc_log ha hx _ (fun _ => v) rfl rfl (by simp [hops]) (by simp [Th.cur, hpc, hops, opFns_append, opFns, Op.fn])
          · cases hs
        | load =>
          simp only [hops, hpc] at hs
          split at hs
          · cases hs
            exact acc_keep ha hx _ rfl rfl (by simp [hops]) (by simp [Th.cur, hpc, hops, opFns_append, opFns, Op.fn])
          · cases hs
      | acqU f =>
        simp only [hops, hpc] at hs; cases hs
        exact acc_keep ha hx _ rfl rfl (by simp [hops]) (by simp [Th.cur, hpc, hops])
      | modified v =>
        simp only [hops, hpc] at hs; cases hs
        exact acc_keep ha hx _ rfl rfl (by simp [hops]) (by simp [Th.cur, hpc, hops])
      | truncated v =>
        simp only [hops, hpc] at hs; cases hs
        exact acc_keep ha hx _ rfl rfl (by simp [hops]) (by simp [Th.cur, hpc, hops])
      | acqL =>
        simp only [hops, hpc] at hs; cases hs
        exact acc_keep ha hx _ rfl rfl (by simp [hops]) (by simp [Th.cur, hpc, hops])
      | written =>
        simp only [hops, hpc] at hs; cases hs
        exact acc_keep ha hx _ rfl rfl (by simp [hops]) (by simp [Th.cur, hpc, hops])

theorem acc_run (progs : List (List (Op α))) : ∀ (sched : List Nat) (s : St α), Acct progs s → Acct progs (run s sched) := by
  intro sched
  induction sched with
  | nil => intro s h; exact h
  | cons t rest ih =>
    intro s h
    simp only [run]
    cases hs : step s t with
    | none => simpa using ih s h
    | some s' => exact ih s' (acc_step progs s s' t h hs)

end Receptor.StatusRMW
