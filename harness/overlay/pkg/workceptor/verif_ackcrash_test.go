package workceptor

// C04 harness (remote binding): a remote unit is started against a scripted control-service connection: the executing
// node acknowledges the new unit ("Work unit created with ID …"), then the submitting node streams the unit's stdin.
// At every write of that transfer the status record on disk is copied — what a node killed at that instant leaves
// behind.  For every such copy a second Workceptor is started on the data directory holding it: the unit must be
// listed with its work type, the executing node and the remote unit it is bound to.

import (
	"bufio"
	"context"
	"crypto/tls"
	"encoding/json"
	"errors"
	"net"
	"os"
	"path"
	"strings"
	"time"

	"github.com/ansible/receptor/pkg/logger"
	"github.com/ansible/receptor/pkg/netceptor"
)

type ackNC struct{ l *logger.ReceptorLogger }

func (n *ackNC) NodeID() string                        { return "ackA" }
func (n *ackNC) AddWorkCommand(_ string, _ bool) error { return nil }
func (n *ackNC) GetLogger() *logger.ReceptorLogger     { return n.l }
func (n *ackNC) GetClientTLSConfig(_ string, _ string, _ netceptor.ExpectedHostnameType) (*tls.Config, error) {
	return nil, nil
}

func (n *ackNC) DialContext(_ context.Context, _ string, _ string, _ *tls.Config) (*netceptor.Conn, error) {
	return nil, errors.New("executing node unreachable")
}

// ackConn: the first two writes are the submit command and its newline; every later write carries stdin
type ackConn struct {
	writes     int
	failAt     int
	statusFile string
	snaps      [][]byte
}

func (c *ackConn) Write(b []byte) (int, error) {
	c.writes++
	if c.writes <= 2 {
		return len(b), nil
	}
	snap, _ := os.ReadFile(c.statusFile)
	c.snaps = append(c.snaps, snap)
	if c.writes-2 >= c.failAt {
		return 0, errors.New("node killed while sending stdin")
	}
	return len(b), nil
}
func (c *ackConn) Read(_ []byte) (int, error)         { return 0, errors.New("unused") }
func (c *ackConn) Close() error                       { return nil }
func (c *ackConn) CloseConnection() error             { return nil }
func (c *ackConn) LocalAddr() net.Addr                { return nil }
func (c *ackConn) RemoteAddr() net.Addr               { return nil }
func (c *ackConn) SetDeadline(_ time.Time) error      { return nil }
func (c *ackConn) SetReadDeadline(_ time.Time) error  { return nil }
func (c *ackConn) SetWriteDeadline(_ time.Time) error { return nil }

type ackArgs struct {
	StdinLen int `json:"stdin_len"`
	FailAt   int `json:"fail_at"` // the stdin write (1-based) at which the node dies
}

func mirAckCrash(raw json.RawMessage) interface{} {
	var a ackArgs
	if err := json.Unmarshal(raw, &a); err != nil {
		panic(err)
	}
	dir, err := os.MkdirTemp("", "verif-ack-*")
	if err != nil {
		panic(err)
	}
	defer os.RemoveAll(dir)
	lg := logger.NewReceptorLogger("")
	lg.SetOutput(verifDiscardW{})
	nc := &ackNC{l: lg}
	ctx1, cancel1 := context.WithCancel(context.Background())
	w1, err := New(ctx1, nc, dir)
	if err != nil {
		cancel1()
		return map[string]interface{}{"error": err.Error()}
	}
	unit, err := w1.AllocateRemoteUnit("ackB", "echo", "", "", false, map[string]string{})
	if err != nil {
		cancel1()
		return map[string]interface{}{"error": err.Error()}
	}
	if err := os.WriteFile(path.Join(unit.UnitDir(), "stdin"), make([]byte, a.StdinLen), 0o600); err != nil {
		panic(err)
	}
	conn := &ackConn{statusFile: unit.StatusFileName(), failAt: a.FailAt}
	reader := bufio.NewReader(strings.NewReader("Work unit created with ID remote123. Send stdin data and EOF.\n"))
	startErr := unit.(*remoteUnit).startRemoteUnit(ctx1, conn, reader)
	cancel1()
	if startErr == nil || len(conn.snaps) == 0 {
		return map[string]interface{}{"error": "the stdin transfer was not reached or not interrupted"}
	}
	points := []map[string]interface{}{}
	for _, snap := range conn.snaps {
		if err := os.WriteFile(unit.StatusFileName(), snap, 0o600); err != nil {
			panic(err)
		}
		ctx2, cancel2 := context.WithCancel(context.Background())
		p := map[string]interface{}{"listed": false}
		if w2, err := New(ctx2, nc, dir); err == nil {
			for _, id := range w2.ListKnownUnitIDs() {
				if id == unit.ID() {
					p["listed"] = true
				}
			}
			if st, err := w2.UnitStatus(unit.ID()); err == nil {
				p["wt"] = st.WorkType
				if red, ok := st.ExtraData.(*RemoteExtraData); ok {
					p["node"] = red.RemoteNode
					p["remote_unit"] = red.RemoteUnitID
				}
			}
		}
		cancel2()
		points = append(points, p)
	}
	return map[string]interface{}{"points": points, "nontrivial": true}
}
