#!/usr/bin/env python3
"""seed_import.py <seed_dir> <name> <property> <detected:yes|no|partial> <by-which-check-and-how>"""
import json, os, shutil, sys
sd, name, prop, detected, how = sys.argv[1:6]
dst = os.path.join("/verif/seeded", name)
os.makedirs(dst, exist_ok=True)
shutil.copy(os.path.join(sd, "patch.diff"), dst)
for f in os.listdir(sd):
    if f.endswith("_test.go") or f.endswith(".go") or f == "notes.md":
        shutil.copy(os.path.join(sd, f), dst)
conf = json.load(open(os.path.join(sd, "confirm.json"))) if os.path.exists(os.path.join(sd, "confirm.json")) else {}
notes = open(os.path.join(sd, "notes.md")).read() if os.path.exists(os.path.join(sd, "notes.md")) else ""
meta = {
    "property": prop, "name": name,
    "needs_to_manifest": notes[:1200],
    "confirmed": {
        "how": "tools/seed_confirm.sh in a scratch worktree of /repo HEAD: go build ./pkg/... ./cmd/...; demo test on the clean tree and with the patch; existing tests of the touched packages with the patch (TestCreatePing skipped: flaky on the clean tree)",
        "build_ok": conf.get("build_rc") == 0, "demo_passes_on_clean_tree": conf.get("demo_clean_rc") == 0,
        "demo_fails_with_change": conf.get("demo_mutated_rc", 0) != 0, "existing_tests_pass_with_change": conf.get("existing_tests_rc") == 0,
    },
    "detected_by_checks": detected, "detection": how,
    "ran": f"tools/seed_run.sh seeded/{name}/patch.diff {prop}",
}
json.dump(meta, open(os.path.join(dst, "meta.json"), "w"), indent=1)
print("imported", name)
