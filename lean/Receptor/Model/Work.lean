/-!
# Work-unit decision logic: secret redaction (C19) and the signature gate (C15)

* `redact` / `allocateRemote`: `remoteUnit.Status`, `AllocateRemoteUnit`.
* `gate` / `dispatch`: `processSignature` and the order parse → find unit → gate → effect of
  `workceptorCommand.ControlFunc`.  Token validity (RS512 signature by the configured key,
  expiry, audience) is an oracle supplied by the harness that mints the tokens.
-/
namespace Receptor.Work

abbrev Bytes := List Nat
abbrev Params := List (Bytes × Bytes)

def lowerB (s : Bytes) : Bytes := s.map fun c => if 65 ≤ c ∧ c ≤ 90 then c + 32 else c

def secretPrefix : Bytes := [115, 101, 99, 114, 101, 116, 95]   -- "secret_"

/-- `strings.HasPrefix(strings.ToLower(k), "secret_")` -/
def isSecretKey (k : Bytes) : Bool := (lowerB k).take 7 == secretPrefix

/-- what `Status()` reports of the stored parameters -/
def redact (ps : Params) : Params := ps.filter fun e => !isSecretKey e.1

def hasSecrets (ps : Params) : Bool := ps.any fun e => isSecretKey e.1

inductive AllocOut where
  | refused            -- "cannot send secrets over a non-TLS connection": nothing stored, nothing sent
  | stored (ps : Params)
  deriving DecidableEq, Repr

/-- `AllocateRemoteUnit`: `checkFirst` is the regenerated fact that the secrets test precedes
`AllocateUnit` -/
def allocateRemote (checkFirst : Bool) (tlsClient : Bytes) (ps : Params) : AllocOut × Bool :=
  -- second component: was anything written to disk?
  if hasSecrets ps && tlsClient == [] then (.refused, !checkFirst) else (.stored ps, true)

/-! ## signature gate -/

inductive Conn where
  | unix | other
  deriving DecidableEq, Repr

structure Token where
  present : Bool          -- a non-empty signature string was supplied
  valid : Bool            -- oracle: correctly signed by the configured key, unexpired, addressed to this node
  deriving DecidableEq, Repr

structure TypeCfg where
  isRemote : Bool         -- the work type is "remote"
  signWork : Bool         -- the remote unit's / submission's signwork flag
  registered : Bool
  verify : Bool           -- registered with verifySignature
  deriving DecidableEq, Repr

def shouldVerify (t : TypeCfg) : Bool := if t.isRemote then t.signWork else t.registered && t.verify

inductive Gate where
  | pass | refuseUnexpected | refuseInvalid
  deriving DecidableEq, Repr

/-- `processSignature` (`unixExempt` = only Unix-socket clients skip verification: fact) -/
def gate (t : TypeCfg) (c : Conn) (tok : Token) (keyConfigured : Bool) : Gate :=
  if !shouldVerify t && tok.present then .refuseUnexpected
  else if shouldVerify t && c != .unix then
    (if tok.present && keyConfigured && tok.valid then .pass else .refuseInvalid)
  else .pass

inductive Sub where
  | submit | cancel | release | forceRelease | results | status | list
  deriving DecidableEq, Repr

def gated : Sub → Bool
  | .status | .list => false
  | _ => true

inductive Resp where
  | effect             -- the command took effect (unit created / stopped / removed / read)
  | refused (g : Gate)
  | notFound           -- unknown unit
  | info               -- status / list: information only
  deriving DecidableEq, Repr

/-- `ControlFunc`: parse → (find unit) → gate → effect.  `gateBeforeEffect` is the regenerated
fact that in every gated arm `processSignature` precedes the effect. -/
def dispatch (gateBeforeEffect : Bool) (sub : Sub) (unitFound : Bool) (t : TypeCfg) (c : Conn) (tok : Token) (key : Bool) : Resp :=
  if !gated sub then (if sub = .status && !unitFound then .notFound else .info)
  else if sub != .submit && !unitFound then .notFound
  else if !gateBeforeEffect then .effect
  else match gate t c tok key with
    | .pass => .effect
    | g => .refused g

end Receptor.Work
