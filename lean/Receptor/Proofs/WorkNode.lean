import Receptor.Model.WorkNode
/-! Helper lemmas about one step of the work-unit state machine (C15, C19 over histories). -/
namespace Receptor.WorkNode
open Receptor.Work

/-- same unit as far as identity, type, parameters and TLS profile go (flags may differ) -/
def SameCore (u u' : WUnit) : Prop := u.id = u'.id ∧ u.params = u'.params ∧ u.tls = u'.tls ∧ u.cfg = u'.cfg

theorem sameCore_refl (u : WUnit) : SameCore u u := ⟨rfl, rfl, rfl, rfl⟩

/-- what one step can do to the set of units: nothing; append one freshly submitted unit (and then the
secrets rule was respected); or keep / flag / drop existing units without touching their core -/
theorem step_units (n : Node) (op : Op) :
    (step n op).1 = n
    ∨ (∃ c, op = .cmd c ∧ c.sub = .submit
        ∧ (step n op).1.units = n.units ++ [{ id := n.next, cfg := c.cfg, params := c.params, tls := c.tls }]
        ∧ (c.cfg.isRemote = true → hasSecrets c.params = true → c.tls ≠ []))
    ∨ (∀ u' ∈ (step n op).1.units, ∃ u ∈ n.units, SameCore u u') := by
  cases op with
  | restart => exact Or.inl rfl
  | cmd c =>
    simp only [step]
    split
    · -- effect
      unfold applyEffect
      cases hs : c.sub with
      | submit =>
        simp only
        by_cases hr : c.cfg.isRemote = true
        · simp only [hr, if_true]
          by_cases hsec : (hasSecrets c.params && c.tls == []) = true
          · have hA : (allocateRemote true c.tls c.params).1 = .refused := by
              unfold allocateRemote
              rw [if_pos hsec]
            rw [hA]
            exact Or.inl rfl
          · have hA : (allocateRemote true c.tls c.params).1 = .stored c.params := by
              unfold allocateRemote
              rw [if_neg hsec]
            rw [hA]
            refine Or.inr (Or.inl ⟨c, rfl, hs, rfl, ?_⟩)
            intro _ hh htls
            apply hsec
            simp [hh, htls]
        · simp only [hr, Bool.false_eq_true, if_false]
          refine Or.inr (Or.inl ⟨c, rfl, hs, rfl, ?_⟩)
          intro h; exact absurd h hr
      | cancel =>
        refine Or.inr (Or.inr ?_)
        intro u' hu'
        simp only [List.mem_map] at hu'
        obtain ⟨u, hu, rfl⟩ := hu'
        refine ⟨u, hu, ?_⟩
        split <;> exact ⟨rfl, rfl, rfl, rfl⟩
      | release =>
        refine Or.inr (Or.inr ?_)
        intro u' hu'
        simp only [List.mem_filter] at hu'
        exact ⟨u', hu'.1, sameCore_refl u'⟩
      | forceRelease =>
        refine Or.inr (Or.inr ?_)
        intro u' hu'
        simp only [List.mem_filter] at hu'
        exact ⟨u', hu'.1, sameCore_refl u'⟩
      | results =>
        refine Or.inr (Or.inr ?_)
        intro u' hu'
        simp only [List.mem_map] at hu'
        obtain ⟨u, hu, rfl⟩ := hu'
        refine ⟨u, hu, ?_⟩
        split <;> exact ⟨rfl, rfl, rfl, rfl⟩
      | status => exact Or.inl rfl
      | list => exact Or.inl rfl
    · exact Or.inl rfl
    · exact Or.inl rfl
    · split
      · exact Or.inl rfl
      · split <;> exact Or.inl rfl

/-- a command that needs a valid token and has none is not dispatched as an effect -/
theorem dispatch_unauthorised (n : Node) (c : Cmd) (h : unauthorised n c = true) :
    dispatch true c.sub (findUnit n c.target).isSome (cfgFor n c) c.conn c.tok n.key ≠ .effect := by
  simp only [unauthorised, Bool.and_eq_true, Bool.not_eq_true', bne_iff_ne, ne_eq] at h
  obtain ⟨⟨hv, hc⟩, ht⟩ := h
  have hgate : gate (cfgFor n c) c.conn c.tok n.key = .refuseInvalid := by
    unfold gate
    have hc' : (c.conn != Conn.unix) = true := by simp [hc]
    simp [hv, hc', ht]
  unfold dispatch
  by_cases hg : gated c.sub = true
  · simp only [hg, Bool.not_true, Bool.false_eq_true, if_false, hgate]
    split <;> simp
  · have hg' : gated c.sub = false := by simpa using hg
    simp only [hg', Bool.not_false, if_true]
    split <;> simp

/-- a step whose command is not dispatched as an effect leaves the node as it was, and does not answer "done" -/
theorem step_no_effect (n : Node) (c : Cmd)
    (h : dispatch true c.sub (findUnit n c.target).isSome (cfgFor n c) c.conn c.tok n.key ≠ .effect) :
    (step n (.cmd c)).1 = n ∧ (step n (.cmd c)).2 ≠ .done := by
  simp only [step]
  cases hd : dispatch true c.sub (findUnit n c.target).isSome (cfgFor n c) c.conn c.tok n.key with
  | effect => exact absurd hd h
  | refused g => simp
  | notFound => simp
  | info =>
    simp only
    split
    · simp
    · split <;> simp

/-- a command that needs a valid token and has none leaves the node exactly as it was and is answered
by a refusal or "unknown unit" (status and list: by information) -/
theorem step_unauthorised (n : Node) (c : Cmd) (h : unauthorised n c = true) :
    (step n (.cmd c)).1 = n ∧ (step n (.cmd c)).2 ≠ .done :=
  step_no_effect n c (dispatch_unauthorised n c h)

/-- information commands never change the node -/
theorem step_info (n : Node) (c : Cmd) (h : gated c.sub = false) : (step n (.cmd c)).1 = n := by
  refine (step_no_effect n c ?_).1
  unfold dispatch
  simp only [h, Bool.not_false, if_true]
  split <;> simp

/-- whatever a step shows is the redacted report of units the node holds -/
theorem step_shown (n : Node) (op : Op) (l : List (Nat × Params)) (h : (step n op).2 = .shown l) :
    ∀ q ∈ l, ∃ u ∈ n.units, q = report u := by
  cases op with
  | restart => simp [step] at h
  | cmd c =>
    simp only [step] at h
    split at h
    · -- effect: applyEffect never shows anything
      unfold applyEffect at h
      cases hs : c.sub <;> simp only [hs] at h
      · split at h
        · split at h <;> simp at h
        · simp at h
      all_goals simp at h
    · simp at h
    · simp at h
    · split at h
      · simp only [Out.shown.injEq] at h
        subst h
        intro q hq
        simp only [List.mem_map] at hq
        obtain ⟨u, hu, rfl⟩ := hq
        exact ⟨u, hu, rfl⟩
      · split at h
        · rename_i u hf
          simp only [Out.shown.injEq] at h
          subst h
          intro q hq
          simp only [List.mem_singleton] at hq
          subst hq
          exact ⟨u, List.mem_of_find?_eq_some hf, rfl⟩
        · simp at h

end Receptor.WorkNode
