import Receptor.Model.Forward
/-!
# Many datagrams in flight at once (C02: "including under concurrent senders")

`Forward.walk` follows one datagram.  Here any number of datagrams are in flight and a *schedule*
— an arbitrary list of picks — decides which of them makes its next step (one call of
`handleMessageData` at the node where it currently is).  Node configurations are the shared state
the steps read; a step writes only the picked datagram's own position and budget (the source keeps
the per-packet state in the `MessageData` value and the message buffer, which belong to that packet:
fact `send_local_copy` for the local case, the codec round trip for the relayed case).
-/
namespace Receptor.Forward

/-- a datagram in flight: who sent it (`id`: index of the send), where it is, what is left of its
budget, and the steps the model still allows it (mirrors the `fuel` of `walk`) -/
structure Flight where
  id : Nat
  fuel : Nat
  ttl : Nat
  cur : Node
  p : Packet

/-- a datagram that has left the network: at which node and how -/
abbrev Ended := Nat × (Node × Outcome)

/-- where this datagram ends if it is followed alone -/
def Flight.fate (H : HopRule) (net : Net) (f : Flight) : Ended := (f.id, (walk H net f.fuel f.ttl f.cur f.p).2)

/-- one step of one datagram: it is relayed (and stays in flight) or it ends -/
def advance (H : HopRule) (net : Net) (f : Flight) : Flight ⊕ Ended :=
  match f.fuel with
  | 0 => .inr (f.id, (f.cur, .diverges))
  | fuel + 1 =>
    match handle H f.cur (net f.cur) { f.p with ttl := f.ttl } with
    | .forward nh => .inl { f with fuel := fuel, ttl := nextTtl H f.ttl, cur := nh }
    | o => .inr (f.id, (f.cur, o))

/-- the `i`-th datagram in flight makes a step (a pick beyond the end does nothing) -/
def stepFlights (H : HopRule) (net : Net) : Nat → List Flight → List Flight × Option Ended
  | _, [] => ([], none)
  | 0, f :: rest =>
    match advance H net f with
    | .inl f' => (f' :: rest, none)
    | .inr e => (rest, some e)
  | i + 1, f :: rest => let r := stepFlights H net i rest; (f :: r.1, r.2)

structure Sky where
  flights : List Flight
  ended : List Ended

def Sky.step (H : HopRule) (net : Net) (s : Sky) (i : Nat) : Sky :=
  let r := stepFlights H net i s.flights
  { flights := r.1, ended := s.ended ++ r.2.toList }

/-- run a whole schedule -/
def Sky.run (H : HopRule) (net : Net) (s : Sky) (sched : List Nat) : Sky := sched.foldl (Sky.step H net) s

/-- the sends of a burst: the `k`-th is handed to `handleMessageData` at its sender's node with its
full budget -/
def launchFrom (k : Nat) : List (Node × Packet) → List Flight
  | [] => []
  | (v, p) :: rest => { id := k, fuel := p.ttl + 1, ttl := p.ttl, cur := v, p := p } :: launchFrom (k + 1) rest

def launch (sends : List (Node × Packet)) : Sky := { flights := launchFrom 0 sends, ended := [] }

/-- what each send of the burst does when it is followed alone (`Forward.route`) -/
def aloneFrom (net : Net) (k : Nat) : List (Node × Packet) → List Ended
  | [] => []
  | (v, p) :: rest => (k, (route net v p).2) :: aloneFrom net (k + 1) rest

end Receptor.Forward
