/-!
# Crash and restart of work units — property C04

The persistent record of a unit is its directory and the `status` file in it.  Creating a unit
and every later rewrite of the record are sequences of file-system steps; a crash (of the daemon,
or of the runner that owns a running command's record) cuts such a sequence at any point.  After
a restart `scanForUnits` rebuilds the index from what is on disk.
-/
namespace Receptor.Crash

structure Rec where
  wt : Nat                  -- work type
  state : Nat               -- 0 pending, 1 running, 2 succeeded, 3 failed, 4 cancelled
  size : Nat
  remote : Option Nat := none   -- remote units: the node the unit is bound to
  started : Bool := false       -- remote units: the remote unit has been started
  deriving DecidableEq, Repr

inductive StatusFile where
  | absent
  | empty                    -- created or truncated, nothing written yet
  | full (r : Rec)
  deriving DecidableEq, Repr

structure Disk where
  dir : Bool := false
  status : StatusFile := .absent
  deriving DecidableEq, Repr

/-- file-system steps -/
inductive FsStep where
  | mkdir
  | truncate                 -- open with O_TRUNC / Truncate(0)
  | write (r : Rec)
  | replace (r : Rec)        -- write a temporary file and rename it over `status` (atomic)
  deriving DecidableEq, Repr

def apply (d : Disk) : FsStep → Disk
  | .mkdir => { d with dir := true }
  | .truncate => if d.dir then { d with status := .empty } else d
  | .write r => if d.dir then { d with status := .full r } else d
  | .replace r => if d.dir then { d with status := .full r } else d

def applyAll (d : Disk) (steps : List FsStep) : Disk := steps.foldl apply d

/-- how the source rewrites a record: in place (truncate, then write) or atomically (regenerated fact) -/
def rewrite (atomic : Bool) (r : Rec) : List FsStep := if atomic then [.replace r] else [.truncate, .write r]

/-- creation (`generateUnitID` + `Save`) followed by the rewrites of a unit's life -/
def history (atomic : Bool) (r0 : Rec) (later : List Rec) : List FsStep :=
  [.mkdir, .truncate, .write r0] ++ later.flatMap (rewrite atomic)

/-- what a restarted node reports for a unit directory (`scanForUnit` + `Restart`) -/
inductive View where
  | notListed
  | listed (wt : Nat) (state : Nat) (size : Nat) (remote : Option Nat)
  deriving DecidableEq, Repr

def complete (s : Nat) : Bool := s == 2 || s == 3

/-- `types`: the work types registered at restart; `remoteType`: the type of remote units -/
def restartView (remoteType : Nat) (types : List Nat) (d : Disk) : View :=
  if !d.dir then .notListed
  else match d.status with
    | .absent => .notListed                      -- "Status file has disappeared": not registered
    | .empty => .listed 0 3 0 none               -- unreadable record: unknown work type "", marked failed
    | .full r =>
      if !types.contains r.wt then .listed r.wt r.state r.size r.remote      -- unknown unit: reported as stored
      else if r.wt = remoteType then
        (if r.started then .listed r.wt r.state r.size r.remote else .listed r.wt 3 r.size r.remote)
      else if complete r.state then .listed r.wt r.state r.size r.remote
      else if r.state = 0 then .listed r.wt 3 r.size r.remote               -- "Pending at restart"
      else .listed r.wt r.state r.size r.remote                             -- running (or cancelled): followed again

/-- all records of a unit carry its work type (no rewrite changes it) -/
def sameType (wt : Nat) (l : List Rec) : Prop := ∀ r ∈ l, r.wt = wt

/-! ## looking a unit up while the node is still registering its work types -/

/-- the units a node holds in memory and the units that have a readable record on disk -/
structure Reg where
  active : List Nat
  disk : List Nat
  deriving DecidableEq, Repr

/-- `findUnit`: the table first; on a miss the unit's directory is read (regenerated fact) and the table asked again -/
def findUnit (rescanOnMiss : Bool) (r : Reg) (id : Nat) : Bool :=
  r.active.contains id || (rescanOnMiss && r.disk.contains id)

/-- while a work type is being registered, the units found on disk under the stand-in type are taken out of the table and
read again, one at a time -/
inductive RStep where
  | drop (id : Nat)
  | readd (id : Nat)
  deriving DecidableEq, Repr

def rstep (r : Reg) : RStep → Reg
  | .drop id => { r with active := r.active.filter (· != id) }
  | .readd id => if r.disk.contains id then { r with active := id :: r.active } else r

end Receptor.Crash
