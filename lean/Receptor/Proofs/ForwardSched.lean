import Receptor.Model.ForwardSched
/-!
# Proofs for `Model/ForwardSched.lean`: a step of one datagram does not change where any datagram ends
-/
namespace Receptor.Forward

theorem advance_fate (H : HopRule) (net : Net) (f : Flight) :
    (match advance H net f with
     | .inl f' => f'.fate H net
     | .inr e => e) = f.fate H net := by
  obtain ⟨id, fuel, ttl, cur, p⟩ := f
  cases fuel with
  | zero => simp [advance, Flight.fate, walk]
  | succ n =>
    simp only [advance, Flight.fate, walk]
    generalize handle H cur (net cur) { p with ttl := ttl } = o
    cases o <;> rfl

theorem stepFlights_perm (H : HopRule) (net : Net) : ∀ (l : List Flight) (i : Nat),
    ((stepFlights H net i l).2.toList ++ (stepFlights H net i l).1.map (Flight.fate H net)).Perm (l.map (Flight.fate H net))
  | [], i => by simp [stepFlights]
  | f :: rest, 0 => by
    have h := advance_fate H net f
    unfold stepFlights
    split
    · rename_i f' hf; rw [hf] at h; simp at h; simp [h]
    · rename_i e hf; rw [hf] at h; simp at h; simp [h]
  | f :: rest, i + 1 => by
    have ih := stepFlights_perm H net rest i
    simp only [stepFlights, List.map_cons]
    exact (List.perm_middle).trans (List.Perm.cons _ ih)

def Sky.fates (H : HopRule) (net : Net) (s : Sky) : List Ended := s.ended ++ s.flights.map (Flight.fate H net)

theorem step_fates (H : HopRule) (net : Net) (s : Sky) (i : Nat) : ((s.step H net i).fates H net).Perm (s.fates H net) := by
  unfold Sky.step Sky.fates
  simp only [List.append_assoc]
  exact List.Perm.append_left _ (stepFlights_perm H net s.flights i)

theorem run_fates (H : HopRule) (net : Net) : ∀ (sched : List Nat) (s : Sky), ((s.run H net sched).fates H net).Perm (s.fates H net)
  | [], s => List.Perm.refl _
  | i :: sched, s => by
    unfold Sky.run; simp only [List.foldl_cons]
    exact (run_fates H net sched (s.step H net i)).trans (step_fates H net s i)

theorem launch_fates (net : Net) : ∀ (sends : List (Node × Packet)) (k : Nat),
    (launchFrom k sends).map (Flight.fate stdHops net) = aloneFrom net k sends
  | [], _ => rfl
  | (v, p) :: rest, k => by
    simp only [launchFrom, aloneFrom, List.map_cons, launch_fates net rest (k + 1)]
    rfl

theorem aloneFrom_ids (net : Net) : ∀ (sends : List (Node × Packet)) (k : Nat),
    (aloneFrom net k sends).map Prod.fst = List.range' k sends.length
  | [], _ => rfl
  | (v, p) :: rest, k => by simp [aloneFrom, aloneFrom_ids net rest (k + 1), List.range'_succ]

/-- steps still allowed to the datagrams in flight (every valid pick uses one up) -/
def Sky.budget (s : Sky) : Nat := (s.flights.map (fun f => f.fuel + 1)).sum

theorem step0_budget (H : HopRule) (net : Net) (s : Sky) (h : s.flights ≠ []) : (s.step H net 0).budget < s.budget := by
  obtain ⟨fl, en⟩ := s
  cases fl with
  | nil => exact absurd rfl h
  | cons f rest =>
    obtain ⟨id, fuel, ttl, cur, p⟩ := f
    simp only [Sky.step, Sky.budget, stepFlights, advance]
    cases fuel with
    | zero => simp
    | succ n =>
      simp only []
      generalize handle H cur (net cur) { p with ttl := ttl } = o
      cases o <;> simp <;> omega

theorem step0_empty (H : HopRule) (net : Net) (s : Sky) (h : s.flights = []) : (s.step H net 0).flights = [] := by
  simp [Sky.step, h, stepFlights]

theorem drains (H : HopRule) (net : Net) : ∀ (n : Nat) (s : Sky), s.budget ≤ n → (s.run H net (List.replicate n 0)).flights = []
  | 0, s, h => by
    obtain ⟨fl, en⟩ := s
    cases fl with
    | nil => rfl
    | cons f rest => simp [Sky.budget] at h
  | n + 1, s, h => by
    simp only [Sky.run, List.replicate_succ, List.foldl_cons]
    by_cases he : s.flights = []
    · have := drains H net n (s.step H net 0) (by
        have e : (s.step H net 0).budget = 0 := by simp [Sky.budget, step0_empty H net s he]
        omega)
      exact this
    · exact drains H net n (s.step H net 0) (by have := step0_budget H net s he; omega)

end Receptor.Forward
