/-! Feasibility prototype: framer any-chunking theorem (C02). Bytes are Nat < 256 for simplicity here. -/
namespace Framer

abbrev Bytes := List Nat

def frame (m : Bytes) : Bytes := (m.length % 256) :: (m.length / 256) :: m

def getMessage (buf : Bytes) : Option (Bytes × Bytes) :=
  match buf with
  | lo :: hi :: rest =>
    if lo + 256 * hi ≤ rest.length then some (rest.take (lo + 256 * hi), rest.drop (lo + 256 * hi)) else none
  | _ => none

theorem getMessage_shrinks {buf m buf'} (h : getMessage buf = some (m, buf')) : buf'.length < buf.length := by
  unfold getMessage at h
  split at h
  · split at h
    · cases h; simp [List.length_drop]; omega
    · cases h
  · cases h

/-- drain all ready messages -/
def drain (buf : Bytes) : List Bytes × Bytes :=
  match h : getMessage buf with
  | none => ([], buf)
  | some (m, buf') =>
    have : buf'.length < buf.length := getMessage_shrinks h
    let r := drain buf'; (m :: r.1, r.2)
termination_by buf.length

theorem drain_none {buf} (h : getMessage buf = none) : drain buf = ([], buf) := by
  rw [drain]; split
  · rfl
  · rename_i h'; rw [h] at h'; cases h'

theorem drain_some {buf m buf'} (h : getMessage buf = some (m, buf')) :
    drain buf = (m :: (drain buf').1, (drain buf').2) := by
  rw [drain]; split
  · rename_i h'; rw [h] at h'; cases h'
  · rename_i m2 b2 h'; rw [h] at h'; cases h'; rfl

/-- appending more bytes does not change an already-ready message -/
theorem getMessage_append {buf m buf'} (c : Bytes) (h : getMessage buf = some (m, buf')) :
    getMessage (buf ++ c) = some (m, buf' ++ c) := by
  unfold getMessage at h ⊢
  match buf, h with
  | lo :: hi :: rest, h =>
    simp only [List.cons_append] at h ⊢
    split at h
    · rename_i hle
      cases h
      have : lo + 256 * hi ≤ (rest ++ c).length := by simp; omega
      simp only [this, if_true]
      rw [List.take_append_of_le_length hle, List.drop_append_of_le_length hle]
    · cases h

/-- incremental draining = batch draining -/
theorem drain_append (c : Bytes) : ∀ (n : Nat) (buf : Bytes), buf.length = n →
    drain (buf ++ c) = ((drain buf).1 ++ (drain ((drain buf).2 ++ c)).1, (drain ((drain buf).2 ++ c)).2) := by
  intro n
  induction n using Nat.strongRecOn with
  | _ n ih =>
    intro buf hn
    cases hg : getMessage buf with
    | none => rw [drain_none hg]; simp
    | some mb =>
      obtain ⟨m, buf'⟩ := mb
      have hs := getMessage_shrinks hg
      rw [drain_some hg, drain_some (getMessage_append c hg)]
      rw [ih buf'.length (by omega) buf' rfl]
      simp

theorem getMessage_frame (m rest : Bytes) (hm : m.length < 65536) :
    getMessage (frame m ++ rest) = some (m, rest) := by
  simp only [frame, getMessage, List.cons_append]
  have e : m.length % 256 + 256 * (m.length / 256) = m.length := by omega
  rw [e]
  have : m.length ≤ (m ++ rest).length := by simp
  simp [this]

theorem drain_frames (msgs : List Bytes) (hm : ∀ m ∈ msgs, m.length < 65536) :
    drain ((msgs.map frame).flatten) = (msgs, []) := by
  induction msgs with
  | nil => rw [drain_none] <;> simp [getMessage]
  | cons m ms ih =>
    simp only [List.map_cons, List.flatten_cons]
    rw [drain_some (getMessage_frame m _ (hm m (List.mem_cons_self ..)))]
    rw [ih (fun x hx => hm x (List.mem_cons_of_mem _ hx))]

/-- feed chunks one by one, draining greedily after each -/
def feed : Bytes → List Bytes → List Bytes × Bytes
  | buf, [] => ([], buf)
  | buf, c :: cs => let r := drain (buf ++ c); let r2 := feed r.2 cs; (r.1 ++ r2.1, r2.2)

theorem drain_idem : ∀ (n : Nat) (buf : Bytes), buf.length = n → drain (drain buf).2 = ([], (drain buf).2) := by
  intro n
  induction n using Nat.strongRecOn with
  | _ n ih =>
    intro buf hn
    cases hg : getMessage buf with
    | none => rw [drain_none hg]; exact drain_none hg
    | some mb =>
      obtain ⟨m, buf'⟩ := mb
      have hs := getMessage_shrinks hg
      rw [drain_some hg]
      exact ih buf'.length (by omega) buf' rfl

/-- feeding chunk by chunk from a drained buffer = draining everything at once -/
theorem feed_eq_drain : ∀ (cs : List Bytes) (buf : Bytes), drain buf = ([], buf) →
    feed buf cs = drain (buf ++ cs.flatten) := by
  intro cs
  induction cs with
  | nil => intro buf h; simp [feed, h]
  | cons c cs ih =>
    intro buf h
    simp only [feed, List.flatten_cons]
    have hid := drain_idem _ (buf ++ c) rfl
    rw [ih _ hid]
    rw [← List.append_assoc, drain_append cs.flatten _ (buf ++ c) rfl]

/-- THE chunking theorem: any way of cutting the framed stream into chunks yields the same messages -/
theorem deframe_any_chunking (msgs : List Bytes) (hm : ∀ m ∈ msgs, m.length < 65536)
    (chunks : List Bytes) (hc : chunks.flatten = (msgs.map frame).flatten) :
    feed [] chunks = (msgs, []) := by
  rw [feed_eq_drain chunks [] (drain_none (by simp [getMessage]))]
  simp only [List.nil_append, hc]
  exact drain_frames msgs hm

#print axioms deframe_any_chunking
end Framer
