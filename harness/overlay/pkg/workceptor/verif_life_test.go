package workceptor

// C13 harness: real command units with the real detached runner process (this test binary,
// re-executed through a `receptor` shim on PATH, calling commandRunnerCfg.Run), driven through the
// real `work` control commands by concurrent clients.  Every rewrite of a status record is reported
// by the injected hook (verif_hook.go) from the daemon and from the runner processes.

import (
	"bufio"
	"encoding/json"
	"context"
	"fmt"
	"os"
	"path"
	"sort"
	"strings"
	"sync"
	"sync/atomic"
	"syscall"
	"testing"
	"time"

	"github.com/ansible/receptor/pkg/logger"
)

// TestVerifRunnerChild is the command-runner process.
func TestVerifRunnerChild(t *testing.T) {
	argsS := os.Getenv("VERIF_RUNNER_ARGS")
	if argsS == "" {
		t.Skip("not a runner")
	}
	cfg := commandRunnerCfg{}
	for _, a := range strings.Split(argsS, "\n") {
		switch {
		case strings.HasPrefix(a, "command="):
			cfg.Command = a[len("command="):]
		case strings.HasPrefix(a, "params="):
			cfg.Params = a[len("params="):]
		case strings.HasPrefix(a, "unitdir="):
			cfg.UnitDir = a[len("unitdir="):]
		}
	}
	lg := logger.NewReceptorLogger("")
	lg.SetOutput(verifDiscardW{})
	MainInstance = &Workceptor{nc: &verifNC{id: "worker", lg: lg}}
	_ = cfg.Run() // exits the process
}

// lifeFS: a file system on which removing a directory fails while `stuck` is set
type lifeFS struct {
	FileSystem
	stuck *int32
}

var (
	lifeHold    int32
	lifeEntered chan struct{}
	lifeLetGo   chan struct{}
)

func (f lifeFS) RemoveAll(p string) error {
	if atomic.LoadInt32(&lifeHold) != 0 {
		// the removal of the directory takes a while: the harness looks the unit up in the meantime
		select {
		case lifeEntered <- struct{}{}:
		default:
		}
		<-lifeLetGo
	}
	if atomic.LoadInt32(f.stuck) != 0 {
		return fmt.Errorf("unlinkat %s: device or resource busy", p)
	}
	return os.RemoveAll(p)
}

var lifeStuck int32

func lifeNewStuckUnit(_ BaseWorkUnitForWorkUnit, w *Workceptor, unitID string, workType string) WorkUnit {
	u := &verifUnit{}
	u.BaseWorkUnit.Init(w, unitID, workType, lifeFS{stuck: &lifeStuck}, nil)
	return u
}

type lifeUnit struct {
	Kind string `json:"kind"` // success | fail | cancel | finishline | inproc | burst
	N    int    `json:"n"`    // output bytes (before the pause) / burst size
	M    int    `json:"m"`    // output bytes after the pause
}

type lifeArgs struct {
	Units []lifeUnit `json:"units"`
}

type lifeWrite struct {
	File     string `json:"file"`
	Pid      int    `json:"pid"`
	Had      bool   `json:"had"`
	Ns       int64  `json:"ns"`
	OldState *int   `json:"old_state"`
	OldSize  *int64 `json:"old_size"`
	NewState int    `json:"new_state"`
	NewSize  int64  `json:"new_size"`
	Detail   string `json:"new_detail"`
}

func lifeReadLog(p string) []lifeWrite {
	var out []lifeWrite
	f, err := os.Open(p)
	if err != nil {
		return out
	}
	defer f.Close()
	sc := bufio.NewScanner(f)
	sc.Buffer(make([]byte, 1<<20), 1<<24)
	for sc.Scan() {
		var w lifeWrite
		if json.Unmarshal(sc.Bytes(), &w) == nil {
			out = append(out, w)
		}
	}
	return out
}

type lifeWorld struct {
	vw     *verifWorld
	logP   string
	daemon int
}

func (lw *lifeWorld) cmd(cfg map[string]interface{}, stdin string) (map[string]interface{}, error) {
	cfg["command"] = "work"
	res, err, _ := lw.vw.command(cfg, "unix", stdin)
	return res, err
}

func (lw *lifeWorld) submit(worktype, params string) (string, error) {
	cfg := map[string]interface{}{"subcommand": "submit", "node": "localhost", "worktype": worktype}
	if params != "" {
		cfg["params"] = params
	}
	res, err := lw.cmd(cfg, "")
	if err != nil {
		return "", err
	}
	id, _ := res["unitid"].(string)
	return id, nil
}

// writesOf: the rewrites of one unit's record, in order
func (lw *lifeWorld) writesOf(id string) []lifeWrite {
	file := path.Join(lw.vw.w.dataDir, id, "status")
	var out []lifeWrite
	for _, w := range lifeReadLog(lw.logP) {
		if w.File == file {
			out = append(out, w)
		}
	}
	return out
}

func (lw *lifeWorld) waitWrites(id string, pred func([]lifeWrite) bool, d time.Duration) bool {
	dl := time.Now().Add(d)
	for time.Now().Before(dl) {
		if pred(lw.writesOf(id)) {
			return true
		}
		time.Sleep(3 * time.Millisecond)
	}
	return false
}

func (lw *lifeWorld) storedState(id string) (int, int64, string) {
	s := &StatusFileData{}
	if err := s.Load(path.Join(lw.vw.w.dataDir, id, "status")); err != nil {
		return -1, -1, err.Error()
	}
	return s.State, s.StdoutSize, ""
}

type lifeObs struct {
	Kind       string      `json:"kind"`
	Err        string      `json:"err"`
	Final      [2]int64    `json:"final"`        // state, size stored in the end (before release)
	Trace      [][3]int64  `json:"trace"`        // every rewrite: state, size, 1 if by the daemon else 0
	Polled     [][2]int64  `json:"polled"`       // what `work status` reported, in order (changes only)
	PidGone    bool        `json:"pid_gone"`     // cancel: the unit's runner process no longer exists afterwards
	KnownAfter bool        `json:"known_after"`  // after release: `work status` still knows the unit
	DirAfter   bool        `json:"dir_after"`    // after release: the unit directory still exists
	IDs        int         `json:"ids"`          // burst: number of units submitted
	Distinct   int         `json:"distinct"`     // burst: number of distinct IDs / directories
}

func pidAlive(pid int) bool {
	if pid <= 0 {
		return false
	}
	return syscall.Kill(pid, 0) == nil
}

func (lw *lifeWorld) runUnit(u lifeUnit) (o lifeObs) {
	o.Kind = u.Kind
	defer func() {
		if p := recover(); p != nil {
			o.Err = fmt.Sprint("panic: ", p)
		}
	}()
	pr := func(n int) string {
		if n == 0 {
			return "true"
		}
		return "printf " + strings.Repeat("x", n)
	}
	var id string
	var err error
	stopPoll := make(chan struct{})
	var pwg sync.WaitGroup
	startPoll := func() {
		pwg.Add(1)
		go func() {
			defer pwg.Done()
			var last [2]int64 = [2]int64{-1, -1}
			for {
				select {
				case <-stopPoll:
					return
				default:
				}
				res, err := lw.cmd(map[string]interface{}{"subcommand": "status", "unitid": id}, "")
				if err == nil {
					st, _ := res["State"].(int)
					sz, _ := res["StdoutSize"].(int64)
					cur := [2]int64{int64(st), sz}
					if cur != last {
						o.Polled = append(o.Polled, cur)
						last = cur
					}
				}
				time.Sleep(5 * time.Millisecond)
			}
		}()
	}
	finish := func(release string) {
		close(stopPoll)
		pwg.Wait()
		st, sz, e := lw.storedState(id)
		if e != "" {
			o.Err = "final load: " + e
		}
		o.Final = [2]int64{int64(st), sz}
		for _, w := range lw.writesOf(id) {
			d := int64(0)
			if w.Pid == lw.daemon {
				d = 1
			}
			o.Trace = append(o.Trace, [3]int64{int64(w.NewState), w.NewSize, d})
		}
		if release != "" {
			if _, err := lw.cmd(map[string]interface{}{"subcommand": release, "unitid": id}, ""); err != nil {
				o.Err = release + ": " + err.Error()
			}
			_, err := lw.cmd(map[string]interface{}{"subcommand": "status", "unitid": id}, "")
			o.KnownAfter = err == nil
			_, serr := os.Stat(path.Join(lw.vw.w.dataDir, id))
			o.DirAfter = serr == nil
		}
	}
	isFinal := func(ws []lifeWrite) bool {
		return len(ws) > 0 && ws[len(ws)-1].NewState >= 2
	}
	runnerPid := func() int {
		for _, w := range lw.writesOf(id) {
			if w.Pid != lw.daemon {
				return w.Pid
			}
		}
		return 0
	}
	switch u.Kind {
	case "success", "fail":
		script := pr(u.N) + "; sleep 0.3; " + pr(u.M)
		if u.Kind == "fail" {
			script += "; exit 3"
		}
		id, err = lw.submit("cmd", "-c '"+script+"'")
		if err != nil {
			o.Err = "submit: " + err.Error()
			return
		}
		startPoll()
		if !lw.waitWrites(id, isFinal, 8*time.Second) {
			o.Err = "the unit did not finish"
		}
		time.Sleep(30 * time.Millisecond)
		// operations on a finished unit: cancel must not change anything
		if _, err := lw.cmd(map[string]interface{}{"subcommand": "cancel", "unitid": id}, ""); err != nil {
			o.Err = "cancel of a finished unit: " + err.Error()
		}
		time.Sleep(30 * time.Millisecond)
		finish("release")
	case "cancel":
		id, err = lw.submit("cmd", "-c '"+pr(u.N)+"; sleep 30'")
		if err != nil {
			o.Err = "submit: " + err.Error()
			return
		}
		startPoll()
		if !lw.waitWrites(id, func(ws []lifeWrite) bool { return len(ws) > 0 && ws[len(ws)-1].NewState == 1 }, 8*time.Second) {
			o.Err = "the unit did not start running"
		}
		rp := runnerPid()
		if _, err := lw.cmd(map[string]interface{}{"subcommand": "cancel", "unitid": id}, ""); err != nil {
			o.Err = "cancel: " + err.Error()
		}
		time.Sleep(50 * time.Millisecond)
		o.PidGone = !pidAlive(rp)
		// a second cancel and a status on a cancelled unit
		_, _ = lw.cmd(map[string]interface{}{"subcommand": "cancel", "unitid": id}, "")
		time.Sleep(20 * time.Millisecond)
		finish("force-release")
	case "finishline":
		// a cancel that arrives when the command has exited and the runner has not yet stored the final state:
		// the runner is held at the status lock for that moment
		id, err = lw.submit("cmd", "-c '"+pr(u.N)+"; sleep 0.63'")
		if err != nil {
			o.Err = "submit: " + err.Error()
			return
		}
		startPoll()
		file := path.Join(lw.vw.w.dataDir, id, "status")
		// the second running tick is at about 0.5 s; the command exits at about 0.63 s, before the third
		if !lw.waitWrites(id, func(ws []lifeWrite) bool {
			n := 0
			for _, w := range ws {
				if w.NewState == 1 && w.Pid != lw.daemon {
					n++
				}
			}
			return n >= 2
		}, 8*time.Second) {
			o.Err = "no second running tick"
		}
		lk, lerr := (&StatusFileData{}).lockStatusFile(file)
		if lerr != nil {
			o.Err = "lock: " + lerr.Error()
			finish("release")
			return
		}
		time.Sleep(210 * time.Millisecond) // the command has exited; the runner waits for the lock with its final write
		cdone := make(chan struct{})
		go func() {
			_, _ = lw.cmd(map[string]interface{}{"subcommand": "cancel", "unitid": id}, "")
			close(cdone)
		}()
		time.Sleep(60 * time.Millisecond) // the interrupt has been sent; the daemon waits for the runner's exit
		(&StatusFileData{}).unlockStatusFile(file, lk)
		select {
		case <-cdone:
		case <-time.After(15 * time.Second):
			o.Err = "cancel did not return"
		}
		time.Sleep(50 * time.Millisecond)
		finish("release")
	case "inproc":
		id, err = lw.submit("verifwork", "")
		if err != nil {
			o.Err = "submit: " + err.Error()
			return
		}
		startPoll()
		time.Sleep(40 * time.Millisecond)
		_, _ = lw.cmd(map[string]interface{}{"subcommand": "cancel", "unitid": id}, "")
		finish("release")
	case "stuckdir":
		// the unit directory cannot be removed: a release that is not forced must fail and leave the unit known;
		// once the directory can be removed again, release succeeds
		id, err = lw.submit("stuckwork", "")
		if err != nil {
			o.Err = "submit: " + err.Error()
			return
		}
		startPoll()
		time.Sleep(20 * time.Millisecond)
		atomic.StoreInt32(&lifeStuck, 1)
		_, rerr := lw.cmd(map[string]interface{}{"subcommand": "release", "unitid": id}, "")
		_, serr := lw.cmd(map[string]interface{}{"subcommand": "status", "unitid": id}, "")
		_, derr := os.Stat(path.Join(lw.vw.w.dataDir, id))
		atomic.StoreInt32(&lifeStuck, 0)
		if rerr == nil && derr == nil {
			// reported as released although the files are still there
			o.Err = ""
			close(stopPoll)
			pwg.Wait()
			o.KnownAfter, o.DirAfter = serr == nil, true
			st, sz, _ := lw.storedState(id)
			o.Final = [2]int64{int64(st), sz}
			return
		}
		if rerr != nil && serr != nil {
			o.Err = "a failed release made the unit unknown"
		}
		finish("release")
	case "racedir":
		// another client looks the unit up while its release is removing the directory
		id, err = lw.submit("stuckwork", "")
		if err != nil {
			o.Err = "submit: " + err.Error()
			return
		}
		time.Sleep(20 * time.Millisecond)
		lifeEntered, lifeLetGo = make(chan struct{}, 1), make(chan struct{})
		atomic.StoreInt32(&lifeHold, 1)
		relDone := make(chan error, 1)
		go func() {
			_, e := lw.cmd(map[string]interface{}{"subcommand": "release", "unitid": id}, "")
			relDone <- e
		}()
		select {
		case <-lifeEntered:
		case <-time.After(2 * time.Second):
		}
		go func() { _, _ = lw.cmd(map[string]interface{}{"subcommand": "status", "unitid": id}, "") }()
		time.Sleep(60 * time.Millisecond)
		atomic.StoreInt32(&lifeHold, 0)
		close(lifeLetGo)
		var rerr error
		select {
		case rerr = <-relDone:
		case <-time.After(10 * time.Second):
			o.Err = "release did not return"
		}
		time.Sleep(50 * time.Millisecond)
		close(stopPoll)
		if rerr != nil {
			o.Err = "release: " + rerr.Error()
		}
		_, serr := lw.cmd(map[string]interface{}{"subcommand": "status", "unitid": id}, "")
		o.KnownAfter = serr == nil
		_, derr := os.Stat(path.Join(lw.vw.w.dataDir, id))
		o.DirAfter = derr == nil
		o.Final = [2]int64{2, 0}
	case "releasedsubmit":
		// client A submits a command unit and is still sending its stdin; client B releases the (pending) unit; then A's
		// stdin ends and the submission goes on to start the unit: the released unit must stay gone
		marker := fmt.Sprintf("rs-marker-%d", time.Now().UnixNano())
		hold, entered, done := make(chan struct{}), make(chan struct{}), make(chan struct{})
		go func() {
			defer close(done)
			t := &workceptorCommandType{w: lw.vw.w}
			cmd, err := t.InitFromJSON(map[string]interface{}{"command": "work", "subcommand": "submit", "node": "localhost", "worktype": "cmd",
				"params": "-c 'true # " + marker + "'"})
			if err != nil {
				return
			}
			cfo := &verifCFO{network: "unix", stdin: "", hold: hold, entered: entered}
			_, _ = cmd.ControlFunc(context.Background(), lw.vw.nc, cfo)
		}()
		select {
		case <-entered:
		case <-time.After(5 * time.Second):
			o.Err = "the submission never asked for its stdin"
			close(hold)
			return
		}
		if ents, derr := os.ReadDir(lw.vw.w.dataDir); derr == nil {
			for _, e := range ents {
				if b, rerr := os.ReadFile(path.Join(lw.vw.w.dataDir, e.Name(), "status")); rerr == nil && strings.Contains(string(b), marker) {
					id = e.Name()
				}
			}
		}
		if id == "" {
			o.Err = "the unit of the pending submission was not found on disk"
			close(hold)
			<-done
			return
		}
		if _, rerr := lw.cmd(map[string]interface{}{"subcommand": "release", "unitid": id}, ""); rerr != nil {
			o.Err = "release of the pending unit: " + rerr.Error()
		}
		close(hold)
		select {
		case <-done:
		case <-time.After(8 * time.Second):
			o.Err = "the submission did not return after its stdin ended"
		}
		time.Sleep(900 * time.Millisecond) // a runner launched for the released unit has had its chance
		_, serr := lw.cmd(map[string]interface{}{"subcommand": "status", "unitid": id}, "")
		o.KnownAfter = serr == nil
		_, derr := os.Stat(path.Join(lw.vw.w.dataDir, id))
		o.DirAfter = derr == nil
	case "burst":
		ids := make([]string, u.N)
		var wg sync.WaitGroup
		for i := 0; i < u.N; i++ {
			wg.Add(1)
			go func(i int) {
				defer wg.Done()
				ids[i], _ = lw.submit("verifwork", "")
			}(i)
		}
		wg.Wait()
		seen := map[string]bool{}
		for _, x := range ids {
			if x != "" {
				seen[x] = true
			}
		}
		o.IDs, o.Distinct = u.N, len(seen)
		for x := range seen {
			_, _ = lw.cmd(map[string]interface{}{"subcommand": "release", "unitid": x}, "")
		}
		close(stopPoll)
	}
	return o
}

func lifeApply(op string, raw json.RawMessage) interface{} {
	var a lifeArgs
	if err := json.Unmarshal(raw, &a); err != nil {
		panic(err)
	}
	dir, err := os.MkdirTemp("", "verif-life-*")
	if err != nil {
		panic(err)
	}
	defer os.RemoveAll(dir)
	// the `receptor` the command unit launches: this test binary as the command runner
	bin := path.Join(dir, "bin")
	_ = os.MkdirAll(bin, 0o700)
	self, _ := os.Executable()
	shim := "#!/bin/sh\nVERIF_RUNNER_ARGS=\"$(printf '%s\\n' \"$@\")\" exec " + self + " -test.run '^TestVerifRunnerChild$' -test.count=1 -test.timeout=0 >/dev/null 2>&1\n"
	if err := os.WriteFile(path.Join(bin, "receptor"), []byte(shim), 0o700); err != nil {
		panic(err)
	}
	oldPath := os.Getenv("PATH")
	os.Setenv("PATH", bin+":"+oldPath)
	defer os.Setenv("PATH", oldPath)
	logP := path.Join(dir, "status.log")
	os.Setenv("VERIF_STATUS_LOG", logP)
	defer os.Unsetenv("VERIF_STATUS_LOG")
	vw := verifNewWorld(path.Join(dir, "data"))
	defer vw.close()
	if err := vw.w.RegisterWorker("verifwork", verifNewUnit, false); err != nil {
		panic(err)
	}
	if err := vw.w.RegisterWorker("stuckwork", lifeNewStuckUnit, false); err != nil {
		panic(err)
	}
	if err := vw.w.RegisterWorker("cmd", CommandWorkerCfg{WorkType: "cmd", Command: "/bin/sh", AllowRuntimeParams: true}.NewWorker, false); err != nil {
		panic(err)
	}
	lw := &lifeWorld{vw: vw, logP: logP, daemon: os.Getpid()}
	obs := make([]lifeObs, len(a.Units))
	var wg sync.WaitGroup
	for i, u := range a.Units {
		wg.Add(1)
		go func(i int, u lifeUnit) {
			defer wg.Done()
			obs[i] = lw.runUnit(u)
			if obs[i].Trace == nil {
				obs[i].Trace = [][3]int64{}
			}
			if obs[i].Polled == nil {
				obs[i].Polled = [][2]int64{}
			}
		}(i, u)
	}
	wg.Wait()
	hookSeen := len(lifeReadLog(logP)) > 0
	return map[string]interface{}{"units": obs, "hook": hookSeen, "nontrivial": true}
}

func lifeGen(v *verifRun) {
	kinds := []string{"success", "fail", "cancel", "finishline", "inproc", "burst", "stuckdir", "racedir"}
	for i := 0; i < v.n; i++ {
		var a lifeArgs
		n := 7 + v.rng.Intn(3)
		for k := 0; k < n; k++ {
			kind := kinds[v.rng.Intn(len(kinds)-2)] // the two fault scenarios are placed below
			if i == 0 && k < len(kinds)-2 {
				kind = kinds[k]
			}
			if k == n-1 {
				// one fault scenario per case (their switches are shared by the whole case)
				kind = []string{"stuckdir", "racedir"}[i%2]
			}
			u := lifeUnit{Kind: kind, N: 1 + v.rng.Intn(9), M: v.rng.Intn(5)}
			if kind == "burst" {
				u.N = 10 + v.rng.Intn(30)
				u.M = 0
			}
			if kind != "success" && kind != "fail" {
				u.M = 0
			}
			a.Units = append(a.Units, u)
		}
		v.do(lifeApply, "units", a)
	}
	v.do(lifeApply, "units", lifeArgs{Units: []lifeUnit{{Kind: "releasedsubmit", N: 0, M: 0}}})
}

func TestVerifLife(t *testing.T) {
	v := verifOpen(t, "life")
	v.run(lifeApply, lifeGen)
}

var _ = sort.Strings
