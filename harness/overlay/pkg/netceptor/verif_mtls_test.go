package netceptor

// C09 verify engine, mesh-level ops: "mtls" — a stream listener configured through PrepareTLSServerConfig
// (requireclientcert / clientcas in every combination) on a two-node mesh; the dialling node presents client
// certificates of every kind (own ID, another node's ID, both, none, other authority, expired, server-only usage);
// observed: whether a stream is established and carries data.  "verifytime" — a verifier created once and used
// later, with certificates issued or expired after its creation.

import (
	"context"
	"crypto/rand"
	"crypto/sha256"
	"crypto/tls"
	"crypto/x509"
	"crypto/x509/pkix"
	"encoding/hex"
	"encoding/json"
	"encoding/pem"
	"io"
	"math/big"
	mrand "math/rand"
	"os"
	"path/filepath"
	"time"

	"github.com/ansible/receptor/pkg/utils"
)

type mtlsArgs struct {
	Require bool     `json:"require"`
	CAs     bool     `json:"cas"`
	Present []string `json:"present"` // own other both none otherca expired serverusage ownpinned
	// the server profile pins one client certificate: the one presented as "ownpinned" (a certificate for this
	// node's own ID, like "own", but a different certificate)
	Pinned bool `json:"pinned"`
}

func mtlsLeaf(ids []string, ca string, validity string, usage string, serial int64) (der []byte, certPEM, keyPEM []byte) {
	signer, signerKey := certCA.Certificate, certCA.PrivateKey
	if ca == "other" {
		signer, signerKey = certOtherCA.Certificate, certOtherCA.PrivateKey
	}
	tmpl := &x509.Certificate{SerialNumber: big.NewInt(serial), Subject: pkix.Name{CommonName: "verif peer"}, KeyUsage: x509.KeyUsageDigitalSignature}
	now := time.Now()
	switch validity {
	case "expired":
		tmpl.NotBefore, tmpl.NotAfter = now.Add(-48*time.Hour), now.Add(-24*time.Hour)
	default:
		tmpl.NotBefore, tmpl.NotAfter = now.Add(-time.Hour), now.Add(24*time.Hour)
	}
	switch usage {
	case "server":
		tmpl.ExtKeyUsage = []x509.ExtKeyUsage{x509.ExtKeyUsageServerAuth}
	default:
		tmpl.ExtKeyUsage = []x509.ExtKeyUsage{x509.ExtKeyUsageServerAuth, x509.ExtKeyUsageClientAuth}
	}
	if len(ids) > 0 {
		san, err := utils.MakeReceptorSAN(ids, nil, ids)
		if err != nil {
			panic(err)
		}
		tmpl.ExtraExtensions = []pkix.Extension{*san}
	}
	der, err := x509.CreateCertificate(rand.Reader, tmpl, signer, &certKey.PublicKey, signerKey)
	if err != nil {
		panic(err)
	}
	certPEM = pem.EncodeToMemory(&pem.Block{Type: "CERTIFICATE", Bytes: der})
	keyPEM = pem.EncodeToMemory(&pem.Block{Type: "RSA PRIVATE KEY", Bytes: x509.MarshalPKCS1PrivateKey(certKey)})
	return der, certPEM, keyPEM
}

func mtlsApply(raw json.RawMessage) interface{} {
	var a mtlsArgs
	if err := json.Unmarshal(raw, &a); err != nil {
		panic(err)
	}
	certSetup()
	dir, err := os.MkdirTemp("", "verif-mtls")
	if err != nil {
		panic(err)
	}
	defer os.RemoveAll(dir)
	caFile := filepath.Join(dir, "ca.crt")
	_ = os.WriteFile(caFile, pem.EncodeToMemory(&pem.Block{Type: "CERTIFICATE", Bytes: certCA.Certificate.Raw}), 0o600)
	_, sc, sk := mtlsLeaf([]string{"node1"}, "trusted", "valid", "both", 501)
	srvCert, srvKey := filepath.Join(dir, "srv.crt"), filepath.Join(dir, "srv.key")
	_ = os.WriteFile(srvCert, sc, 0o600)
	_ = os.WriteFile(srvKey, sk, 0o600)
	ctx, cancel := context.WithCancel(context.Background())
	defer cancel()
	mk := func(id string) *Netceptor {
		s := NewWithConsts(ctx, id, defaultMTU, 100*time.Millisecond, time.Hour, time.Hour, 30, time.Hour)
		s.Logger.SetOutput(verifDiscard{})
		return s
	}
	n1, n2 := mk("node1"), mk("node2")
	defer func() { n1.Shutdown(); n2.Shutdown() }()
	if err := lossyConnect(n1, n2, &lossyLink{reset: make(chan struct{}), rng: mrand.New(mrand.NewSource(1))}, 1.0); err != nil {
		return map[string]interface{}{"error": err.Error()}
	}
	if !streamWaitRoute(n1, "node2", 10*time.Second) || !streamWaitRoute(n2, "node1", 10*time.Second) {
		return map[string]interface{}{"error": "no route after 10 s"}
	}
	pinnedDER, pinnedCert, pinnedKey := mtlsLeaf([]string{"node2"}, "trusted", "valid", "both", 599)
	scfg := TLSServerConfig{Name: "srv", Cert: srvCert, Key: srvKey, RequireClientCert: a.Require}
	if a.Pinned {
		sum := sha256.Sum256(pinnedDER)
		scfg.PinnedClientCert = []string{hex.EncodeToString(sum[:])}
	}
	if a.CAs {
		scfg.ClientCAs = caFile
	}
	serverCfg, err := scfg.PrepareTLSServerConfig(n1)
	if err != nil {
		return map[string]interface{}{"error": "server profile: " + err.Error()}
	}
	li, err := n1.Listen("mtls", serverCfg)
	if err != nil {
		return map[string]interface{}{"error": "listen: " + err.Error()}
	}
	go func() {
		for {
			c, err := li.Accept()
			if err != nil {
				select {
				case <-ctx.Done():
					return
				default:
				}
				if err.Error() == "listener closed" {
					return
				}
				continue
			}
			go func() {
				defer c.Close()
				buf := make([]byte, 5)
				_ = c.SetDeadline(time.Now().Add(8 * time.Second))
				if _, err := io.ReadFull(c, buf); err == nil {
					_, _ = c.Write(buf)
				}
			}()
		}
	}()
	pool := x509.NewCertPool()
	pool.AddCert(certCA.Certificate)
	out := []interface{}{}
	for i, pres := range a.Present {
		var certs []tls.Certificate
		mkPair := func(ids []string, ca, validity, usage string) {
			_, cp, kp := mtlsLeaf(ids, ca, validity, usage, int64(600+i))
			pair, err := tls.X509KeyPair(cp, kp)
			if err != nil {
				panic(err)
			}
			certs = []tls.Certificate{pair}
		}
		switch pres {
		case "own":
			mkPair([]string{"node2"}, "trusted", "valid", "both")
		case "other":
			mkPair([]string{"node3"}, "trusted", "valid", "both")
		case "both":
			mkPair([]string{"node3", "node2"}, "trusted", "valid", "both")
		case "none":
		case "otherca":
			mkPair([]string{"node2"}, "other", "valid", "both")
		case "expired":
			mkPair([]string{"node2"}, "trusted", "expired", "both")
		case "serverusage":
			mkPair([]string{"node2"}, "trusted", "valid", "server")
		case "ownpinned":
			pair, err := tls.X509KeyPair(pinnedCert, pinnedKey)
			if err != nil {
				panic(err)
			}
			certs = []tls.Certificate{pair}
		default:
			panic("verif: presentation " + pres)
		}
		name := "c" + pres
		if err := n2.SetClientTLSConfig(name, &tls.Config{RootCAs: pool, MinVersion: tls.VersionTLS12, Certificates: certs}, [][]byte{}); err != nil {
			return map[string]interface{}{"error": err.Error()}
		}
		ccfg, err := n2.GetClientTLSConfig(name, "node1", ExpectedHostnameTypeReceptor)
		if err != nil {
			return map[string]interface{}{"error": err.Error()}
		}
		established := func() bool {
			dctx, dcancel := context.WithTimeout(ctx, 8*time.Second)
			defer dcancel()
			conn, err := n2.DialContext(dctx, "node1", "mtls", ccfg)
			if err != nil {
				return false
			}
			defer conn.CloseConnection()
			_ = conn.SetDeadline(time.Now().Add(8 * time.Second))
			if _, err := conn.Write([]byte("hello")); err != nil {
				return false
			}
			buf := make([]byte, 5)
			if _, err := io.ReadFull(conn, buf); err != nil {
				return false
			}
			return string(buf) == "hello"
		}()
		out = append(out, established)
	}
	return map[string]interface{}{"established": out}
}

type vtimeArgs struct {
	Role string `json:"role"`
}

// verifytime: the verifier is created first (as a server installs it at start-up); certificates issued after that,
// and certificates that expired after that, are judged at the time of the handshake.
func vtimeApply(raw json.RawMessage) interface{} {
	var a vtimeArgs
	if err := json.Unmarshal(raw, &a); err != nil {
		panic(err)
	}
	certSetup()
	pool := x509.NewCertPool()
	pool.AddCert(certCA.Certificate)
	role := VerifyType(VerifyServer)
	if a.Role == "client" {
		role = VerifyClient
	}
	f := ReceptorVerifyFunc(&tls.Config{RootCAs: pool, ClientCAs: pool}, nil, "node-a", ExpectedHostnameTypeReceptor, role, verifQuietLogger())
	created := time.Now()
	time.Sleep(time.Until(created.Truncate(time.Second).Add(2200 * time.Millisecond)))
	mk := func(nb, na time.Time, serial int64) []byte {
		tmpl := &x509.Certificate{SerialNumber: big.NewInt(serial), Subject: pkix.Name{CommonName: "verif peer"}, KeyUsage: x509.KeyUsageDigitalSignature,
			NotBefore: nb, NotAfter: na, ExtKeyUsage: []x509.ExtKeyUsage{x509.ExtKeyUsageServerAuth, x509.ExtKeyUsageClientAuth}}
		san, err := utils.MakeReceptorSAN(nil, nil, []string{"node-a"})
		if err != nil {
			panic(err)
		}
		tmpl.ExtraExtensions = []pkix.Extension{*san}
		der, err := x509.CreateCertificate(rand.Reader, tmpl, certCA.Certificate, &certKey.PublicKey, certCA.PrivateKey)
		if err != nil {
			panic(err)
		}
		return der
	}
	now := time.Now()
	fresh := mk(created.Add(time.Second), now.Add(time.Hour), 701)         // issued after the verifier was created: valid now
	lapsed := mk(created.Add(-time.Hour), created.Add(time.Second), 702) // still valid when the verifier was created: expired now
	return map[string]interface{}{"fresh": f([][]byte{fresh}, nil) == nil, "lapsed": f([][]byte{lapsed}, nil) == nil}
}

// ---- verifychain: what the peer presents is a chain; only its first certificate is the peer

type vchainArgs struct {
	Chain    [][]string `json:"chain"`    // node IDs (hex) of each presented certificate, leaf first
	Expected string     `json:"expected"` // hex
	Role     string     `json:"role"`
}

func vchainApply(raw json.RawMessage) interface{} {
	var a vchainArgs
	if err := json.Unmarshal(raw, &a); err != nil {
		panic(err)
	}
	certSetup()
	pool := x509.NewCertPool()
	pool.AddCert(certCA.Certificate)
	role := VerifyType(VerifyServer)
	if a.Role == "client" {
		role = VerifyClient
	}
	chain := [][]byte{}
	for i, ids := range a.Chain {
		names := []string{}
		for _, id := range ids {
			names = append(names, string(verifUnhex(id)))
		}
		der, _, _ := mtlsLeaf(names, "trusted", "valid", "both", int64(800+i))
		chain = append(chain, der)
	}
	f := ReceptorVerifyFunc(&tls.Config{RootCAs: pool, ClientCAs: pool}, nil, string(verifUnhex(a.Expected)), ExpectedHostnameTypeReceptor, role, verifQuietLogger())
	return map[string]interface{}{"accept": f(chain, nil) == nil}
}

// ---- clientcfgseq: one named TLS client profile used for several connections, to different peers, in different modes

type ccfgCall struct {
	Expected string `json:"expected"` // hex: node ID or DNS name
	Mode     string `json:"mode"`     // receptor | dns
}

type ccfgArgs struct {
	Calls   []ccfgCall `json:"calls"`
	Present [][]string `json:"present"` // node IDs (hex) of the certificates each configuration is asked to judge
}

func ccfgApply(raw json.RawMessage) interface{} {
	var a ccfgArgs
	if err := json.Unmarshal(raw, &a); err != nil {
		panic(err)
	}
	certSetup()
	pool := x509.NewCertPool()
	pool.AddCert(certCA.Certificate)
	s, cancel := verifQuietNode("verif-ccfg", 30)
	defer cancel()
	if err := s.SetClientTLSConfig("prof", &tls.Config{RootCAs: pool, MinVersion: tls.VersionTLS12}, [][]byte{}); err != nil {
		return map[string]interface{}{"error": err.Error()}
	}
	ders := [][]byte{}
	for i, ids := range a.Present {
		names := []string{}
		for _, id := range ids {
			names = append(names, string(verifUnhex(id)))
		}
		der, _, _ := mtlsLeaf(names, "trusted", "valid", "both", int64(900+i))
		ders = append(ders, der)
	}
	out := []interface{}{}
	for _, c := range a.Calls {
		var mode ExpectedHostnameType = ExpectedHostnameTypeReceptor
		if c.Mode == "dns" {
			mode = ExpectedHostnameTypeDNS
		}
		cfg, err := s.GetClientTLSConfig("prof", string(verifUnhex(c.Expected)), mode)
		if err != nil {
			return map[string]interface{}{"error": err.Error()}
		}
		acc := []bool{}
		for _, der := range ders {
			acc = append(acc, cfg.VerifyPeerCertificate != nil && cfg.VerifyPeerCertificate([][]byte{der}, nil) == nil)
		}
		out = append(out, map[string]interface{}{"accepts": acc, "server_name": verifHex([]byte(cfg.ServerName)), "skip_default": cfg.InsecureSkipVerify})
	}
	return map[string]interface{}{"calls": out}
}
