import Receptor.Model.Proto
import Receptor.Generated.Facts
/-!
# C07 — no bytes from a backend peer can crash or wedge a node
-/
namespace Receptor.Proto

/-- the guards the source currently has (regenerated facts) -/
def guardsOfFacts : Guards :=
  { emptyDatagram := Receptor.Facts.proto_empty_guard, adNilEmbedded := Receptor.Facts.proto_ad_nil_guard,
    pingFromPing := Receptor.Facts.proto_ping_guard, positiveCosts := Receptor.Facts.proto_cost_guard,
    emptyPeerID := Receptor.Facts.adm_empty_id_guard, removeOnAllExits := Receptor.Facts.adm_remove_on_all_exits }

/-- **Tie (translator)**: `runProtocol` tests the datagram length before reading its type byte,
`handleServiceAdvertisement` refuses a message without the embedded advertisement,
`handlePing` does not answer the "ping" service, routing updates with a non-positive cost are
dropped before they are applied; the type dispatch and the minimum data-packet length are as
modelled. -/
theorem C07_facts :
    guardsOfFacts.emptyDatagram = true ∧ guardsOfFacts.adNilEmbedded = true ∧ guardsOfFacts.pingFromPing = true
    ∧ guardsOfFacts.positiveCosts = true
    ∧ Receptor.Facts.proto_dispatch = "established:MsgTypeData,MsgTypeRoute,MsgTypeServiceAdvertisement,MsgTypeReject,default;unestablished:MsgTypeRoute,MsgTypeReject"
    ∧ Receptor.Facts.wire_min_len = 36 := by decide +kernel

/-- **proto_no_crash.** With those guards, no datagram — of any length from 0, any type byte,
any JSON value shape in the body, any field type substitution, any data-packet header — in
either protocol phase, and whatever the node-wide state, makes the session's step panic, die
or spin for ever. -/
theorem admit_no_crash (G : Guards) (B : Backend) (sh : Shared) (s : Sess) (ru : RU) :
    isCrash (admitPeer G B sh s ru).2.2 = false ∧ (admitPeer G B sh s ru).1.poisoned = sh.poisoned := by
  unfold admitPeer
  simp only
  repeat' split
  all_goals exact ⟨rfl, rfl⟩

theorem removeConn_poisoned (sh : Shared) (id : Bytes) : (removeConn sh id).poisoned = sh.poisoned := by
  unfold removeConn; split <;> rfl

theorem checkPeer_no_crash (sh : Shared) (s : Sess) (ru : RU) :
    isCrash (checkPeer allGuards sh s ru).2.2 = false ∧ (checkPeer allGuards sh s ru).1.poisoned = sh.poisoned := by
  have hp : poison sh (poisons allGuards ru) = sh := by simp [poisons, allGuards, poison]
  unfold checkPeer
  rw [hp]
  repeat' split
  all_goals (first | exact ⟨rfl, rfl⟩ | exact ⟨rfl, removeConn_poisoned _ _⟩)

theorem proto_no_crash (B : Backend) (sh : Shared) (s : Sess) (d : Dgram) :
    isCrash (step allGuards B sh s d).2.2 = false := by
  unfold step
  cases d with
  | empty => simp [allGuards, isCrash]
  | data k => simp only; split <;> (try cases k) <;> simp [allGuards, isCrash]
  | route body =>
    simp only
    cases decodeRU body with
    | none => rfl
    | some ru =>
      simp only
      split
      · exact (checkPeer_no_crash sh s ru).1
      · exact (admit_no_crash allGuards B sh s ru).1
  | advert body wt => simp only; split <;> (try cases decodeAd body wt) <;> simp [allGuards, isCrash]
  | reject => rfl
  | other => rfl

/-- … and never leaves the routing computation in a state where it need not terminate: with
the cost guard no update with a non-positive cost is ever applied -/
theorem proto_never_poisons (B : Backend) (sh : Shared) (s : Sess) (d : Dgram) :
    (step allGuards B sh s d).1.poisoned = sh.poisoned := by
  unfold step
  cases d with
  | empty => simp only; split <;> rfl
  | data k => simp only; split <;> (try cases k) <;> simp only <;> (try split) <;> rfl
  | route body =>
    simp only
    cases decodeRU body with
    | none => rfl
    | some ru =>
      simp only
      split
      · exact (checkPeer_no_crash sh s ru).2
      · exact (admit_no_crash allGuards B sh s ru).2
  | advert body wt => simp only; split <;> (try cases decodeAd body wt) <;> simp only <;> (try split) <;> rfl
  | reject => exact removeConn_poisoned _ _
  | other => rfl

/-- … hence no finite sequence of datagrams on a session does -/
theorem proto_script_no_crash (B : Backend) : ∀ (script : List Dgram) (sh : Shared) (s : Sess),
    ∀ o ∈ (runSess allGuards B sh s script).2.2, isCrash o = false := by
  intro script
  induction script with
  | nil => intro sh s o h; simp [runSess] at h
  | cons d rest ih =>
    intro sh s o h
    simp only [runSess] at h
    have hd := proto_no_crash B sh s d
    split at h
    · simp only [List.mem_cons] at h
      cases h with
      | inl h => subst h; exact hd
      | inr h => exact ih _ _ o h
    · simp only [List.mem_cons] at h
      cases h with
      | inl h => subst h; exact hd
      | inr h => exact ih _ _ o h
    · simp only [List.mem_singleton] at h
      subst h
      exact hd

/-- a misbehaving peer can only end its own session: whatever it sends, the only connection a
session's step ever removes is the session's own -/
theorem session_isolated (G : Guards) (B : Backend) (sh : Shared) (s : Sess) (d : Dgram) (other : Bytes)
    (ho : other ∈ sh.connections) (hne : other ≠ s.remoteID) (hest : s.established = true) :
    other ∈ (step G B sh s d).1.connections := by
  have keep : ∀ id, other ≠ id → other ∈ (removeConn sh id).connections := by
    intro id hid
    unfold removeConn
    split
    · exact ho
    · simp [List.mem_filter, ho, hid]
  have hpo : ∀ b, other ∈ (poison sh b).connections := by
    intro b; unfold poison; split <;> exact ho
  unfold step
  cases d with
  | empty => simp only; split <;> exact ho
  | data k => simp only [hest, if_true]; cases k <;> simp only <;> (try split) <;> exact ho
  | route body =>
    simp only [hest, if_true]
    cases decodeRU body with
    | none => exact ho
    | some ru =>
      simp only
      unfold checkPeer
      repeat' split
      all_goals (first | exact ho | exact keep _ hne | exact hpo _)
  | advert body wt =>
    simp only [hest, if_true]
    cases decodeAd body wt <;> simp only <;> (try split) <;> exact ho
  | reject => exact keep _ hne
  | other => exact ho

/-! ### Witnesses of the defects of the pinned tree (each guard switched off) -/

def noGuards : Guards :=
  { emptyDatagram := false, adNilEmbedded := false, pingFromPing := false, positiveCosts := false,
    emptyPeerID := false, removeOnAllExits := false }
def exB : Backend := { cost := 1000000, nodeCost := [], allowed := none }
def exSh : Shared := { self := n "me", connections := [n "peer"] }
def exS : Sess := { established := true, remoteEstablished := true, remoteID := n "peer", cost := 1000000 }

/-- an empty datagram indexed `data[0]` -/
theorem C07_witness_empty : (step noGuards exB exSh exS .empty).2.2 = .panic := by decide
/-- the advertisement `{}` (no embedded object) was dereferenced -/
theorem C07_witness_advert : (step noGuards exB exSh exS (.advert (some (.obj [])) true)).2.2 = .panic := by decide
/-- a ping from this node's own "ping" service recursed without bound -/
theorem C07_witness_ping : (step noGuards exB exSh exS (.data .pingLoop)).2.2 = .fatal := by decide
/-- a routing update with a negative cost was applied (a reachable negative cycle ⇒ the
routing computation never ends, holding the known-nodes lock) -/
theorem C07_witness_cost :
    (step noGuards exB exSh exS (.route (some (.obj [(n "NodeID", .str (n "x")), (n "ForwardingNode", .str (n "peer")),
        (n "Connections", .obj [(n "y", .num none (some (-1000000)))])])))).1.poisoned = true := by decide +kernel

end Receptor.Proto
