import Receptor.Model.Wire
namespace Receptor.Wire

theorem beVal_u64BE (v : Nat) (hv : v < 18446744073709551616) : beVal (u64BE v) = v := by
  simp only [beVal, u64BE, List.foldl]
  omega

theorem u64BE_length (v : Nat) : (u64BE v).length = 8 := by simp [u64BE]

theorem fixedLen_length (s : Bytes) (l : Nat) : (fixedLen s l).length = l := by
  simp [fixedLen, List.length_take]; omega

theorem dropWhile_zeros_replicate (k : Nat) (r : Bytes) :
    (List.replicate k 0 ++ r).dropWhile (· == 0) = r.dropWhile (· == 0) := by
  induction k with
  | zero => simp
  | succ k ih => simp [List.replicate_succ, List.dropWhile_cons, ih]

theorem stripZeros_fixedLen (s : Bytes) (h : svcOK s) : stripZeros (fixedLen s 8) = s := by
  obtain ⟨hl, hz⟩ := h
  unfold stripZeros fixedLen
  rw [List.take_of_length_le hl]
  rw [List.reverse_append, List.reverse_replicate, dropWhile_zeros_replicate]
  cases hr : s.reverse with
  | nil => simp at hr; subst hr; simp
  | cons a t =>
    have hlast : s.getLast? = some a := by
      rw [List.getLast?_eq_head?_reverse, hr]; rfl
    have ha : a ≠ 0 := by intro h0; subst h0; exact hz hlast
    have : (a == 0) = false := by simp [ha]
    rw [List.dropWhile_cons, this]
    simp only [Bool.false_eq_true, if_false]
    rw [← hr, List.reverse_reverse]

/-- drop the first `k` bytes of `p ++ q` when `p` has exactly `k` bytes -/
theorem drop_prefix (p q : Bytes) (k : Nat) (h : p.length = k) : (p ++ q).drop k = q := by
  subst h; simp

theorem take_prefix (p q : Bytes) (k : Nat) (h : p.length = k) : (p ++ q).take k = p := by
  subst h; simp

end Receptor.Wire
