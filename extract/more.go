package main

import (
	"fmt"
	"go/ast"
	"go/token"
	"sort"
	"strconv"
	"strings"
)

// factsMore: facts for the remaining properties (one function per property group).
func factsMore(x *extractor) {
	x.factsWire()
	x.factsFramer()
	x.factsForward()
	x.factsFirewall()
	x.factsRouting()
	x.factsTable()
	x.factsAging()
	x.factsUnreach()
	x.factsAds()
	x.factsVerify()
	x.factsProto()
	x.factsWork()
	x.factsStatus()
	x.factsLocks()
	x.factsCtl()
	x.factsResults()
	x.factsLife()
	x.factsLifeRelease()
	x.factsSock()
	x.factsCrash()
	x.factsStream()
}

const netceptorGo = "pkg/netceptor/netceptor.go"

func atoi(s string) int {
	v, err := strconv.Atoi(s)
	if err != nil {
		return -1
	}
	return v
}

// sliceBounds returns (low, high) of a slice expression with literal bounds; -1 when absent/non-literal.
func (x *extractor) sliceBounds(e ast.Expr) (string, int, int) {
	se, ok := e.(*ast.SliceExpr)
	if !ok {
		return "", -1, -1
	}
	lo, hi := -1, -1
	if se.Low == nil {
		lo = 0
	} else if bl, ok := se.Low.(*ast.BasicLit); ok {
		lo = atoi(bl.Value)
	}
	if se.High != nil {
		if bl, ok := se.High.(*ast.BasicLit); ok {
			hi = atoi(bl.Value)
		}
	}
	return x.str(se.X), lo, hi
}

// assignRHS finds `name, … := <call>` / `name := <expr>` in fd and returns the first RHS.
func assignRHS(fd *ast.FuncDecl, name string) ast.Expr {
	var res ast.Expr
	ast.Inspect(fd, func(n ast.Node) bool {
		if as, ok := n.(*ast.AssignStmt); ok && res == nil && len(as.Lhs) > 0 && len(as.Rhs) > 0 {
			if id, ok := as.Lhs[0].(*ast.Ident); ok && id.Name == name {
				res = as.Rhs[0]
			}
		}
		return true
	})
	return res
}

// innermost call argument chain: f(g(h(x))) -> x
func innerArg(e ast.Expr) ast.Expr {
	for {
		c, ok := e.(*ast.CallExpr)
		if !ok || len(c.Args) == 0 {
			return e
		}
		e = c.Args[0]
	}
}

func (x *extractor) setNat(name string, v int) {
	if v < 0 {
		v = 999999 // unknown: a value no expectation matches
	}
	x.set(name, v)
}

// ---------------------------------------------------------------- C02: wire codec

func (x *extractor) factsWire() {
	names := []string{"wire_min_len", "wire_from_off", "wire_to_off", "wire_fsvc_off", "wire_tsvc_off",
		"wire_data_off", "wire_ttl_idx", "wire_svc_len"}
	vals := map[string]int{}
	for _, n := range names {
		vals[n] = -1
	}
	endian := "unknown"
	if fd := x.fn(netceptorGo, "Netceptor", "translateDataToMessage"); fd != nil {
		// if len(data) < N { return error }
		ast.Inspect(fd, func(n ast.Node) bool {
			if is, ok := n.(*ast.IfStmt); ok {
				if be, ok := is.Cond.(*ast.BinaryExpr); ok && be.Op == token.LSS && x.str(be.X) == "len(data)" {
					if bl, ok := be.Y.(*ast.BasicLit); ok && vals["wire_min_len"] < 0 {
						vals["wire_min_len"] = atoi(bl.Value)
					}
				}
			}
			return true
		})
		hashOff := func(v string) int {
			rhs := assignRHS(fd, v)
			if rhs == nil {
				return -1
			}
			s := x.str(rhs)
			if strings.Contains(s, "binary.BigEndian.Uint64") {
				endian = "BigEndian"
			} else if strings.Contains(s, "binary.LittleEndian.Uint64") {
				endian = "LittleEndian"
			}
			_, lo, hi := x.sliceBounds(innerArg(rhs))
			if hi-lo != 8 {
				return -1
			}
			return lo
		}
		svcOff := func(v string) (int, int) {
			rhs := assignRHS(fd, v)
			if rhs == nil || !strings.HasPrefix(x.str(rhs), "stringFromFixedLenBytes(") {
				return -1, -1
			}
			_, lo, hi := x.sliceBounds(innerArg(rhs))
			return lo, hi - lo
		}
		// the MessageData literal must bind the fields to these variables
		bind := map[string]string{}
		ast.Inspect(fd, func(n ast.Node) bool {
			if cl, ok := n.(*ast.CompositeLit); ok && x.str(cl.Type) == "MessageData" {
				for _, e := range cl.Elts {
					if kv, ok := e.(*ast.KeyValueExpr); ok {
						bind[x.str(kv.Key)] = x.str(kv.Value)
						if x.str(kv.Key) == "HopsToLive" {
							if ie, ok := kv.Value.(*ast.IndexExpr); ok && x.str(ie.X) == "data" {
								if bl, ok := ie.Index.(*ast.BasicLit); ok {
									vals["wire_ttl_idx"] = atoi(bl.Value)
								}
							}
						}
						if x.str(kv.Key) == "Data" {
							if b, lo, hi := x.sliceBounds(kv.Value); b == "data" && hi == -1 {
								vals["wire_data_off"] = lo
							}
						}
					}
				}
			}
			return true
		})
		if bind["FromNode"] != "" {
			vals["wire_from_off"] = hashOff(bind["FromNode"])
		}
		if bind["ToNode"] != "" {
			vals["wire_to_off"] = hashOff(bind["ToNode"])
		}
		l1, l2 := -1, -1
		if bind["FromService"] != "" {
			vals["wire_fsvc_off"], l1 = svcOff(bind["FromService"])
		}
		if bind["ToService"] != "" {
			vals["wire_tsvc_off"], l2 = svcOff(bind["ToService"])
		}
		if l1 == l2 {
			vals["wire_svc_len"] = l1
		}
	}
	for _, n := range names {
		x.setNat(n, vals[n])
	}
	header, order := "unknown", []string{}
	if fd := x.fn(netceptorGo, "Netceptor", "translateDataFromMessage"); fd != nil {
		ast.Inspect(fd, func(n ast.Node) bool {
			c, ok := n.(*ast.CallExpr)
			if !ok {
				return true
			}
			switch x.str(c.Fun) {
			case "buf.Write":
				if len(c.Args) == 1 {
					a := x.str(c.Args[0])
					switch {
					case strings.HasPrefix(a, "[]byte{"):
						header = strings.ReplaceAll(strings.TrimSuffix(strings.TrimPrefix(a, "[]byte{"), "}"), " ", "")
					case strings.HasPrefix(a, "fixedLenBytesFromString(msg."):
						in := strings.TrimSuffix(strings.TrimPrefix(a, "fixedLenBytesFromString(msg."), ")")
						order = append(order, strings.ReplaceAll(in, ", ", ":"))
					case strings.HasPrefix(a, "msg."):
						order = append(order, strings.TrimPrefix(a, "msg."))
					default:
						order = append(order, "?"+a)
					}
				}
			case "binary.Write":
				if len(c.Args) == 3 {
					a := x.str(c.Args[2])
					if x.str(c.Args[1]) != "binary."+endian {
						endian = "mixed"
					}
					if strings.HasPrefix(a, "s.AddNameHash(msg.") {
						order = append(order, strings.TrimSuffix(strings.TrimPrefix(a, "s.AddNameHash(msg."), ")"))
					} else {
						order = append(order, "?"+a)
					}
				}
			}
			return true
		})
	}
	x.set("wire_enc_header", header)
	x.set("wire_enc_order", strings.Join(order, ","))
	x.set("wire_hash_endian", endian)
	// dispatch: destination test, then registry lookup by ToService
	key := "unknown"
	if fd := x.fn(netceptorGo, "Netceptor", "handleMessageData"); fd != nil {
		cond, idx := "", ""
		ast.Inspect(fd, func(n ast.Node) bool {
			switch v := n.(type) {
			case *ast.IfStmt:
				if cond == "" && strings.Contains(x.str(v.Cond), "ToNode") {
					cond = x.str(v.Cond)
				}
			case *ast.IndexExpr:
				if idx == "" && x.str(v.X) == "s.listenerRegistry" {
					idx = x.str(v)
				}
			}
			return true
		})
		key = cond + ";" + idx
	}
	x.set("dispatch_key", key)
}

// ---------------------------------------------------------------- C02/C07: framer

func (x *extractor) factsFramer() {
	const fg = "pkg/framer/framer.go"
	lenBytes, endian, get := -1, "unknown", "unknown"
	if fd := x.fn(fg, "framer", "SendData"); fd != nil {
		ast.Inspect(fd, func(n ast.Node) bool {
			if c, ok := n.(*ast.CallExpr); ok {
				f := x.str(c.Fun)
				if f == "make" && len(c.Args) == 2 {
					if be, ok := c.Args[1].(*ast.BinaryExpr); ok && be.Op == token.ADD && x.str(be.X) == "len(data)" {
						if bl, ok := be.Y.(*ast.BasicLit); ok {
							lenBytes = atoi(bl.Value)
						}
					}
				}
				if strings.HasSuffix(f, ".PutUint16") {
					endian = strings.TrimSuffix(strings.TrimPrefix(f, "binary."), ".PutUint16")
					if _, lo, hi := x.sliceBounds(c.Args[0]); lo != 0 || hi != lenBytes {
						endian = "unknown"
					}
				}
			}
			return true
		})
	}
	if fd := x.fn(fg, "framer", "messageReady"); fd != nil {
		ok1, ok2 := false, false
		ast.Inspect(fd, func(n ast.Node) bool {
			s := x.str(n)
			if s == "int(binary."+endian+".Uint16(f.buffer[:2]))" {
				ok1 = true
			}
			if s == "len(f.buffer) >= msgSize+2" {
				ok2 = true
			}
			return true
		})
		if !ok1 || !ok2 {
			endian = "unknown:messageReady"
		}
	}
	if fd := x.fn(fg, "framer", "GetMessage"); fd != nil {
		var parts []string
		ast.Inspect(fd, func(n ast.Node) bool {
			if as, ok := n.(*ast.AssignStmt); ok && len(as.Rhs) == 1 {
				if _, ok := as.Rhs[0].(*ast.SliceExpr); ok {
					parts = append(parts, strings.ReplaceAll(strings.TrimPrefix(x.str(as.Rhs[0]), "f."), " ", ""))
				}
			}
			return true
		})
		get = strings.Join(parts, ";")
	}
	x.setNat("frame_len_bytes", lenBytes)
	x.set("frame_endian", endian)
	x.set("frame_get", get)
}

// ---------------------------------------------------------------- C10: forwardMessage

func (x *extractor) factsForward() {
	expire, guard, dec, budget := "unknown", false, -1, "unknown"
	type mark struct {
		pos  token.Pos
		name string
	}
	var marks []mark
	if fd := x.fn(netceptorGo, "Netceptor", "forwardMessage"); fd != nil && len(fd.Body.List) > 0 {
		if is, ok := fd.Body.List[0].(*ast.IfStmt); ok {
			expire = strings.ReplaceAll(x.str(is.Cond), "md.", "")
			marks = append(marks, mark{is.Pos(), "expire-test"})
			// body: `if md.FromService != "unreach" { sendUnreachable }` and a return
			for _, st := range is.Body.List {
				if in, ok := st.(*ast.IfStmt); ok && x.str(in.Cond) == `md.FromService != "unreach"` &&
					strings.Contains(x.str(in.Body), "sendUnreachable") {
					guard = true
				}
			}
			if len(is.Body.List) == 0 {
				expire = "unknown:no-return"
			} else if _, ok := is.Body.List[len(is.Body.List)-1].(*ast.ReturnStmt); !ok {
				expire = "unknown:no-return"
			}
		}
		for _, st := range fd.Body.List {
			s := x.str(st)
			switch {
			case strings.Contains(s, "s.routingTable[md.ToNode]"):
				marks = append(marks, mark{st.Pos(), "route"})
			case strings.Contains(s, "s.connections[nextHop]"):
				marks = append(marks, mark{st.Pos(), "conn"})
			case strings.Contains(s, "translateDataFromMessage(md)"):
				marks = append(marks, mark{st.Pos(), "encode"})
			}
			if ids, ok := st.(*ast.IncDecStmt); ok && x.str(ids.X) == "message[1]" && ids.Tok == token.DEC {
				dec = 1
				marks = append(marks, mark{st.Pos(), "decrement"})
			}
			if as, ok := st.(*ast.AssignStmt); ok && len(as.Lhs) == 1 && x.str(as.Lhs[0]) == "message[1]" && as.Tok == token.SUB_ASSIGN {
				if bl, ok := as.Rhs[0].(*ast.BasicLit); ok {
					dec = atoi(bl.Value)
					marks = append(marks, mark{st.Pos(), "decrement"})
				}
			}
			if sel, ok := st.(*ast.SelectStmt); ok && strings.Contains(x.str(sel), "c.WriteChan <- message") {
				marks = append(marks, mark{st.Pos(), "send"})
			}
		}
	}
	sort.Slice(marks, func(i, j int) bool { return marks[i].pos < marks[j].pos })
	ord := []string{}
	for _, m := range marks {
		ord = append(ord, m.name)
	}
	if fd := x.fn(netceptorGo, "Netceptor", "sendMessage"); fd != nil {
		ast.Inspect(fd, func(n ast.Node) bool {
			if c, ok := n.(*ast.CallExpr); ok && x.str(c.Fun) == "s.SendMessageWithHopsToLive" && len(c.Args) == 5 {
				budget = x.str(c.Args[4])
			}
			return true
		})
	}
	x.set("fwd_expire_test", expire)
	x.setNat("fwd_decrement", dec)
	x.set("fwd_notice_guard", guard)
	x.set("fwd_order", strings.Join(ord, ","))
	x.set("fwd_sendmessage_budget", budget)
}

// ---------------------------------------------------------------- C12: firewall

func (x *extractor) factsFirewall() {
	const fr = "pkg/netceptor/firewall_rules.go"
	propagated, minlen, wrap := false, false, "unknown"
	if fd := x.fn(fr, "", "buildComp"); fd != nil {
		// errors of regexCompare / stringCompare must not be assigned to the blank identifier
		blank, calls := false, 0
		ast.Inspect(fd, func(n ast.Node) bool {
			switch v := n.(type) {
			case *ast.AssignStmt:
				for _, r := range v.Rhs {
					if c, ok := r.(*ast.CallExpr); ok && (x.str(c.Fun) == "regexCompare" || x.str(c.Fun) == "stringCompare") {
						calls++
						if len(v.Lhs) == 2 && x.str(v.Lhs[1]) == "_" {
							blank = true
						}
					}
				}
			case *ast.ReturnStmt:
				for _, r := range v.Results {
					if c, ok := r.(*ast.CallExpr); ok && (x.str(c.Fun) == "regexCompare" || x.str(c.Fun) == "stringCompare") {
						calls++
					}
				}
			}
			return true
		})
		returnsErr := false
		if fd.Type.Results != nil {
			for _, f := range fd.Type.Results.List {
				if x.str(f.Type) == "error" {
					returnsErr = true
				}
			}
		}
		propagated = calls >= 2 && !blank && returnsErr
	}
	// … and ParseFirewallRule must look at the error of BuildComps
	if propagated {
		propagated = false
		if fd := x.fn(fr, "FirewallRuleData", "ParseFirewallRule"); fd != nil {
			ast.Inspect(fd, func(n ast.Node) bool {
				if as, ok := n.(*ast.AssignStmt); ok && len(as.Rhs) == 1 && strings.HasSuffix(x.str(as.Rhs[0]), "BuildComps()") &&
					len(as.Lhs) == 2 && x.str(as.Lhs[1]) == "err" {
					propagated = true
				}
				return true
			})
		}
		if fd := x.fn(fr, "FirewallRule", "BuildComps"); fd != nil {
			if strings.Contains(x.str(fd.Body), ", _ := buildComp") || strings.Contains(x.str(fd.Body), ", _ = buildComp") {
				propagated = false
			}
		}
	}
	if fd := x.fn(fr, "", "regexCompare"); fd != nil {
		ast.Inspect(fd, func(n ast.Node) bool {
			switch v := n.(type) {
			case *ast.CallExpr:
				if x.str(v.Fun) == "fmt.Sprintf" && len(v.Args) == 2 {
					if bl, ok := v.Args[0].(*ast.BasicLit); ok {
						wrap = strings.Trim(bl.Value, "\"`")
						if strings.ReplaceAll(x.str(v.Args[1]), " ", "") != "value[1:len(value)-1]" {
							wrap = "unknown:" + x.str(v.Args[1])
						}
					}
				}
			case *ast.IfStmt:
				if strings.Contains(x.str(v.Cond), "len(value) < 2") && strings.Contains(x.str(v.Body), "return nil,") {
					minlen = true
				}
			}
			return true
		})
	}
	x.set("fw_errors_propagated", propagated)
	x.set("fw_regex_minlen", minlen)
	x.set("fw_regex_wrap", wrap)
	// the rule loop in handleMessageData
	loop, before := "unknown", false
	if fd := x.fn(netceptorGo, "Netceptor", "handleMessageData"); fd != nil {
		var loopPos, destPos token.Pos
		initAccept := false
		ast.Inspect(fd, func(n ast.Node) bool {
			switch v := n.(type) {
			case *ast.AssignStmt:
				if x.str(v) == "result := FirewallResultAccept" {
					initAccept = true
				}
			case *ast.RangeStmt:
				if x.str(v.X) == "s.firewallRules" {
					loopPos = v.Pos()
					b := x.str(v.Body)
					if strings.Contains(b, "result = rule(md)") && strings.Contains(b, "if result != FirewallResultContinue { break }") {
						loop = "first-non-continue-breaks"
					}
				}
			case *ast.IfStmt:
				if destPos == 0 && x.str(v.Cond) == "md.ToNode == s.nodeID" {
					destPos = v.Pos()
				}
			}
			return true
		})
		if !initAccept {
			loop = "unknown:init"
		}
		before = loopPos != 0 && destPos != 0 && loopPos < destPos
		// switch result: Drop returns nil; Reject sends ProblemRejected unless FromService is "unreach"
		sw := ""
		ast.Inspect(fd, func(n ast.Node) bool {
			if v, ok := n.(*ast.SwitchStmt); ok && x.str(v.Tag) == "result" {
				for _, c := range v.Body.List {
					cc := c.(*ast.CaseClause)
					body := ""
					for _, st := range cc.Body {
						body += x.str(st) + ";"
					}
					lbl := ""
					if len(cc.List) > 0 {
						lbl = x.str(cc.List[0])
					}
					switch lbl {
					case "FirewallResultAccept":
						if body == "" {
							sw += "accept:continue;"
						}
					case "FirewallResultDrop":
						if body == "return nil;" {
							sw += "drop:return;"
						}
					case "FirewallResultReject":
						if strings.Contains(body, `if md.FromService != "unreach"`) && strings.Contains(body, "Problem: ProblemRejected") &&
							strings.HasSuffix(body, "return nil;") {
							sw += "reject:notice-unless-unreach,return;"
						}
					}
				}
			}
			return true
		})
		loop += "|" + sw
	}
	x.set("fw_loop", loop)
	x.set("fw_before_dispatch", before)
}

// ---------------------------------------------------------------- C06: handleRoutingUpdate

func (x *extractor) factsRouting() {
	staleEpoch, staleSeq, relay, selfFilter := "unknown", "unknown", "unknown", "unknown"
	dedupFirst, rewrite, atomic := false, false, false
	if fd := x.fn(netceptorGo, "Netceptor", "handleRoutingUpdate"); fd != nil {
		body := fd.Body.List
		// positions of the landmarks among the top-level statements
		idx := func(pred func(string, ast.Stmt) bool) int {
			for i, st := range body {
				if pred(x.str(st), st) {
					return i
				}
			}
			return -1
		}
		iSelf := idx(func(s string, st ast.Stmt) bool {
			is, ok := st.(*ast.IfStmt)
			return ok && x.str(is.Cond) == "ri.NodeID == s.nodeID"
		})
		iLock := idx(func(s string, _ ast.Stmt) bool { return s == "s.seenUpdatesLock.Lock()" })
		iLookup := idx(func(s string, _ ast.Stmt) bool { return s == "_, ok := s.seenUpdates[ri.UpdateID]" })
		iDrop := idx(func(s string, st ast.Stmt) bool {
			is, ok := st.(*ast.IfStmt)
			return ok && x.str(is.Cond) == "ok" && strings.Contains(s, "s.seenUpdatesLock.Unlock()") && strings.Contains(s, "return")
		})
		iInsert := idx(func(s string, _ ast.Stmt) bool { return s == "s.seenUpdates[ri.UpdateID] = time.Now()" })
		iUnlock := idx(func(s string, _ ast.Stmt) bool { return s == "s.seenUpdatesLock.Unlock()" })
		iBranch := idx(func(s string, st ast.Stmt) bool {
			is, ok := st.(*ast.IfStmt)
			return ok && x.str(is.Cond) == "ri.SuspectedDuplicate != 0"
		})
		iRewrite := idx(func(s string, _ ast.Stmt) bool { return s == "ri.ForwardingNode = s.nodeID" })
		iEncode := idx(func(s string, _ ast.Stmt) bool { return strings.Contains(s, "s.translateStructToNetwork(MsgTypeRoute, ri)") })
		dedupFirst = iSelf >= 0 && iSelf < iLookup && iLookup < iDrop && iDrop < iBranch
		atomic = iLock >= 0 && iLock < iLookup && iLookup < iDrop && iDrop < iInsert && iInsert < iUnlock && iUnlock < iBranch
		rewrite = iBranch >= 0 && iBranch < iRewrite && iRewrite < iEncode
		if len(body) > 0 {
			relay = x.str(body[len(body)-1])
			if iEncode < 0 || iEncode > len(body)-2 {
				relay = "unknown:" + relay
			}
		}
		if iSelf >= 0 {
			conds := []string{"ri.NodeID == s.nodeID"}
			for _, st := range body[iSelf].(*ast.IfStmt).Body.List {
				if is, ok := st.(*ast.IfStmt); ok {
					conds = append(conds, x.str(is.Cond))
				}
			}
			last := body[iSelf].(*ast.IfStmt).Body.List
			if _, ok := last[len(last)-1].(*ast.ReturnStmt); !ok {
				conds = append(conds, "no-final-return")
			}
			selfFilter = strings.Join(conds, ";")
		}
		if iBranch >= 0 {
			if els, ok := body[iBranch].(*ast.IfStmt).Else.(*ast.BlockStmt); ok {
				var conds []string
				ast.Inspect(els, func(n ast.Node) bool {
					if is, ok := n.(*ast.IfStmt); ok && strings.Contains(x.str(is.Cond), "ni.") {
						b := x.str(is.Body)
						if strings.Contains(b, "s.knownNodeLock.Unlock()") && strings.Contains(b, "return") {
							conds = append(conds, x.str(is.Cond))
						}
					}
					return true
				})
				if len(conds) == 2 {
					staleEpoch, staleSeq = conds[0], conds[1]
				}
			}
		}
	}
	x.set("route_stale_epoch", staleEpoch)
	x.set("route_stale_seq", staleSeq)
	x.set("route_dedup_first", dedupFirst)
	x.set("route_relay_call", relay)
	x.set("route_self_filter", selfFilter)
	x.set("route_forwarder_rewrite", rewrite)
	x.set("route_seen_atomic", atomic)
	// expireSeenUpdates: everything the function writes (fields of s assigned, map entries deleted), and the lock it holds meanwhile
	expire := "unknown"
	if fd := x.fn(netceptorGo, "Netceptor", "expireSeenUpdates"); fd != nil {
		writes := map[string]bool{}
		locked := false
		ast.Inspect(fd.Body, func(n ast.Node) bool {
			switch v := n.(type) {
			case *ast.AssignStmt:
				for _, l := range v.Lhs {
					if t := x.str(l); strings.HasPrefix(t, "s.") {
						writes["assign:"+t] = true
					}
				}
			case *ast.IncDecStmt:
				if t := x.str(v.X); strings.HasPrefix(t, "s.") {
					writes["assign:"+t] = true
				}
			case *ast.CallExpr:
				c := x.str(v.Fun)
				if c == "delete" && len(v.Args) == 2 {
					writes["delete:"+x.str(v.Args[0])] = true
				} else if c == "s.seenUpdatesLock.Lock" {
					locked = true
				} else if strings.HasPrefix(c, "s.") && !strings.HasSuffix(c, "Lock") && !strings.HasSuffix(c, "Unlock") &&
					c != "s.context.Done" && !strings.HasSuffix(c, ".Before") {
					writes["call:"+c] = true
				}
			}
			return true
		})
		var ws []string
		for w := range writes {
			ws = append(ws, w)
		}
		sort.Strings(ws)
		expire = strings.Join(ws, ";")
		if locked {
			expire += ";under:seenUpdatesLock"
		}
	}
	x.set("route_expire_writes", expire)
}

// ---------------------------------------------------------------- C01: updateRoutingTable

func (x *extractor) factsTable() {
	relax, improve, init, walk, pub := "unknown", "unknown", "unknown", "unknown", "unknown"
	if fd := x.fn(netceptorGo, "Netceptor", "updateRoutingTable"); fd != nil {
		ns := func(n ast.Node) string { return strings.ReplaceAll(x.str(n), "\t", "") }
		ast.Inspect(fd, func(n ast.Node) bool {
			switch v := n.(type) {
			case *ast.RangeStmt:
				switch x.str(v.X) {
				case "s.knownConnectionCosts[node]":
					// body: pathCost := …; if pathCost < cost[neighbor] { … }
					if len(v.Body.List) == 2 {
						if is, ok := v.Body.List[1].(*ast.IfStmt); ok {
							relax = ns(v.Body.List[0]) + ";" + ns(is.Cond)
							var parts []string
							for _, st := range is.Body.List {
								parts = append(parts, ns(st))
							}
							improve = strings.Join(parts, ";")
						}
					}
				case "s.knownConnectionCosts":
					b := ns(v.Body)
					if strings.Contains(b, "Q.Insert(node, cost[node])") {
						// the initialisation loop
						self, other, prev := "?", "?", "?"
						ast.Inspect(v.Body, func(m ast.Node) bool {
							if as, ok := m.(*ast.AssignStmt); ok && len(as.Lhs) == 1 {
								switch ns(as.Lhs[0]) {
								case "cost[node]":
									if ns(as.Rhs[0]) == "0.0" {
										self = "0.0"
									} else {
										other = ns(as.Rhs[0])
									}
								case "prev[node]":
									prev = ns(as.Rhs[0])
								}
							}
							return true
						})
						init = "self:" + self + ";other:" + other + ";prev:" + prev + ";keys:" + x.str(v.X)
					} else if strings.Contains(b, "s.routingTable[dest] = p") {
						// the prev-chain walk
						var parts []string
						ast.Inspect(v.Body, func(m ast.Node) bool {
							switch w := m.(type) {
							case *ast.IfStmt:
								var bs []string
								for _, st := range w.Body.List {
									bs = append(bs, ns(st))
								}
								parts = append(parts, ns(w.Cond)+":"+bs[0])
							case *ast.AssignStmt:
								if ns(w) == "p = prev[p]" {
									parts = append(parts, ns(w))
								}
							}
							return true
						})
						walk = strings.Join(parts, ";")
					}
				}
			case *ast.AssignStmt:
				if ns(v.Lhs[0]) == "s.routingPathCosts" {
					pub = ns(v)
				}
			}
			return true
		})
	}
	x.set("rt_relax", relax)
	x.set("rt_improve", improve)
	x.set("rt_init", init)
	x.set("rt_walk", walk)
	x.set("rt_costs_published", pub)
}

// ---------------------------------------------------------------- C01: connection aging

func (x *extractor) factsAging() {
	after, test := false, "unknown"
	if fd := x.fn(netceptorGo, "connInfo", "protoReader"); fd != nil {
		var posTimeout, posStamp token.Pos
		stamps := 0
		ast.Inspect(fd, func(n ast.Node) bool {
			switch v := n.(type) {
			case *ast.IfStmt:
				if x.str(v.Cond) == "err == ErrTimeout" && len(v.Body.List) == 1 && x.str(v.Body.List[0]) == "continue" {
					posTimeout = v.Pos()
				}
			case *ast.AssignStmt:
				if x.str(v.Lhs[0]) == "ci.lastReceivedData" {
					posStamp = v.Pos()
					stamps++
				}
			}
			return true
		})
		after = posTimeout != 0 && posStamp != 0 && posTimeout < posStamp && stamps == 1
	}
	if fd := x.fn(netceptorGo, "Netceptor", "monitorConnectionAging"); fd != nil {
		ast.Inspect(fd, func(n ast.Node) bool {
			if is, ok := n.(*ast.IfStmt); ok && strings.Contains(x.str(is.Cond), "lastReceivedData") {
				test = x.str(is.Cond)
				if !strings.Contains(x.str(is.Body), "timedOut[conn]") {
					test = "unknown:body"
				}
			}
			return true
		})
	}
	x.set("aging_stamp_after_timeout_continue", after)
	x.set("aging_cancel_test", test)
}

// ---------------------------------------------------------------- C16: unreachable notices

func (x *extractor) factsUnreach() {
	branch, filter, cancel, fields, from := "unknown", "unknown", "unknown", "unknown", "unknown"
	if fd := x.fn(netceptorGo, "Netceptor", "handleMessageData"); fd != nil {
		ast.Inspect(fd, func(n ast.Node) bool {
			is, ok := n.(*ast.IfStmt)
			if !ok || x.str(is.Cond) != "!ok || pc.context.Err() != nil" {
				return true
			}
			parts := []string{x.str(is.Cond)}
			for _, st := range is.Body.List {
				if in, ok := st.(*ast.IfStmt); ok && strings.Contains(x.str(in.Body), "ProblemServiceUnknown") &&
					strings.Contains(x.str(in.Body), "return fmt.Errorf") {
					parts = append(parts, x.str(in.Cond)+":error")
				}
				if as, ok := st.(*ast.AssignStmt); ok && strings.Contains(x.str(as), "s.sendUnreachable(md.FromNode") &&
					strings.Contains(x.str(as), "Problem: ProblemServiceUnknown") {
					parts = append(parts, "notice:ProblemServiceUnknown")
					var fs []string
					ast.Inspect(as, func(m ast.Node) bool {
						if kv, ok := m.(*ast.KeyValueExpr); ok && x.str(kv.Key) != "Problem" {
							fs = append(fs, x.str(kv.Key)+":"+x.str(kv.Value))
						}
						return true
					})
					fields = strings.Join(fs, ";")
				}
			}
			branch = strings.Join(parts, ";")
			return false
		})
	}
	if fd := x.fn(netceptorGo, "Netceptor", "sendUnreachable"); fd != nil {
		ast.Inspect(fd, func(n ast.Node) bool {
			if c, ok := n.(*ast.CallExpr); ok && x.str(c.Fun) == "s.sendMessage" && len(c.Args) == 4 {
				from = strings.Trim(x.str(c.Args[0]), "\"") + "->" + x.str(c.Args[1]) + ":" + strings.Trim(x.str(c.Args[2]), "\"")
			}
			return true
		})
	}
	if fd := x.fn("pkg/netceptor/packetconn.go", "PacketConn", "StartUnreachable"); fd != nil {
		ast.Inspect(fd, func(n ast.Node) bool {
			if is, ok := n.(*ast.IfStmt); ok && strings.Contains(x.str(is.Body), "pc.unreachableSubs.Publish(msg)") {
				filter = x.str(is.Cond)
			}
			return true
		})
		// FromNode / FromService must be the message's own fields
		if !strings.Contains(x.str(fd.Body), "FromNode := msg.FromNode") || !strings.Contains(x.str(fd.Body), "FromService := msg.FromService") {
			filter = "unknown:" + filter
		}
	}
	if fd := x.fn("pkg/netceptor/conn.go", "", "monitorUnreachable"); fd != nil {
		ast.Inspect(fd, func(n ast.Node) bool {
			if is, ok := n.(*ast.IfStmt); ok && strings.Contains(x.str(is.Body), "cancel()") && strings.Contains(x.str(is.Cond), "msg.") {
				cancel = x.str(is.Cond)
			}
			return true
		})
	}
	x.set("unreach_unknown_branch", branch)
	x.set("unreach_socket_filter", filter)
	x.set("unreach_dial_cancel", cancel)
	x.set("unreach_notice_fields", fields)
	x.set("unreach_sent_from", from)
}

// ---------------------------------------------------------------- C18: service advertisements

func (x *extractor) factsAds() {
	keep, relay, tomb := "unknown", "unknown", false
	if fd := x.fn(netceptorGo, "Netceptor", "handleServiceAdvertisement"); fd != nil {
		var parts []string
		for _, st := range fd.Body.List {
			if is, ok := st.(*ast.IfStmt); ok {
				switch x.str(is.Cond) {
				case "keepCur":
					if strings.Contains(x.str(is.Body), "return nil") {
						parts = append(parts, "keepCur:return")
					} else {
						// the refinement `if keepCur { if si.Time.After(cur.Time) { keepCur = false } }`
						ast.Inspect(is.Body, func(n ast.Node) bool {
							if in, ok := n.(*ast.IfStmt); ok && strings.Contains(x.str(in.Body), "keepCur = false") {
								keep = x.str(in.Cond)
							}
							return true
						})
					}
				}
			}
			if es, ok := st.(*ast.ExprStmt); ok && strings.HasPrefix(x.str(es), "s.flood(") {
				parts = append(parts, x.str(es))
			}
		}
		relay = strings.Join(parts, ";")
		body := x.str(fd.Body)
		// tombstones: an early return when the message is not newer than a remembered withdrawal; a cancel records its
		// time, an advertisement forgets the withdrawal
		test := ""
		for _, st := range fd.Body.List {
			if is, ok := st.(*ast.IfStmt); ok && is.Init != nil && strings.Contains(x.str(is.Init), "s.serviceAdsWithdrawn[si.NodeID][si.Service]") &&
				strings.Contains(x.str(is.Body), "return nil") {
				test = x.str(is.Cond)
			}
		}
		records := strings.Contains(body, "w[si.Service] = si.Time")
		forgets := strings.Contains(body, "delete(s.serviceAdsWithdrawn[si.NodeID], si.Service)")
		tomb = test == "withdrawn && !si.Time.After(withdrawnAt)" && records && forgets
		x.set("ads_tombstone_test", test)
	}
	x.set("ads_keep_test", keep)
	x.set("ads_tombstones", tomb)
	// where an advertisement gets its time: when the listener is seen to exist (the collection, under the listener lock)
	stamp := "unknown"
	if fd := x.fn(netceptorGo, "Netceptor", "sendServiceAds"); fd != nil {
		collect := "collect:unstamped"
		var lockPos, unlockPos, litPos token.Pos
		ast.Inspect(fd, func(n ast.Node) bool {
			switch v := n.(type) {
			case *ast.CallExpr:
				switch x.str(v.Fun) {
				case "s.listenerLock.RLock":
					lockPos = v.Pos()
				case "s.listenerLock.RUnlock":
					unlockPos = v.Pos()
				}
			case *ast.KeyValueExpr:
				if x.str(v.Key) == "Time" && x.str(v.Value) == "time.Now()" {
					litPos = v.Pos()
				}
			}
			return true
		})
		if litPos != 0 {
			collect = "collect:Time=time.Now()"
			if lockPos != 0 && lockPos < litPos && litPos < unlockPos {
				collect += ",under-listenerLock"
			}
		}
		send := "send:unknown"
		if fs := x.fn(netceptorGo, "Netceptor", "sendServiceAd"); fs != nil {
			send = "send:unstamped"
			ast.Inspect(fs, func(n ast.Node) bool {
				if as, ok := n.(*ast.AssignStmt); ok {
					for _, l := range as.Lhs {
						if strings.HasSuffix(x.str(l), ".Time") {
							send = "send:stamps-" + x.str(l)
						}
					}
				}
				return true
			})
		}
		stamp = collect + ";" + send
	}
	x.set("ads_stamp", stamp)
	// PacketConn.Close: the socket is unregistered and the withdrawal is stamped while the listener lock is held
	co := "unknown"
	if fd := x.fn("pkg/netceptor/packetconn.go", "PacketConn", "Close"); fd != nil {
		type mark struct {
			pos  token.Pos
			name string
		}
		var ms []mark
		ast.Inspect(fd, func(n ast.Node) bool {
			if c, ok := n.(*ast.CallExpr); ok {
				switch f := x.str(c.Fun); {
				case f == "pc.s.GetListenerLock().Lock":
					ms = append(ms, mark{c.Pos(), "lock"})
				case f == "delete" && len(c.Args) == 2 && x.str(c.Args[0]) == "pc.s.GetListenerRegistry()":
					ms = append(ms, mark{c.Pos(), "unregister"})
				case f == "pc.s.RemoveLocalServiceAdvertisement":
					ms = append(ms, mark{c.Pos(), "withdraw"})
				}
			}
			return true
		})
		sort.Slice(ms, func(i, j int) bool { return ms[i].pos < ms[j].pos })
		var names []string
		for _, m := range ms {
			names = append(names, m.name)
		}
		co = strings.Join(names, "<")
	}
	x.set("ads_close_order", co)
	// SendPing listens for notices before it sends
	po := "unknown"
	if fd := x.fn("pkg/netceptor/ping.go", "", "SendPing"); fd != nil {
		type mark struct {
			pos  token.Pos
			name string
		}
		var ms []mark
		ast.Inspect(fd, func(n ast.Node) bool {
			if c, ok := n.(*ast.CallExpr); ok {
				switch x.str(c.Fun) {
				case "s.ListenPacket", "pc.SetHopsToLive", "pc.SubscribeUnreachable", "pc.WriteTo":
					ms = append(ms, mark{c.Pos(), strings.TrimPrefix(strings.TrimPrefix(x.str(c.Fun), "s."), "pc.")})
				}
			}
			return true
		})
		sort.Slice(ms, func(i, j int) bool { return ms[i].pos < ms[j].pos })
		var names []string
		for _, m := range ms {
			names = append(names, m.name)
		}
		po = strings.Join(names, "<")
	}
	x.set("ping_order", po)
	// every hop a notice takes from the node's broker to the reader of SubscribeUnreachable is a blocking hand-off on an
	// unbuffered channel: no buffer that could fill up, no `default` branch that could discard
	hops := "unknown"
	{
		var parts []string
		selectKind := func(n ast.Node, sendTo string) string {
			// the select (or plain send) that sends on sendTo inside n
			kind := "none"
			ast.Inspect(n, func(m ast.Node) bool {
				switch v := m.(type) {
				case *ast.SelectStmt:
					hasSend, hasDefault, other := false, false, []string{}
					for _, c := range v.Body.List {
						cc := c.(*ast.CommClause)
						if cc.Comm == nil {
							hasDefault = true
							continue
						}
						if ss, ok := cc.Comm.(*ast.SendStmt); ok && x.str(ss.Chan) == sendTo {
							hasSend = true
						} else {
							other = append(other, x.str(cc.Comm))
						}
					}
					if hasSend {
						kind = "select-send"
						if hasDefault {
							kind += "+default"
						}
						sort.Strings(other)
						for _, o := range other {
							kind += "|" + o
						}
					}
				case *ast.SendStmt:
					if x.str(v.Chan) == sendTo && kind == "none" {
						kind = "plain-send"
					}
				}
				return true
			})
			return kind
		}
		chanMake := func(n ast.Node, lhs string) string {
			r := "?"
			ast.Inspect(n, func(m ast.Node) bool {
				switch v := m.(type) {
				case *ast.AssignStmt:
					if len(v.Lhs) == 1 && x.str(v.Lhs[0]) == lhs {
						r = x.str(v.Rhs[0])
					}
				case *ast.KeyValueExpr:
					if x.str(v.Key) == lhs {
						r = x.str(v.Value)
					}
				}
				return true
			})
			return r
		}
		const bk = "pkg/utils/broker.go"
		if fd := x.fn(bk, "Broker", "start"); fd != nil {
			parts = append(parts, "broker.deliver:"+selectKind(fd, "msgCh"))
		}
		if fd := x.fn(bk, "Broker", "Publish"); fd != nil {
			parts = append(parts, "broker.publish:"+selectKind(fd, "b.publishCh"))
		}
		if fd := x.fn(bk, "Broker", "Subscribe"); fd != nil {
			parts = append(parts, "broker.sub-chan:"+chanMake(fd, "msgCh"))
		}
		if fd := x.fn(bk, "", "NewBroker"); fd != nil {
			parts = append(parts, "broker.publish-chan:"+chanMake(fd, "publishCh"))
		}
		if fd := x.fn("pkg/netceptor/packetconn.go", "PacketConn", "SubscribeUnreachable"); fd != nil {
			parts = append(parts, "sub.chan:"+chanMake(fd, "uChan"), "sub.forward:"+selectKind(fd, "uChan"))
		}
		hops = strings.Join(parts, ";")
	}
	x.set("unreach_hops", hops)
	// ---- small structural facts about pkg/workceptor
	// (C05) a signed results request gets a fresh token each time: createSignature is called inside the request loop
	sign := "unknown"
	if fd := x.fn("pkg/workceptor/remote_work.go", "remoteUnit", "monitorRemoteStdout"); fd != nil {
		inLoop, outside := 0, 0
		var loops []*ast.ForStmt
		ast.Inspect(fd, func(n ast.Node) bool {
			if f, ok := n.(*ast.ForStmt); ok {
				loops = append(loops, f)
			}
			return true
		})
		ast.Inspect(fd, func(n ast.Node) bool {
			if c, ok := n.(*ast.CallExpr); ok && strings.HasSuffix(x.str(c.Fun), ".createSignature") {
				in := false
				for _, l := range loops {
					if l.Body.Pos() <= c.Pos() && c.End() <= l.Body.End() {
						in = true
					}
				}
				if in {
					inLoop++
				} else {
					outside++
				}
			}
			return true
		})
		sign = fmt.Sprintf("per-request:%d;outside-the-loop:%d", inLoop, outside)
	}
	x.set("res_remote_sign", sign)
	// (C17) Listener.Close closes the QUIC listener before the packet connection under it
	lco := "unknown"
	if fd := x.fn("pkg/netceptor/conn.go", "Listener", "Close"); fd != nil {
		var ql, pc token.Pos
		ast.Inspect(fd, func(n ast.Node) bool {
			if c, ok := n.(*ast.CallExpr); ok {
				switch x.str(c.Fun) {
				case "li.ql.Close":
					ql = c.Pos()
				case "li.pc.Close":
					pc = c.Pos()
				}
			}
			return true
		})
		switch {
		case ql != 0 && pc != 0 && ql < pc:
			lco = "quic-listener<packet-conn"
		case ql != 0 && pc != 0:
			lco = "packet-conn<quic-listener"
		}
	}
	x.set("sock_listener_close_order", lco)
	// (C02) a datagram sent to a socket of this very node is handed to the reader as a copy, not as the caller's buffer
	slc := "unknown"
	if fd := x.fn(netceptorGo, "Netceptor", "SendMessageWithHopsToLive"); fd != nil {
		slc = "local:shares-callers-buffer"
		ast.Inspect(fd, func(n ast.Node) bool {
			if is, ok := n.(*ast.IfStmt); ok && x.str(is.Cond) == "toNode == s.nodeID" {
				b := x.str(is.Body)
				if strings.Contains(b, "data = append([]byte(nil), data...)") || strings.Contains(b, "copy(") {
					slc = "local:copy"
				}
			}
			return true
		})
	}
	x.set("send_local_copy", slc)
	// (C04) findUnit: the table; on a miss the unit's directory is read, whatever has been scanned before; the table again
	fu := "unknown"
	if fd := x.fn("pkg/workceptor/workceptor.go", "Workceptor", "findUnit"); fd != nil {
		var parts []string
		for _, st := range fd.Body.List {
			switch v := st.(type) {
			case *ast.AssignStmt:
				if strings.Contains(x.str(v), "w.activeUnits[unitID]") {
					parts = append(parts, "table")
				} else {
					parts = append(parts, "assign:"+x.str(v.Lhs[0]))
				}
			case *ast.ExprStmt:
				switch c := x.str(v.X); {
				case c == "w.scanForUnit(unitID)":
					parts = append(parts, "miss:scanForUnit-unconditional")
				case strings.HasSuffix(c, "Lock()") || strings.HasSuffix(c, "Unlock()"):
				default:
					parts = append(parts, "call:"+c)
				}
			case *ast.IfStmt:
				c := x.str(v.Cond)
				if c != "ok" && c != "!ok" {
					parts = append(parts, "if:"+c)
				}
			case *ast.ReturnStmt:
			default:
				parts = append(parts, "other")
			}
		}
		fu = strings.Join(parts, ";")
	}
	x.set("crash_findunit", fu)
	// (C08) the accept loop of the control service does nothing with an accepted connection but start its session in a
	// goroutine of its own (the TLS handshake, with its time-out, belongs to that goroutine)
	al := "unknown"
	if fd := x.fn("pkg/controlsvc/controlsvc.go", "Server", "ConnectionListener"); fd != nil {
		var parts []string
		ast.Inspect(fd, func(n ast.Node) bool {
			if fs, ok := n.(*ast.ForStmt); ok {
				seenAccept := false
				for _, st := range fs.Body.List {
					switch v := st.(type) {
					case *ast.AssignStmt:
						if strings.Contains(x.str(v), "listener.Accept()") {
							seenAccept = true
							parts = append(parts, "accept")
						} else if seenAccept {
							parts = append(parts, "sync:"+x.str(v))
						}
					case *ast.GoStmt:
						if seenAccept {
							parts = append(parts, "go:"+x.str(v.Call.Fun))
						}
					case *ast.ExprStmt:
						if seenAccept {
							parts = append(parts, "sync:"+x.str(v.X))
						}
					case *ast.IfStmt:
						if seenAccept && !strings.HasPrefix(x.str(v.Cond), "err != nil") {
							parts = append(parts, "sync-if:"+x.str(v.Cond))
						}
					}
				}
				return false
			}
			return true
		})
		al = strings.Join(parts, ";")
	}
	x.set("ctl_accept_loop", al)
	// (C13) the command runner works in the directory it is given and never creates it
	rmk := "unknown"
	if fd := x.fn("pkg/workceptor/command.go", "", "commandRunner"); fd != nil {
		var made []string
		ast.Inspect(fd, func(n ast.Node) bool {
			if c, ok := n.(*ast.CallExpr); ok {
				if f := x.str(c.Fun); f == "os.MkdirAll" || f == "os.Mkdir" {
					made = append(made, f)
				}
			}
			return true
		})
		rmk = "creates-no-directory"
		if len(made) > 0 {
			rmk = "creates:" + strings.Join(made, ",")
		}
	}
	x.set("life_runner_mkdir", rmk)
	// (C14) the lock file of a status record is never removed or renamed on its own (the lock is the inode): the only
	// removals in the package are of whole unit directories
	lk := "unknown"
	{
		var hits []string
		for _, f := range []string{"workceptor.go", "workunitbase.go", "command.go", "remote_work.go", "stdio_utils.go", "controlsvc.go"} {
			file := x.file("pkg/workceptor/" + f)
			if file == nil {
				continue
			}
			ast.Inspect(file, func(n ast.Node) bool {
				if c, ok := n.(*ast.CallExpr); ok {
					fn := x.str(c.Fun)
					if fn == "os.Remove" || fn == "os.Rename" || fn == "os.RemoveAll" || fn == "os.Truncate" {
						arg := ""
						if len(c.Args) > 0 {
							arg = x.str(c.Args[0])
						}
						hits = append(hits, f+":"+fn+"("+arg+")")
					}
				}
				return true
			})
		}
		sort.Strings(hits)
		lk = strings.Join(hits, ";")
	}
	x.set("st_removals", lk)
	x.set("ads_relay", relay)
}

// ---------------------------------------------------------------- C09: peer verification

func (x *extractor) factsVerify() {
	pins, steps, usages, nameRule, nameCmp, clientCfg, listener := "unknown", "unknown", "unknown", "unknown", "unknown", "unknown", "unknown"
	if fd := x.fn(netceptorGo, "", "ReceptorVerifyFunc"); fd != nil {
		// pin lengths: the composite literals {28, &sha224sum, …}
		var lens []string
		type mark struct {
			pos  token.Pos
			name string
		}
		var marks []mark
		var us []string
		ast.Inspect(fd, func(n ast.Node) bool {
			switch v := n.(type) {
			case *ast.CompositeLit:
				if len(v.Elts) == 3 {
					if bl, ok := v.Elts[0].(*ast.BasicLit); ok && strings.HasPrefix(x.str(v.Elts[1]), "&sha") {
						lens = append(lens, bl.Value)
					}
				}
			case *ast.CallExpr:
				switch x.str(v.Fun) {
				case "x509.ParseCertificate":
					marks = append(marks, mark{v.Pos(), "parse"})
				case "certs[0].Verify":
					marks = append(marks, mark{v.Pos(), "chain"})
				case "utils.ParseReceptorNamesFromCert":
					marks = append(marks, mark{v.Pos(), "name"})
				}
			case *ast.IfStmt:
				c := x.str(v.Cond)
				if c == "len(pinnedFingerprints) > 0" {
					marks = append(marks, mark{v.Pos(), "pins"})
					// both failure exits must return an error
					b := x.str(v.Body)
					if strings.Count(b, "return fmt.Errorf(") < 2 || !strings.Contains(b, "if !fingerprintOK") || !strings.Contains(b, "if !fingLenFound") {
						marks = append(marks, mark{v.Pos() + 1, "pins?"})
					}
				}
				if c == "expectedHostnameType == ExpectedHostnameTypeReceptor" {
					inner := ""
					ast.Inspect(v.Body, func(m ast.Node) bool {
						if is, ok := m.(*ast.IfStmt); ok && x.str(is.Cond) == "!found" && strings.Contains(x.str(is.Body), "return ReceptorCertNameError") {
							inner = "!found:ReceptorCertNameError"
						}
						return true
					})
					nameRule = c + ";" + inner
				}
			case *ast.CaseClause:
				if len(v.List) == 1 && (x.str(v.List[0]) == "VerifyServer" || x.str(v.List[0]) == "VerifyClient") {
					ast.Inspect(v, func(m ast.Node) bool {
						if kv, ok := m.(*ast.KeyValueExpr); ok && x.str(kv.Key) == "KeyUsages" {
							us = append(us, x.str(v.List[0])+":"+strings.TrimSuffix(strings.TrimPrefix(x.str(kv.Value), "[]x509.ExtKeyUsage{x509."), "}"))
						}
						return true
					})
				}
			}
			return true
		})
		pins = strings.Join(lens, ",")
		sort.Slice(marks, func(i, j int) bool { return marks[i].pos < marks[j].pos })
		var ms []string
		for _, m := range marks {
			ms = append(ms, m.name)
		}
		steps = strings.Join(ms, ",")
		usages = strings.Join(us, ";")
	}
	if fd := x.fn("pkg/utils/common.go", "", "ParseReceptorNamesFromCert"); fd != nil {
		ast.Inspect(fd, func(n ast.Node) bool {
			if is, ok := n.(*ast.IfStmt); ok && strings.Contains(x.str(is.Body), "found = true") {
				nameCmp = x.str(is.Cond)
			}
			return true
		})
	}
	if fd := x.fn(netceptorGo, "Netceptor", "GetClientTLSConfig"); fd != nil {
		ast.Inspect(fd, func(n ast.Node) bool {
			if is, ok := n.(*ast.IfStmt); ok && x.str(is.Cond) == "!tlscfg.InsecureSkipVerify" {
				parts := []string{x.str(is.Cond) + ":"}
				b := x.str(is.Body)
				if strings.Contains(b, "tlscfg.VerifyPeerCertificate = ReceptorVerifyFunc(tlscfg, pinnedFingerprints, expectedHostName, expectedHostNameType, VerifyServer, s.Logger)") {
					parts[0] += "VerifyPeerCertificate"
				}
				ast.Inspect(is.Body, func(m ast.Node) bool {
					if cc, ok := m.(*ast.CaseClause); ok && len(cc.List) == 1 && len(cc.Body) == 1 {
						lbl := strings.TrimPrefix(x.str(cc.List[0]), "ExpectedHostnameType")
						as := x.str(cc.Body[0])
						switch {
						case as == "tlscfg.ServerName = expectedHostName":
							parts = append(parts, lbl+":ServerName")
						case as == "tlscfg.InsecureSkipVerify = true":
							parts = append(parts, lbl+":InsecureSkipVerify")
						default:
							parts = append(parts, lbl+":?"+as)
						}
					}
					return true
				})
				clientCfg = strings.Join(parts, ";")
			}
			return true
		})
	}
	if fd := x.fn("pkg/netceptor/conn.go", "Netceptor", "listen"); fd != nil {
		ast.Inspect(fd, func(n ast.Node) bool {
			if as, ok := n.(*ast.AssignStmt); ok && x.str(as.Lhs[0]) == "remoteNode" {
				listener = x.str(as.Rhs[0])
			}
			if as, ok := n.(*ast.AssignStmt); ok && (x.str(as.Lhs[0]) == "clientTLSCfg.VerifyPeerCertificate" || x.str(as.Lhs[0]) == "nameVerify") {
				if c, ok := as.Rhs[0].(*ast.CallExpr); ok && x.str(c.Fun) == "ReceptorVerifyFunc" && len(c.Args) == 6 && x.str(c.Args[2]) == "remoteNode" {
					listener += ";" + x.str(c.Args[3]) + ";" + x.str(c.Args[4])
				}
			}
			return true
		})
	}
	// the verifier keeps nothing between handshakes: the function is a single `return func(...)`, the verification
	// options (with the current time) are built inside it, and the pin is compared with the digest of the leaf only
	closure, pinSubject := "unknown", "unknown"
	if fd := x.fn(netceptorGo, "", "ReceptorVerifyFunc"); fd != nil {
		if len(fd.Body.List) == 1 {
			if rs, ok := fd.Body.List[0].(*ast.ReturnStmt); ok && len(rs.Results) == 1 {
				if fl, ok := rs.Results[0].(*ast.FuncLit); ok {
					nowIn := 0
					ast.Inspect(fl, func(n ast.Node) bool {
						if kv, ok := n.(*ast.KeyValueExpr); ok && x.str(kv.Key) == "CurrentTime" && x.str(kv.Value) == "time.Now()" {
							nowIn++
						}
						return true
					})
					closure = fmt.Sprintf("single-return-closure;CurrentTime:time.Now()x%d", nowIn)
					if len(fl.Body.List) > 0 {
						if is, ok := fl.Body.List[0].(*ast.IfStmt); ok && x.str(is.Cond) == "len(rawCerts) == 0" && strings.Contains(x.str(is.Body), "return fmt.Errorf(") {
							closure += ";empty-chain:refused"
						}
					}
				}
			}
		} else {
			closure = fmt.Sprintf("statements-before-closure:%d", len(fd.Body.List)-1)
		}
		var subj []string
		ast.Inspect(fd, func(n ast.Node) bool {
			if is, ok := n.(*ast.IfStmt); ok && x.str(is.Cond) == "len(pinnedFingerprints) > 0" {
				ast.Inspect(is.Body, func(m ast.Node) bool {
					switch v := m.(type) {
					case *ast.CallExpr:
						if strings.HasSuffix(x.str(v.Fun), "sumFunc") && len(v.Args) == 1 {
							subj = append(subj, x.str(v.Args[0]))
						}
					case *ast.RangeStmt:
						if r := x.str(v.X); r == "rawCerts" || r == "certs" {
							subj = append(subj, "range:"+r)
						}
					}
					return true
				})
				return false
			}
			return true
		})
		pinSubject = strings.Join(subj, ";")
	}
	x.set("rvf_closure", closure)
	x.set("rvf_pin_subject", pinSubject)
	// which client authentication a server profile asks for, and when the stream listener binds the client name
	clientAuth, bind := "unknown", "unknown"
	if fd := x.fn("pkg/netceptor/tlsconfig.go", "TLSServerConfig", "PrepareTLSServerConfig"); fd != nil {
		var parts []string
		assigns := 0
		ast.Inspect(fd, func(n ast.Node) bool {
			switch v := n.(type) {
			case *ast.AssignStmt:
				if len(v.Lhs) == 1 && x.str(v.Lhs[0]) == "tlscfg.ClientAuth" {
					assigns++
				}
			case *ast.SwitchStmt:
				if v.Tag == nil && strings.Contains(x.str(v.Body), "tlscfg.ClientAuth") {
					for _, st := range v.Body.List {
						cc := st.(*ast.CaseClause)
						lbl := "default"
						if len(cc.List) == 1 {
							lbl = x.str(cc.List[0])
						}
						val := "?"
						if len(cc.Body) == 1 {
							if as, ok := cc.Body[0].(*ast.AssignStmt); ok && x.str(as.Lhs[0]) == "tlscfg.ClientAuth" {
								val = strings.TrimPrefix(x.str(as.Rhs[0]), "tls.")
							}
						}
						parts = append(parts, lbl+":"+val)
					}
				}
			}
			return true
		})
		clientAuth = strings.Join(parts, ";") + fmt.Sprintf(";assignments:%d", assigns)
	}
	if fd := x.fn("pkg/netceptor/conn.go", "Netceptor", "listen"); fd != nil {
		ast.Inspect(fd, func(n ast.Node) bool {
			if is, ok := n.(*ast.IfStmt); ok && strings.Contains(x.str(is.Body), "tlscfg.GetConfigForClient = ") && !strings.Contains(x.str(is.Cond), "tlscfg == nil") {
				bind = x.str(is.Cond)
			}
			return true
		})
	}
	// the per-connection verifier that the stream listener installs for the name binding: does it keep the pins of the
	// server profile (by running the profile's own verifier first), or does it replace that verifier with a pin-less one?
	lpins := "unknown"
	if fd := x.fn("pkg/netceptor/conn.go", "Netceptor", "listen"); fd != nil {
		body := x.str(fd.Body)
		switch {
		case strings.Contains(body, "profileVerify := tlscfg.VerifyPeerCertificate") && strings.Contains(body, "if err := profileVerify(rawCerts, verifiedChains); err != nil {") &&
			strings.Contains(body, "return nameVerify(rawCerts, verifiedChains)"):
			lpins = "chained-with-profile-verifier"
		case strings.Contains(body, "clientTLSCfg.VerifyPeerCertificate = ReceptorVerifyFunc(tlscfg, [][]byte{}"):
			lpins = "replaced-without-pins"
		}
	}
	// GetClientTLSConfig works on a copy of the stored profile: the clone comes before anything is written
	ccl := "unknown"
	if fd := x.fn(netceptorGo, "Netceptor", "GetClientTLSConfig"); fd != nil {
		var clonePos, firstWrite token.Pos
		ast.Inspect(fd, func(n ast.Node) bool {
			if as, ok := n.(*ast.AssignStmt); ok && len(as.Lhs) == 1 {
				l := x.str(as.Lhs[0])
				if l == "tlscfg" && x.str(as.Rhs[0]) == "tlscfg.Clone()" && clonePos == 0 {
					clonePos = as.Pos()
				}
				if strings.HasPrefix(l, "tlscfg.") && firstWrite == 0 {
					firstWrite = as.Pos()
				}
			}
			return true
		})
		switch {
		case clonePos != 0 && firstWrite != 0 && clonePos < firstWrite:
			ccl = "clone-before-first-write"
		case clonePos == 0:
			ccl = "no-clone-of-the-stored-profile"
		default:
			ccl = "written-before-clone"
		}
		// what is returned
		ast.Inspect(fd, func(n ast.Node) bool {
			if rs, ok := n.(*ast.ReturnStmt); ok && len(rs.Results) == 2 && x.str(rs.Results[1]) == "nil" && x.str(rs.Results[0]) != "nil" {
				ccl += ";returns:" + x.str(rs.Results[0])
			}
			return true
		})
	}
	x.set("tls_client_cfg_clone", ccl)
	x.set("tls_listener_pins", lpins)
	x.set("tls_server_clientauth", clientAuth)
	x.set("tls_listener_bind_when", bind)
	x.set("rvf_pin_lengths", pins)
	x.set("rvf_steps", steps)
	x.set("rvf_usages", usages)
	x.set("rvf_name_rule", nameRule)
	x.set("rvf_name_compare", nameCmp)
	x.set("tls_client_cfg", clientCfg)
	x.set("tls_listener_expected", listener)
}

// ---------------------------------------------------------------- C07 / C11: runProtocol

func (x *extractor) factsProto() {
	emptyGuard, adNil, pingGuard, costGuard, emptyID, removeAll := false, false, false, false, false, false
	dispatch := "unknown"
	if fd := x.fn(netceptorGo, "Netceptor", "runProtocol"); fd != nil {
		// the `case data := <-ci.ReadChan:` clause
		ast.Inspect(fd, func(n ast.Node) bool {
			cc, ok := n.(*ast.CommClause)
			if !ok || cc.Comm == nil || !strings.Contains(x.str(cc.Comm), "<-ci.ReadChan") {
				return true
			}
			// statements before `msgType := data[0]`
			for _, st := range cc.Body {
				if x.str(st) == "msgType := data[0]" {
					break
				}
				if is, ok := st.(*ast.IfStmt); ok {
					c := strings.ReplaceAll(x.str(is.Cond), " ", "")
					if (c == "len(data)==0" || c == "len(data)<1") && strings.Contains(x.str(is.Body), "continue") {
						emptyGuard = true
					}
				}
			}
			var est, unest []string
			ast.Inspect(cc, func(m ast.Node) bool {
				switch v := m.(type) {
				case *ast.SwitchStmt:
					if x.str(v.Tag) == "msgType" {
						for _, c := range v.Body.List {
							cl := c.(*ast.CaseClause)
							if len(cl.List) == 0 {
								est = append(est, "default")
							} else {
								est = append(est, x.str(cl.List[0]))
							}
						}
					}
				case *ast.IfStmt:
					c := x.str(v.Cond)
					if strings.HasPrefix(c, "msgType == ") {
						unest = append(unest, strings.TrimPrefix(c, "msgType == "))
					}
					// established: non-positive costs refused before handleRoutingUpdate
					if strings.Contains(c, "hasNonPositiveCost") && strings.Contains(x.str(v.Body), "continue") {
						costGuard = true
					}
					if strings.ReplaceAll(c, " ", "") == `remoteNodeID==""` && strings.Contains(x.str(v.Body), "sendAndLogConnectionRejection") {
						emptyID = true
					}
				}
				return true
			})
			dispatch = "established:" + strings.Join(est, ",") + ";unestablished:" + strings.Join(unest, ",")
			return false
		})
		// every select that can leave the establishment block after registration must remove the connection
		good, total := 0, 0
		ast.Inspect(fd, func(n ast.Node) bool {
			sel, ok := n.(*ast.SelectStmt)
			if !ok {
				return true
			}
			direct, ciDone := false, false
			for _, c := range sel.Body.List {
				cc := c.(*ast.CommClause)
				if cc.Comm == nil {
					continue
				}
				cs := x.str(cc.Comm)
				if cs == "initDoneChan <- true" || cs == "s.sendRouteFloodChan <- 0" || cs == "s.updateRoutingTableChan <- 0" {
					direct = true
				}
				if cs == "<-ci.Context.Done()" {
					ciDone = true
				}
			}
			if !direct || !ciDone {
				return true
			}
			for _, c := range sel.Body.List {
				cc := c.(*ast.CommClause)
				if cc.Comm != nil && strings.Contains(x.str(cc.Comm), "Done()") {
					total++
					b := ""
					for _, st := range cc.Body {
						b += x.str(st) + ";"
					}
					if strings.Contains(b, "s.removeConnection(remoteNodeID)") && strings.Contains(b, "return") {
						good++
					}
				}
			}
			return true
		})
		removeAll = total == 6 && good == 6
		x.set("adm_exit_selects", fmt.Sprintf("%d/%d", good, total))
	}
	if fd := x.fn(netceptorGo, "Netceptor", "handleServiceAdvertisement"); fd != nil {
		for _, st := range fd.Body.List {
			if is, ok := st.(*ast.IfStmt); ok && strings.ReplaceAll(x.str(is.Cond), " ", "") == "si.ServiceAdvertisement==nil" &&
				strings.Contains(x.str(is.Body), "return") {
				adNil = true
			}
			if strings.Contains(x.str(st), "si.NodeID") {
				break
			}
		}
	}
	if fd := x.fn(netceptorGo, "Netceptor", "handlePing"); fd != nil && len(fd.Body.List) > 0 {
		if is, ok := fd.Body.List[0].(*ast.IfStmt); ok && strings.ReplaceAll(x.str(is.Cond), " ", "") == `md.FromService=="ping"` &&
			strings.Contains(x.str(is.Body), "return nil") {
			pingGuard = true
		}
	}
	// the helper must really test every cost for <= 0
	if costGuard {
		costGuard = false
		if fd := x.fn(netceptorGo, "routingUpdate", "hasNonPositiveCost"); fd != nil {
			b := strings.ReplaceAll(x.str(fd.Body), " ", "")
			if strings.Contains(b, "range ri.Connections") || strings.Contains(b, "rangeri.Connections") {
				if strings.Contains(b, "<=0") && strings.Contains(b, "returntrue") {
					costGuard = true
				}
			}
		}
	}
	// C11: order of the handshake checks, lock span of the already-connected test + registration
	checks, post, doneExit := "unknown", "unknown", "unknown"
	if fd := x.fn(netceptorGo, "Netceptor", "runProtocol"); fd != nil {
		type mark struct {
			pos  token.Pos
			name string
		}
		var marks []mark
		var posts []string
		ast.Inspect(fd, func(n ast.Node) bool {
			switch v := n.(type) {
			case *ast.IfStmt:
				c := strings.ReplaceAll(x.str(v.Cond), " ", "")
				body := x.str(v.Body)
				rej := strings.Contains(body, "sendAndLogConnectionRejection")
				rem := strings.Contains(body, "s.removeConnection(remoteNodeID)")
				switch {
				case c == `remoteNodeID==""` && rej:
					marks = append(marks, mark{v.Pos(), "empty-id"})
				case c == "remoteNodeID==s.nodeID" && rej:
					marks = append(marks, mark{v.Pos(), "own-id"})
				case c == "!remoteNodeAccepted" && rej && strings.Contains(body, "allowed peers"):
					marks = append(marks, mark{v.Pos(), "allowed-peers"})
				case c == "!remoteNodeAccepted" && rej && strings.Contains(body, "already connected") && strings.Contains(body, "s.connLock.Unlock()"):
					marks = append(marks, mark{v.Pos(), "already-connected"})
				case c == "ri.ForwardingNode!=remoteNodeID" && rej && rem:
					posts = append(posts, x.str(v.Cond)+":remove,reject")
				case c == "ri.NodeID==remoteNodeID":
					posts = append(posts, x.str(v.Cond))
				case c == "remoteEstablished" && rej && rem:
					posts = append(posts, "!ok:remoteEstablished:remove,reject")
				case c == "ok&&remoteCost!=connectionCost" && rej && rem:
					posts = append(posts, "remoteCost != connectionCost:remove,reject")
				}
			case *ast.AssignStmt:
				sx := x.str(v)
				if sx == "remoteNodeCost, ok := bi.nodeCost[remoteNodeID]" {
					marks = append(marks, mark{v.Pos(), "node-cost"})
				}
				if sx == "s.connections[remoteNodeID] = ci" {
					marks = append(marks, mark{v.Pos(), "register"})
				}
			case *ast.ExprStmt:
				sx := x.str(v)
				if sx == "s.connLock.Lock()" {
					marks = append(marks, mark{v.Pos(), "lock"})
				}
				if sx == "s.connLock.Unlock()" {
					// the unlock that follows the registration at the same nesting level
					marks = append(marks, mark{v.Pos(), "unlock"})
				}
			case *ast.CommClause:
				if v.Comm != nil && x.str(v.Comm) == "<-ci.Context.Done()" && len(v.Body) == 2 && strings.Contains(x.str(v.Body[1]), "return nil") {
					// the outermost one is the last in source order
					doneExit = x.str(v.Body[0]) + ";" + x.str(v.Body[1])
				}
			}
			return true
		})
		sort.Slice(marks, func(i, j int) bool { return marks[i].pos < marks[j].pos })
		var ms []string
		for _, m := range marks {
			// keep only the last unlock (after register); the one inside the rejection branch belongs to it
			ms = append(ms, m.name)
		}
		// drop the unlock inside the already-connected branch (it precedes "register")
		var out []string
		for i, m := range ms {
			if m == "unlock" && i+1 < len(ms) && ms[i+1] == "register" {
				continue
			}
			out = append(out, m)
		}
		checks = strings.Join(out, ",")
		post = strings.Join(posts, ";")
	}
	x.set("adm_checks", checks)
	x.set("adm_post_checks", post)
	x.set("adm_done_exit", doneExit)
	x.set("proto_empty_guard", emptyGuard)
	x.set("proto_ad_nil_guard", adNil)
	x.set("proto_ping_guard", pingGuard)
	x.set("proto_cost_guard", costGuard)
	x.set("adm_empty_id_guard", emptyID)
	x.set("adm_remove_on_all_exits", removeAll)
	x.set("proto_dispatch", dispatch)
}

// ---------------------------------------------------------------- C19 / C15: workceptor decision logic

// callPos returns the position of the first call whose function text ends with suffix within n.
func (x *extractor) callPos(n ast.Node, suffix string) token.Pos {
	var pos token.Pos
	ast.Inspect(n, func(m ast.Node) bool {
		if c, ok := m.(*ast.CallExpr); ok && pos == 0 && strings.HasSuffix(x.str(c.Fun), suffix) {
			pos = c.Pos()
		}
		return true
	})
	return pos
}

func (x *extractor) factsWork() {
	const rw, wc, cs = "pkg/workceptor/remote_work.go", "pkg/workceptor/workceptor.go", "pkg/workceptor/controlsvc.go"
	redactTest, allocTest, allocOrder, cfr, users := "unknown", "unknown", "unknown", "unknown", "unknown"
	if fd := x.fn(rw, "remoteUnit", "Status"); fd != nil {
		ast.Inspect(fd, func(n ast.Node) bool {
			if is, ok := n.(*ast.IfStmt); ok && strings.Contains(x.str(is.Body), "keysToDelete = append(keysToDelete, k)") {
				redactTest = x.str(is.Cond)
			}
			return true
		})
		b := x.str(fd.Body)
		if !strings.Contains(b, "range ed.RemoteParams") || !strings.Contains(b, "delete(ed.RemoteParams, keysToDelete[i])") ||
			!strings.Contains(b, "status := rw.UnredactedStatus()") {
			redactTest = "unknown:" + redactTest
		}
	}
	if fd := x.fn(wc, "Workceptor", "AllocateRemoteUnit"); fd != nil {
		type mark struct {
			pos  token.Pos
			name string
		}
		var marks []mark
		ast.Inspect(fd, func(n ast.Node) bool {
			switch v := n.(type) {
			case *ast.IfStmt:
				if strings.Contains(x.str(v.Body), "hasSecrets = true") {
					allocTest = x.str(v.Cond)
					marks = append(marks, mark{v.Pos(), "secrets-test"})
				}
				if x.str(v.Cond) == `hasSecrets && tlsClient == ""` && strings.Contains(x.str(v.Body), "return nil, fmt.Errorf") {
					marks = append(marks, mark{v.Pos(), "refuse-without-tls"})
				}
			case *ast.CallExpr:
				if x.str(v.Fun) == "w.AllocateUnit" {
					marks = append(marks, mark{v.Pos(), "AllocateUnit"})
				}
			}
			return true
		})
		sort.Slice(marks, func(i, j int) bool { return marks[i].pos < marks[j].pos })
		var ms []string
		for _, m := range marks {
			ms = append(ms, m.name)
		}
		allocOrder = strings.Join(ms, ",")
	}
	a, b := "", ""
	if fd := x.fn(wc, "Workceptor", "unitStatusForCFR"); fd != nil {
		if rhs := assignRHS(fd, "status"); rhs != nil {
			a = x.str(rhs)
		}
	}
	if fd := x.fn(wc, "Workceptor", "UnitStatus"); fd != nil {
		ast.Inspect(fd, func(n ast.Node) bool {
			if r, ok := n.(*ast.ReturnStmt); ok && len(r.Results) == 2 && x.str(r.Results[1]) == "nil" {
				b = x.str(r.Results[0])
			}
			return true
		})
	}
	cfr = a + ";" + b
	// who calls UnredactedStatus (other than the Status/UnredactedStatus methods themselves)?
	var callers []string
	for _, rel := range []string{rw, wc, cs, "pkg/workceptor/command.go", "pkg/workceptor/workunitbase.go", "pkg/workceptor/kubernetes.go", "pkg/workceptor/python.go"} {
		f := x.file(rel)
		if f == nil {
			continue
		}
		for _, d := range f.Decls {
			fd, ok := d.(*ast.FuncDecl)
			if !ok || fd.Body == nil || fd.Name.Name == "Status" || fd.Name.Name == "UnredactedStatus" {
				continue
			}
			if x.callPos(fd.Body, ".UnredactedStatus") != 0 {
				callers = append(callers, fd.Name.Name)
			}
		}
	}
	sort.Strings(callers)
	users = strings.Join(callers, ",")
	x.set("redact_test", redactTest)
	x.set("redact_alloc_test", allocTest)
	x.set("redact_alloc_order", allocOrder)
	x.set("redact_cfr_source", cfr)
	x.set("redact_unredacted_users", users)

	gate, should, unix, arms, verify := "unknown", "unknown", "unknown", "unknown", "unknown"
	if fd := x.fn(cs, "workceptorCommand", "processSignature"); fd != nil {
		var parts []string
		for _, st := range fd.Body.List {
			if is, ok := st.(*ast.IfStmt); ok {
				body := x.str(is.Body)
				switch {
				case strings.Contains(body, "did not expect a signature"):
					parts = append(parts, x.str(is.Cond)+":refuse")
				case strings.Contains(body, "c.w.VerifySignature(signature)") && strings.Contains(body, "return err"):
					parts = append(parts, x.str(is.Cond)+":VerifySignature")
				default:
					parts = append(parts, x.str(is.Cond)+":?")
				}
			}
		}
		gate = strings.Join(parts, ";")
	}
	if fd := x.fn(wc, "Workceptor", "ShouldVerifySignature"); fd != nil {
		var parts []string
		for _, st := range fd.Body.List {
			if is, ok := st.(*ast.IfStmt); ok {
				c := x.str(is.Cond)
				body := x.str(is.Body)
				if c == `workType == "remote"` && strings.Contains(body, "return signWork") {
					parts = append(parts, "remote:signWork")
				} else if strings.Contains(body, "return true") {
					parts = append(parts, c)
				}
			}
		}
		should = strings.Join(parts, ";")
	}
	if fd := x.fn(cs, "workceptorCommand", "ControlFunc"); fd != nil {
		ast.Inspect(fd, func(n ast.Node) bool {
			if is, ok := n.(*ast.IfStmt); ok && strings.Contains(x.str(is.Body), "connIsUnix = true") {
				unix = x.str(is.Cond)
			}
			return true
		})
		var parts []string
		ast.Inspect(fd, func(n ast.Node) bool {
			cc, ok := n.(*ast.CaseClause)
			if !ok || len(cc.List) == 0 {
				return true
			}
			var labels []string
			for _, l := range cc.List {
				labels = append(labels, strings.Trim(x.str(l), "\""))
			}
			g := x.callPos(cc, "c.processSignature")
			if g == 0 {
				return true
			}
			var before, after []string
			for _, name := range []string{"findUnit", "AllocateUnit", "AllocateRemoteUnit", "unit.Cancel", "unit.Release", "GetResults"} {
				if p := x.callPos(cc, name); p != 0 {
					short := strings.TrimPrefix(name, "unit.")
					if p < g {
						before = append(before, short)
					} else {
						after = append(after, short)
					}
				}
			}
			s := strings.Join(labels, ",") + ":"
			if len(before) > 0 {
				s += strings.Join(before, ",") + "<"
			}
			s += "gate<" + strings.Join(after, ",")
			parts = append(parts, s)
			return true
		})
		arms = strings.Join(parts, ";")
	}
	if fd := x.fn(wc, "Workceptor", "VerifySignature"); fd != nil {
		var parts []string
		ast.Inspect(fd, func(n ast.Node) bool {
			switch v := n.(type) {
			case *ast.IfStmt:
				c := x.str(v.Cond)
				ret := strings.Contains(x.str(v.Body), "return fmt.Errorf")
				switch {
				case c == `signature == ""` && ret:
					parts = append(parts, "empty")
				case c == `w.VerifyingKey == ""` && ret:
					parts = append(parts, "nokey")
				case c == "!token.Valid" && ret:
					parts = append(parts, "!token.Valid")
				}
			case *ast.CallExpr:
				f := x.str(v.Fun)
				if f == "jwt.ParseWithClaims" {
					parts = append(parts, "ParseWithClaims")
				}
				if f == "claims.VerifyAudience" {
					parts = append(parts, "VerifyAudience("+x.str(v.Args[0])+", "+x.str(v.Args[1])+")")
				}
			}
			return true
		})
		verify = strings.Join(parts, ";")
	}
	// every call VerifySignature makes (a memo or cache of earlier verdicts would show here) and its accepting returns
	vcalls := "unknown"
	if fd := x.fn(wc, "Workceptor", "VerifySignature"); fd != nil {
		var calls []string
		accepts := 0
		ast.Inspect(fd, func(n ast.Node) bool {
			switch v := n.(type) {
			case *ast.CallExpr:
				f := x.str(v.Fun)
				if f != "fmt.Errorf" && f != "err.Error" {
					calls = append(calls, f)
				}
			case *ast.ReturnStmt:
				if len(v.Results) == 1 && x.str(v.Results[0]) == "nil" {
					accepts++
				}
			}
			return true
		})
		vcalls = strings.Join(calls, ";") + fmt.Sprintf(";accepting-returns:%d", accepts)
	}
	x.set("sig_verify_calls", vcalls)
	// the work-type name is looked up as given, by the gate and by the allocation alike
	lookup := func(fn string) string {
		fd := x.fn(wc, "Workceptor", fn)
		if fd == nil || fd.Type.Params == nil || len(fd.Type.Params.List) == 0 || len(fd.Type.Params.List[0].Names) == 0 {
			return fn + ":unknown"
		}
		param := fd.Type.Params.List[0].Names[0].Name
		var idx []string
		modified := false
		ast.Inspect(fd, func(n ast.Node) bool {
			switch v := n.(type) {
			case *ast.IndexExpr:
				if strings.HasSuffix(x.str(v.X), "workTypes") {
					idx = append(idx, x.str(v))
				}
			case *ast.AssignStmt:
				for _, l := range v.Lhs {
					if id, ok := l.(*ast.Ident); ok && id.Name == param {
						modified = true
					}
				}
			case *ast.IncDecStmt:
				if id, ok := v.X.(*ast.Ident); ok && id.Name == param {
					modified = true
				}
			}
			return true
		})
		m := "param-unmodified"
		if modified {
			m = "param-modified"
		}
		return fn + ":" + strings.Join(idx, ",") + "," + m
	}
	x.set("sig_type_lookup", lookup("ShouldVerifySignature")+";"+lookup("AllocateUnit"))
	x.set("sig_gate", gate)
	x.set("sig_should", should)
	x.set("sig_unix", unix)
	x.set("sig_arms", arms)
	x.set("sig_verify", verify)
}

// ---------------------------------------------------------------- C14: status file protocol

// statusEvents renders the order of the file-protocol events in a function body.
func (x *extractor) statusEvents(fd *ast.FuncDecl) string {
	if fd == nil || fd.Body == nil {
		return "unknown"
	}
	var ev []string
	deferred := map[ast.Node]bool{}
	guarded := map[ast.Node]string{}
	ast.Inspect(fd.Body, func(n ast.Node) bool {
		switch v := n.(type) {
		case *ast.DeferStmt:
			ast.Inspect(v, func(m ast.Node) bool {
				if c, ok := m.(*ast.CallExpr); ok {
					deferred[c] = true
				}
				return true
			})
		case *ast.IfStmt:
			cond := x.str(v.Cond)
			if cond != "err != nil" && cond != "serr != nil" && cond != "lerr != nil" {
				ast.Inspect(v.Body, func(m ast.Node) bool {
					if c, ok := m.(*ast.CallExpr); ok {
						guarded[c] = cond
					}
					if r, ok := m.(*ast.ReturnStmt); ok {
						guarded[r] = cond
					}
					return true
				})
			}
		case *ast.CallExpr:
			f := x.str(v.Fun)
			name := ""
			switch {
			case strings.HasSuffix(f, ".lockStatusFile"):
				name = "lock"
			case strings.HasSuffix(f, ".unlockStatusFile"):
				name = "unlock"
			case f == "os.OpenFile" && len(v.Args) == 3:
				name = "open(" + strings.ReplaceAll(x.str(v.Args[1]), " ", "") + ")"
			case f == "os.Open":
				name = "open(RO)"
			case f == "lockedfile.OpenFile" && len(v.Args) == 3:
				name = "lockedfile.OpenFile(" + strings.ReplaceAll(x.str(v.Args[1]), " ", "") + ")"
			case strings.HasSuffix(f, ".loadFromFile"):
				name = "load"
			case strings.HasSuffix(f, ".saveToFile"):
				name = "save"
			case f == "statusFunc":
				name = "apply"
			case strings.HasSuffix(f, ".Seek") && len(v.Args) == 2:
				name = "seek(" + x.str(v.Args[0]) + "," + x.str(v.Args[1]) + ")"
			case strings.HasSuffix(f, ".Truncate") && len(v.Args) == 1:
				name = "truncate(" + x.str(v.Args[0]) + ")"
			case strings.HasSuffix(f, ".UpdateFullStatus"), strings.HasSuffix(f, ".UpdateBasicStatus"),
				strings.HasSuffix(f, ".status.Save"), strings.HasSuffix(f, ".status.Load"):
				args := []string{}
				for _, a := range v.Args {
					if _, isFn := a.(*ast.FuncLit); isFn {
						args = append(args, "func")
					} else {
						args = append(args, x.str(a))
					}
				}
				name = f + "(" + strings.Join(args, ",") + ")"
			case strings.HasSuffix(f, "statusLock.Lock"), strings.HasSuffix(f, "statusLock.Unlock"),
				strings.HasSuffix(f, "statusLock.RLock"), strings.HasSuffix(f, "statusLock.RUnlock"):
				name = f[strings.LastIndex(f, ".")+1:]
			}
			if name != "" {
				if deferred[v] {
					name = "defer-" + name
				}
				if g, ok := guarded[v]; ok {
					name = g + ":" + name
				}
				ev = append(ev, name)
			}
		case *ast.ReturnStmt:
			// returns other than the propagation of an error just obtained
			s := x.str(v)
			if s != "return err" && s != "return nil, err" && s != "return" {
				if g, ok := guarded[v]; ok {
					s = g + ":" + s
				}
				if len(s) > 60 {
					s = s[:60]
				}
				ev = append(ev, s)
			}
		}
		return true
	})
	return strings.Join(ev, ";")
}

func (x *extractor) factsStatus() {
	const wb, su = "pkg/workceptor/workunitbase.go", "pkg/workceptor/stdio_utils.go"
	x.set("st_lock", x.statusEvents(x.fn(wb, "StatusFileData", "lockStatusFile")))
	lockName := "unknown"
	if fd := x.fn(wb, "StatusFileData", "lockStatusFile"); fd != nil {
		if rhs := assignRHS(fd, "lockFileName"); rhs != nil {
			lockName = x.str(rhs)
		}
	}
	x.set("st_lock_name", lockName)
	unlock := "unknown"
	if fd := x.fn(wb, "StatusFileData", "unlockStatusFile"); fd != nil {
		ast.Inspect(fd.Body, func(n ast.Node) bool {
			if c, ok := n.(*ast.CallExpr); ok && strings.HasSuffix(x.str(c.Fun), ".Close") {
				unlock = x.str(c)
			}
			return true
		})
	}
	x.set("st_unlock", unlock)
	x.set("st_save", x.statusEvents(x.fn(wb, "StatusFileData", "Save")))
	x.set("st_load", x.statusEvents(x.fn(wb, "StatusFileData", "Load")))
	x.set("st_update", x.statusEvents(x.fn(wb, "StatusFileData", "UpdateFullStatus")))
	basic, basicCb := x.statusEvents(x.fn(wb, "StatusFileData", "UpdateBasicStatus")), "unknown"
	if fd := x.fn(wb, "StatusFileData", "UpdateBasicStatus"); fd != nil {
		basic = strconv.Itoa(len(fd.Body.List)) + ":" + basic
		ast.Inspect(fd.Body, func(n ast.Node) bool {
			if fl, ok := n.(*ast.FuncLit); ok {
				var parts []string
				for _, s := range fl.Body.List {
					parts = append(parts, x.str(s))
				}
				basicCb = strings.Join(parts, ";")
			}
			return true
		})
	}
	x.set("st_basic", basic)
	x.set("st_basic_cb", basicCb)
	x.set("st_stdout", x.statusEvents(x.fn(su, "", "saveStdoutSize")))
	var w []string
	for _, m := range []string{"Save", "Load", "UpdateFullStatus", "UpdateBasicStatus"} {
		w = append(w, m+"="+x.statusEvents(x.fn(wb, "BaseWorkUnit", m)))
	}
	x.set("st_bwu", w)
	// the JSON written is one Marshal of the whole record + newline, read back with ReadAll + Unmarshal
	io := "unknown"
	if a, b := x.fn(wb, "StatusFileData", "saveToFile"), x.fn(wb, "StatusFileData", "loadFromFile"); a != nil && b != nil {
		io = fmt.Sprint(x.callPos(a, "json.Marshal") != 0, x.callPos(a, ".Write") != 0, x.callPos(b, "io.ReadAll") != 0, x.callPos(b, "json.Unmarshal") != 0)
	}
	x.set("st_io", io)
}

// ---------------------------------------------------------------- C08: control service

func (x *extractor) factsCtl() {
	const cs, st = "pkg/controlsvc/controlsvc.go", "pkg/controlsvc/status.go"
	// requested_fields: comma-ok type assertion?
	checked := false
	if fd := x.fn(st, "StatusCommandType", "InitFromJSON"); fd != nil {
		single := false
		ast.Inspect(fd.Body, func(n ast.Node) bool {
			switch v := n.(type) {
			case *ast.AssignStmt:
				if len(v.Lhs) == 2 && len(v.Rhs) == 1 {
					if ta, ok := v.Rhs[0].(*ast.TypeAssertExpr); ok && x.str(ta.X) == "requestedFields" {
						checked = true
						return false
					}
				}
			case *ast.TypeAssertExpr:
				if x.str(v.X) == "requestedFields" {
					single = true
				}
			}
			return true
		})
		if single {
			checked = false
		}
	}
	x.set("ctl_status_fields_checked", checked)
	// the line reader and the dispatch of RunControlSession
	reader, dispatch := "unknown", "unknown"
	if fd := x.fn(cs, "Server", "RunControlSession"); fd != nil {
		var conds []string
		var disp []string
		ast.Inspect(fd.Body, func(n ast.Node) bool {
			switch v := n.(type) {
			case *ast.IfStmt:
				c := x.str(v.Cond)
				last := ""
				if len(v.Body.List) > 0 {
					last = x.str(v.Body.List[len(v.Body.List)-1])
				}
				switch c {
				case "err == io.EOF", "n == 1", "buf[0] == '\\r'", "buf[0] == '\\n'", "len(cmdBytes) == 0":
					if len(last) > 12 {
						last = "…"
					}
					conds = append(conds, c+":"+last)
				case "cmdBytes[0] == '{'":
					disp = append(disp, c)
				case "err != nil":
					// the JSON-error reply: does it end the handling of this line?
					b := x.str(v.Body)
					if strings.Contains(b, "ERROR: %s") && !strings.Contains(b, "errorNormal") {
						if strings.Contains(b, "continue") {
							disp = append(disp, "json-error:continue")
						} else {
							disp = append(disp, "json-error:falls-through")
						}
					}
				}
			case *ast.CallExpr:
				f := x.str(v.Fun)
				if f == "strings.SplitN" || f == "strings.ToLower" {
					disp = append(disp, x.str(v))
				}
			case *ast.BasicLit:
				if v.Value == `"ERROR: Unknown command\n"` {
					disp = append(disp, "unknown:"+v.Value)
				}
			}
			return true
		})
		reader = strings.Join(conds, ";")
		dispatch = strings.Join(disp, ";")
	}
	x.set("ctl_reader", reader)
	x.set("ctl_dispatch", dispatch)
	// the messages of the command parsers
	var msgs []string
	type ent struct{ rel, recv, name, tag string }
	for _, e := range []ent{
		{"pkg/controlsvc/ping.go", "PingCommandType", "InitFromString", "ping.s"}, {"pkg/controlsvc/ping.go", "PingCommandType", "InitFromJSON", "ping.j"},
		{st, "StatusCommandType", "InitFromString", "status.s"}, {st, "StatusCommandType", "InitFromJSON", "status.j"},
		{"pkg/controlsvc/connect.go", "ConnectCommandType", "InitFromString", "connect.s"}, {"pkg/controlsvc/connect.go", "ConnectCommandType", "InitFromJSON", "connect.j"},
		{"pkg/controlsvc/traceroute.go", "TracerouteCommandType", "InitFromString", "traceroute.s"}, {"pkg/controlsvc/traceroute.go", "TracerouteCommandType", "InitFromJSON", "traceroute.j"},
		{"pkg/workceptor/controlsvc.go", "workceptorCommandType", "InitFromString", "work.s"}, {"pkg/workceptor/controlsvc.go", "workceptorCommandType", "InitFromJSON", "work.j"},
		{"pkg/workceptor/controlsvc.go", "", "strFromMap", "str"}, {"pkg/workceptor/controlsvc.go", "", "intFromMap", "int"},
	} {
		fd := x.fn(e.rel, e.recv, e.name)
		if fd == nil {
			msgs = append(msgs, e.tag+"=unknown")
			continue
		}
		ast.Inspect(fd.Body, func(n ast.Node) bool {
			if c, ok := n.(*ast.CallExpr); ok && x.str(c.Fun) == "fmt.Errorf" && len(c.Args) > 0 {
				if bl, ok := c.Args[0].(*ast.BasicLit); ok {
					s, _ := strconv.Unquote(bl.Value)
					msgs = append(msgs, e.tag+"="+s)
				}
			}
			return true
		})
	}
	x.set("ctl_msgs", msgs)
	// the command table
	table := "unknown"
	if fd := x.fn(cs, "", "New"); fd != nil {
		var names []string
		ast.Inspect(fd.Body, func(n ast.Node) bool {
			if as, ok := n.(*ast.AssignStmt); ok && len(as.Lhs) == 1 {
				if ix, ok := as.Lhs[0].(*ast.IndexExpr); ok && x.str(ix.X) == "s.controlTypes" {
					names = append(names, x.str(ix.Index)+"="+x.str(as.Rhs[0]))
				}
			}
			return true
		})
		table = strings.Join(names, ";")
	}
	x.set("ctl_table", table)
	// reload: the whole ControlFunc runs under one package-level mutex
	serial := false
	if fd := x.fn("pkg/controlsvc/reload.go", "ReloadCommand", "ControlFunc"); fd != nil && len(fd.Body.List) >= 2 {
		a, b := x.str(fd.Body.List[0]), x.str(fd.Body.List[1])
		serial = strings.HasSuffix(a, ".Lock()") && strings.HasPrefix(b, "defer ") && strings.HasSuffix(b, ".Unlock()") &&
			strings.TrimSuffix(a, ".Lock()") == strings.TrimSuffix(strings.TrimPrefix(b, "defer "), ".Unlock()")
	}
	x.set("ctl_reload_serialised", serial)
}

// ---------------------------------------------------------------- C05: results

func (x *extractor) factsResults() {
	const wc, rw, wb = "pkg/workceptor/workceptor.go", "pkg/workceptor/remote_work.go", "pkg/workceptor/workunitbase.go"
	cond, noStdout, bufScope, loop := "unknown", "unknown", "unknown", "unknown"
	if fd := x.fn(wc, "Workceptor", "GetResults"); fd != nil {
		var steps []string
		ast.Inspect(fd.Body, func(n ast.Node) bool {
			switch v := n.(type) {
			case *ast.IfStmt:
				c := x.str(v.Cond)
				b := x.str(v.Body)
				if strings.Contains(b, "Stdout complete") {
					cond = c
				}
				if strings.Contains(b, "without producing any stdout") {
					noStdout = c
				}
			case *ast.CommClause:
				// the read of one chunk: is the buffer made in the same clause as the Read that fills it?
				b := x.str(v)
				if strings.Contains(b, "stdout.Read(buf)") {
					if strings.Contains(b, "buf := make([]byte, utils.NormalBufferSize)") {
						bufScope = "per-read"
					} else {
						bufScope = "shared"
					}
					for _, s := range v.Body {
						t := x.str(s)
						switch {
						case strings.Contains(t, "stdout.Seek(filePos, 0)"):
							steps = append(steps, "seek(filePos)")
						case strings.Contains(t, "stdout.Read(buf)"):
							steps = append(steps, "read")
						case strings.Contains(t, "filePos += int64(n)") && strings.Contains(t, "resultChan <- buf[:n]"):
							steps = append(steps, "n>0:advance,send(buf[:n])")
						}
					}
				}
			}
			return true
		})
		loop = strings.Join(steps, ";")
	}
	x.set("res_end_cond", cond)
	x.set("res_nostdout_cond", noStdout)
	x.set("res_buffer", bufScope)
	x.set("res_loop", loop)
	isc := "unknown"
	if fd := x.fn(wb, "", "IsComplete"); fd != nil && len(fd.Body.List) == 1 {
		isc = x.str(fd.Body.List[0])
	}
	x.set("res_iscomplete", isc)
	// the remote mirror: offset measured inside the loop, right before the request; output appended
	off, app := "unknown", "unknown"
	if fd := x.fn(rw, "remoteUnit", "monitorRemoteStdout"); fd != nil {
		ast.Inspect(fd.Body, func(n ast.Node) bool {
			if fs, ok := n.(*ast.ForStmt); ok && off == "unknown" {
				var marks []string
				for _, s := range fs.Body.List {
					t := x.str(s)
					switch {
					case strings.HasPrefix(t, "diskStdoutSize := "):
						marks = append(marks, t)
					case strings.Contains(t, `workSubmitCmd["startpos"] = `):
						i := strings.Index(t, `workSubmitCmd["startpos"] = `)
						rest := t[i:]
						if j := strings.Index(rest, " if "); j > 0 {
							rest = rest[:j]
						}
						marks = append(marks, strings.Fields(rest)[0]+" = "+strings.Fields(rest)[2])
						if strings.Contains(t, "os.O_CREATE+os.O_APPEND+os.O_WRONLY") && strings.Contains(t, "io.Copy(stdout, reader)") {
							app = "append;io.Copy(stdout, reader)"
						}
					}
				}
				if len(marks) > 0 {
					off = strings.Join(marks, ";")
				}
			}
			return true
		})
	}
	x.set("res_remote_offset", off)
	x.set("res_remote_write", app)
}

// ---------------------------------------------------------------- C13: life cycle

func (x *extractor) factsLife() {
	const cm = "pkg/workceptor/command.go"
	// Cancel: order of the steps and the final write
	order, keeps := "unknown", false
	if fd := x.fn(cm, "commandUnit", "Cancel"); fd != nil {
		var steps []string
		ast.Inspect(fd.Body, func(n ast.Node) bool {
			switch v := n.(type) {
			case *ast.CallExpr:
				f := x.str(v.Fun)
				switch {
				case f == "proc.Signal":
					steps = append(steps, "signal("+x.str(v.Args[0])+")")
				case f == "proc.Wait":
					steps = append(steps, "wait")
				case strings.HasSuffix(f, ".UpdateBasicStatus") && len(v.Args) == 3:
					steps = append(steps, "write("+x.str(v.Args[0])+","+x.str(v.Args[2])+")")
				case strings.HasSuffix(f, ".UpdateFullStatus"):
					b := x.str(v)
					if strings.Contains(b, "WorkStateSucceeded") && strings.Contains(b, "WorkStateCanceled") {
						steps = append(steps, "write-unless-succeeded(WorkStateCanceled)")
						keeps = true
					} else {
						steps = append(steps, "update")
					}
				}
			case *ast.IfStmt:
				c := x.str(v.Cond)
				if strings.Contains(c, "already finished") {
					steps = append(steps, "already-finished:return")
				}
				if c == "!ok || ced.Pid <= 0" {
					steps = append(steps, "no-pid:return")
				}
			}
			return true
		})
		order = strings.Join(steps, ";")
	}
	x.set("life_cancel_order", order)
	x.set("life_cancel_keeps_succeeded", keeps)
	// the runner's writes, in source order
	rw := "unknown"
	if fd := x.fn(cm, "", "commandRunner"); fd != nil {
		var ws []string
		ast.Inspect(fd.Body, func(n ast.Node) bool {
			if c, ok := n.(*ast.CallExpr); ok && x.str(c.Fun) == "status.UpdateBasicStatus" && len(c.Args) == 4 {
				ws = append(ws, x.str(c.Args[1])+":"+x.str(c.Args[3]))
			}
			return true
		})
		rw = strings.Join(ws, ";")
	}
	x.set("life_runner_writes", rw)
	// the daemon's writes before the runner exists
	dw := "unknown"
	if fd := x.fn(cm, "commandUnit", "Start"); fd != nil {
		var ws []string
		ast.Inspect(fd.Body, func(n ast.Node) bool {
			if c, ok := n.(*ast.CallExpr); ok {
				f := x.str(c.Fun)
				if strings.HasSuffix(f, ".UpdateBasicStatus") && len(c.Args) == 3 {
					ws = append(ws, "write("+x.str(c.Args[0])+","+x.str(c.Args[2])+")")
				}
				if f == "cw.runCommand" {
					ws = append(ws, "launch")
				}
			}
			return true
		})
		dw = strings.Join(ws, ";")
	}
	x.set("life_start_order", dw)
	// generateUnitID is called with the index write lock held, and checks the directory
	gen := "unknown"
	if fd := x.fn("pkg/workceptor/workceptor.go", "Workceptor", "AllocateUnit"); fd != nil {
		var ws []string
		for _, s := range fd.Body.List {
			t := x.str(s)
			switch {
			case t == "w.activeUnitsLock.Lock()":
				ws = append(ws, "Lock")
			case t == "defer w.activeUnitsLock.Unlock()":
				ws = append(ws, "defer-Unlock")
			case strings.Contains(t, "w.generateUnitID(false)"):
				ws = append(ws, "generateUnitID(false)")
			case strings.Contains(t, "w.activeUnits[ident] = worker"):
				ws = append(ws, "register")
			}
		}
		gen = strings.Join(ws, ";")
	}
	x.set("life_alloc_order", gen)
}

func (x *extractor) factsLifeRelease() {
	rel := "unknown"
	if fd := x.fn("pkg/workceptor/workunitbase.go", "BaseWorkUnit", "Release"); fd != nil {
		var parts []string
		for _, s := range fd.Body.List {
			switch v := s.(type) {
			case *ast.ForStmt:
				var in []string
				for _, t := range v.Body.List {
					switch w := t.(type) {
					case *ast.AssignStmt:
						if strings.Contains(x.str(w), "RemoveAll") {
							in = append(in, x.str(w.Lhs[0])+" "+w.Tok.String()+" RemoveAll")
						}
					case *ast.IfStmt:
						in = append(in, x.str(w.Cond)+":"+x.str(w.Body.List[len(w.Body.List)-1]))
						if el, ok := w.Else.(*ast.IfStmt); ok {
							b := x.str(el.Body)
							d := x.str(el.Cond) + ":"
							if strings.Contains(b, "attemptsLeft--") {
								d += "attemptsLeft--,"
							}
							if strings.Contains(b, "continue") {
								d += "retry"
							}
							if strings.Contains(b, "return err") {
								d += "|return err"
							}
							in = append(in, d)
						}
					case *ast.BranchStmt:
						in = append(in, x.str(w))
					}
				}
				parts = append(parts, "for{"+strings.Join(in, ";")+"}")
			case *ast.ExprStmt:
				t := x.str(v)
				if strings.HasSuffix(t, "activeUnitsLock.Lock()") {
					parts = append(parts, "Lock")
				}
				if strings.HasPrefix(t, "delete(") {
					parts = append(parts, "delete")
				}
			case *ast.ReturnStmt:
				parts = append(parts, x.str(v))
			case *ast.IfStmt:
				parts = append(parts, "if "+x.str(v.Cond)+":"+x.str(v.Body.List[len(v.Body.List)-1]))
			}
		}
		rel = strings.Join(parts, ";")
	}
	x.set("life_release", rel)
}

// ---------------------------------------------------------------- C17: sockets

func (x *extractor) factsSock() {
	const nc, pcf, cn = "pkg/netceptor/netceptor.go", "pkg/netceptor/packetconn.go", "pkg/netceptor/conn.go"
	// hand-off: what a deliverer does when it sees the socket's context cancelled
	handoff := "unknown"
	if fd := x.fn(nc, "Netceptor", "handleMessageData"); fd != nil {
		ast.Inspect(fd.Body, func(n ast.Node) bool {
			if cc, ok := n.(*ast.CommClause); ok && cc.Comm != nil && x.str(cc.Comm) == "<-pc.context.Done()" {
				var parts []string
				for _, s := range cc.Body {
					parts = append(parts, x.str(s))
				}
				handoff = strings.Join(parts, ";")
			}
			return true
		})
	}
	x.set("sock_handoff_on_cancel", handoff)
	// ReadFrom: every branch watches the context
	rf := "unknown"
	if fd := x.fn(pcf, "PacketConn", "ReadFrom"); fd != nil {
		var sels []string
		ast.Inspect(fd.Body, func(n ast.Node) bool {
			if ss, ok := n.(*ast.SelectStmt); ok {
				var cs []string
				for _, c := range ss.Body.List {
					cc := c.(*ast.CommClause)
					if cc.Comm != nil {
						cs = append(cs, x.str(cc.Comm))
					}
				}
				sels = append(sels, strings.Join(cs, "|"))
			}
			return true
		})
		rf = strings.Join(sels, ";")
	}
	x.set("sock_readfrom_selects", rf)
	// withdrawal of an advertisement: is the table entry checked before it is used?
	adChecked := false
	if fd := x.fn(nc, "Netceptor", "RemoveLocalServiceAdvertisement"); fd != nil {
		b := x.str(fd.Body)
		adChecked = !strings.Contains(b, "n[service].ConnType") && strings.Contains(b, "present && ad != nil")
	}
	x.set("sock_ad_remove_checked", adChecked)
	// Close: unbind, cancel, withdraw
	cl := "unknown"
	if fd := x.fn(pcf, "PacketConn", "Close"); fd != nil {
		var parts []string
		for _, s := range fd.Body.List {
			t := x.str(s)
			switch {
			case strings.HasSuffix(t, "GetListenerLock().Lock()"):
				parts = append(parts, "Lock")
			case strings.HasPrefix(t, "defer ") && strings.HasSuffix(t, "Unlock()"):
				parts = append(parts, "defer-Unlock")
			case strings.HasPrefix(t, "delete(pc.s.GetListenerRegistry(), pc.localService)"):
				parts = append(parts, "unbind")
			case strings.Contains(t, "pc.cancel()"):
				parts = append(parts, "cancel")
			case strings.Contains(t, "RemoveLocalServiceAdvertisement"):
				parts = append(parts, "advertise:withdraw")
			case strings.HasPrefix(t, "return "):
				parts = append(parts, t)
			}
		}
		cl = strings.Join(parts, ";")
	}
	x.set("sock_close", cl)
	// the clean-up goroutine of a successful dial: the cases it waits for, and whether it closes the socket afterwards
	dial := "unknown"
	if fd := x.fn(cn, "Netceptor", "DialContext"); fd != nil {
		ast.Inspect(fd.Body, func(n ast.Node) bool {
			gs, ok := n.(*ast.GoStmt)
			if !ok {
				return true
			}
			fl, ok := gs.Call.Fun.(*ast.FuncLit)
			if !ok || !strings.Contains(x.str(fl.Body), "qc.Context().Done()") {
				return true
			}
			var cs []string
			ast.Inspect(fl.Body, func(m ast.Node) bool {
				if cc, ok := m.(*ast.CommClause); ok && cc.Comm != nil {
					d := x.str(cc.Comm)
					for _, s := range cc.Body {
						if _, isRet := s.(*ast.ReturnStmt); isRet {
							d += ":return"
						}
					}
					cs = append(cs, d)
				}
				return true
			})
			after := ""
			for _, s := range fl.Body.List {
				if es, ok := s.(*ast.ExprStmt); ok {
					after += ";" + x.str(es)
				}
				if as, ok := s.(*ast.AssignStmt); ok {
					after += ";" + x.str(as)
				}
			}
			dial = strings.Join(cs, "|") + after
			return false
		})
	}
	x.set("sock_dial_cleanup", dial)
}

// ---------------------------------------------------------------- C04: crash / restart

func (x *extractor) factsCrash() {
	const wc, cm, rw, wb = "pkg/workceptor/workceptor.go", "pkg/workceptor/command.go", "pkg/workceptor/remote_work.go", "pkg/workceptor/workunitbase.go"
	// is a record replaced atomically (temporary file + rename) or rewritten in place?
	atomic := false
	if fd := x.fn(wb, "StatusFileData", "UpdateFullStatus"); fd != nil {
		b := x.str(fd.Body)
		atomic = strings.Contains(b, "os.Rename(") && !strings.Contains(b, "file.Truncate(0)")
	}
	x.set("crash_rewrite_atomic", atomic)
	// scanForUnit, step by step
	scan := "unknown"
	if fd := x.fn(wc, "Workceptor", "scanForUnit"); fd != nil {
		b := x.str(fd.Body)
		var parts []string
		add := func(cond bool, s string) {
			if cond {
				parts = append(parts, s)
			} else {
				parts = append(parts, "!"+s)
			}
		}
		add(strings.Contains(b, "fi == nil || !fi.IsDir()"), "not-a-dir:return")
		add(strings.Contains(b, "_ = sfd.Load(statusFilename)"), "load-ignoring-errors")
		add(strings.Contains(b, "wt, ok := w.workTypes[sfd.WorkType]") && strings.Contains(b, "newUnknownWorker(w, ident, sfd.WorkType)"), "type-registered:its-worker|unknown-worker")
		add(strings.Contains(b, "os.IsNotExist(err)") && strings.Contains(b, "Status file has disappeared"), "no-status-file:return")
		add(strings.Contains(b, "err := worker.Load()") && strings.Contains(b, `worker.UpdateBasicStatus(WorkStateFailed, fmt.Sprintf("Failed to restart: %s", err), stdoutSize(unitdir))`), "load-error:mark-failed")
		add(strings.Contains(b, "err = worker.Restart()") && strings.Contains(b, "err != nil && !IsPending(err)"), "restart-error:mark-failed")
		add(strings.Contains(b, "w.activeUnits[ident] = worker"), "register")
		scan = strings.Join(parts, ";")
	}
	x.set("crash_scan", scan)
	cr := "unknown"
	if fd := x.fn(cm, "commandUnit", "Restart"); fd != nil {
		var parts []string
		for _, s := range fd.Body.List {
			t := x.str(s)
			switch {
			case strings.HasPrefix(t, "if err := cw.Load()"):
				parts = append(parts, "load:err->return")
			case strings.HasPrefix(t, "if IsComplete(state)"):
				parts = append(parts, "complete:return")
			case strings.HasPrefix(t, "if state == WorkStatePending {") && strings.Contains(t, `cw.UpdateBasicStatus(WorkStateFailed, "Pending at restart"`):
				parts = append(parts, "pending:mark-failed")
			case strings.HasPrefix(t, "if ") && strings.Contains(t, "WorkStatePending"):
				parts = append(parts, "pending-and-more:"+t[:strings.Index(t, "{")])
			case t == "go cw.MonitorLocalStatus()":
				parts = append(parts, "monitor")
			}
		}
		cr = strings.Join(parts, ";")
	}
	x.set("crash_cmd_restart", cr)
	rr := "unknown"
	if fd := x.fn(rw, "remoteUnit", "Restart"); fd != nil {
		b := x.str(fd.Body)
		if strings.Contains(b, "if red.RemoteStarted { return rw.startOrRestart(false) }") && strings.Contains(b, `return fmt.Errorf("remote work had not previously started")`) {
			rr = "started:resume|error"
		} else {
			rr = b
		}
	}
	x.set("crash_remote_restart", rr)
	// startRemoteUnit: the remote unit's ID is stored before the stdin is streamed, "started" after the remote's reply
	bind := "unknown"
	if fd := x.fn(rw, "remoteUnit", "startRemoteUnit"); fd != nil {
		var marks []string
		for _, s := range fd.Body.List {
			t := x.str(s)
			switch {
			case strings.Contains(t, "rw.UpdateFullStatus(") && strings.Contains(t, "ed.RemoteUnitID = red.RemoteUnitID") && !strings.Contains(t, "RemoteStarted"):
				marks = append(marks, "store(RemoteUnitID)")
			case strings.Contains(t, "io.Copy(conn, stdin)"):
				marks = append(marks, "stream-stdin")
			case strings.Contains(t, "rw.UpdateFullStatus(") && strings.Contains(t, "ed.RemoteStarted = true"):
				if strings.Contains(t, "RemoteUnitID") {
					marks = append(marks, "store(RemoteUnitID,RemoteStarted)")
				} else {
					marks = append(marks, "store(RemoteStarted)")
				}
			}
		}
		bind = strings.Join(marks, ";")
	}
	x.set("crash_remote_bind_order", bind)
	// registering a work type rescans the data directory
	reg := false
	if fd := x.fn(wc, "Workceptor", "RegisterWorker"); fd != nil {
		reg = strings.Contains(x.str(fd.Body), "w.scanForUnits()")
	}
	x.set("crash_register_rescans", reg)
}

// ---------------------------------------------------------------- C03: streams

func (x *extractor) factsStream() {
	const br, cn, pcf = "pkg/utils/bridge.go", "pkg/netceptor/conn.go", "pkg/netceptor/packetconn.go"
	loop := "unknown"
	if fd := x.fn(br, "", "bridgeHalf"); fd != nil {
		ast.Inspect(fd.Body, func(n ast.Node) bool {
			fs, ok := n.(*ast.ForStmt)
			if !ok || loop != "unknown" {
				return true
			}
			var parts []string
			for _, s := range fs.Body.List {
				switch v := s.(type) {
				case *ast.AssignStmt:
					if strings.Contains(x.str(v), "c1.Read(buf)") {
						parts = append(parts, "read")
					}
				case *ast.IfStmt:
					c := x.str(v.Cond)
					b := x.str(v.Body)
					switch {
					case c == "err != nil":
						d := "err:"
						if strings.Contains(b, "shouldClose = true") {
							d += "shouldClose"
						}
						if strings.Contains(b, "break") || strings.Contains(b, "return") {
							d += ",leaves-loop"
						}
						parts = append(parts, d)
					case c == "n > 0":
						d := "n>0:"
						if strings.Contains(b, "c2.Write(buf[:n])") {
							d += "write(buf[:n])"
						}
						if strings.Contains(b, "wn != n") {
							d += ",short->shouldClose"
						}
						parts = append(parts, d)
					case c == "shouldClose":
						d := "shouldClose:"
						if strings.Contains(b, "c2.Close()") {
							d += "close(c2)"
						}
						if strings.Contains(b, "return") {
							d += ",return"
						}
						parts = append(parts, d)
					default:
						parts = append(parts, "if "+c)
					}
				default:
					parts = append(parts, x.str(s))
				}
			}
			loop = strings.Join(parts, ";")
			return false
		})
	}
	x.set("bridge_loop", loop)
	both := "unknown"
	if fd := x.fn(br, "", "BridgeConns"); fd != nil {
		b := x.str(fd.Body)
		if strings.Contains(b, "go bridgeHalf(c1, c1Name, c2, c2Name, doneChan, logger)") && strings.Contains(b, "go bridgeHalf(c2, c2Name, c1, c1Name, doneChan, logger)") &&
			strings.Count(b, "<-doneChan") == 2 {
			both = "two-halves;wait-both"
		}
	}
	x.set("bridge_conns", both)
	// the stream end points
	first := "unknown"
	if d, a := x.fn(cn, "Netceptor", "DialContext"), x.fn(cn, "Listener", "acceptLoop"); d != nil && a != nil {
		ds, as := x.str(d.Body), x.str(a.Body)
		var parts []string
		if strings.Contains(ds, "qs.Write([]byte{0})") {
			parts = append(parts, "dial:write(0)")
		}
		if strings.Contains(as, "buf := make([]byte, 1)") && strings.Contains(as, "n, err := qs.Read(buf)") {
			parts = append(parts, "accept:read(1)")
		}
		if strings.Contains(as, "if n == 1 && err == io.EOF { // the dialler closed its writing side right after the initial byte: // the byte is there, the end of the stream is the application's to see err = nil }") ||
			strings.Contains(as, "if n == 1 && err == io.EOF {") {
			parts = append(parts, "byte-with-eof:accepted")
		}
		if strings.Contains(as, "if n != 1 || buf[0] != 0") {
			parts = append(parts, "check(n==1,byte==0)")
		}
		first = strings.Join(parts, ";")
	}
	x.set("stream_first_byte", first)
	cl := "unknown"
	if c1, c2 := x.fn(cn, "Conn", "Close"), x.fn(cn, "Conn", "CloseConnection"); c1 != nil && c2 != nil {
		var parts []string
		if strings.Contains(x.str(c1.Body), "return c.qs.Close()") {
			parts = append(parts, "Close:stream-write-side")
		}
		if strings.Contains(x.str(c2.Body), `return c.qc.CloseWithError(0, "normal close")`) {
			parts = append(parts, "CloseConnection:connection")
		}
		cl = strings.Join(parts, ";")
	}
	x.set("stream_close", cl)
	cp := "unknown"
	if fd := x.fn(pcf, "PacketConn", "ReadFrom"); fd != nil && strings.Contains(x.str(fd.Body), "nCopied := copy(p, m.Data)") {
		cp = "copy(p, m.Data)"
	}
	x.set("stream_readfrom_copy", cp)
	// what quic-go gets as its PacketConn, and which send error that adapter turns into datagram loss
	ad := "unknown"
	if f := x.file(cn); f != nil {
		n := 0
		ast.Inspect(f, func(m ast.Node) bool {
			if kv, ok := m.(*ast.KeyValueExpr); ok && x.str(kv.Key) == "Conn" {
				if x.str(kv.Value) == "quicPacketConn{pc}" {
					n++
				} else if x.str(kv.Value) == "pc" {
					n = -100
				}
			}
			return true
		})
		swallow := ""
		if fd := x.fn(cn, "quicPacketConn", "WriteTo"); fd != nil {
			ast.Inspect(fd.Body, func(m ast.Node) bool {
				if is, ok := m.(*ast.IfStmt); ok && strings.Contains(x.str(is.Body), "return len(p), nil") {
					swallow = x.str(is.Cond)
				}
				return true
			})
		}
		ad = fmt.Sprintf("transports:%d;lost-not-fatal:%s", n, swallow)
	}
	x.set("stream_quic_adapter", ad)
	// forwardMessage: every error it returns once the routing table has named a next hop (the connection to it has
	// gone, or is going) carries the sentinel that the adapter recognises
	gone := "unknown"
	if fd := x.fn("pkg/netceptor/netceptor.go", "Netceptor", "forwardMessage"); fd != nil {
		var parts []string
		seenConnLookup := false
		ast.Inspect(fd.Body, func(m ast.Node) bool {
			switch v := m.(type) {
			case *ast.AssignStmt:
				if strings.Contains(x.str(v), "s.connections[nextHop]") {
					seenConnLookup = true
				}
			case *ast.ReturnStmt:
				if !seenConnLookup || len(v.Results) != 1 {
					return true
				}
				r := x.str(v.Results[0])
				switch {
				case r == "nil" || r == "err":
				case r == "ErrNoConnectionToNextHop":
					parts = append(parts, "sentinel")
				case strings.Contains(r, "%w") && strings.HasSuffix(r, "ErrNoConnectionToNextHop)"):
					parts = append(parts, "wraps-sentinel")
				default:
					parts = append(parts, "other:"+r)
				}
			}
			return true
		})
		gone = strings.Join(parts, ";")
	}
	x.set("stream_link_gone_errors", gone)
}
