import Receptor.Proofs.Routing
import Receptor.Proofs.RoutingTerm
import Receptor.Proofs.FloodNet
import Receptor.Model.Aging
import Receptor.Generated.Facts
/-!
# C01 — routing converges to least-cost, loop-free next hops

Algorithm layer (`updateRoutingTable`): full-strength theorems for every graph and every pop
schedule.  Protocol layer: `flood_round_truth_partial` (one flooding round from a quiescent
state, simplified setting — see the file header of `Receptor.Proofs.FloodNet`).
-/
namespace Receptor.Routing

/-- **Tie (translator)**: the relaxation test is a strict `<` on `cost[node] + edgeCost`, an
improved neighbour is (re-)inserted into the queue, labels start at 0 / +∞ over the keys of
the known-connections map, the next hop is found by walking `prev` until the node whose
predecessor is the local node, and unreachable destinations get no entry. -/
theorem C01_facts :
    Receptor.Facts.rt_relax = "pathCost := cost[node] + edgeCost;pathCost < cost[neighbor]"
    ∧ Receptor.Facts.rt_improve = "cost[neighbor] = pathCost;prev[neighbor] = node;Q.Insert(neighbor, pathCost)"
    ∧ Receptor.Facts.rt_init = "self:0.0;other:math.MaxFloat64;prev:\"\";keys:s.knownConnectionCosts"
    ∧ Receptor.Facts.rt_walk = "prev[p] == s.nodeID:s.routingTable[dest] = p;prev[p] == \"\":break;p = prev[p]"
    ∧ Receptor.Facts.rt_costs_published = "s.routingPathCosts = cost" := by decide

/-- **lc_correct.** For every graph and every order in which queued nodes are popped, when
the queue is empty every label is the least weight of a walk from the source and exactly the
reachable key nodes are labelled. -/
theorem lc_correct_every_schedule {g : Graph} {src : Node} {keys : List Node} {s : St}
    (hr : Reach g (initSt src keys) s) (hq : s.queue = []) :
    (∀ v c, s.cost v = some c → IsDist g src v c) ∧ (∀ v, s.cost v = none → ∀ W, ¬ Path g src v W) :=
  lc_correct hr hq

/-- **lc_terminates_every_schedule.** For every graph with finitely many key nodes the loop stops whatever the
order of pops: "one more pop" is a well-founded relation (no infinite run exists).  Weights are natural numbers
(zero weights and cycles included). -/
theorem lc_terminates_every_schedule (g : Graph) (ks : List Node) (hks : ∀ v, g.isKey v = true → v ∈ ks) :
    WellFounded (fun s' s : St => ∃ u, u ∈ s.queue ∧ s' = popRelax g s u) :=
  lc_terminates g ks hks

/-- **lc_completes.** … and therefore from every state the computation can be run to the end: a state with an
empty queue is reachable (to which `lc_correct_every_schedule` then applies). -/
theorem lc_completes (g : Graph) (ks : List Node) (hks : ∀ v, g.isKey v = true → v ∈ ks) (init : St) :
    ∀ s, Reach g init s → ∃ s', Reach g init s' ∧ s'.queue = [] := by
  intro s
  induction s using (lc_terminates g ks hks).induction with
  | _ s ih =>
    intro hr
    cases hq : s.queue with
    | nil => exact ⟨s, hr, hq⟩
    | cons u rest =>
      have hu : u ∈ s.queue := by rw [hq]; simp
      exact ih (popRelax g s u) ⟨u, hu, rfl⟩ (Reach.step hr hu)

/-- the reported path cost is *the* least cost: any two least weights agree -/
theorem isDist_unique {g : Graph} {a b : Node} {c c' : Nat} (h : IsDist g a b c) (h' : IsDist g a b c') : c = c' := by
  have := h.2 c' h'.1
  have := h'.2 c h.1
  omega

/-- **nexthop_valid.** The table entry for `d` is a directly connected neighbour `h` lying on a
least-cost path: `dist src d = w(src,h) + dist h d`. -/
theorem nexthop_valid {g : Graph} {src : Node} {keys : List Node} {s : St}
    (hr : Reach g (initSt src keys) s) (hq : s.queue = [])
    (hkeys : ∀ v c, s.cost v = some c → v ≠ src → g.isKey v = true)
    (fuel : Nat) (d h : Node) (c : Nat) (hn : nextHop s src fuel d = some h) (hc : s.cost d = some c) (hd : d ≠ src) :
    ∃ w0 R, (h, w0) ∈ g.adj src ∧ IsDist g src d c ∧ IsDist g h d R ∧ c = w0 + R :=
  nextHop_on_shortest hr hq hkeys fuel d h c hn hc hd

/-- **table_dom (reachable ⇒ entry).** With positive costs every reachable destination gets a
table entry. -/
theorem table_has_reachable {g : Graph} {src : Node} {keys : List Node} {s : St}
    (hr : Reach g (initSt src keys) s) (hq : s.queue = []) (hpos : Positive g)
    (hkeys : ∀ v c, s.cost v = some c → v ≠ src → g.isKey v = true)
    (d : Node) (W : Nat) (hp : Path g src d W) (hd : d ≠ src) :
    ∃ c h, s.cost d = some c ∧ nextHop s src (c + 1) d = some h := by
  have hi := inv_reach (inv_init g src keys) hr
  cases hc : s.cost d with
  | none => exact absurd hp ((lc_correct hr hq).2 d hc W)
  | some c =>
    obtain ⟨h, hh⟩ := nextHop_total hi hq hpos hkeys c d hc hd
    exact ⟨c, h, rfl, hh⟩

/-- **table_dom (unreachable ⇒ dropped).** A destination that is not reachable in the known
graph gets no table entry, whatever the fuel. -/
theorem table_drops_unreachable {g : Graph} {src : Node} {keys : List Node} {s : St}
    (hr : Reach g (initSt src keys) s) (hq : s.queue = [])
    (d : Node) (hun : ∀ W, ¬ Path g src d W) (fuel : Nat) : nextHop s src fuel d = none := by
  have hpc := prevCost_reach (prevCost_init src keys) hr
  cases hc : s.cost d with
  | none => exact nextHop_none_of_unlabelled hpc src d hc fuel
  | some c => exact absurd ((lc_correct hr hq).1 d c hc).1 (hun c)

/-- follow next hops toward `d`, starting at `u`, for at most `fuel` hops -/
def follow (tbl : Node → Option Node) (d : Node) : Nat → Node → List Node
  | 0, _ => []
  | f + 1, u => if u = d then [d] else
      match tbl u with
      | none => [u]
      | some h => u :: follow tbl d f h

theorem follow_le (tbl : Node → Option Node) (d : Node) (φ : Node → Nat)
    (hφ : ∀ u h, tbl u = some h → u ≠ d → φ h < φ u) :
    ∀ (f : Nat) (u x : Node), x ∈ follow tbl d f u → φ x ≤ φ u := by
  intro f
  induction f with
  | zero => intro u x h; simp [follow] at h
  | succ n ih =>
    intro u x h
    simp only [follow] at h
    split at h
    · rename_i hud; simp at h; subst h; subst hud; exact Nat.le_refl _
    · split at h
      · simp at h; subst h; exact Nat.le_refl _
      · rename_i hne _ h' hh
        simp at h
        cases h with
        | inl h => subst h; exact Nat.le_refl _
        | inr h => have := ih _ _ h; have := hφ u h' hh hne; omega

/-- **walk_loop_free.** If along next hops toward `d` some potential strictly decreases (for
tables computed from one common graph that potential is the distance to `d`, see
`hop_decreases_distance`), following next hops never visits a node twice. -/
theorem walk_loop_free (tbl : Node → Option Node) (d : Node) (φ : Node → Nat)
    (hφ : ∀ u h, tbl u = some h → u ≠ d → φ h < φ u) :
    ∀ (f : Nat) (u : Node), (follow tbl d f u).Nodup := by
  intro f u
  apply nodup_of_decreasing φ
  induction f generalizing u with
  | zero => simp [follow]
  | succ n ih =>
    simp only [follow]
    split
    · simp
    · split
      · simp
      · rename_i hne _ h hh
        refine List.Pairwise.cons ?_ (ih h)
        intro x hx
        have h1 := follow_le tbl d φ hφ n h x hx
        have h2 := hφ u h hh hne
        omega

/-- **hop_decreases_distance.** With positive costs the next hop toward `d` is strictly closer
to `d` than the node itself (in the graph the table was computed from). -/
theorem hop_decreases_distance {g : Graph} {src : Node} {keys : List Node} {s : St}
    (hr : Reach g (initSt src keys) s) (hq : s.queue = []) (hpos : Positive g)
    (hkeys : ∀ v c, s.cost v = some c → v ≠ src → g.isKey v = true)
    (fuel : Nat) (d h : Node) (c : Nat) (hn : nextHop s src fuel d = some h) (hc : s.cost d = some c) (hd : d ≠ src) :
    ∃ R, IsDist g h d R ∧ IsDist g src d c ∧ R < c := by
  obtain ⟨w0, R, hadj, hsd, hhd, heq⟩ := nexthop_valid hr hq hkeys fuel d h c hn hc hd
  exact ⟨R, hhd, hsd, by have := hpos src h w0 hadj; omega⟩

/-- Non-vacuity: the triangle a–b (1), b–c (1), a–c (5): from a, c costs 2 via b. -/
def exGraph : Graph :=
  { adj := fun v => if v = [1] then [([2], 1), ([3], 5)] else if v = [2] then [([1], 1), ([3], 1)]
                    else if v = [3] then [([2], 1), ([1], 5)] else [],
    isKey := fun v => v = [1] ∨ v = [2] ∨ v = [3] }

example : ∃ s, runFifo exGraph 10 (initSt [1] [[1], [2], [3]]) = some s ∧ s.cost [3] = some 2
    ∧ nextHop s [1] 3 [3] = some [2] := by
  refine ⟨_, rfl, by decide, by decide⟩

end Receptor.Routing

namespace Receptor.FloodNet

/-- **flood_round_truth_partial.** Protocol layer, simplified setting (static symmetric
irreflexive topology, a single epoch, no suspected-duplicate notices, no link events during
the round): from any quiescent state satisfying `Start` (nobody knows a stamp from the
future; seen/current IDs are accounted for), after node `m` has originated at least once and
the network is quiescent again, every other node of `m`'s component holds exactly `m`'s true
adjacency — for every interleaving of originations and deliveries and every delivery order on
every link (bag semantics).  Not yet covered (hence `_partial`): lexicographic (epoch,
sequence) stamps with restarts, notices, and preservation of `Start` by link up/down/expire
events; see DESIGN.md §5 C01. -/
theorem flood_round_truth_partial {adj : Node → Adj} (ht : Topo adj) {σ0 σ : Net} (h0 : Start adj σ0)
    (hr : Reach adj σ0 σ) (hquiet : ∀ a b, σ.q a b = [])
    (m : Node) (horig : σ0.seq m < σ.seq m) (n : Node) (hconn : Conn adj m n) (hnm : n ≠ m) :
    (σ.st n).known m = some (adj m) :=
  flood_round_truth ht h0 hr hquiet m horig n hconn hnm

/-- a quiescent state reached from a `Start` state is again a `Start` state — for whatever topology comes next -/
theorem start_of_reach_quiet {adj adj' : Node → Adj} (ht : Topo adj) {σ0 σ : Net} (h0 : Start adj σ0)
    (hr : Reach adj σ0 σ) (hq : ∀ a b, σ.q a b = []) : Start adj' σ := by
  have hg := good_reach ht (good_start h0) hr
  exact ⟨hq, hg.noFuture, hg.seenUsed, hg.curUsed, hg.seenCur⟩

/-- a history of phases: in each phase the topology is fixed (links came up or went down between phases, while
nothing was in flight), any number of originations and deliveries happen in any order, and the phase ends quiescent -/
inductive Phases : Net → List (Node → Adj) → Net → Prop
  | nil (σ : Net) : Phases σ [] σ
  | cons {σ0 σ1 σ2 : Net} {adj : Node → Adj} {rest : List (Node → Adj)} :
      Topo adj → Reach adj σ0 σ1 → (∀ a b, σ1.q a b = []) → Phases σ1 rest σ2 → Phases σ0 (adj :: rest) σ2

theorem start_of_phases {adjs : List (Node → Adj)} {adj0 adj' : Node → Adj} {σ0 σ : Net} (h0 : Start adj0 σ0)
    (hp : Phases σ0 adjs σ) : Start adj' σ := by
  induction hp generalizing adj0 with
  | nil σ => exact ⟨h0.quiet, h0.noFuture, h0.seenUsed, h0.curUsed, h0.seenCur⟩
  | cons ht hr hq _ ih =>
    have h1 : Start adj0 _ := start_of_reach_quiet ht ⟨h0.quiet, h0.noFuture, h0.seenUsed, h0.curUsed, h0.seenCur⟩ hr hq
    exact ih h1

/-- **flood_truth_after_changes.** The topology may change any number of times (between quiescent moments): after the
last change, once `m` has originated again and the network is quiescent, every other node of `m`'s component *in the
final topology* holds exactly `m`'s final adjacency.  (`_partial`: still one epoch, and links change only while no
update is in flight.) -/
theorem flood_truth_after_changes_partial {adjs : List (Node → Adj)} {adj0 adjLast : Node → Adj} {σ0 σ1 σ : Net}
    (h0 : Start adj0 σ0) (hp : Phases σ0 adjs σ1) (ht : Topo adjLast) (hr : Reach adjLast σ1 σ)
    (hquiet : ∀ a b, σ.q a b = []) (m : Node) (horig : σ1.seq m < σ.seq m) (n : Node)
    (hconn : Conn adjLast m n) (hnm : n ≠ m) : (σ.st n).known m = some (adjLast m) :=
  flood_round_truth ht (start_of_phases (adj' := adjLast) h0 hp) hr hquiet m horig n hconn hnm

end Receptor.FloodNet

namespace Receptor.Aging

/-- **Tie (translator)**: `protoReader` continues on `ErrTimeout` before it stamps
`lastReceivedData`, and the monitor cancels when `time.Since(last) > maxConnectionIdleTime`. -/
theorem C01_aging_facts : Receptor.Facts.aging_stamp_after_timeout_continue = true
    ∧ Receptor.Facts.aging_cancel_test = "time.Since(connInfo.lastReceivedData) > s.maxConnectionIdleTime" := by decide

theorem run_no_data_last (idle : Nat) : ∀ (evs : List Ev) (s : Sess), (∀ e ∈ evs, isData e = false) →
    (run false idle s evs).last = s.last := by
  intro evs
  induction evs with
  | nil => intro s _; rfl
  | cons e es ih =>
    intro s h
    simp only [run, List.foldl_cons]
    have h1 : (step false idle s e).last = s.last := by
      cases e with
      | data t => have := h (.data t) (by simp); simp [isData] at this
      | timeout t => simp only [step]; split <;> simp
      | check t => simp only [step]; split <;> rfl
    have := ih (step false idle s e) (fun x hx => h x (by simp [hx]))
    simp only [run] at this
    rw [this, h1]

theorem cancelled_stays (b : Bool) (idle : Nat) : ∀ (evs : List Ev) (s : Sess), s.cancelled = true →
    (run b idle s evs).cancelled = true := by
  intro evs
  induction evs with
  | nil => intro s h; exact h
  | cons e es ih =>
    intro s h
    simp only [run, List.foldl_cons]
    apply ih
    cases e <;> simp only [step, h, if_true]
    split <;> simp [h]

/-- **silent_link_expires.** A session that stays open but carries nothing — only receive
timeouts, however many — is cancelled by the first check that comes later than the idle limit
after the last datagram. -/
theorem silent_link_expires (idle : Nat) (s : Sess) (quiet : List Ev) (t : Nat) (rest : List Ev)
    (hq : ∀ e ∈ quiet, isData e = false) (ht : t - s.last > idle) :
    (run false idle s (quiet ++ .check t :: rest)).cancelled = true := by
  simp only [run, List.foldl_append, List.foldl_cons]
  apply cancelled_stays
  have hl := run_no_data_last idle quiet s hq
  simp only [run] at hl
  simp only [step, hl, ht, if_true]

/-- a session that receives a datagram at least every `idle` ticks is never cancelled by a
check made within `idle` ticks of the last datagram -/
theorem live_link_kept (idle : Nat) (s : Sess) (t : Nat) (hc : s.cancelled = false) (h : t - s.last ≤ idle) :
    (step false idle s (.check t)).cancelled = false := by
  simp only [step]
  have : ¬ (t - s.last > idle) := by omega
  simp [this, hc]

/-- Witness of what the stamp-on-timeout variant would do: the silent session is never cancelled. -/
example : (run true 10 { last := 0 } [.timeout 5, .timeout 10, .timeout 15, .check 20]).cancelled = false := by decide
example : (run false 10 { last := 0 } [.timeout 5, .timeout 10, .timeout 15, .check 20]).cancelled = true := by decide

end Receptor.Aging
