#!/bin/bash
# seed_run.sh <patch.diff> <ID> [<ID>...]: apply a seeded change to /repo, run the quick checks, undo it.
P="$1"; shift
cd /repo && git apply "$P" || { echo "patch does not apply"; exit 2; }
for id in "$@"; do
  (cd /verif && ./check $id --tier ${TIER:-quick} 2>/dev/null | grep -E "VIOLATION|KNOWN|exit") 
done
cd /repo && git checkout -- . && git status --short | grep -v '^??'
