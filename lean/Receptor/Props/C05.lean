import Receptor.Proofs.Results
import Receptor.Generated.Facts
/-!
# C05 — work results stream exactly the output from any offset and end when complete
-/
namespace Receptor.Results

/-- **Tie (translator)**: `GetResults` ends when the state is final (succeeded, failed or cancelled)
and the position has reached the recorded size; each read seeks to `filePos`, fills a buffer made for
that read and sends exactly the bytes read; `monitorRemoteStdout` measures the local size inside its
loop right before each request, asks from that offset and appends what arrives. -/
theorem C05_facts :
    Receptor.Facts.res_end_cond = "(IsComplete(unitStatus.State) || unitStatus.State == WorkStateCanceled) && filePos >= unitStatus.StdoutSize"
    ∧ Receptor.Facts.res_iscomplete = "return workState == WorkStateSucceeded || workState == WorkStateFailed"
    ∧ Receptor.Facts.res_nostdout_cond = "IsComplete(state) || state == WorkStateCanceled"
    ∧ Receptor.Facts.res_buffer = "per-read"
    ∧ Receptor.Facts.res_loop = "seek(filePos);read;n>0:advance,send(buf[:n])"
    ∧ Receptor.Facts.res_remote_offset = "diskStdoutSize := stdoutSize(rw.UnitDir());workSubmitCmd[\"startpos\"] = diskStdoutSize"
    ∧ Receptor.Facts.res_remote_write = "append;io.Copy(stdout, reader)"
    ∧ Receptor.Facts.res_remote_sign = "per-request:1;outside-the-loop:0" := by decide +kernel

/-- **sent_is_exact_slice.** For every interleaving of the unit's writes, status rewrites and the
reader's reads and checks, and every start offset, what has been sent so far is exactly the
bytes of the output from the start offset up to the reader's position: in order, no gap, no
repeat.  (The file only grows, so this is a prefix of what will have been sent in the end.) -/
theorem run_start (T : Nat → Bool) : ∀ (evs : List Ev) (s : St), (run T s evs).start = s.start := by
  intro evs
  induction evs with
  | nil => intro s; rfl
  | cons e rest ih =>
    intro s
    show (run T (step T s e) rest).start = s.start
    rw [ih]
    cases e <;> simp only [step] <;> repeat' split
    all_goals rfl

/-- **sent_is_exact_slice.** For every interleaving of the unit's writes, status rewrites and the
reader's reads and checks, and every start offset, what has been sent so far is exactly the
bytes of the output from the start offset up to the reader's position: in order, no gap, no
repeat.  (The file only grows, so this is a prefix of what will have been sent in the end.) -/
theorem sent_is_exact_slice (T : Nat → Bool) (start : Nat) (evs : List Ev) :
    (run T (init start) evs).sent = ((run T (init start) evs).file.drop start).take ((run T (init start) evs).pos - start)
    ∧ start ≤ (run T (init start) evs).pos := by
  have h := inv_run T evs (init start) (inv_init start)
  have hs : (run T (init start) evs).start = start := run_start T evs (init start)
  have h1 := h.sent
  have h2 := h.lo
  rw [hs] at h1 h2
  exact ⟨h1, h2⟩

/-- **never_ends_early.** If the reader takes for terminal only states that are final, then whenever
the stream has ended the unit has finished and everything it ever wrote from the start offset on
has been sent: the stream never ends before the output is complete. -/
theorem never_ends_early (T : Nat → Bool) (hT : ∀ st, T st = true → finished st = true) (start : Nat) (evs : List Ev)
    (he : (run T (init start) evs).ended = true) :
    finished (run T (init start) evs).state = true ∧ (run T (init start) evs).sent = (run T (init start) evs).file.drop start := by
  have h := inv_run T evs (init start) (inv_init start)
  have hk := endok_run T hT evs (init start) ⟨by simp [init]⟩
  have hs := run_start T evs (init start)
  obtain ⟨ht, hp⟩ := hk.ok he
  have hf := hT _ ht
  refine ⟨hf, ?_⟩
  have hrec := h.fin hf
  rw [h.sent, hs]
  show List.take ((run T (init start) evs).pos - start) (List.drop start (run T (init start) evs).file) = _
  apply List.take_of_length_le
  simp only [List.length_drop]
  omega

/-! ### It does end (fair reader) -/

def reads (k n : Nat) : List Ev := List.replicate n (.read k)

theorem step_read_progress (T : Nat → Bool) (s : St) (k : Nat) (h1 : s.ended = false) (h2 : s.atEof = false) (hk : k ≠ 0)
    (hlt : s.pos < s.file.length) :
    step T s (.read k) = { s with sent := s.sent ++ (s.file.drop s.pos).take k, pos := s.pos + ((s.file.drop s.pos).take k).length } := by
  simp [step, h1, h2, hk, hlt]

theorem step_read_eof (T : Nat → Bool) (s : St) (k : Nat) (h1 : s.ended = false) (h2 : s.atEof = false) (hk : k ≠ 0)
    (hge : ¬ s.pos < s.file.length) : step T s (.read k) = { s with atEof := true } := by
  simp [step, h1, h2, hk, hge]

theorem step_read_idle (T : Nat → Bool) (s : St) (k : Nat) (h : s.atEof = true) : step T s (.read k) = s := by
  simp [step, h]

theorem run_reads_idle (T : Nat → Bool) (k : Nat) : ∀ (n : Nat) (t : St), t.atEof = true → run T t (reads k n) = t := by
  intro n
  induction n with
  | zero => intro t _; rfl
  | succ n ih =>
    intro t ht
    show run T (step T t (.read k)) (reads k n) = t
    rw [step_read_idle T t k ht]; exact ih t ht

/-- where enough reads lead: end-of-file seen, nothing else changed, the position at the end of the file -/
def AtEnd (s s' : St) : Prop :=
  s'.atEof = true ∧ s'.ended = false ∧ s'.state = s.state ∧ s'.recorded = s.recorded ∧ s'.file = s.file ∧ s.file.length ≤ s'.pos

theorem reads_reach_eof (T : Nat → Bool) (k : Nat) (hk : k ≠ 0) : ∀ (m : Nat) (s : St), s.file.length - s.pos ≤ m →
    s.ended = false → s.atEof = false → AtEnd s (run T s (reads k (m + 1))) := by
  intro m
  induction m with
  | zero =>
    intro s hm he ha
    have hge : ¬ s.pos < s.file.length := by omega
    show AtEnd s (step T s (.read k))
    rw [step_read_eof T s k he ha hk hge]
    exact ⟨rfl, he, rfl, rfl, rfl, by simp only; omega⟩
  | succ m ih =>
    intro s hm he ha
    show AtEnd s (run T (step T s (.read k)) (reads k (m + 1)))
    by_cases hlt : s.pos < s.file.length
    · rw [step_read_progress T s k he ha hk hlt]
      have hlen : 0 < ((s.file.drop s.pos).take k).length := by simp; omega
      have := ih { s with sent := s.sent ++ (s.file.drop s.pos).take k, pos := s.pos + ((s.file.drop s.pos).take k).length }
        (by simp only; omega) he ha
      exact this
    · rw [step_read_eof T s k he ha hk hlt, run_reads_idle T k _ _ rfl]
      exact ⟨rfl, he, rfl, rfl, rfl, by simp only; omega⟩

theorem run_append (T : Nat → Bool) (a b : List Ev) (t : St) : run T t (a ++ b) = run T (run T t a) b := by
  simp [run, List.foldl_append]

/-- **ends_once_finished.** If the reader takes every final state for terminal, then once the unit has
finished, a reader that is not yet done and keeps running ends the stream: one check, enough reads,
one more check. -/
theorem ends_once_finished (T : Nat → Bool) (hT : ∀ st, finished st = true → T st = true) (k : Nat) (hk : k ≠ 0)
    (s : St) (hi : Inv s) (hf : finished s.state = true) (he : s.ended = false) :
    (run T s ([.check] ++ reads k (s.file.length - s.pos + 1) ++ [.check])).ended = true := by
  have hrec := hi.fin hf
  have hTs := hT _ hf
  rw [run_append, run_append]
  show (step T (run T (step T s .check) (reads k (s.file.length - s.pos + 1))) .check).ended = true
  -- the first check either ends the stream or clears the end-of-file flag
  by_cases ha : s.atEof = true
  · by_cases hp : s.recorded ≤ s.pos
    · -- it ends right away; nothing changes afterwards
      have e1 : step T s .check = { s with ended := true } := by simp [step, he, ha, hTs, hp]
      rw [e1]
      have idle : ∀ (n : Nat) (t : St), t.ended = true → run T t (reads k n) = t := by
        intro n
        induction n with
        | zero => intro t _; rfl
        | succ n ih =>
          intro t ht
          show run T (step T t (.read k)) (reads k n) = t
          have : step T t (.read k) = t := by simp [step, ht]
          rw [this]; exact ih t ht
      rw [idle _ _ rfl]
      simp [step]
    · have e1 : step T s .check = { s with atEof := false } := by simp [step, he, ha, hp]
      rw [e1]
      obtain ⟨a, b, c, d, e, f⟩ := reads_reach_eof T k hk (s.file.length - s.pos) { s with atEof := false } (by simp only; omega) he rfl
      simp only at c d e f
      have hp' : (run T { s with atEof := false } (reads k (s.file.length - s.pos + 1))).recorded ≤ (run T { s with atEof := false } (reads k (s.file.length - s.pos + 1))).pos := by
        rw [d]; exact Nat.le_trans (Nat.le_of_eq hrec) f
      simp [step, a, b, c, hTs, hp']
  · have ha' : s.atEof = false := by simpa using ha
    have e1 : step T s .check = s := by simp [step, he, ha']
    rw [e1]
    obtain ⟨a, b, c, d, e, f⟩ := reads_reach_eof T k hk (s.file.length - s.pos) s (Nat.le_refl _) he ha'
    have hp' : (run T s (reads k (s.file.length - s.pos + 1))).recorded ≤ (run T s (reads k (s.file.length - s.pos + 1))).pos := by
      rw [d, hrec]; exact f
    simp [step, a, b, c, hTs, hp']

/-- **cancelled_never_ends.** With the completion test the source had (succeeded or failed only), the
results of a cancelled unit never end, whatever the reader does — the defect repaired in /repo. -/
theorem cancelled_never_ends (s : St) (hs : s.state = 4) (evs : List Ev) :
    (run isComplete s evs).ended = s.ended ∧ (run isComplete s evs).state = 4 := by
  induction evs generalizing s with
  | nil => exact ⟨rfl, hs⟩
  | cons e rest ih =>
    show (run isComplete (step isComplete s e) rest).ended = s.ended ∧ _
    have key : (step isComplete s e).ended = s.ended ∧ (step isComplete s e).state = 4 := by
      cases e <;> simp only [step, hs, finished, isComplete] <;> repeat' split
      all_goals simp_all
    obtain ⟨k1, k2⟩ := key
    have := ih (step isComplete s e) k2
    rw [k1] at this
    exact this

/-! ### Remote units -/

/-- **mirror_prefix.** For every history of remote output and results requests cut short at arbitrary
points, the local copy is a prefix of the remote output. -/
theorem mirror_prefix (evs : List MEv) : ∀ (m : Mirror), m.loc <+: m.remote → (mrun m evs).loc <+: (mrun m evs).remote := by
  induction evs with
  | nil => intro m h; exact h
  | cons e rest ih =>
    intro m h
    apply ih
    cases e with
    | grow bs =>
      obtain ⟨t, ht⟩ := h
      exact ⟨t ++ bs, by simp only [mstep]; rw [← ht]; simp⟩
    | fetch cut =>
      obtain ⟨t, ht⟩ := h
      simp only [mstep, session]
      have hd : m.remote.drop m.loc.length = t := by rw [← ht]; simp
      rw [hd]
      exact ⟨t.drop cut, by rw [← ht, List.append_assoc, List.take_append_drop]⟩

/-- **mirror_completes.** A request that is not cut short brings the local copy level with the remote output. -/
theorem mirror_completes (m : Mirror) (h : m.loc <+: m.remote) (cut : Nat) (hc : m.remote.length - m.loc.length ≤ cut) :
    (mstep m (.fetch cut)).loc = m.remote := by
  obtain ⟨t, ht⟩ := h
  simp only [mstep, session]
  have hd : m.remote.drop m.loc.length = t := by rw [← ht]; simp
  rw [hd, List.take_of_length_le (by rw [← ht] at hc; simp at hc; omega), ht]

/-- a request from a stale offset (smaller than the local size) duplicates output: the local copy is no longer a prefix -/
example : ¬ (session [1, 2, 3, 4, 5] [1, 2, 3] 2 10 <+: [1, 2, 3, 4, 5]) := by decide

/-- Non-vacuity: output written in two chunks, asked from offset 1 while running, followed to the end -/
example :
    let s := run isCompleteOrCancelled (init 1)
      [.append [10, 11, 12], .read 2, .record 3, .read 2, .check, .append [13], .finish 2, .check, .read 8, .read 8, .check]
    s.ended = true ∧ s.sent = [11, 12, 13] := by decide


theorem afterLine_eq_drop : ∀ s : List Nat, afterLine s = s.drop (lineLen s) := by
  intro s
  induction s with
  | nil => rfl
  | cons c rest ih =>
    by_cases h : c = 10
    · simp [afterLine, lineLen, h]
    · simp only [afterLine, lineLen, h, if_false]
      rw [ih, Nat.add_comm]
      rfl

/-- **body_via_same_reader_exact.** However much of the stream the buffered reader had pulled when it found the end of
the reply line — the line alone, or the line and any amount of the data that follows, as happens when they arrive
together — copying the body from that same reader yields exactly the bytes after the line. -/
theorem body_via_same_reader_exact (stream : List Nat) (k : Nat) (hk : lineLen stream ≤ k) :
    bodyCopied true stream k = afterLine stream := by
  rw [afterLine_eq_drop]
  simp only [bodyCopied, if_true]
  have h1 : (stream.take k).drop (lineLen stream) = (stream.drop (lineLen stream)).take (k - lineLen stream) := by
    rw [List.drop_take]
  rw [h1]
  have h2 : stream.drop k = (stream.drop (lineLen stream)).drop (k - lineLen stream) := by
    rw [List.drop_drop]
    congr 1
    omega
  rw [h2, List.take_append_drop]

/-- copying from the connection underneath loses exactly what the reader had pulled beyond the line -/
theorem body_via_conn_loses (stream : List Nat) (k : Nat) (hk : lineLen stream ≤ k) :
    bodyCopied false stream k = (afterLine stream).drop (k - lineLen stream) := by
  rw [afterLine_eq_drop]
  simp only [bodyCopied, Bool.false_eq_true, if_false]
  rw [List.drop_drop]
  congr 1
  omega

/-- Witness: the line and the first five bytes of data arrive together -/
theorem C05_witness_body_past_reader :
    bodyCopied false [83, 10, 1, 2, 3, 4, 5, 6, 7] 7 = [6, 7] ∧ bodyCopied true [83, 10, 1, 2, 3, 4, 5, 6, 7] 7 = [1, 2, 3, 4, 5, 6, 7] := by
  decide


end Receptor.Results
