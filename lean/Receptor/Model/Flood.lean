/-!
# Link-state flooding: `handleRoutingUpdate`, `makeRoutingUpdate`, `removeConnection`
(properties C06, C01 protocol layer, C11 duplicate detection)

`step` follows `handleRoutingUpdate` path by path.  Maps are association lists with unique
keys (`KMap`); Go's `nil` map is distinguished from an empty one where the code can tell
them apart (`reflect.DeepEqual`).  Random update IDs are an input (`fresh`).
-/
namespace Receptor.Flood

abbrev Node := List Nat
abbrev UpdateID := List Nat

/-- association list used as a map -/
abbrev KMap (α : Type) := List (Node × α)

namespace KMap
def get? {α} (m : KMap α) (k : Node) : Option α := (m.find? fun e => e.1 == k).map (·.2)
def erase {α} (m : KMap α) (k : Node) : KMap α := m.filter fun e => e.1 != k
def set {α} (m : KMap α) (k : Node) (v : α) : KMap α := (erase m k) ++ [(k, v)]
def keys {α} (m : KMap α) : List Node := m.map (·.1)
def contains {α} (m : KMap α) (k : Node) : Bool := m.any fun e => e.1 == k
end KMap

/-- map equality irrespective of entry order -/
def mapEq (a b : KMap Nat) : Bool :=
  a.length == b.length && a.all (fun e => b.get? e.1 == some e.2) && b.all (fun e => a.get? e.1 == some e.2)

structure Update where
  nodeID : Node
  updateID : UpdateID
  epoch : Nat
  seq : Nat
  /-- `Connections`; `none` = a nil map (JSON `null` or absent) -/
  conns : Option (KMap Nat)
  forwardingNode : Node
  suspectedDuplicate : Nat
  deriving DecidableEq, Repr

structure NodeState where
  id : Node
  epoch : Nat
  seq : Nat                               -- own sequence counter
  conns : KMap Nat                        -- connections (peer ↦ cost)
  info : KMap (Nat × Nat)                 -- knownNodeInfo (origin ↦ (epoch, sequence))
  known : KMap (KMap Nat)                 -- knownConnectionCosts
  seen : List UpdateID                    -- seenUpdates (keys)
  shutdown : Bool := false
  deriving DecidableEq, Repr

inductive Action where
  | send (to : Node) (u : Update)         -- a message put on a connection's write channel
  | reqFlood                              -- sendRouteFloodChan <- 0
  | reqTable                              -- updateRoutingTableChan <- …
  deriving DecidableEq, Repr

/-- comparison operators of the two staleness tests (regenerated facts) -/
structure StaleRule where
  /-- drop when `epoch < known epoch` -/
  olderEpochDrops : Bool
  /-- drop when same epoch and `seq ≤ known seq` (true) / only `seq < known seq` (false) -/
  sameEpochLeDrops : Bool
  /-- the dedup by UpdateID happens before any processing -/
  dedupFirst : Bool
  /-- the receiving connection is excluded from the relay -/
  excludeReceiver : Bool
  deriving DecidableEq, Repr

def stdStale : StaleRule := { olderEpochDrops := true, sameEpochLeDrops := true, dedupFirst := true, excludeReceiver := true }

/-- `flood(message, excludeConn)` -/
def floodTo (s : NodeState) (exclude : Option Node) (u : Update) : List Action :=
  (s.conns.filter fun c => some c.1 != exclude).map fun c => Action.send c.1 u

/-- `makeRoutingUpdate` + `sendRoutingUpdate(suspectedDuplicate)` -/
def originate (s : NodeState) (fresh : UpdateID) (suspected : Nat) : NodeState × List Action :=
  if s.conns.isEmpty then (s, [])
  else
    let s' := { s with seq := s.seq + 1 }
    let u : Update := { nodeID := s.id, updateID := fresh, epoch := s.epoch, seq := s'.seq, conns := some s.conns,
                        forwardingNode := s.id, suspectedDuplicate := suspected }
    (s', floodTo s' none u)

def stale (R : StaleRule) (ni : Nat × Nat) (u : Update) : Bool :=
  (R.olderEpochDrops && u.epoch < ni.1) ||
  (u.epoch == ni.1 && (if R.sameEpochLeDrops then u.seq ≤ ni.2 else u.seq < ni.2))

/-- `reflect.DeepEqual(ri.Connections, s.knownConnectionCosts[ri.NodeID])` -/
def sameConns (a : Option (KMap Nat)) (b : Option (KMap Nat)) : Bool :=
  match a, b with
  | none, none => true
  | some x, some y => mapEq x y
  | _, _ => false

/-- replace the origin's adjacency and prune the reverse edges it no longer lists -/
def applyConns (s : NodeState) (u : Update) : KMap (KMap Nat) :=
  let listed := u.conns.getD []
  let k1 := s.known.set u.nodeID listed
  k1.map fun e =>
    if e.1 == s.id then e
    else if listed.contains e.1 then e
    else (e.1, e.2.erase u.nodeID)

def markSeen (s : NodeState) (i : UpdateID) : NodeState := { s with seen := s.seen ++ [i] }

/-- the relay of an accepted update: `ForwardingNode` rewritten, receiver excluded -/
def relayActs (R : StaleRule) (s : NodeState) (u : Update) (recv : Node) : List Action :=
  floodTo s (if R.excludeReceiver then some recv else none) { u with forwardingNode := s.id }

/-- the suspected-duplicate branch: only the recorded stamp may change -/
def noticeStep (s : NodeState) (u : Update) : NodeState :=
  match s.info.get? u.nodeID with
  | some ni => if ni.1 = u.suspectedDuplicate then { s with info := s.info.set u.nodeID (u.epoch, u.seq) } else s
  | none => s

def changedBy (s : NodeState) (u : Update) : Bool := !(sameConns u.conns (s.known.get? u.nodeID))

/-- accepting a (new enough) update: record its stamp, replace the adjacency if it differs -/
def acceptStep (s : NodeState) (u : Update) : NodeState :=
  { s with info := s.info.set u.nodeID (u.epoch, u.seq),
           known := if changedBy s u then applyConns s u else s.known }

/-- an update naming this node as origin -/
def selfStep (s : NodeState) (u : Update) (fresh : UpdateID) : NodeState × List Action :=
  if u.epoch = s.epoch then (s, [])
  else if u.suspectedDuplicate = s.epoch then ({ s with shutdown := true }, [])
  else if u.epoch > s.epoch then originate s fresh u.epoch
  else (s, [])

/-- an update originated by another node -/
def remoteStep (R : StaleRule) (s : NodeState) (u : Update) (recv : Node) : NodeState × List Action :=
  if R.dedupFirst && s.seen.contains u.updateID then (s, [])
  else
    let s1 := markSeen s u.updateID
    if u.suspectedDuplicate ≠ 0 then (noticeStep s1 u, relayActs R s1 u recv)
    else
      match s1.info.get? u.nodeID with
      | some ni =>
        if stale R ni u then (s1, [])
        else (acceptStep s1 u, (if changedBy s1 u then [Action.reqTable] else []) ++ relayActs R s1 u recv)
      | none =>
        (acceptStep s1 u, [Action.reqFlood] ++ (if changedBy s1 u then [Action.reqTable] else []) ++ relayActs R s1 u recv)

/-- `handleRoutingUpdate(ri, recvConn)` -/
def step (R : StaleRule) (s : NodeState) (u : Update) (recv : Node) (fresh : UpdateID) : NodeState × List Action :=
  if u.nodeID = [] then (s, [])
  else if u.nodeID = s.id then selfStep s u fresh
  else remoteStep R s u recv

/-- `removeConnection(remote)` -/
def removeConnection (s : NodeState) (remote : Node) : NodeState :=
  if remote = [] then s
  else
    { s with conns := s.conns.erase remote,
             known := s.known.map fun e =>
               if e.1 == remote then (e.1, e.2.erase s.id)
               else if e.1 == s.id then (e.1, e.2.erase remote) else e }

/-- run a history of received updates; `fresh i` is the random ID drawn at step `i` -/
def run (R : StaleRule) : NodeState → List (Update × Node × UpdateID) → NodeState × List (List Action)
  | s, [] => (s, [])
  | s, (u, recv, fresh) :: rest =>
    let (s', acts) := step R s u recv fresh
    let (s'', more) := run R s' rest
    (s'', acts :: more)

/-- the relays (not originations) of update ID `i` among a step's actions -/
def relaysOf (me : Node) (i : UpdateID) (acts : List Action) : List Action :=
  acts.filter fun a =>
    match a with
    | .send _ u => u.updateID == i && u.nodeID != me
    | _ => false

def lexLe (a b : Nat × Nat) : Bool := a.1 < b.1 || (a.1 == b.1 && a.2 ≤ b.2)

end Receptor.Flood
