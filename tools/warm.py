#!/usr/bin/env python3
"""Pre-compile every harness test binary once so that the first check is not slowed by a cold Go cache."""
import os, sys
sys.path.insert(0, os.path.dirname(os.path.abspath(__file__)))
import check
from props import PROPS
seen = set()
for pid, cfg in PROPS.items():
    for eng in cfg.get("engines", []):
        if eng["pkg"] in seen:
            continue
        seen.add(eng["pkg"])
        rc, out, exe = check.build_test_binary(eng["pkg"], eng.get("tags", "verif"))
        print(eng["pkg"], "ok" if rc == 0 else "FAILED\n" + out[-2000:])
