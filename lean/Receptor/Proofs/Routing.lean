import Receptor.Model.Routing
namespace Receptor.Routing

@[simp] theorem improve_cost_self (s : St) (u v c) : (improve s u v c).cost v = some c := by simp [improve]
@[simp] theorem improve_cost_ne (s : St) (u v c x) (h : x ≠ v) : (improve s u v c).cost x = s.cost x := by simp [improve, h]
@[simp] theorem improve_prev_self (s : St) (u v c) : (improve s u v c).prev v = some u := by simp [improve]
@[simp] theorem improve_prev_ne (s : St) (u v c x) (h : x ≠ v) : (improve s u v c).prev x = s.prev x := by simp [improve, h]
theorem improve_queue_mem (s : St) (u v c) : v ∈ (improve s u v c).queue := by
  simp only [improve]; split <;> simp_all
theorem improve_queue_mono (s : St) (u v c x) (h : x ∈ s.queue) : x ∈ (improve s u v c).queue := by
  simp only [improve]; split <;> simp_all

structure Inv (g : Graph) (src : Node) (s : St) : Prop where
  src0 : s.cost src = some 0
  sound : ∀ v c, s.cost v = some c → Path g src v c
  chain : ∀ v c, v ≠ src → s.cost v = some c →
            ∃ p w cp, s.prev v = some p ∧ (v, w) ∈ g.adj p ∧ s.cost p = some cp ∧ cp + w ≤ c
  relaxed : ∀ x cx, x ∉ s.queue → s.cost x = some cx →
            ∀ v w, (v, w) ∈ g.adj x → g.isKey v = true → ∃ cv, s.cost v = some cv ∧ cv ≤ cx + w

structure Mid (g : Graph) (src u : Node) (cu : Nat) (done : List (Node × Nat)) (s : St) : Prop where
  src0 : s.cost src = some 0
  sound : ∀ v c, s.cost v = some c → Path g src v c
  chain : ∀ v c, v ≠ src → s.cost v = some c →
            ∃ p w cp, s.prev v = some p ∧ (v, w) ∈ g.adj p ∧ s.cost p = some cp ∧ cp + w ≤ c
  costu : s.cost u = some cu
  relaxedOther : ∀ x cx, x ∉ s.queue → x ≠ u → s.cost x = some cx →
            ∀ v w, (v, w) ∈ g.adj x → g.isKey v = true → ∃ cv, s.cost v = some cv ∧ cv ≤ cx + w
  relaxedDone : ∀ v w, (v, w) ∈ done → g.isKey v = true → ∃ cv, s.cost v = some cv ∧ cv ≤ cu + w

/-- the improving case: v is a key, and cu + w beats the current label of v (or v has none) -/
theorem mid_improve {g : Graph} {src u cu done} {s : St} {v : Node} {w : Nat}
    (hm : Mid g src u cu done s) (he : (v, w) ∈ g.adj u) (hk : g.isKey v = true)
    (hb : ∀ cv, s.cost v = some cv → cu + w < cv) :
    Mid g src u cu ((v, w) :: done) (improve s u v (cu + w)) := by
  have hvu : v ≠ u := by
    intro h; subst h; have := hb cu hm.costu; omega
  have hvs : v ≠ src := by
    intro h; subst h; have := hb 0 hm.src0; omega
  refine ⟨?_, ?_, ?_, ?_, ?_, ?_⟩
  · rw [improve_cost_ne _ _ _ _ _ (Ne.symm hvs)]; exact hm.src0
  · intro x c hx
    by_cases hxv : x = v
    · subst hxv; rw [improve_cost_self] at hx; cases hx
      exact Path.snoc (hm.sound u cu hm.costu) he hk
    · rw [improve_cost_ne _ _ _ _ _ hxv] at hx; exact hm.sound x c hx
  · intro x c hxs hx
    by_cases hxv : x = v
    · subst hxv; rw [improve_cost_self] at hx; cases hx
      exact ⟨u, w, cu, improve_prev_self .., he, by rw [improve_cost_ne _ _ _ _ _ (Ne.symm hvu)]; exact hm.costu, Nat.le_refl _⟩
    · rw [improve_cost_ne _ _ _ _ _ hxv] at hx
      obtain ⟨p, w', cp, hp, hadj, hcp, hle⟩ := hm.chain x c hxs hx
      by_cases hpv : p = v
      · subst hpv
        have := hb cp hcp
        exact ⟨p, w', cu + w, by rw [improve_prev_ne _ _ _ _ _ hxv]; exact hp, hadj, improve_cost_self .., by omega⟩
      · exact ⟨p, w', cp, by rw [improve_prev_ne _ _ _ _ _ hxv]; exact hp, hadj,
          by rw [improve_cost_ne _ _ _ _ _ hpv]; exact hcp, hle⟩
  · rw [improve_cost_ne _ _ _ _ _ (Ne.symm hvu)]; exact hm.costu
  · intro x cx hxq hxu hx v' w' hadj hk'
    have hxv : x ≠ v := by
      intro h; subst h; exact hxq (improve_queue_mem ..)
    rw [improve_cost_ne _ _ _ _ _ hxv] at hx
    have hxq' : x ∉ s.queue := fun h => hxq (improve_queue_mono _ _ _ _ _ h)
    obtain ⟨cv', hcv', hle⟩ := hm.relaxedOther x cx hxq' hxu hx v' w' hadj hk'
    by_cases hv' : v' = v
    · subst hv'
      have := hb cv' hcv'
      exact ⟨cu + w, improve_cost_self .., by omega⟩
    · exact ⟨cv', by rw [improve_cost_ne _ _ _ _ _ hv']; exact hcv', hle⟩
  · intro v' w' hmem hk'
    rcases List.mem_cons.mp hmem with h | h
    · cases h; exact ⟨cu + w, improve_cost_self .., Nat.le_refl _⟩
    · obtain ⟨cv', hcv', hle⟩ := hm.relaxedDone v' w' h hk'
      by_cases hv' : v' = v
      · subst hv'
        have := hb cv' hcv'
        exact ⟨cu + w, improve_cost_self .., by omega⟩
      · exact ⟨cv', by rw [improve_cost_ne _ _ _ _ _ hv']; exact hcv', hle⟩

theorem mid_step {g : Graph} {src u cu done} {s : St} {e : Node × Nat}
    (hm : Mid g src u cu done s) (he : e ∈ g.adj u) :
    Mid g src u cu (e :: done) (relaxEdge g u cu s e) := by
  obtain ⟨v, w⟩ := e
  unfold relaxEdge
  by_cases hk : g.isKey v = true
  · cases hcv : s.cost v with
    | none =>
      have hb : better s v (cu + w) = true := by simp [better, hcv]
      simp only [hk, hb, Bool.and_self, if_true]
      exact mid_improve hm he hk (by intro cv h; rw [hcv] at h; cases h)
    | some cv =>
      by_cases hlt : cu + w < cv
      · have hb : better s v (cu + w) = true := by simp [better, hcv, hlt]
        simp only [hk, hb, Bool.and_self, if_true]
        exact mid_improve hm he hk (by intro cv' h; rw [hcv] at h; cases h; exact hlt)
      · have hb : better s v (cu + w) = false := by simp [better, hcv, hlt]
        simp only [hk, hb, Bool.and_false, Bool.false_eq_true, if_false]
        refine ⟨hm.src0, hm.sound, hm.chain, hm.costu, hm.relaxedOther, ?_⟩
        intro v' w' hmem hk'
        rcases List.mem_cons.mp hmem with h | h
        · cases h; exact ⟨cv, hcv, by omega⟩
        · exact hm.relaxedDone v' w' h hk'
  · have hk' : g.isKey v = false := by simpa using hk
    simp only [hk', Bool.false_and, Bool.false_eq_true, if_false]
    refine ⟨hm.src0, hm.sound, hm.chain, hm.costu, hm.relaxedOther, ?_⟩
    intro v' w' hmem hk''
    rcases List.mem_cons.mp hmem with h | h
    · cases h; rw [hk'] at hk''; cases hk''
    · exact hm.relaxedDone v' w' h hk''

theorem mid_fold {g : Graph} {src u cu} (es : List (Node × Nat)) :
    ∀ {done} {s : St}, Mid g src u cu done s → (∀ e ∈ es, e ∈ g.adj u) →
    Mid g src u cu (es.reverse ++ done) (es.foldl (relaxEdge g u cu) s) := by
  induction es with
  | nil => intro done s hm _; simpa using hm
  | cons e es ih =>
    intro done s hm hall
    have h1 := mid_step hm (hall e (List.mem_cons_self ..))
    have h2 := ih h1 (fun e' he' => hall e' (List.mem_cons_of_mem _ he'))
    simpa [List.reverse_cons, List.append_assoc] using h2

theorem inv_popRelax {g : Graph} {src : Node} {s : St} {u : Node}
    (hi : Inv g src s) : Inv g src (popRelax g s u) := by
  unfold popRelax
  cases hcu : s.cost u with
  | none =>
    simp only
    refine ⟨hi.src0, hi.sound, hi.chain, ?_⟩
    intro x cx hxq hx v w hadj hk
    by_cases hxu : x = u
    · subst hxu; rw [hcu] at hx; cases hx
    · have : x ∉ s.queue := fun h => hxq ((List.mem_erase_of_ne hxu).mpr h)
      exact hi.relaxed x cx this hx v w hadj hk
  | some cu =>
    simp only
    have hm0 : Mid g src u cu [] { s with queue := s.queue.erase u } := by
      refine ⟨hi.src0, hi.sound, hi.chain, hcu, ?_, ?_⟩
      · intro x cx hxq hxu hx v w hadj hk
        have : x ∉ s.queue := fun h => hxq ((List.mem_erase_of_ne hxu).mpr h)
        exact hi.relaxed x cx this hx v w hadj hk
      · intro v w h; cases h
    have hm := mid_fold (g.adj u) hm0 (fun e he => he)
    refine ⟨hm.src0, hm.sound, hm.chain, ?_⟩
    intro x cx hxq hx v w hadj hk
    by_cases hxu : x = u
    · subst hxu
      rw [hm.costu] at hx; cases hx
      exact hm.relaxedDone v w (by simp [hadj]) hk
    · exact hm.relaxedOther x cx hxq hxu hx v w hadj hk

theorem inv_reach {g : Graph} {src : Node} {init s : St}
    (h0 : Inv g src init) (hr : Reach g init s) : Inv g src s := by
  induction hr with
  | base => exact h0
  | step _ _ ih => exact inv_popRelax ih

theorem inv_init (g : Graph) (src : Node) (keys : List Node) : Inv g src (initSt src keys) := by
  refine ⟨by simp [initSt], ?_, ?_, ?_⟩
  · intro v c h
    simp only [initSt] at h
    split at h
    · rename_i hv; subst hv; cases h; exact Path.nil
    · cases h
  · intro v c hv h
    simp [initSt, hv] at h
  · intro x cx hxq hx
    simp only [initSt] at hx hxq
    split at hx
    · rename_i h; subst h; simp at hxq
    · cases hx

/-- At termination every label is the least walk weight, and unlabelled nodes are unreachable. -/
theorem lc_correct {g : Graph} {src : Node} {keys : List Node} {s : St}
    (hr : Reach g (initSt src keys) s) (hq : s.queue = []) :
    (∀ v c, s.cost v = some c → Path g src v c ∧ ∀ W, Path g src v W → c ≤ W) ∧
    (∀ v, s.cost v = none → ∀ W, ¬ Path g src v W) := by
  have hi := inv_reach (inv_init g src keys) hr
  have key : ∀ v W, Path g src v W → ∃ c, s.cost v = some c ∧ c ≤ W := by
    intro v W hp
    induction hp with
    | nil => exact ⟨0, hi.src0, Nat.le_refl _⟩
    | snoc _ hadj hk ih =>
      obtain ⟨cu, hcu, hle⟩ := ih
      obtain ⟨cv, hcv, hle'⟩ := hi.relaxed _ cu (by simp [hq]) hcu _ _ hadj hk
      exact ⟨cv, hcv, by omega⟩
  constructor
  · intro v c hc
    refine ⟨hi.sound v c hc, ?_⟩
    intro W hp
    obtain ⟨c', hc', hle⟩ := key v W hp
    rw [hc] at hc'; cases hc'; exact hle
  · intro v hn W hp
    obtain ⟨c', hc', _⟩ := key v W hp
    rw [hn] at hc'; cases hc'



/-- positive edge weights -/
def Positive (g : Graph) : Prop := ∀ u v w, (v, w) ∈ g.adj u → 0 < w

/-- At termination, the label of every non-source labelled node equals label(prev) + edge weight. -/
theorem chain_eq {g : Graph} {src : Node} {s : St} (hi : Inv g src s) (hq : s.queue = [])
    (v : Node) (c : Nat) (hv : v ≠ src) (hc : s.cost v = some c) (hkv : g.isKey v = true) :
    ∃ p w cp, s.prev v = some p ∧ (v, w) ∈ g.adj p ∧ s.cost p = some cp ∧ cp + w = c := by
  obtain ⟨p, w, cp, hp, hadj, hcp, hle⟩ := hi.chain v c hv hc
  obtain ⟨cv, hcv, hle'⟩ := hi.relaxed p cp (by simp [hq]) hcp v w hadj hkv
  rw [hc] at hcv; cases hcv
  exact ⟨p, w, cp, hp, hadj, hcp, by omega⟩

/-- the least walk weight -/
def IsDist (g : Graph) (a b : Node) (c : Nat) : Prop := Path g a b c ∧ ∀ W, Path g a b W → c ≤ W

theorem path_trans {g : Graph} {a b c : Node} {W1 W2 : Nat}
    (h1 : Path g a b W1) (h2 : Path g b c W2) : Path g a c (W1 + W2) := by
  induction h2 with
  | nil => simpa using h1
  | snoc _ hadj hk ih => rw [← Nat.add_assoc]; exact Path.snoc ih hadj hk

/-- Main next-hop lemma: if the walk from `d` finds hop `h`, then `h` is a direct neighbour of `src`
    and cost d = w(src,h) + (weight of a walk h ⇝ d). -/
theorem nextHop_spec {g : Graph} {src : Node} {s : St} (hi : Inv g src s) (hq : s.queue = [])
    (hkeys : ∀ v c, s.cost v = some c → v ≠ src → g.isKey v = true) :
    ∀ fuel d h c, nextHop s src fuel d = some h → s.cost d = some c → d ≠ src →
      ∃ w0 R, (h, w0) ∈ g.adj src ∧ s.cost h = some w0 ∧ Path g h d R ∧ w0 + R = c := by
  intro fuel
  induction fuel with
  | zero => intro d h c hn; simp [nextHop] at hn
  | succ n ih =>
    intro d h c hn hc hd
    obtain ⟨p, w, cp, hp, hadj, hcp, heq⟩ := chain_eq hi hq d c hd hc (hkeys d c hc hd)
    simp only [nextHop, hp] at hn
    by_cases hps : p = src
    · subst hps
      simp at hn; subst hn
      rw [hi.src0] at hcp; cases hcp
      exact ⟨w, 0, hadj, by rw [hc]; congr 1; omega, Path.nil, by omega⟩
    · simp [hps] at hn
      obtain ⟨w0, R, hadj0, hch, hpath, hsum⟩ := ih p h cp hn hcp hps
      exact ⟨w0, R + w, hadj0, hch, Path.snoc hpath hadj (hkeys d c hc hd), by omega⟩

/-- the hop is on a least-cost path: dist src d = w(src,h) + dist h d -/
theorem nextHop_on_shortest {g : Graph} {src : Node} {keys : List Node} {s : St}
    (hr : Reach g (initSt src keys) s) (hq : s.queue = [])
    (hkeys : ∀ v c, s.cost v = some c → v ≠ src → g.isKey v = true)
    (fuel d h c) (hn : nextHop s src fuel d = some h) (hc : s.cost d = some c) (hd : d ≠ src) :
    ∃ w0 R, (h, w0) ∈ g.adj src ∧ IsDist g src d c ∧ IsDist g h d R ∧ c = w0 + R := by
  have hi := inv_reach (inv_init g src keys) hr
  obtain ⟨w0, R, hadj0, hch, hpath, hsum⟩ := nextHop_spec hi hq hkeys fuel d h c hn hc hd
  have hdist := (lc_correct hr hq).1 d c hc
  refine ⟨w0, R, hadj0, hdist, ⟨hpath, ?_⟩, hsum.symm⟩
  intro W hW
  by_cases hhs : h = src
  · subst hhs
    rw [hi.src0] at hch; cases hch
    have := hdist.2 W hW; omega
  · have hkh : g.isKey h = true := hkeys h w0 hch hhs
    have p1 : Path g src h (0 + w0) := Path.snoc Path.nil hadj0 hkh
    have p2 := path_trans p1 hW
    have := hdist.2 _ p2
    omega



theorem reach_trans {g : Graph} {a b c : St} (h1 : Reach g a b) (h2 : Reach g b c) : Reach g a c := by
  induction h2 with
  | base => exact h1
  | step _ hm ih => exact Reach.step ih hm

theorem runFifo_reach (g : Graph) : ∀ (f : Nat) (s s' : St), runFifo g f s = some s' → Reach g s s' ∧ s'.queue = [] := by
  intro f
  induction f with
  | zero =>
    intro s s' h
    simp only [runFifo] at h
    split at h
    · cases h; exact ⟨Reach.base, by assumption⟩
    · cases h
  | succ f ih =>
    intro s s' h
    simp only [runFifo] at h
    split at h
    · cases h; exact ⟨Reach.base, by assumption⟩
    · rename_i u rest hq
      obtain ⟨hr, he⟩ := ih _ _ h
      have hu : u ∈ s.queue := by rw [hq]; simp
      exact ⟨reach_trans (Reach.step Reach.base hu) hr, he⟩

end Receptor.Routing

namespace Receptor.Routing

/-- prev pointers exist only for labelled nodes -/
def PrevCost (s : St) : Prop := ∀ v p, s.prev v = some p → ∃ c, s.cost v = some c

theorem prevCost_improve {s : St} (h : PrevCost s) (u v : Node) (c : Nat) : PrevCost (improve s u v c) := by
  intro x p hx
  by_cases hxv : x = v
  · subst hxv; exact ⟨c, by simp⟩
  · rw [improve_prev_ne _ _ _ _ _ hxv] at hx
    rw [improve_cost_ne _ _ _ _ _ hxv]
    exact h x p hx

theorem prevCost_relaxEdge {g : Graph} {s : St} (h : PrevCost s) (u : Node) (cu : Nat) (e : Node × Nat) :
    PrevCost (relaxEdge g u cu s e) := by
  unfold relaxEdge
  split
  · exact prevCost_improve h _ _ _
  · exact h

theorem prevCost_fold {g : Graph} (u : Node) (cu : Nat) : ∀ (es : List (Node × Nat)) (s : St), PrevCost s →
    PrevCost (es.foldl (relaxEdge g u cu) s) := by
  intro es
  induction es with
  | nil => intro s h; exact h
  | cons e es ih => intro s h; exact ih _ (prevCost_relaxEdge h u cu e)

theorem prevCost_popRelax {g : Graph} {s : St} (h : PrevCost s) (u : Node) : PrevCost (popRelax g s u) := by
  unfold popRelax
  have h1 : PrevCost { s with queue := s.queue.erase u } := h
  split
  · exact h1
  · exact prevCost_fold u _ _ _ h1

theorem prevCost_reach {g : Graph} {init s : St} (h0 : PrevCost init) (hr : Reach g init s) : PrevCost s := by
  induction hr with
  | base => exact h0
  | step _ _ ih => exact prevCost_popRelax ih _

theorem prevCost_init (src : Node) (keys : List Node) : PrevCost (initSt src keys) := by
  intro v p h; simp [initSt] at h

/-- an unlabelled node gets no table entry: the prev-chain walk stops at once -/
theorem nextHop_none_of_unlabelled {s : St} (hp : PrevCost s) (src d : Node) (hd : s.cost d = none) :
    ∀ fuel, nextHop s src fuel d = none := by
  intro fuel
  cases fuel with
  | zero => rfl
  | succ n =>
    simp only [nextHop]
    cases hpd : s.prev d with
    | none => rfl
    | some p =>
      obtain ⟨c, hc⟩ := hp d p hpd
      rw [hd] at hc; cases hc

/-- with positive weights the prev-chain walk from a labelled node reaches the source:
fuel `c + 1` suffices for a node labelled `c` -/
theorem nextHop_total {g : Graph} {src : Node} {s : St} (hi : Inv g src s) (hq : s.queue = [])
    (hpos : Positive g) (hkeys : ∀ v c, s.cost v = some c → v ≠ src → g.isKey v = true) :
    ∀ (c : Nat) (d : Node), s.cost d = some c → d ≠ src → ∃ h, nextHop s src (c + 1) d = some h := by
  intro c
  induction c using Nat.strongRecOn with
  | _ c ih =>
    intro d hc hd
    obtain ⟨p, w, cp, hp, hadj, hcp, heq⟩ := chain_eq hi hq d c hd hc (hkeys d c hc hd)
    have hw : 0 < w := hpos p d w hadj
    simp only [nextHop, hp]
    by_cases hps : p = src
    · exact ⟨d, by simp [hps]⟩
    · simp only [hps, if_false]
      obtain ⟨h, hh⟩ := ih cp (by omega) p hcp hps
      -- more fuel never hurts
      have mono : ∀ (f f' : Nat) (x : Node) (r : Node), nextHop s src f x = some r → f ≤ f' → nextHop s src f' x = some r := by
        intro f
        induction f with
        | zero => intro f' x r h; simp [nextHop] at h
        | succ n ihn =>
          intro f' x r h hle
          cases f' with
          | zero => omega
          | succ m =>
            simp only [nextHop] at h ⊢
            cases hpx : s.prev x with
            | none => rw [hpx] at h; cases h
            | some q =>
              rw [hpx] at h
              simp only at h ⊢
              by_cases hqs : q = src
              · simpa [hqs] using h
              · simp only [hqs, if_false] at h ⊢
                exact ihn m q r h (by omega)
      exact ⟨h, mono _ _ _ _ hh (by omega)⟩

/-- a list whose potential strictly decreases from each element to the next has no repeats -/
theorem nodup_of_decreasing (φ : Node → Nat) : ∀ (l : List Node),
    List.Pairwise (fun a b => φ b < φ a) l → l.Nodup := by
  intro l h
  induction h with
  | nil => exact List.nodup_nil
  | cons hx _ ih =>
    refine List.nodup_cons.mpr ⟨?_, ih⟩
    intro hm
    have := hx _ hm
    omega

end Receptor.Routing
