#!/bin/bash
# seed_confirm_py.sh <seed_dir> <name>: like seed_confirm.sh for seeds whose demonstration is a Python program
# that drives the built receptor binary (demo_*.py <binary>).
set -u
SD="$1"; NAME="$2"
export GOFLAGS=-mod=mod GOPROXY=off GOSUMDB=off GOTOOLCHAIN=local
WT=/tmp/wt_confirm_$NAME
git -C /repo worktree remove --force $WT >/dev/null 2>&1
git -C /repo worktree add -q $WT HEAD || exit 2
cd $WT
DEMO=$(ls $SD/demo_*.py | head -1)
TOUCHED=$(grep -E '^\+\+\+ b/' $SD/patch.diff | sed 's|+++ b/||' | xargs -n1 dirname | sort -u)
go build -o /tmp/receptor_clean_$NAME ./cmd/receptor-cl 2>/dev/null || go build -o /tmp/receptor_clean_$NAME ./cmd/... 2>/dev/null || go build -o /tmp/receptor_clean_$NAME . 
python3 $DEMO /tmp/receptor_clean_$NAME > $SD/demo_clean.out 2>&1; CLEAN=$?
git apply $SD/patch.diff || { echo "patch does not apply"; exit 3; }
go build ./pkg/... ./cmd/... > $SD/build.out 2>&1; BUILD=$?
go build -o /tmp/receptor_mut_$NAME ./cmd/receptor-cl 2>/dev/null || go build -o /tmp/receptor_mut_$NAME .
python3 $DEMO /tmp/receptor_mut_$NAME > $SD/demo_mut.out 2>&1; MUT=$?
TESTS=0
for d in $TOUCHED; do
  ok=1
  for try in 1 2 3; do
    if go test -count=1 -skip 'TestCreatePing|TestStart$|TestCancel$|TestRelease$' ./$d/ > $SD/tests_$(echo $d | tr / _).out 2>&1; then ok=0; break; fi
  done
  [ $ok -ne 0 ] && TESTS=1
done
rm -f /tmp/receptor_clean_$NAME /tmp/receptor_mut_$NAME
cd /; git -C /repo worktree remove --force $WT
echo "{\"name\":\"$NAME\",\"demo_dir\":\"python demo against the built binary\",\"touched\":\"$(echo $TOUCHED)\",\"build_rc\":$BUILD,\"demo_clean_rc\":$CLEAN,\"demo_mutated_rc\":$MUT,\"existing_tests_rc\":$TESTS}" > $SD/confirm.json
cat $SD/confirm.json
