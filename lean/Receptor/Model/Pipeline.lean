/-!
# A chain of blocking hand-offs (node broker → socket filter → socket broker → subscriber → reader) — C16

Every hop of the path a notice takes from `handleMessageData`'s publication to the reader of
`SubscribeUnreachable` is a send on an unbuffered channel that blocks until the next stage takes the message
(regenerated facts: no `default` branch, no buffer).  The model: one slot per hop; a message moves on only into an
empty slot; the publisher blocks on the first slot.  `dropAt` marks a hop that, instead of blocking, discards the
message when the next slot is full (the variant with a buffered channel and `select … default`).
-/
namespace Receptor.Pipeline

structure Pipe where
  pending : List Nat            -- published, not yet taken by the first hop (the publisher is blocked on them, in order)
  slots : List (Option Nat)     -- one per hop; the last one is what the reader takes
  delivered : List Nat          -- read so far, oldest first
  deriving DecidableEq, Repr

inductive Move where
  | take            -- the first hop takes the next published message
  | pass (i : Nat)  -- hop i hands its message to hop i+1
  | read            -- the reader takes the message of the last hop
  deriving DecidableEq, Repr

/-- hop `i` hands over; `drop`: this hop discards instead of blocking when the next one is busy -/
def passAt (drop : Bool) : Nat → List (Option Nat) → List (Option Nat)
  | 0, some m :: none :: rest => none :: some m :: rest
  | 0, some m :: some x :: rest => if drop then none :: some x :: rest else some m :: some x :: rest
  | 0, l => l
  | i + 1, s :: rest => s :: passAt drop i rest
  | _ + 1, [] => []

/-- the reader's end: the last slot, if full -/
def popLast : List (Option Nat) → Option (Nat × List (Option Nat))
  | [] => none
  | [some m] => some (m, [none])
  | [none] => none
  | s :: rest => (popLast rest).map fun r => (r.1, s :: r.2)

def step (dropAt : Option Nat) (p : Pipe) : Move → Pipe
  | .take =>
    match p.pending, p.slots with
    | m :: rest, none :: ss => { p with pending := rest, slots := some m :: ss }
    | _, _ => p
  | .pass i => { p with slots := passAt (dropAt == some i) i p.slots }
  | .read =>
    match popLast p.slots with
    | some (m, ss) => { p with slots := ss, delivered := p.delivered ++ [m] }
    | none => p

def run (dropAt : Option Nat) : Pipe → List Move → Pipe
  | p, [] => p
  | p, m :: ms => run dropAt (step dropAt p m) ms

/-- everything the pipe holds, oldest first: what was read, what is in the slots (later slots are older), what is
still with the publisher -/
def contents (p : Pipe) : List Nat := p.delivered ++ (p.slots.filterMap id).reverse ++ p.pending

end Receptor.Pipeline
