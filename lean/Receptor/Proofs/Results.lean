import Receptor.Model.Results
namespace Receptor.Results

structure Inv (s : St) : Prop where
  lo : s.start ≤ s.pos
  hi : s.pos ≤ s.file.length ∨ s.pos = s.start
  sent : s.sent = (s.file.drop s.start).take (s.pos - s.start)
  rec_le : s.recorded ≤ s.file.length
  fin : finished s.state = true → s.recorded = s.file.length

theorem inv_init (start : Nat) : Inv (init start) := by
  refine ⟨Nat.le_refl _, Or.inr rfl, ?_, ?_, ?_⟩ <;> simp [init, finished]

theorem take_drop_append_stable (l m : Bytes) (a n : Nat) (h : n ≤ (l.drop a).length) :
    ((l ++ m).drop a).take n = (l.drop a).take n := by
  by_cases ha : a ≤ l.length
  · rw [List.drop_append_of_le_length ha, List.take_append_of_le_length h]
  · have : (l.drop a).length = 0 := by simp; omega
    have hn : n = 0 := by omega
    subst hn; simp

theorem inv_step (T : Nat → Bool) (s : St) (e : Ev) (h : Inv s) : Inv (step T s e) := by
  cases e with
  | append bs =>
    simp only [step]
    split
    · exact h
    · refine ⟨h.lo, ?_, ?_, ?_, ?_⟩
      · rcases h.hi with h1 | h1
        · left; simp; omega
        · right; exact h1
      · show s.sent = ((s.file ++ bs).drop s.start).take (s.pos - s.start)
        rw [take_drop_append_stable, h.sent]
        rcases h.hi with h1 | h1
        · simp; omega
        · simp [h1]
      · show s.recorded ≤ (s.file ++ bs).length
        have := h.rec_le; simp; omega
      · intro hf; rename_i hnf; exact absurd hf hnf
  | record n =>
    simp only [step]
    split
    · exact h
    · refine ⟨h.lo, h.hi, h.sent, ?_, ?_⟩
      · show min n s.file.length ≤ s.file.length
        omega
      · intro hf; simp [finished] at hf
  | finish st =>
    simp only [step]
    split
    · exact h
    · exact ⟨h.lo, h.hi, h.sent, Nat.le_refl _, fun _ => rfl⟩
  | read k =>
    simp only [step]
    split
    · exact h
    · split
      · rename_i hlt
        have hlo := h.lo
        refine ⟨?_, ?_, ?_, h.rec_le, h.fin⟩
        · show s.start ≤ s.pos + _; omega
        · left
          show s.pos + ((s.file.drop s.pos).take k).length ≤ s.file.length
          simp; omega
        · show s.sent ++ (s.file.drop s.pos).take k = (s.file.drop s.start).take (s.pos + ((s.file.drop s.pos).take k).length - s.start)
          have e1 : s.pos + ((s.file.drop s.pos).take k).length - s.start = (s.pos - s.start) + ((s.file.drop s.pos).take k).length := by omega
          rw [e1, List.take_add, ← h.sent, List.drop_drop]
          have e2 : s.start + (s.pos - s.start) = s.pos := by omega
          rw [e2]
          congr 1
          rw [List.length_take]
          simp only [List.length_drop]
          rw [List.take_eq_take_iff]
          simp
      · exact ⟨h.lo, h.hi, h.sent, h.rec_le, h.fin⟩
  | check =>
    simp only [step]
    split
    · exact h
    · split <;> exact ⟨h.lo, h.hi, h.sent, h.rec_le, h.fin⟩

theorem inv_run (T : Nat → Bool) (evs : List Ev) : ∀ s, Inv s → Inv (run T s evs) := by
  induction evs with
  | nil => intro s h; exact h
  | cons e rest ih => intro s h; exact ih _ (inv_step T s e h)

/-- the reader stops only in a terminal state, having reached the recorded size -/
structure EndOK (T : Nat → Bool) (s : St) : Prop where
  ok : s.ended = true → T s.state = true ∧ s.recorded ≤ s.pos

theorem endok_step (T : Nat → Bool) (hT : ∀ st, T st = true → finished st = true) (s : St) (e : Ev)
    (h : EndOK T s) : EndOK T (step T s e) := by
  constructor
  cases e with
  | append bs =>
    simp only [step]; split
    · exact h.ok
    · intro he
      rename_i hnf
      exact absurd (hT _ (h.ok he).1) hnf
  | record n =>
    simp only [step]; split
    · exact h.ok
    · intro he
      rename_i hnf
      exact absurd (hT _ (h.ok he).1) hnf
  | finish st =>
    simp only [step]; split
    · exact h.ok
    · intro he
      rename_i hnf
      have := hT _ (h.ok he).1
      simp [this] at hnf
  | read k =>
    simp only [step]
    split
    · exact h.ok
    · rename_i hc
      split
      · intro he
        have : s.ended = true := he
        simp [this] at hc
      · intro he
        have : s.ended = true := he
        simp [this] at hc
  | check =>
    simp only [step]
    split
    · exact h.ok
    · rename_i hc
      split
      · rename_i ht
        intro _
        simp only [Bool.and_eq_true, decide_eq_true_eq] at ht
        exact ⟨ht.1, ht.2⟩
      · intro he
        have : s.ended = true := he
        simp [this] at hc

theorem endok_run (T : Nat → Bool) (hT : ∀ st, T st = true → finished st = true) (evs : List Ev) :
    ∀ s, EndOK T s → EndOK T (run T s evs) := by
  induction evs with
  | nil => intro s h; exact h
  | cons e rest ih => intro s h; exact ih _ (endok_step T hT s e h)

end Receptor.Results
