package netceptor

// C17 harness: scripts of open / close (any number of times) / send (a deliverer parks in the
// hand-off) / read / subscribe / unsubscribe / dial / end-of-connection / ping on one real node,
// followed by closing everything; observed: whether the process survives (every case runs in a
// child process), which service names are still bound, how many goroutines are left over, and
// whether Shutdown stops the node's background activity.

import (
	"context"
	"encoding/json"
	"fmt"
	"io"
	"runtime"
	"sort"
	"strings"
	"sync"
	"testing"
	"time"
)

type sockOp struct {
	K   string `json:"k"` // listen | close | send | recv | subscribe | unsubscribe | dial | connclose | ping | notice
	I   int    `json:"i"` // socket / connection index
	Adv bool   `json:"adv"`
	Svc string `json:"svc"` // listen: service name
	How string `json:"how"` // connclose: close | closeconn | both ; ping: ok | nosuch
}

type sockArgs struct {
	Ops      []sockOp `json:"ops"`
	Shutdown bool     `json:"shutdown"` // end with Shutdown instead of closing what is still open
	// how the accepting side ends a connection once it has read end-of-stream: "both" (Close + CloseConnection) or
	// "close" (Close only, as the control service does with its connections)
	ServerClose string `json:"server_close"`
	// a second stream listener is closed by the application at the end of the script: "idle" (no connection),
	// "live" (a connection dialled to it is still open), "" (no second listener)
	ListenerClose string `json:"listener_close"`
}

func sockGoroutines() int {
	// let finished goroutines go away
	n := runtime.NumGoroutine()
	for i := 0; i < 200; i++ {
		time.Sleep(10 * time.Millisecond)
		m := runtime.NumGoroutine()
		if m == n && i > 5 {
			break
		}
		n = m
	}
	return n
}

func sockStackCounts() map[string]int {
	buf := make([]byte, 1<<22)
	n := runtime.Stack(buf, true)
	cnt := map[string]int{}
	for _, g := range strings.Split(string(buf[:n]), "\n\n") {
		if i := strings.LastIndex(g, "created by "); i >= 0 {
			l := g[i+len("created by "):]
			if j := strings.IndexAny(l, " \n"); j >= 0 {
				l = l[:j]
			}
			cnt[l]++
		}
	}
	return cnt
}

// sockStackDiff: which creators have more goroutines than at the baseline
func sockStackDiff(base map[string]int) string {
	cur := sockStackCounts()
	keys := make([]string, 0, len(cur))
	for k := range cur {
		keys = append(keys, k)
	}
	sort.Strings(keys)
	var sb strings.Builder
	for _, k := range keys {
		if cur[k] > base[k] {
			fmt.Fprintf(&sb, "%s:+%d ", strings.TrimPrefix(k, "github.com/ansible/receptor/pkg/"), cur[k]-base[k])
		}
	}
	return sb.String()
}

func sockStacks() string {
	buf := make([]byte, 1<<22)
	n := runtime.Stack(buf, true)
	// the distinct functions goroutines were created by, with their counts
	cnt := map[string]int{}
	for _, g := range strings.Split(string(buf[:n]), "\n\n") {
		if i := strings.LastIndex(g, "created by "); i >= 0 {
			l := g[i+len("created by "):]
			if j := strings.IndexAny(l, " \n"); j >= 0 {
				l = l[:j]
			}
			cnt[l]++
		}
	}
	keys := make([]string, 0, len(cnt))
	for k := range cnt {
		keys = append(keys, k)
	}
	sort.Strings(keys)
	var sb strings.Builder
	for _, k := range keys {
		fmt.Fprintf(&sb, "%s:%d ", k, cnt[k])
	}
	return sb.String()
}

func sockApply(op string, raw json.RawMessage) interface{} {
	var a sockArgs
	if err := json.Unmarshal(raw, &a); err != nil {
		panic(err)
	}
	s, cancel := verifQuietNode("sockme", 30)
	defer cancel()
	// a stream listener to dial to (and its accept loop: echo until end-of-stream)
	li, err := s.Listen("echo", nil)
	if err != nil {
		return map[string]interface{}{"error": "listen echo: " + err.Error()}
	}
	go func() {
		for {
			c, err := li.Accept()
			if err != nil {
				if strings.Contains(err.Error(), "listener closed") || s.context.Err() != nil {
					return
				}
				continue // a connection that failed while it was being accepted
			}
			go func() {
				_, _ = io.Copy(io.Discard, c)
				_ = c.Close()
				if cc, ok := c.(*Conn); ok && a.ServerClose != "close" {
					_ = cc.CloseConnection()
				}
			}()
		}
	}()
	// one dial + ping to warm up whatever is started lazily, then the baseline
	if c, err := s.Dial("sockme", "echo", nil); err == nil {
		_ = c.Close()
		_ = c.CloseConnection()
	}
	baseG := sockGoroutines()
	baseStacks := sockStackCounts()
	s.listenerLock.RLock()
	baseReg := map[string]bool{}
	for k := range s.listenerRegistry {
		baseReg[k] = true
	}
	s.listenerLock.RUnlock()

	type sk struct {
		pc    PacketConner
		name  string
		subs  []chan struct{}
		sends sync.WaitGroup
	}
	var socks []*sk
	var conns []*Conn
	errs := []string{}
	for _, o := range a.Ops {
		switch o.K {
		case "listen":
			var pc PacketConner
			var err error
			if o.Adv {
				pc, err = s.ListenPacketAndAdvertise(o.Svc, map[string]string{"t": "v"})
			} else {
				pc, err = s.ListenPacket(o.Svc)
			}
			if err != nil {
				socks = append(socks, nil) // refused: the name is bound (the model refuses too)
				continue
			}
			socks = append(socks, &sk{pc: pc, name: o.Svc})
		case "close":
			if o.I < len(socks) && socks[o.I] != nil {
				_ = socks[o.I].pc.Close()
			}
		case "send":
			if o.I < len(socks) && socks[o.I] != nil {
				x := socks[o.I]
				x.sends.Add(1)
				go func() {
					defer x.sends.Done()
					_ = s.SendMessageWithHopsToLive("sender", "sockme", x.name, []byte("payload"), 5)
				}()
				time.Sleep(2 * time.Millisecond) // let it reach the hand-off
			}
		case "recv":
			if o.I < len(socks) && socks[o.I] != nil {
				_ = socks[o.I].pc.SetReadDeadline(time.Now().Add(300 * time.Millisecond))
				buf := make([]byte, 100)
				_, _, _ = socks[o.I].pc.ReadFrom(buf)
				_ = socks[o.I].pc.SetReadDeadline(time.Time{})
			}
		case "subscribe":
			if o.I < len(socks) && socks[o.I] != nil {
				done := make(chan struct{})
				ch := socks[o.I].pc.SubscribeUnreachable(done)
				if ch != nil {
					socks[o.I].subs = append(socks[o.I].subs, done)
					go func() {
						for range ch { //nolint:revive
						}
					}()
				}
			}
		case "unsubscribe":
			if o.I < len(socks) && socks[o.I] != nil && len(socks[o.I].subs) > 0 {
				close(socks[o.I].subs[0])
				socks[o.I].subs = socks[o.I].subs[1:]
			}
		case "notice":
			// an unreachable notice addressed to socket i's service arrives (fanned out by the brokers)
			if o.I < len(socks) && socks[o.I] != nil {
				u := UnreachableMessage{FromNode: "sockme", FromService: socks[o.I].name, ToNode: "x", ToService: "y", Problem: ProblemServiceUnknown}
				data, _ := json.Marshal(u)
				go func() {
					_ = s.handleMessageData(&MessageData{FromNode: "sockme", FromService: "unreach", ToNode: "sockme", ToService: "unreach", HopsToLive: 5, Data: data})
				}()
				time.Sleep(time.Millisecond)
			}
		case "dial":
			ctx, dcancel := context.WithTimeout(context.Background(), 5*time.Second)
			c, err := s.DialContext(ctx, "sockme", "echo", nil)
			dcancel()
			if err != nil {
				errs = append(errs, "dial: "+err.Error())
				conns = append(conns, nil)
				continue
			}
			_, _ = c.Write([]byte("hello"))
			conns = append(conns, c)
		case "cancelread":
			// the dialling side gives up reading (STOP_SENDING reaches the accepting side's stream)
			if o.I < len(conns) && conns[o.I] != nil {
				conns[o.I].CancelRead()
				time.Sleep(5 * time.Millisecond)
			}
		case "connclose":
			if o.I < len(conns) && conns[o.I] != nil {
				c := conns[o.I]
				switch o.How {
				case "close":
					_ = c.Close()
				case "closeconn":
					_ = c.CloseConnection()
				default:
					_ = c.Close()
					_ = c.CloseConnection()
				}
			}
		case "ping":
			target := "sockme"
			if o.How == "nosuch" {
				target = "nosuchnode"
			}
			ctx, pcancel := context.WithTimeout(context.Background(), 300*time.Millisecond)
			_, _, _ = s.Ping(ctx, target, 5)
			pcancel()
		}
	}
	if a.ListenerClose != "" {
		li2, err := s.Listen("echo2", nil)
		if err != nil {
			errs = append(errs, "listen echo2: "+err.Error())
		} else {
			go func() {
				for {
					c, err := li2.Accept()
					if err != nil {
						if strings.Contains(err.Error(), "listener closed") || s.context.Err() != nil {
							return
						}
						continue
					}
					go func() {
						_, _ = io.Copy(io.Discard, c)
						_ = c.Close()
						if cc, ok := c.(*Conn); ok {
							_ = cc.CloseConnection()
						}
					}()
				}
			}()
			var c2 *Conn
			if a.ListenerClose == "live" {
				if c, err := s.Dial("sockme", "echo2", nil); err == nil {
					_, _ = c.Write([]byte("still here"))
					c2 = c
					time.Sleep(30 * time.Millisecond)
				}
			}
			if !verifTimed(8*time.Second, func() { _ = li2.Close() }) {
				errs = append(errs, "closing a stream listener ("+a.ListenerClose+" connection) did not return")
			}
			if c2 != nil {
				_ = c2.Close()
				_ = c2.CloseConnection()
			}
		}
	}
	res := map[string]interface{}{"errs": errs}
	if a.Shutdown {
		// Shutdown closes the node's listeners itself (closing `li` here as well can dead-lock inside the
		// vendored quic-go: its Transport and server take each other's locks in opposite orders when the
		// transport's read loop fails at the moment the listener is closed)
		s.Shutdown()
		time.Sleep(50 * time.Millisecond)
		after := sockGoroutines()
		// after Shutdown nothing of the node may be running; the listener/accept goroutines of this harness end with it
		res["after_shutdown_goroutines_over_base"] = after > baseG
		if after > baseG {
			res["stacks"] = sockStackDiff(baseStacks)
		}
		res["nontrivial"] = true
		return res
	}
	// close everything that is still open (connections fully, sockets once more), let parked deliverers notice
	for _, c := range conns {
		if c != nil {
			_ = c.Close()
			_ = c.CloseConnection()
		}
	}
	for _, x := range socks {
		if x != nil {
			for _, d := range x.subs {
				close(d)
			}
			x.subs = nil
			_ = x.pc.Close()
		}
	}
	for _, x := range socks {
		if x != nil {
			done := make(chan struct{})
			go func() { x.sends.Wait(); close(done) }()
			select {
			case <-done:
			case <-time.After(3 * time.Second):
				errs = append(errs, "a deliverer is still parked after its socket was closed")
			}
		}
	}
	// QUIC connections end within their (shortened) idle time-out at the latest; give the clean-up time
	deadline := time.Now().Add(4 * time.Second)
	var bound []string
	for {
		bound = bound[:0]
		s.listenerLock.RLock()
		for k := range s.listenerRegistry {
			if !baseReg[k] {
				bound = append(bound, k)
			}
		}
		s.listenerLock.RUnlock()
		if len(bound) == 0 || time.Now().After(deadline) {
			break
		}
		time.Sleep(20 * time.Millisecond)
	}
	sort.Strings(bound)
	named, ephemeral := []string{}, 0
	for _, b := range bound {
		isNamed := false
		for _, x := range socks {
			if x != nil && x.name == b {
				isNamed = true
			}
		}
		if isNamed {
			named = append(named, verifHex([]byte(b)))
		} else {
			ephemeral++
		}
	}
	after := sockGoroutines()
	res["errs"] = errs
	res["bound_set"] = named
	res["ephemeral_bound"] = ephemeral
	res["goroutines_over_base"] = after - baseG
	if after > baseG {
		res["stacks"] = sockStackDiff(baseStacks)
	}
	res["nontrivial"] = true
	return res
}

func sockGen(v *verifRun) {
	names := []string{"a", "b", "svc", "x1"}
	for i := 0; i < v.n; i++ {
		var a sockArgs
		nS, nC := 0, 0
		n := 3 + v.rng.Intn(14)
		for k := 0; k < n; k++ {
			switch r := v.rng.Intn(20); {
			case r < 4 || nS == 0:
				a.Ops = append(a.Ops, sockOp{K: "listen", Svc: names[v.rng.Intn(len(names))], Adv: v.rng.Intn(3) == 0})
				nS++
			case r < 8:
				a.Ops = append(a.Ops, sockOp{K: "close", I: v.rng.Intn(nS)})
			case r < 11:
				a.Ops = append(a.Ops, sockOp{K: "send", I: v.rng.Intn(nS)})
			case r < 12:
				a.Ops = append(a.Ops, sockOp{K: "recv", I: v.rng.Intn(nS)})
			case r < 14:
				a.Ops = append(a.Ops, sockOp{K: "subscribe", I: v.rng.Intn(nS)})
			case r < 15:
				a.Ops = append(a.Ops, sockOp{K: "unsubscribe", I: v.rng.Intn(nS)})
			case r < 16:
				a.Ops = append(a.Ops, sockOp{K: "notice", I: v.rng.Intn(nS)})
			case r < 17:
				a.Ops = append(a.Ops, sockOp{K: "dial"})
				nC++
			case r < 18 && nC > 0:
				c := v.rng.Intn(nC)
				if v.rng.Intn(3) == 0 {
					a.Ops = append(a.Ops, sockOp{K: "cancelread", I: c})
				}
				a.Ops = append(a.Ops, sockOp{K: "connclose", I: c, How: []string{"close", "closeconn", "both"}[v.rng.Intn(3)]})
			case r < 19:
				a.Ops = append(a.Ops, sockOp{K: "ping", How: []string{"ok", "nosuch"}[v.rng.Intn(2)]})
			default:
				a.Ops = append(a.Ops, sockOp{K: "close", I: v.rng.Intn(nS)})
			}
		}
		a.Shutdown = v.rng.Intn(6) == 0
		a.ListenerClose = []string{"", "", "", "idle", "live"}[v.rng.Intn(5)]
		a.ServerClose = []string{"both", "close"}[v.rng.Intn(2)]
		v.do(sockApply, "script", a)
	}
}

func TestVerifSock(t *testing.T) {
	v := verifOpen(t, "sock")
	v.runIsolated("TestVerifSock", sockApply, sockGen, 20*time.Second)
}
