/-!
# Packet handling at a node and along a route (`handleMessageData`, `forwardMessage`,
`sendUnreachable`, reserved services) — properties C02 (dispatch), C10, C12 (where the
firewall verdict applies), C16.

A node is described by what `handleMessageData` reads: its ID, routing table, the set of
connections with a write channel, the set of open listeners, the firewall verdict for a
packet, the default hop budget.  `handle` is one call of `handleMessageData`; packets the
call itself originates (unreachable notices, ping replies) are returned as `spawn` and
then handled by the same node (`observe`), exactly as `sendMessage` re-enters
`handleMessageData`.  `walk` follows a packet hop by hop across a network of such nodes.
-/
namespace Receptor.Forward

abbrev Bytes := List Nat
abbrev Node := Bytes
abbrev Svc := Bytes

def unreachSvc : Svc := [117, 110, 114, 101, 97, 99, 104]   -- "unreach"
def pingSvc : Svc := [112, 105, 110, 103]                    -- "ping"

inductive Problem where
  | serviceUnknown | expired | rejected
  deriving DecidableEq, Repr

/-- the JSON body of an unreachable notice -/
structure NoticeBody where
  fromNode : Node
  toNode : Node
  fromSvc : Svc
  toSvc : Svc
  problem : Problem
  deriving DecidableEq, Repr

inductive Body where
  | raw (b : Bytes)
  | notice (n : NoticeBody)
  deriving DecidableEq, Repr

structure Packet where
  fromNode : Node
  toNode : Node
  fromSvc : Svc
  toSvc : Svc
  ttl : Nat
  body : Body
  deriving DecidableEq, Repr

inductive FwResult where
  | accept | reject | drop
  deriving DecidableEq, Repr

/-- How `forwardMessage` treats the hop budget (regenerated facts): the comparison used for
"expired" and whether the budget is decremented on relay. -/
structure HopRule where
  /-- expired iff `ttl ≤ expireAt` (the source has `HopsToLive <= 0`) -/
  expireAt : Nat
  /-- amount subtracted from the TTL byte when relaying (the source has `message[1]--`) -/
  decrement : Nat
  /-- notices are not generated about packets whose FromService is "unreach" -/
  noticeGuard : Bool
  /-- `handlePing` does not answer a packet whose FromService is "ping" -/
  pingGuard : Bool := true
  deriving DecidableEq, Repr

def stdHops : HopRule := { expireAt := 0, decrement := 1, noticeGuard := true, pingGuard := true }

structure NodeCfg where
  route : Node → Option Node
  conn : Node → Bool
  listener : Svc → Bool
  fw : Node → Svc → Node → Svc → FwResult
  maxHops : Nat

inductive Err where
  | serviceUnknown | noRoute | noConn | badNotice
  deriving DecidableEq, Repr

inductive Outcome where
  | dropped                         -- firewall drop: nothing observable
  | silent                          -- reject / expiry of a packet that is itself a notice
  | delivered                       -- handed to the listener registered under ToService
  | published (n : NoticeBody)      -- reserved service "unreach": broker publication
  | err (e : Err)                   -- error returned to the caller
  | forward (next : Node)           -- relayed to `next` with the budget decremented
  | spawn (q : Packet)              -- a notice or ping reply originated here (then handled here)
  | diverges                        -- ping to "ping" from the node's own "ping": unbounded recursion
  deriving DecidableEq, Repr

def mkNotice (me : Node) (cfg : NodeCfg) (p : Packet) (pr : Problem) : Packet :=
  { fromNode := me, fromSvc := unreachSvc, toNode := p.fromNode, toSvc := unreachSvc, ttl := cfg.maxHops,
    body := .notice { fromNode := p.fromNode, toNode := p.toNode, fromSvc := p.fromSvc, toSvc := p.toSvc,
                      problem := pr } }

def isNotice (H : HopRule) (p : Packet) : Bool := H.noticeGuard && p.fromSvc == unreachSvc

/-- one call of `handleMessageData` at node `me` -/
def handle (H : HopRule) (me : Node) (cfg : NodeCfg) (p : Packet) : Outcome :=
  match cfg.fw p.fromNode p.fromSvc p.toNode p.toSvc with
  | .drop => .dropped
  | .reject => if isNotice H p then .silent else .spawn (mkNotice me cfg p .rejected)
  | .accept =>
    if p.toNode = me then
      if p.toSvc = pingSvc then
        if H.pingGuard ∧ p.fromSvc = pingSvc then .silent
        else if p.fromNode = me ∧ p.fromSvc = pingSvc then .diverges
        else .spawn { fromNode := me, fromSvc := pingSvc, toNode := p.fromNode, toSvc := p.fromSvc,
                      ttl := cfg.maxHops, body := .raw [] }
      else if p.toSvc = unreachSvc then
        match p.body with
        | .notice n => .published n
        | .raw _ => .err .badNotice
      else if cfg.listener p.toSvc then .delivered
      else if p.fromNode = me then .err .serviceUnknown
      else .spawn (mkNotice me cfg p .serviceUnknown)
    else if p.ttl ≤ H.expireAt then
      if isNotice H p then .silent else .spawn (mkNotice me cfg p .expired)
    else
      match cfg.route p.toNode with
      | none => .err .noRoute
      | some nh => if cfg.conn nh then .forward nh else .err .noConn

/-- everything one top-level call does at this node: the packet's own outcome followed by the
outcomes of the packets it originates (bounded: a notice never causes another notice). -/
def observe (H : HopRule) (me : Node) (cfg : NodeCfg) : Nat → Packet → List (Packet × Outcome)
  | 0, _ => []
  | fuel + 1, p =>
    let o := handle H me cfg p
    match o with
    | .spawn q => (p, o) :: observe H me cfg fuel q
    | _ => [(p, o)]

/-- a network: the configuration of every node -/
abbrev Net := Node → NodeCfg

/-- the TTL byte after a relay: `message[1]--` on a `byte` -/
def nextTtl (H : HopRule) (ttl : Nat) : Nat := (ttl + 256 - H.decrement) % 256

/-- Follow packet `p` from node `cur` with hop budget `ttl`: the list of relays
(sender, receiver) and the node and outcome where it ends.  `fuel` bounds the number of
steps explored (the model must stay total even for hop rules under which a packet would
circulate forever); running out of fuel is reported as `diverges`. -/
def walk (H : HopRule) (net : Net) : Nat → Nat → Node → Packet → List (Node × Node) × (Node × Outcome)
  | 0, _, cur, _ => ([], (cur, .diverges))
  | fuel + 1, ttl, cur, p =>
    match handle H cur (net cur) { p with ttl := ttl } with
    | .forward nh =>
      let r := walk H net fuel (nextTtl H ttl) nh p
      ((cur, nh) :: r.1, r.2)
    | o => ([], (cur, o))

/-- `walk` with enough fuel for the standard hop rule (one more step than the budget) -/
def route (net : Net) (cur : Node) (p : Packet) : List (Node × Node) × (Node × Outcome) :=
  walk stdHops net (p.ttl + 1) p.ttl cur p

/-- the per-socket filter of `PacketConn.StartUnreachable`: a socket bound to `svc` on node
`me` passes on exactly the notices about packets it sent itself -/
def socketGetsNotice (me : Node) (svc : Svc) (n : NoticeBody) : Bool :=
  n.fromNode == me && n.fromSvc == svc

/-- the nodes of a mesh (numbered from `k`) that treat a datagram addressed to `target` as their own:
the local-dispatch test of `handleMessageData` is equality of the node IDs as byte strings -/
def addresseesFrom (k : Nat) : List Node → Node → List Nat
  | [], _ => []
  | id :: rest, t => (if id = t then [k] else []) ++ addresseesFrom (k + 1) rest t

def addressees (ids : List Node) (target : Node) : List Nat := addresseesFrom 0 ids target

/-! ## a send to a socket of this very node: who owns the bytes

`WriteTo` returns as soon as the reader's goroutine has *taken* the message; the reader copies the payload into its
own buffer a moment later.  In between the caller is free to reuse the buffer it passed to `WriteTo`
(`net.PacketConn` promises that, and quic-go does it).  `copyOnSend` (regenerated fact): the message carries its own
copy of the payload. -/

/-- what the reader copies out: the message's own copy of what was sent, or the caller's buffer as it is at that
moment (`after`: what the caller has written into it since) -/
def localRead (copyOnSend : Bool) (sent after : Bytes) : Bytes := if copyOnSend then sent else after

end Receptor.Forward
