package netceptor

// C01 algorithm layer: updateRoutingTable on random known-connection graphs.

import (
	"encoding/json"
	"fmt"
	"math"
	"testing"
)

type routeArgs struct {
	Self  string                        `json:"self"`
	Known map[string]map[string]float64 `json:"known"`
}

func routeApply(op string, raw json.RawMessage) interface{} {
	var a routeArgs
	if err := json.Unmarshal(raw, &a); err != nil {
		panic(err)
	}
	if op != "table" {
		panic("verif: unknown op " + op)
	}
	self := string(verifUnhex(a.Self))
	s, cancel := verifQuietNode(self, 30)
	defer cancel()
	for n, m := range a.Known {
		s.knownConnectionCosts[string(verifUnhex(n))] = unhexKeys(m)
	}
	s.updateRoutingTable()
	table := map[string]string{}
	s.routingTableLock.RLock()
	for d, h := range s.routingTable {
		table[verifHex([]byte(d))] = verifHex([]byte(h))
	}
	cost := map[string]interface{}{}
	for n, c := range s.routingPathCosts {
		if c == math.MaxFloat64 {
			cost[verifHex([]byte(n))] = "inf"
		} else {
			cost[verifHex([]byte(n))] = c
		}
	}
	s.routingTableLock.RUnlock()
	// the public accessors must agree with the internal tables
	for n := range a.Known {
		c, err := s.PathCost(string(verifUnhex(n)))
		if err != nil {
			panic("verif: PathCost fails for a known node")
		}
		if c == math.MaxFloat64 {
			if cost[n] != "inf" {
				panic("verif: PathCost disagrees")
			}
		} else if cost[n] != c {
			panic("verif: PathCost disagrees")
		}
	}
	return map[string]interface{}{"ok": map[string]interface{}{"table": table, "cost": cost}}
}

func routeGen(v *verifRun) {
	for i := 0; i < v.n; i++ {
		k := 1 + v.rng.Intn(10)
		names := make([]string, k)
		for j := range names {
			names[j] = fmt.Sprintf("n%d", j)
		}
		hx := func(s string) string { return verifHex([]byte(s)) }
		known := map[string]map[string]float64{}
		density := []float64{0.15, 0.3, 0.6}[v.rng.Intn(3)]
		symmetric := v.rng.Intn(3) != 0
		maxc := []int{1, 3, 9}[v.rng.Intn(3)] // small cost ranges make ties frequent
		for _, n := range names {
			if v.rng.Intn(12) != 0 { // some nodes are only mentioned as neighbours (not keys)
				known[hx(n)] = map[string]float64{}
			}
		}
		for a := 0; a < k; a++ {
			for b := a + 1; b < k; b++ {
				if v.rng.Float64() > density {
					continue
				}
				c := float64(1 + v.rng.Intn(maxc))
				if m, ok := known[hx(names[a])]; ok {
					m[hx(names[b])] = c
				}
				c2 := c
				if !symmetric {
					if v.rng.Intn(2) == 0 {
						continue
					}
					c2 = float64(1 + v.rng.Intn(maxc))
				}
				if m, ok := known[hx(names[b])]; ok {
					m[hx(names[a])] = c2
				}
			}
		}
		if v.rng.Intn(10) == 0 { // an edge to a node nobody has heard from
			for _, m := range known {
				m[hx("ghost")] = 1
				break
			}
		}
		self := names[0]
		if v.rng.Intn(15) == 0 {
			delete(known, hx(self)) // a node without any connection of its own
		}
		v.do(routeApply, "table", routeArgs{Self: hx(self), Known: known})
	}
}

func TestVerifRoute(t *testing.T) {
	v := verifOpen(t, "route")
	v.run(routeApply, routeGen)
}
