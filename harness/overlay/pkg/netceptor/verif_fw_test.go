package netceptor

// C12 harness: ParseFirewallRules on well-formed and malformed rule data; regular expressions are
// generated as ASTs of the verified subset and rendered to source text, so that the Lean side can
// match them with its derivative matcher.

import (
	"encoding/json"
	"fmt"
	"strings"
	"testing"
)

// ---- regex ASTs

type reNode struct {
	T   string // chr cls cat alt star plus opt eps
	C   byte
	Neg bool
	Rs  [][2]byte
	A   *reNode
	B   *reNode
}

func reJSON(n *reNode) interface{} {
	switch n.T {
	case "eps":
		return map[string]interface{}{"t": "eps"}
	case "chr":
		return map[string]interface{}{"t": "chr", "c": int(n.C)}
	case "cls":
		rs := [][]int{}
		for _, r := range n.Rs {
			rs = append(rs, []int{int(r[0]), int(r[1])})
		}
		return map[string]interface{}{"t": "cls", "neg": n.Neg, "rs": rs}
	case "cat", "alt":
		return map[string]interface{}{"t": n.T, "a": reJSON(n.A), "b": reJSON(n.B)}
	case "star":
		return map[string]interface{}{"t": "star", "a": reJSON(n.A)}
	case "plus":
		return map[string]interface{}{"t": "cat", "a": reJSON(n.A), "b": map[string]interface{}{"t": "star", "a": reJSON(n.A)}}
	case "opt":
		return map[string]interface{}{"t": "opt", "a": reJSON(n.A)}
	}
	panic("verif: bad regex node")
}

func reChar(c byte) string {
	if (c >= 'a' && c <= 'z') || (c >= 'A' && c <= 'Z') || (c >= '0' && c <= '9') || c == '-' || c == '_' {
		return string(c)
	}
	return fmt.Sprintf(`\x%02x`, c)
}

// reRender renders the AST; a top-level alternation is left unparenthesised when top is true.
func reRender(n *reNode, top bool) string {
	atom := func(m *reNode) string {
		s := reRender(m, false)
		if m.T == "chr" || m.T == "cls" {
			return s
		}
		return "(?:" + s + ")"
	}
	switch n.T {
	case "eps":
		return "(?:)"
	case "chr":
		return reChar(n.C)
	case "cls":
		if n.Neg && len(n.Rs) == 1 && n.Rs[0] == [2]byte{10, 10} {
			return "."
		}
		var b strings.Builder
		b.WriteString("[")
		if n.Neg {
			b.WriteString("^")
		}
		for _, r := range n.Rs {
			b.WriteString(fmt.Sprintf(`\x%02x-\x%02x`, r[0], r[1]))
		}
		b.WriteString("]")
		return b.String()
	case "cat":
		l, r := reRender(n.A, false), reRender(n.B, false)
		if n.A.T == "alt" {
			l = "(?:" + l + ")"
		}
		if n.B.T == "alt" {
			r = "(?:" + r + ")"
		}
		return l + r
	case "alt":
		s := reRender(n.A, true) + "|" + reRender(n.B, true)
		if top {
			return s
		}
		return "(?:" + s + ")"
	case "star":
		return atom(n.A) + "*"
	case "plus":
		return atom(n.A) + "+"
	case "opt":
		return atom(n.A) + "?"
	}
	panic("verif: bad regex node")
}

func reLit(s string) *reNode {
	if s == "" {
		return &reNode{T: "eps"}
	}
	n := &reNode{T: "chr", C: s[0]}
	for i := 1; i < len(s); i++ {
		n = &reNode{T: "cat", A: n, B: &reNode{T: "chr", C: s[i]}}
	}
	return n
}

func (v *verifRun) reRandom(depth int) *reNode {
	if depth <= 0 || v.rng.Intn(3) == 0 {
		switch v.rng.Intn(4) {
		case 0:
			return &reNode{T: "cls", Neg: true, Rs: [][2]byte{{10, 10}}} // .
		case 1:
			lo := byte('a' + v.rng.Intn(20))
			return &reNode{T: "cls", Neg: v.rng.Intn(4) == 0, Rs: [][2]byte{{lo, lo + byte(v.rng.Intn(6))}}}
		default:
			return &reNode{T: "chr", C: "abcn0123svc-_x"[v.rng.Intn(14)]}
		}
	}
	switch v.rng.Intn(6) {
	case 0:
		return &reNode{T: "alt", A: v.reRandom(depth - 1), B: v.reRandom(depth - 1)}
	case 1:
		return &reNode{T: "star", A: v.reRandom(depth - 1)}
	case 2:
		return &reNode{T: "plus", A: v.reRandom(depth - 1)}
	case 3:
		return &reNode{T: "opt", A: v.reRandom(depth - 1)}
	default:
		return &reNode{T: "cat", A: v.reRandom(depth - 1), B: v.reRandom(depth - 1)}
	}
}

// reNear: a pattern related to val — exact, a prefix/suffix alternative, wildcard variants, or random.
func (v *verifRun) reNear(val string) *reNode {
	switch v.rng.Intn(8) {
	case 0:
		return reLit(val)
	case 5:
		if len(val) > 1 { // proper-prefix|val: the full match is the second choice of a leftmost-first matcher
			return &reNode{T: "alt", A: reLit(val[:1+v.rng.Intn(len(val)-1)]), B: reLit(val)}
		}
		return reLit(val)
	case 1: // val|other: with ungrouped anchors this matches val-prefixed and other-suffixed strings
		return &reNode{T: "alt", A: reLit(val), B: reLit("zz")}
	case 2:
		if len(val) > 1 { // first|rest-of-val
			return &reNode{T: "alt", A: reLit(val[:1]), B: reLit(val[1:])}
		}
		return reLit(val)
	case 3:
		return &reNode{T: "cat", A: reLit(val[:len(val)/2]), B: &reNode{T: "star", A: &reNode{T: "cls", Neg: true, Rs: [][2]byte{{10, 10}}}}}
	case 4:
		return &reNode{T: "alt", A: &reNode{T: "alt", A: reLit("q"), B: reLit(val[len(val)/2:])}, B: reLit("w")}
	default:
		return v.reRandom(3)
	}
}

// ---- rule data

type fwValArg struct {
	S *string `json:"s,omitempty"` // string value (hex)
	O string  `json:"o,omitempty"` // other type: int, nil, list, bool, map, float
}

type fwKVArg struct {
	K        string      `json:"k"` // key (hex)
	V        fwValArg    `json:"v"`
	AST      interface{} `json:"ast"`      // AST when the value is a /regex/ that must compile
	Compiles *bool       `json:"compiles"` // ground truth by construction for regex values
}

type fwArgs struct {
	Rules [][]fwKVArg `json:"rules"`
}

func fwData(a fwArgs) []FirewallRuleData {
	var out []FirewallRuleData
	for _, r := range a.Rules {
		m := FirewallRuleData{}
		for _, kv := range r {
			var val interface{}
			if kv.V.S != nil {
				val = string(verifUnhex(*kv.V.S))
			} else {
				switch kv.V.O {
				case "int":
					val = 7
				case "nil":
					val = nil
				case "list":
					val = []interface{}{"accept"}
				case "bool":
					val = true
				case "map":
					val = map[interface{}]interface{}{"a": "b"}
				default:
					val = 1.5
				}
			}
			m[string(verifUnhex(kv.K))] = val
		}
		out = append(out, m)
	}
	return out
}

func fwApply(op string, raw json.RawMessage) interface{} {
	var a fwArgs
	if err := json.Unmarshal(raw, &a); err != nil {
		panic(err)
	}
	switch op {
	case "parse":
		rules, err := ParseFirewallRules(fwData(a))
		if err != nil {
			return map[string]interface{}{"err": true}
		}
		return map[string]interface{}{"ok": len(rules)}
	case "twonodes":
		// one parsed rule list handed to two nodes of one process, each of which then adds a rule of its own:
		// every node decides by its own list
		base := []FirewallRuleData{}
		for i := 0; i < 3; i++ {
			base = append(base, FirewallRuleData{"action": "accept", "tonode": fmt.Sprintf("zz%d", i)})
		}
		rules, err := ParseFirewallRules(base)
		if err != nil {
			panic(err)
		}
		n1, c1 := verifQuietNode("fw-n1", 30)
		defer c1()
		n2, c2 := verifQuietNode("fw-n2", 30)
		defer c2()
		_ = n1.AddFirewallRules(rules, true)
		_ = n2.AddFirewallRules(rules, true)
		e1, _ := ParseFirewallRules([]FirewallRuleData{{"action": "drop", "toservice": "s1"}})
		e2, _ := ParseFirewallRules([]FirewallRuleData{{"action": "reject", "toservice": "s2"}})
		_ = n1.AddFirewallRules(e1, false)
		_ = n2.AddFirewallRules(e2, false)
		verdict := func(n *Netceptor, svc string) string {
			md := &MessageData{FromNode: "a", FromService: "x", ToNode: "b", ToService: svc}
			n.firewallLock.RLock()
			defer n.firewallLock.RUnlock()
			for _, r := range n.firewallRules {
				switch r(md) {
				case FirewallResultAccept:
					return "accept"
				case FirewallResultReject:
					return "reject"
				case FirewallResultDrop:
					return "drop"
				}
			}
			return "accept"
		}
		return map[string]interface{}{"n1": []string{verdict(n1, "s1"), verdict(n1, "s2")}, "n2": []string{verdict(n2, "s1"), verdict(n2, "s2")}}
	}
	panic("verif: unknown op " + op)
}

func fwStr(s string) fwValArg { h := verifHex([]byte(s)); return fwValArg{S: &h} }

func (v *verifRun) fwRule(bad *bool) []fwKVArg {
	keys := [][]string{{"fromnode", "FromNode", "FROMNODE"}, {"tonode", "ToNode", "toNode"},
		{"fromservice", "FromService", "fromService"}, {"toservice", "ToService", "TOSERVICE"}}
	var r []fwKVArg
	act := []string{"accept", "reject", "drop", "Accept", "DROP"}[v.rng.Intn(5)]
	r = append(r, fwKVArg{K: verifHex([]byte([]string{"action", "Action", "ACTION"}[v.rng.Intn(3)])), V: fwStr(act)})
	for _, ks := range keys {
		if v.rng.Intn(2) == 0 {
			continue
		}
		k := ks[v.rng.Intn(len(ks))]
		switch v.rng.Intn(6) {
		case 0:
			ast := v.reRandom(3)
			t := true
			r = append(r, fwKVArg{K: verifHex([]byte(k)), V: fwStr("/" + reRender(ast, true) + "/"), AST: reJSON(ast), Compiles: &t})
		case 1:
			r = append(r, fwKVArg{K: verifHex([]byte(k)), V: fwStr("")})
		default:
			r = append(r, fwKVArg{K: verifHex([]byte(k)), V: fwStr(fmt.Sprintf("n%d", v.rng.Intn(5)))})
		}
	}
	if *bad {
		f := false
		k := keys[v.rng.Intn(4)][0]
		// remove an existing entry for k (case-insensitively) so that the malformed one is the only one
		var r2 []fwKVArg
		for _, kv := range r {
			if !strings.EqualFold(string(verifUnhex(kv.K)), k) {
				r2 = append(r2, kv)
			}
		}
		r = r2
		switch v.rng.Intn(9) {
		case 0:
			r = append(r, fwKVArg{K: verifHex([]byte("colour")), V: fwStr("red")})
		case 1:
			r[0].V = fwStr([]string{"allow", "deny", "", "accept "}[v.rng.Intn(4)])
		case 2:
			r = append(r, fwKVArg{K: verifHex([]byte(k)), V: fwValArg{O: []string{"int", "nil", "list", "bool", "map", "float"}[v.rng.Intn(6)]}})
		case 3:
			r[0].V = fwValArg{O: "int"}
		case 4: // regex that does not compile
			r = append(r, fwKVArg{K: verifHex([]byte(k)), V: fwStr([]string{"/[/", "/(/", "/a**/", "/a{2,1}/", `/\/`, "/)/", "/+a/"}[v.rng.Intn(7)]), Compiles: &f})
		case 5: // not closed by a slash
			r = append(r, fwKVArg{K: verifHex([]byte(k)), V: fwStr([]string{"/abc", "/a/b", "/n1"}[v.rng.Intn(3)]), Compiles: &f})
		case 6: // the single slash
			r = append(r, fwKVArg{K: verifHex([]byte(k)), V: fwStr("/"), Compiles: &f})
		case 7: // no action at all
			r = r[1:]
		case 8:
			r = append(r, fwKVArg{K: verifHex([]byte("")), V: fwStr("x")})
		}
	}
	return r
}

func fwGen(v *verifRun) {
	for i := 0; i < v.n; i++ {
		var a fwArgs
		n := 1 + v.rng.Intn(3)
		badAt := -1
		if v.rng.Intn(2) == 0 {
			badAt = v.rng.Intn(n)
		}
		for k := 0; k < n; k++ {
			bad := k == badAt
			a.Rules = append(a.Rules, v.fwRule(&bad))
		}
		v.do(fwApply, "parse", a)
		if i == 0 {
			v.do(fwApply, "twonodes", fwArgs{Rules: [][]fwKVArg{}})
		}
	}
}

func TestVerifFw(t *testing.T) {
	v := verifOpen(t, "fw")
	v.run(fwApply, fwGen)
}
