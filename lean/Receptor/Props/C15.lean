import Receptor.Model.Work
import Receptor.Proofs.WorkNode
import Receptor.Generated.Facts
/-!
# C15 — signature-protected work cannot be driven remotely without a valid token
-/
namespace Receptor.Work

/-- **Tie (translator)**: `processSignature` (decision by work type / signwork flag, skip only
for the Unix socket, unexpected tokens refused) and, in every gated arm of `ControlFunc`, the
call to it before the effect; `VerifySignature` refuses an empty token and an unset key and
checks validity and audience, calls nothing else (no memory of earlier verdicts) and accepts in one place
only; the gate and the allocation look the work type up under the name exactly as given. -/
theorem C15_facts :
    Receptor.Facts.sig_gate = "!shouldVerifySignature && signature != \"\":refuse;shouldVerifySignature && !connIsUnix:VerifySignature"
    ∧ Receptor.Facts.sig_should = "remote:signWork;ok && wt.verifySignature"
    ∧ Receptor.Facts.sig_unix = "addr.Network() == \"unix\""
    ∧ Receptor.Facts.sig_arms = "submit:gate<AllocateUnit,AllocateRemoteUnit;cancel,release,force-release:findUnit<gate<Cancel,Release;results:findUnit<gate<GetResults"
    ∧ Receptor.Facts.sig_verify = "empty;nokey;ParseWithClaims;!token.Valid;VerifyAudience(w.nc.NodeID(), true)"
    ∧ Receptor.Facts.sig_verify_calls = "certificates.LoadPublicKey;jwt.ParseWithClaims;claims.VerifyAudience;w.nc.NodeID;accepting-returns:1"
    ∧ Receptor.Facts.sig_type_lookup = "ShouldVerifySignature:w.workTypes[workType],param-unmodified;AllocateUnit:w.workTypes[workTypeName],param-unmodified" := by
  decide +kernel

/-- **effect_requires_token.** For a verifying work type, over anything but the local Unix
socket, a submit / cancel / release / force-release / results command takes effect only with a
token that is present and valid (correctly signed by the configured key, unexpired, addressed to
this node). -/
theorem effect_requires_token (sub : Sub) (found : Bool) (t : TypeCfg) (c : Conn) (tok : Token) (key : Bool)
    (hg : gated sub = true) (hv : shouldVerify t = true) (hc : c ≠ .unix)
    (h : dispatch true sub found t c tok key = .effect) :
    tok.present = true ∧ tok.valid = true ∧ key = true := by
  unfold dispatch at h
  simp only [hg, Bool.not_true, Bool.false_eq_true, if_false] at h
  split at h
  · cases h
  · simp only [gate, hv, Bool.not_true, Bool.false_and, Bool.false_eq_true, if_false, Bool.true_and] at h
    have : (c != Conn.unix) = true := by simp [hc]
    simp only [this, if_true] at h
    by_cases hp : (tok.present && key && tok.valid) = true
    · simp at hp; exact ⟨hp.1.1, hp.2, hp.1.2⟩
    · simp [hp] at h

/-- **refused_has_no_effect.** A refused command does not take effect (the gate comes before the
effect in every arm): the only outcomes are effect, refusal, unknown unit, information. -/
theorem refused_has_no_effect (sub : Sub) (found : Bool) (t : TypeCfg) (c : Conn) (tok : Token) (key : Bool)
    (hg : gated sub = true) (hr : gate t c tok key ≠ .pass) :
    dispatch true sub found t c tok key ≠ .effect := by
  unfold dispatch
  simp only [hg, Bool.not_true, Bool.false_eq_true, if_false]
  split
  · simp
  · cases hgt : gate t c tok key with
    | pass => exact absurd hgt hr
    | refuseUnexpected => simp
    | refuseInvalid => simp

/-- **unexpected_token_refused.** A token sent to a work type that does not expect one is
refused, on every kind of connection. -/
theorem unexpected_token_refused (t : TypeCfg) (c : Conn) (tok : Token) (key : Bool)
    (hv : shouldVerify t = false) (hp : tok.present = true) : gate t c tok key = .refuseUnexpected := by
  simp [gate, hv, hp]

/-- **unix_socket_exempt.** Exactly the local Unix socket is exempt: there a verifying type
passes without a token, anywhere else it does not. -/
theorem unix_socket_exempt (t : TypeCfg) (tok : Token) (key : Bool) (hv : shouldVerify t = true) :
    gate t .unix tok key = .pass ∧ (tok.present = false → gate t .other tok key = .refuseInvalid) := by
  constructor
  · simp [gate, hv]
  · intro hp; simp [gate, hv, hp]

/-- status and list are information only: they never take effect, with or without a token -/
theorem info_commands_never_effect (gb : Bool) (sub : Sub) (found : Bool) (t : TypeCfg) (c : Conn) (tok : Token) (key : Bool)
    (hg : gated sub = false) : dispatch gb sub found t c tok key ≠ .effect := by
  unfold dispatch
  simp only [hg, Bool.not_false, if_true]
  split <;> simp

/-- Non-vacuity: a verifying local type over TCP with an expired token is refused; with a valid
token it takes effect; over the Unix socket no token is needed. -/
example : dispatch true .submit true ⟨false, false, true, true⟩ .other ⟨true, false⟩ true = .refused .refuseInvalid
    ∧ dispatch true .submit true ⟨false, false, true, true⟩ .other ⟨true, true⟩ true = .effect
    ∧ dispatch true .cancel true ⟨false, false, true, true⟩ .unix ⟨false, false⟩ true = .effect := by decide

end Receptor.Work

/-! ## over histories -/
namespace Receptor.WorkNode
open Receptor.Work

/-- **unauthorised_history_changes_nothing.** Whatever sequence of commands (and restarts) arrives, if each
of them concerns a verifying work type, comes over something other than the local Unix socket and carries no
valid token, then at the end the node holds exactly the units it held, unchanged — nothing was created,
stopped, removed or read — and no command was answered as done. -/
theorem unauthorised_history_changes_nothing : ∀ (ops : List Op) (n : Node),
    (∀ c, Op.cmd c ∈ ops → unauthorised n c = true) →
    (run n ops).1 = n ∧ ∀ o ∈ (run n ops).2, o ≠ .done := by
  intro ops
  induction ops with
  | nil => intro n _; exact ⟨rfl, by simp [run]⟩
  | cons op rest ih =>
    intro n h
    have hrest := ih n (fun c hc => h c (List.mem_cons_of_mem _ hc))
    cases op with
    | restart =>
      simp only [run, step]
      refine ⟨hrest.1, ?_⟩
      intro o ho
      simp only [List.mem_cons] at ho
      cases ho with
      | inl h1 => subst h1; simp
      | inr h1 => exact hrest.2 o h1
    | cmd c =>
      obtain ⟨h1, h2⟩ := step_unauthorised n c (h c (List.mem_cons_self ..))
      simp only [run]
      rw [h1]
      refine ⟨hrest.1, ?_⟩
      intro o ho
      simp only [List.mem_cons] at ho
      cases ho with
      | inl h1 => subst h1; exact h2
      | inr h1 => exact hrest.2 o h1

/-- **every_effect_is_authorised.** In every history, from every state: wherever the node changed or a command
was answered as done, the command was a submit / cancel / release / force-release / results, and if the work
type it concerned verifies signatures and it did not come over the local Unix socket, it carried a token that
is present and valid (correctly signed by the configured key, unexpired, addressed to this node). -/
theorem every_effect_is_authorised : ∀ (ops : List Op) (n : Node) (p : Node × Cmd), p ∈ effects n ops →
    gated p.2.sub = true ∧
    (shouldVerify (cfgFor p.1 p.2) = true → p.2.conn ≠ .unix →
      p.2.tok.present = true ∧ p.2.tok.valid = true ∧ p.1.key = true) := by
  intro ops
  induction ops with
  | nil => intro n p hp; simp [effects] at hp
  | cons op rest ih =>
    intro n p hp
    cases op with
    | restart => exact ih n p (by simpa [effects] using hp)
    | cmd c =>
      simp only [effects, List.mem_append] at hp
      cases hp with
      | inr h1 => exact ih _ p h1
      | inl h1 =>
        by_cases hch : (step n (.cmd c)).1 ≠ n ∨ (step n (.cmd c)).2 = .done
        · simp only [hch, if_true, List.mem_singleton] at h1
          subst h1
          have hna : unauthorised n c = false := by
            cases hu : unauthorised n c with
            | false => rfl
            | true =>
              obtain ⟨e1, e2⟩ := step_unauthorised n c hu
              cases hch with
              | inl h => exact absurd e1 h
              | inr h => exact absurd h e2
          refine ⟨?_, ?_⟩
          · cases hg : gated c.sub with
            | true => rfl
            | false =>
              have hd : dispatch true c.sub (findUnit n c.target).isSome (cfgFor n c) c.conn c.tok n.key ≠ .effect :=
                info_commands_never_effect true c.sub _ _ _ _ _ hg
              obtain ⟨e1, e2⟩ := step_no_effect n c hd
              cases hch with
              | inl h => exact absurd e1 h
              | inr h => exact absurd h e2
          · intro hv hc
            simp only [unauthorised, hv, Bool.true_and] at hna
            have hc' : (c.conn != Conn.unix) = true := by simp [hc]
            simp only [hc', Bool.true_and, Bool.not_eq_false', Bool.and_eq_true] at hna
            exact ⟨hna.1.1, hna.2, hna.1.2⟩
        · simp [hch] at h1

/-- Non-vacuity: over TCP a verifying type refuses a submit with an expired token and runs one with a valid
token; the refused one leaves no trace, the accepted one is the only effect of the history. -/
example :
    (run {} [.cmd { sub := .submit, cfg := ⟨false, false, true, true⟩, conn := .other, tok := ⟨true, false⟩ },
             .cmd { sub := .submit, cfg := ⟨false, false, true, true⟩, conn := .other, tok := ⟨true, true⟩ },
             .cmd { sub := .cancel, target := 0, conn := .other, tok := ⟨false, false⟩ }]).2
      = [.refused .refuseInvalid, .done, .refused .refuseInvalid]
    ∧ (effects {} [.cmd { sub := .submit, cfg := ⟨false, false, true, true⟩, conn := .other, tok := ⟨true, false⟩ },
             .cmd { sub := .submit, cfg := ⟨false, false, true, true⟩, conn := .other, tok := ⟨true, true⟩ },
             .cmd { sub := .cancel, target := 0, conn := .other, tok := ⟨false, false⟩ }]).length = 1 := by
  decide

end Receptor.WorkNode
