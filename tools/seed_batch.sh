#!/bin/bash
# seed_batch.sh <agentID> <PROP> [pkgdir]: confirm both seeds of an agent and run the quick check against each
ID="$1"; PROP="$2"; DIR="${3:-}"
for k in 1 2; do
  SD=/tmp/seed_$ID/$k
  [ -f $SD/patch.diff ] || { echo "$ID/$k: no patch"; continue; }
  /verif/tools/seed_confirm.sh $SD ${ID}_$k $DIR >/dev/null 2>&1
  echo "== $ID/$k confirm: $(cat $SD/confirm.json 2>/dev/null)"
  /verif/tools/seed_run.sh $SD/patch.diff $PROP 2>&1 | grep -E "VIOLATION|exit|apply" | cut -c1-260
done
