/-!
# The control-service session (`RunControlSession`) and the built-in commands — property C08

A session is a function from the bytes a client sends to the reply lines it gets back, plus the
effect on the node: `panic` (a Go run-time failure in the session goroutine kills the process),
`hang` (the session goroutine blocks for ever holding a lock that every `work` command needs).
Which defensive checks the source has are regenerated facts (`Guards`).

JSON text → value is `encoding/json` (trusted oracle, supplied with each request line by the
harness and universally quantified in the theorems).
-/
namespace Receptor.Ctl

abbrev Bytes := List Nat

def b (s : String) : Bytes := s.toUTF8.toList.map (·.toNat)

/-- a decoded JSON value (`interface{}` as `encoding/json` builds it) -/
inductive J where
  | null
  | bool (v : Bool)
  | num (isWhole : Bool)   -- a float64; `isWhole`: kept only to echo it in messages (not needed)
  | str (s : Bytes)
  | arr (l : List J)
  | obj (kv : List (Bytes × J))
  deriving Repr, Inhabited

def J.isStr : J → Bool
  | .str _ => true
  | _ => false

def lookup (kv : List (Bytes × J)) (k : Bytes) : Option J := (kv.find? fun e => e.1 == k).map (·.2)

/-! ## The line reader -/

/-- split at LF; CR is dropped wherever it occurs; the unterminated rest (at EOF) is a line too -/
def splitLF : Bytes → Bytes → List Bytes
  | [], cur => [cur.reverse]
  | c :: rest, cur =>
    if c = 10 then cur.reverse :: splitLF rest []
    else if c = 13 then splitLF rest cur
    else splitLF rest (c :: cur)

/-- the request lines of a session: empty lines are skipped -/
def requestLines (input : Bytes) : List Bytes := (splitLF input []).filter fun l => l != []

/-! ## Splitting and lower-casing (ASCII; tokens with other bytes are outside the model) -/

def lowerB (s : Bytes) : Bytes := s.map fun c => if 65 ≤ c ∧ c ≤ 90 then c + 32 else c
def isAscii (s : Bytes) : Bool := s.all fun c => c < 128

/-- `strings.Split(s, " ")` -/
def splitSp : Bytes → Bytes → List Bytes
  | [], cur => [cur.reverse]
  | c :: rest, cur => if c = 32 then cur.reverse :: splitSp rest [] else splitSp rest (c :: cur)

/-- `strings.SplitN(s, " ", 2)` -/
def split2 : Bytes → Bytes → Bytes × Option Bytes
  | [], cur => (cur.reverse, none)
  | c :: rest, cur => if c = 32 then (cur.reverse, some rest) else split2 rest (c :: cur)

/-! ## Replies and outcomes -/

/-- one reply line; the text of an error is known when the source builds it itself -/
inductive Reply where
  | err (msg : Option Bytes)    -- "ERROR: <msg>"
  | json                        -- a JSON object line
  | text                        -- any other line (prompt of submit, header of results)
  deriving DecidableEq, Repr

inductive Outcome where
  | replies (l : List Reply)          -- … and the session reads the next line
  | consumed (l : List Reply)         -- … and the command took over the connection (submit reads stdin to EOF,
                                      --   results streams and closes, connect bridges): the session is over
  | panic
  | hang
  deriving DecidableEq, Repr

structure Guards where
  statusFieldsTyped : Bool    -- `requested_fields` is type-checked before it is ranged over
  findUnitUnlocked : Bool     -- `findUnit` does not hold the unit-index read lock while `scanForUnit` takes the write lock
  deriving DecidableEq, Repr

def allGuards : Guards := { statusFieldsTyped := true, findUnitUnlocked := true }

/-! ## The unit index as far as the control commands see it -/

structure Units where
  mem : List Bytes         -- units in the in-memory index
  disk : List Bytes        -- unit directories (with a status file) that are on disk only
  types : List Bytes       -- registered work types
  deriving DecidableEq, Repr

/-- `path.Join(dataDir, id)` relative to `dataDir`: the single directory name it denotes, if it is a
direct child of the data directory -/
def cleanRel (id : Bytes) : Option Bytes :=
  let comps := (splitOnSlash id []).filter fun c => c != [] && c != [46]
  let stack := comps.foldl (fun (st : Option (List Bytes)) c =>
    match st with
    | none => none
    | some s => if c = [46, 46] then (match s with | [] => none | _ :: r => some r) else some (c :: s)) (some [])
  match stack with
  | some [c] => some c
  | _ => none
where
  splitOnSlash : Bytes → Bytes → List Bytes
    | [], cur => [cur.reverse]
    | c :: rest, cur => if c = 47 then cur.reverse :: splitOnSlash rest [] else splitOnSlash rest (c :: cur)

/-- `findUnit`: the index after the on-demand rescan, and whether the unit is found.  A rescan that
has to register a disk-only unit takes the index write lock. -/
inductive Find where
  | found (u : Units)
  | unknown (u : Units)
  | deadlock
  deriving DecidableEq, Repr

def rescan (u : Units) (id : Bytes) : Option Units :=
  match cleanRel id with
  | some d => if u.disk.contains d ∧ !u.mem.contains d then some { u with mem := u.mem ++ [d], disk := u.disk.filter (· != d) } else none
  | none => none

def findUnit (G : Guards) (u : Units) (id : Bytes) : Find :=
  if u.mem.contains id then .found u
  else match rescan u id with
    | some u' => if !G.findUnitUnlocked then .deadlock else if u'.mem.contains id then .found u' else .unknown u'
    | none => .unknown u

/-! ## Commands -/

inductive WorkSub where
  | submit | list | status | cancel | release | forceRelease | results | other
  deriving DecidableEq, Repr

def workSub (s : Bytes) : WorkSub :=
  if s = b "submit" then .submit else if s = b "list" then .list else if s = b "status" then .status
  else if s = b "cancel" then .cancel else if s = b "release" then .release
  else if s = b "force-release" then .forceRelease else if s = b "results" then .results else .other

/-- a command that passed `InitFromString` / `InitFromJSON` -/
inductive Cmd where
  | ping | status | connect | traceroute | reload
  | workSubmit (worktype : Bytes) (sig : Bool)
  | workList (id : Option Bytes)
  | workStatus (id : Bytes)
  | workCancel (id : Bytes) (sig : Bool)
  | workRelease (id : Bytes) (sig : Bool)
  | workResults (id : Bytes) (sig : Bool)
  | workBad
  deriving DecidableEq, Repr

inductive Init where
  | ok (c : Cmd)
  | error (msg : Option Bytes)
  deriving DecidableEq, Repr

/-- the result of `InitFromJSON`, which may also fail at run time (a type assertion on client data) -/
inductive InitR where
  | res (i : Init)
  | panic
  deriving DecidableEq, Repr

def isDigits (s : Bytes) : Bool := s != [] && s.all fun c => 48 ≤ c ∧ c ≤ 57

/-- does `strconv.ParseInt(s, 10, 64)` succeed?  (sign, digits, at most 18 digits: longer ones are outside the model) -/
def parsesInt (s : Bytes) : Bool :=
  match s with
  | 43 :: r => isDigits r && r.length ≤ 18
  | 45 :: r => isDigits r && r.length ≤ 18
  | r => isDigits r && r.length ≤ 18

def initWorkPlain (params : Bytes) : Init :=
  let tokens := splitSp params []
  let sub := lowerB (tokens.headD [])
  match workSub sub with
  | .submit =>
    if tokens.length < 3 then .error (some (b "work submit requires a target node and work type"))
    else .ok (.workSubmit (tokens.getD 2 []) false)
  | .list => .ok (.workList (if tokens.length > 1 then some (tokens.getD 1 []) else none))
  | .status | .cancel | .release | .forceRelease =>
    if tokens.length < 2 then .error (some (b "work " ++ sub ++ b " requires a unit ID"))
    else if tokens.length > 2 then .error (some (b "work " ++ sub ++ b " does not take parameters after the unit ID"))
    else
      let id := tokens.getD 1 []
      .ok (match workSub sub with
        | .status => .workStatus id
        | .cancel => .workCancel id false
        | _ => .workRelease id false)
  | .results =>
    if tokens.length < 2 then .error (some (b "work results requires a unit ID"))
    else if tokens.length > 3 then .error (some (b "work results only takes a unit ID and optional start position"))
    else if tokens.length > 2 ∧ !parsesInt (tokens.getD 2 []) then .error none
    else .ok (.workResults (tokens.getD 1 []) false)
  | .other => .ok .workBad

/-- `InitFromString` of the command registered under `cmd` -/
def initPlain (cmd params : Bytes) : Option Init :=
  if cmd = b "ping" then some (if params = [] then .error (some (b "no ping target")) else .ok .ping)
  else if cmd = b "status" then some (if params ≠ [] then .error (some (b "status command does not take parameters")) else .ok .status)
  else if cmd = b "connect" then
    let n := (splitSp params []).length
    some (if n < 2 then .error (some (b "no connect target")) else if n > 3 then .error (some (b "too many parameters")) else .ok .connect)
  else if cmd = b "traceroute" then some (if params = [] then .error (some (b "no traceroute target")) else .ok .traceroute)
  else if cmd = b "reload" then some (.ok .reload)
  else if cmd = b "work" then some (initWorkPlain params)
  else none

/-- `strFromMap` -/
def strField (kv : List (Bytes × J)) (name : String) : Except Bytes Bytes :=
  match lookup kv (b name) with
  | none => .error (b "field " ++ b name ++ b " missing")
  | some (.str s) => .ok s
  | some _ => .error (b "field " ++ b name ++ b " must be a string")

/-- a signature was supplied and is not empty -/
def hasSig (kv : List (Bytes × J)) : Bool :=
  match lookup kv (b "signature") with
  | some (.str s) => s != []
  | _ => false

def initWorkJson (kv : List (Bytes × J)) : Init :=
  match strField kv "subcommand" with
  | .error m => .error (some m)
  | .ok subRaw =>
    if !isAscii subRaw then .error none else
    let sub := lowerB subRaw
    match workSub sub with
    | .submit =>
      if kv.any fun e => !e.2.isStr then .error none     -- "submit parameters must all be strings and <k> is not" (k: map order)
      else match strField kv "node" with
        | .error m => .error (some m)
        | .ok _ => match strField kv "worktype" with
          | .error m => .error (some m)
          | .ok wt => .ok (.workSubmit wt (hasSig kv))
    | .status | .cancel | .release | .forceRelease =>
      match strField kv "unitid" with
      | .error m => .error (some m)
      | .ok id => .ok (match workSub sub with
          | .status => .workStatus id
          | .cancel => .workCancel id (hasSig kv)
          | _ => .workRelease id (hasSig kv))
    | .list => .ok (.workList (match lookup kv (b "unitid") with | some (.str s) => some s | _ => none))
    | .results =>
      match strField kv "unitid" with
      | .error m => .error (some m)
      | .ok id =>
        match lookup kv (b "startpos") with
        | none => .error (some (b "field startpos missing"))
        | some (.num _) => .ok (.workResults id (hasSig kv))
        | some _ => .error none       -- "… is not convertible to an int" / a strconv error
    | .other => .ok .workBad

/-- `StatusCommandType.InitFromJSON` -/
def initStatusJson (G : Guards) (kv : List (Bytes × J)) : InitR :=
  match lookup kv (b "requested_fields") with
  | none => .res (.ok .status)
  | some (.arr l) => .res (if l.all J.isStr then .ok .status else .error (some (b "each element of requested_fields must be a string")))
  | some _ => if G.statusFieldsTyped then .res (.error (some (b "requested_fields must be a list of strings"))) else .panic

/-- `InitFromJSON` of the other commands -/
def initJsonOther (cmd : Bytes) (kv : List (Bytes × J)) : Option Init :=
  if cmd = b "ping" then some (match lookup kv (b "target") with
    | none => .error (some (b "no ping target"))
    | some (.str _) => .ok .ping
    | some _ => .error (some (b "ping target must be string")))
  else if cmd = b "connect" then some (match lookup kv (b "node") with
    | none => .error (some (b "no connect target node"))
    | some (.str _) => (match lookup kv (b "service") with
      | none => .error (some (b "no connect target service"))
      | some (.str _) => (match lookup kv (b "tls") with
        | none => .ok .connect
        | some (.str _) => .ok .connect
        | some _ => .error (some (b "connect tls name must be string")))
      | some _ => .error (some (b "connect target service must be string")))
    | some _ => .error (some (b "connect target node must be string")))
  else if cmd = b "traceroute" then some (match lookup kv (b "target") with
    | none => .error (some (b "no traceroute target"))
    | some (.str _) => .ok .traceroute
    | some _ => .error (some (b "traceroute target must be string")))
  else if cmd = b "reload" then some (.ok .reload)
  else if cmd = b "work" then some (initWorkJson kv)
  else none

/-- `InitFromJSON` of the command registered under `cmd` -/
def initJson (G : Guards) (cmd : Bytes) (kv : List (Bytes × J)) : Option InitR :=
  if cmd = b "status" then some (initStatusJson G kv) else (initJsonOther cmd kv).map .res

/-- `ControlFunc` in the harness environment: no mesh (ping fails in the reply, dial fails with an
error), reload not configured, every unit of a registered type finished -/
def withUnit (G : Guards) (u : Units) (id : Bytes) (k : Units → Units × Outcome) : Units × Outcome :=
  match findUnit G u id with
  | .found u' => k u'
  | .unknown u' => (u', .replies [.err none])
  | .deadlock => (u, .hang)

def sigErr : Reply := .err (some (b "work type did not expect a signature"))

def runCmd (G : Guards) (u : Units) (c : Cmd) : Units × Outcome :=
  match c with
  | .ping | .status | .traceroute | .reload => (u, .replies [.json])
  | .connect => (u, .replies [.err none])
  | .workSubmit wt sig =>
    if !u.types.contains wt then (u, .replies [.err none])
    else if sig then (u, .replies [sigErr])
    else (u, .consumed [.text, .json])       -- the new unit's ID is chosen at random: the index is re-read by the harness
  | .workList none => (u, .replies [.json])
  | .workList (some id) | .workStatus id => withUnit G u id fun u' => (u', .replies [.json])
  | .workCancel id sig => withUnit G u id fun u' => (u', .replies [if sig then sigErr else .json])
  | .workRelease id sig => withUnit G u id fun u' =>
      if sig then (u', .replies [sigErr]) else ({ u' with mem := u'.mem.filter (· != id) }, .replies [.json])
  | .workResults id sig => withUnit G u id fun u' => if sig then (u', .replies [sigErr]) else (u', .consumed [.text])
  | .workBad => (u, .replies [.err (some (b "bad command"))])

def Outcome.safe : Outcome → Bool
  | .replies _ | .consumed _ => true
  | _ => false

/-- one request line; `jv` is what `json.Unmarshal(line, &map)` makes of it (`none`: an error) -/
def handleLine (G : Guards) (u : Units) (line : Bytes) (jv : Option (List (Bytes × J))) : Units × Outcome :=
  if line.head? = some 123 then
    match jv with
    | none => (u, .replies [.err none, .err (some (b "Unknown command"))])
    | some kv =>
      match lookup kv (b "command") with
      | none => (u, .replies [.err (some (b "JSON did not contain a command")), .err (some (b "Unknown command"))])
      | some (.str cmd) =>
        (match initJson G cmd kv with
         | none => (u, .replies [.err (some (b "Unknown command"))])
         | some (.res (.ok c)) => runCmd G u c
         | some (.res (.error m)) => (u, .replies [.err m])
         | some .panic => (u, .panic))
      | some _ => (u, .replies [.err (some (b "command must be a string")), .err (some (b "Unknown command"))])
  else
    let (tok, rest) := split2 line []
    match initPlain (lowerB tok) (rest.getD []) with
    | none => (u, .replies [.err (some (b "Unknown command"))])
    | some (.ok c) => runCmd G u c
    | some (.error m) => (u, .replies [.err m])

/-- how a session ended -/
inductive End where
  | eof | consumed | panic | hang
  deriving DecidableEq, Repr

/-- a whole session: the request lines with their JSON decodings -/
def runSession (G : Guards) : Units → List (Bytes × Option (List (Bytes × J))) → Units × List Reply × End
  | u, [] => (u, [], .eof)
  | u, (line, jv) :: rest =>
    match handleLine G u line jv with
    | (u', .replies l) => let (u'', ls, e) := runSession G u' rest; (u'', l ++ ls, e)
    | (u', .consumed l) => (u', l, .consumed)
    | (u', .panic) => (u', [], .panic)
    | (u', .hang) => (u', [], .hang)

/-- the line is a command that is carried out (not refused by the parser, the command table or the
command's own validation) -/
def validRequest (G : Guards) (line : Bytes) (jv : Option (List (Bytes × J))) : Bool :=
  if line.head? = some 123 then
    match jv with
    | none => false
    | some kv => match lookup kv (b "command") with
      | some (.str cmd) => (match initJson G cmd kv with | some (.res (.ok c)) => c != .workBad | _ => false)
      | _ => false
  else
    let (tok, rest) := split2 line []
    match initPlain (lowerB tok) (rest.getD []) with
    | some (.ok c) => c != .workBad
    | _ => false

def Reply.isErr : Reply → Bool
  | .err _ => true
  | _ => false

end Receptor.Ctl
