/-!
# Peer verification decision (`ReceptorVerifyFunc`, `GetClientTLSConfig`, the stream
listener's client-name binding) — properties C09 and C20 (acceptance of issued certificates).

Certificate parsing, chain building, validity and key usage, and x509's DNS-name check are
oracle booleans (ground truth supplied by the harness that constructs the certificates);
what is modelled is receptor's own logic on top of them: the pin rule, the receptor-name
rule, which mode disables what, and the name the listener expects.
-/
namespace Receptor.Verify

abbrev Bytes := List Nat

inductive Mode where
  | dns | receptor
  deriving DecidableEq, Repr

/-- whom we are verifying -/
inductive Role where
  | server | client
  deriving DecidableEq, Repr

structure Peer where
  parsed : Bool                 -- x509.ParseCertificate succeeded
  chainOK : Bool                -- chains to the configured authority
  validNow : Bool               -- NotBefore ≤ now ≤ NotAfter
  usageServer : Bool            -- usable for server authentication
  usageClient : Bool            -- usable for client authentication
  dnsOK : Bool                  -- x509 hostname verification against the expected DNS name
  names : Option (List Bytes)   -- receptor names of the leaf; `none` = decoding error
  /-- digest of the raw leaf for a supported digest length -/
  digest : Nat → Bytes

structure Cfg where
  pins : List Bytes
  expected : Bytes
  mode : Mode
  role : Role

def supportedLen (n : Nat) : Bool := n == 28 || n == 32 || n == 48 || n == 64

/-- the pin rule: no pins ⇒ skipped; a pin of unsupported length anywhere ⇒ refuse;
otherwise some pin must equal the digest of its length -/
def pinOK (pins : List Bytes) (digest : Nat → Bytes) : Bool :=
  pins.isEmpty || (pins.all (fun p => supportedLen p.length) && pins.any (fun p => p == digest p.length))

def usageOK (r : Role) (p : Peer) : Bool :=
  match r with
  | .server => p.usageServer
  | .client => p.usageClient

/-- the name rule: receptor mode requires the expected node ID among the certificate's
receptor names (exact, case-sensitive comparison); DNS mode delegates to x509 when a name is
expected -/
def nameOK (c : Cfg) (p : Peer) : Bool :=
  match c.mode with
  | .receptor =>
    match p.names with
    | some l => l.contains c.expected
    | none => false
  | .dns => c.expected.isEmpty || p.dnsOK

/-- the verdict of the function `ReceptorVerifyFunc` returns -/
def decide (c : Cfg) (p : Peer) : Bool :=
  p.parsed && pinOK c.pins p.digest && p.chainOK && p.validNow && usageOK c.role p && nameOK c p

/-- The name a mutually authenticated stream listener checks the client certificate against:
`strings.Split(remoteAddr.String(), ":")[0]` where the address prints as `node:service`. -/
def expectedClientName (node svc : Bytes) : Bytes := (node ++ 58 :: svc).takeWhile (· != 58)

/-! ## what a handshake presents, and what a server profile asks for -/

/-- the verdict on a presented chain: only its first certificate — the leaf — is the peer; whatever else is
appended (intermediates, or copies of other nodes' certificates) is never compared with the pins or the name -/
def decideChain (c : Cfg) : List Peer → Bool
  | [] => false
  | leaf :: _ => decide c leaf

inductive ClientAuth where
  | noClientCert | verifyIfGiven | requireAndVerify
  deriving DecidableEq, Repr

/-- `PrepareTLSServerConfig`: `requireclientcert` wins over a mere `clientcas` bundle -/
def serverClientAuth (require hasCAs : Bool) : ClientAuth :=
  if require then .requireAndVerify else if hasCAs then .verifyIfGiven else .noClientCert

/-- `Netceptor.listen`: the client certificate is bound to the packet source node exactly for
`RequireAndVerifyClientCert` -/
def listenerBindsClientName (ca : ClientAuth) : Bool := ca == .requireAndVerify

/-- Is a stream to a TLS listener established?  `cert`: what the dialling node `source` presents (`none`: no
certificate).  With a required client certificate the listener's verifier expects the source node's ID; with
`clientcas` only, a certificate must be presented as well (the installed verifier refuses an empty chain) and must
chain, be valid and usable by a client, but need not name the source; otherwise no certificate is asked for.  In both
verifying modes the pins of the profile apply.  `listenerKeepsPins` (regenerated fact): the per-connection verifier
that the stream listener installs for the name binding *replaces* the profile's verifier; it has to keep the pins. -/
def established (require hasCAs : Bool) (source : Bytes) (cert : Option Peer) (pins : List Bytes := [])
    (listenerKeepsPins : Bool := true) : Bool :=
  match serverClientAuth require hasCAs with
  | .requireAndVerify =>
    (match cert with
     | none => false
     | some p =>
       -- the profile's own verifier (pins; no name) and the listener's per-connection verifier (the source's name)
       (!listenerKeepsPins || decide { pins := pins, expected := [], mode := .dns, role := .client } p) &&
       decide { pins := [], expected := source, mode := .receptor, role := .client } p)
  | .verifyIfGiven =>
    -- the verifier is installed for this mode too and refuses an empty chain: in effect a certificate is needed
    (match cert with
     | none => false
     | some p => decide { pins := pins, expected := [], mode := .dns, role := .client } p)
  | .noClientCert => true

end Receptor.Verify
