/-!
# Label-correcting shortest paths as in `updateRoutingTable` (C01, algorithm layer)

The code's "Dijkstra" uses a priority queue that ignores re-insertion of queued items, so
the pop order is not by distance: it is a label-correcting worklist algorithm.  The model
allows *any* queued node to be popped (`Reach`), which covers Go's map iteration order and
heap ties; `lc_correct` holds for every such schedule.
-/
namespace Receptor.Routing

abbrev Node := List Nat

structure Graph where
  adj  : Node → List (Node × Nat)
  isKey : Node → Bool

/-- walks from `s` over key nodes, with total weight -/
inductive Path (g : Graph) (s : Node) : Node → Nat → Prop
  | nil : Path g s s 0
  | snoc {u v : Node} {W w : Nat} : Path g s u W → (v, w) ∈ g.adj u → g.isKey v = true → Path g s v (W + w)

structure St where
  cost  : Node → Option Nat
  prev  : Node → Option Node
  queue : List Node

def better (s : St) (v : Node) (c : Nat) : Bool :=
  match s.cost v with
  | none => true
  | some cv => decide (c < cv)

def improve (s : St) (u v : Node) (c : Nat) : St :=
  { cost := fun x => if x = v then some c else s.cost x
    prev := fun x => if x = v then some u else s.prev x
    queue := if v ∈ s.queue then s.queue else s.queue ++ [v] }

def relaxEdge (g : Graph) (u : Node) (cu : Nat) (s : St) (e : Node × Nat) : St :=
  if g.isKey e.1 && better s e.1 (cu + e.2) then improve s u e.1 (cu + e.2) else s

def popRelax (g : Graph) (s : St) (u : Node) : St :=
  let s1 : St := { s with queue := s.queue.erase u }
  match s.cost u with
  | none => s1
  | some cu => (g.adj u).foldl (relaxEdge g u cu) s1

inductive Reach (g : Graph) (init : St) : St → Prop
  | base : Reach g init init
  | step {s : St} {u : Node} : Reach g init s → u ∈ s.queue → Reach g init (popRelax g s u)

def initSt (src : Node) (keys : List Node) : St :=
  { cost := fun x => if x = src then some 0 else none
    prev := fun _ => none
    queue := src :: keys }


/-- follow prev pointers from `d` until the node whose prev is `src` (the code's loop), with fuel -/
def nextHop (s : St) (src : Node) : Nat → Node → Option Node
  | 0, _ => none
  | fuel+1, p =>
    match s.prev p with
    | none => none
    | some q => if q = src then some p else nextHop s src fuel q

/-- a deterministic schedule (always pop the head of the queue), bounded by `fuel` pops:
`none` when the fuel runs out before the queue is empty -/
def runFifo (g : Graph) : Nat → St → Option St
  | 0, s => if s.queue = [] then some s else none
  | f + 1, s =>
    match s.queue with
    | [] => some s
    | u :: _ => runFifo g f (popRelax g s u)

end Receptor.Routing
