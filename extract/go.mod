module verifextract

go 1.22
