#!/bin/bash
# seed_run.sh <patch.diff> <ID> [<ID>...]: apply a seeded change to /repo, run the quick checks, undo it.
P="$1"; shift
rm -rf /tmp/evidence_keep && cp -r /verif/evidence /tmp/evidence_keep
cd /repo && git apply "$P" || { echo "patch does not apply"; exit 2; }
for id in "$@"; do
  (cd /verif && ./check $id --tier ${TIER:-quick} 2>/dev/null | grep -E "VIOLATION|KNOWN|exit") 
done
cd /repo && git checkout -- . && git status --short | grep -v '^??'
# evidence must only ever come from runs on the unchanged tree
rm -rf /verif/evidence && mv /tmp/evidence_keep /verif/evidence
