import Receptor.Model.Lifecycle
import Receptor.Generated.Facts
/-!
# C13 — work units only move forward; release removes them; unit IDs are unique
-/
namespace Receptor.Life

/-- **Tie (translator)**: Cancel's steps (no pid: nothing; interrupt; "already finished": nothing; wait for
the exit; then the final write, which leaves a succeeded record alone); the runner's writes in source
order (pending 0, killed, running tick, error, succeeded, failed — all with the measured output size);
Start writes pending before it launches the runner; AllocateUnit draws the ID and registers the unit
under the index write lock. -/
theorem C13_facts :
    Receptor.Facts.life_cancel_order = "no-pid:return;signal(os.Interrupt);already-finished:return;wait;write-unless-succeeded(WorkStateCanceled)"
    ∧ Receptor.Facts.life_cancel_keeps_succeeded = true
    ∧ Receptor.Facts.life_runner_writes = "WorkStatePending:0;WorkStateFailed:stdoutSize(unitdir);WorkStateRunning:stdoutSize(unitdir);WorkStateFailed:stdoutSize(unitdir);WorkStateSucceeded:stdoutSize(unitdir);WorkStateFailed:stdoutSize(unitdir)"
    ∧ Receptor.Facts.life_start_order = "write(WorkStatePending,0);launch"
    ∧ Receptor.Facts.life_alloc_order = "Lock;defer-Unlock;generateUnitID(false);register"
    ∧ Receptor.Facts.life_release = "for{err := RemoveAll;force:break;err != nil:attemptsLeft--,retry|return err;break};Lock;delete;return nil"
    ∧ Receptor.Facts.life_runner_mkdir = "creates-no-directory" := by decide +kernel

/-- what the runner's phase says about the stored state -/
def okFor (r : RPhase) (st : Nat) : Prop :=
  match r with
  | .notStarted | .launched => st = 0
  | .ticking | .cmdDone _ => st = 0 ∨ st = 1
  | .exited => True

/-- what holds in every reachable state of a command unit's record -/
structure Inv (s : St) : Prop where
  ph : okFor s.r s.state
  sz : s.size ≤ s.out
  succ : s.state = 2 → s.r = .exited

theorem inv_init : Inv {} := ⟨rfl, Nat.le_refl _, fun h => by cases h⟩

theorem inv_step (k : Bool) (s : St) (e : Ev) (h : Inv s) : Inv (step k s e) := by
  obtain ⟨h1, h3, h4⟩ := h
  cases hr : s.r <;> cases e <;> simp only [step, hr] <;> (try (repeat' split)) <;>
    (refine ⟨?_, ?_, ?_⟩ <;> simp_all [okFor] <;> omega)

theorem inv_run (k : Bool) (evs : List Ev) : ∀ s, Inv s → Inv (run k s evs) := by
  induction evs with
  | nil => intro s h; exact h
  | cons e rest ih => intro s h; exact ih _ (inv_step k s e h)

theorem stage_le_of (st : Nat) (h : st = 0 ∨ st = 1) : stage st ≤ 1 := by
  rcases h with h | h <;> subst h <;> decide

/-- **stage_monotone.** In every reachable state, whichever step comes next — daemon or runner, in any
order — the stored state does not go back to an earlier stage (pending < running < finished). -/
theorem stage_monotone (k : Bool) (evs : List Ev) (e : Ev) :
    stage (run k {} evs).state ≤ stage (step k (run k {} evs) e).state := by
  have h := inv_run k evs {} inv_init
  generalize run k {} evs = s at h
  obtain ⟨h1, h3, h4⟩ := h
  cases hr : s.r <;> cases e <;> simp only [step, hr] <;> (try (repeat' split)) <;> simp_all [okFor, stage] <;>
    (try (rcases h1 with h1 | h1 <;> simp_all)) <;> (try (repeat' split)) <;> simp_all <;> omega

/-- **succeeded_sticks.** Once the record says succeeded, no later step of anybody changes the state
or the recorded output size (given that Cancel's final write leaves a succeeded record alone). -/
theorem succeeded_sticks (evs : List Ev) (e : Ev) (hs : (run true {} evs).state = 2) :
    (step true (run true {} evs) e).state = 2 ∧ (step true (run true {} evs) e).size = (run true {} evs).size := by
  have h := inv_run true evs {} inv_init
  generalize run true {} evs = s at h hs
  have hr := h.succ hs
  cases e <;> simp only [step, hr] <;> (try (repeat' split)) <;> simp_all

/-- **size_monotone_while_running.** While the record says running, the recorded output size never shrinks. -/
theorem size_monotone_while_running (k : Bool) (evs : List Ev) (e : Ev) (h1 : (run k {} evs).state = 1)
    (h2 : (step k (run k {} evs) e).state = 1) : (run k {} evs).size ≤ (step k (run k {} evs) e).size := by
  have h := inv_run k evs {} inv_init
  generalize run k {} evs = s at h h1 h2
  obtain ⟨hp, hsz, _⟩ := h
  cases hr : s.r <;> cases e <;> simp only [step, hr] at h2 ⊢ <;> (try (repeat' split)) <;> simp_all [okFor] <;>
    (try (repeat' split at h2)) <;> simp_all <;> omega

/-- **cancel_write_after_exit.** The daemon writes "cancelled" only when the runner process it interrupted is gone. -/
theorem cancel_write_after_exit (k : Bool) (s : St) (h : (step k s .dCancelWrite).state ≠ s.state) : s.r = .exited := by
  simp only [step] at h
  split at h
  · rename_i hc; exact hc.2
  · exact absurd rfl h

/-- the defect found with this model (repaired in /repo): without the guard, a cancel that arrives while
the runner is between the command's exit and its final write turns succeeded into cancelled -/
theorem C13_witness_succeeded_overwritten :
    trace false {} [.dPending, .dLaunch, .rInit, .output 5, .rTick, .cmdExit true, .cancel, .rFinal, .dCancelWrite]
      = [(0, 0), (0, 0), (0, 0), (0, 0), (1, 5), (1, 5), (1, 5), (2, 5), (4, 5)] := by decide

/-- … and with the guard the same schedule keeps succeeded -/
example : (trace true {} [.dPending, .dLaunch, .rInit, .output 5, .rTick, .cmdExit true, .cancel, .rFinal, .dCancelWrite]).getLast? = some (2, 5) := by
  decide

/-! ### Unit IDs and release -/

theorem alloc_fresh (used : List ID) (cs : List ID) (id : ID) (h : alloc used cs = some id) : id ∉ used := by
  unfold alloc at h
  have := List.find?_some h
  simpa using this

/-- **ids_distinct.** However the random candidates fall and however many submissions there are, the
IDs handed out are pairwise distinct and none of them is an ID already in use. -/
theorem ids_distinct : ∀ (streams : List (List ID)) (used : List ID),
    (allocAll used streams).Nodup ∧ ∀ id ∈ allocAll used streams, id ∉ used := by
  intro streams
  induction streams with
  | nil => intro used; exact ⟨List.nodup_nil, by simp [allocAll]⟩
  | cons cs rest ih =>
    intro used
    unfold allocAll
    cases ha : alloc used cs with
    | none => simpa using ih used
    | some id =>
      simp only
      obtain ⟨hn, hf⟩ := ih (id :: used)
      have hfresh := alloc_fresh used cs id ha
      refine ⟨List.nodup_cons.mpr ⟨fun hm => ?_, hn⟩, ?_⟩
      · exact (hf id hm) (by simp)
      · intro x hx
        rcases List.mem_cons.mp hx with h | h
        · subst h; exact hfresh
        · intro hu; exact (hf x h) (by simp [hu])

/-- **released_is_unknown.** After a successful release the unit is neither in the index nor on disk, and
every other unit is as known as before. -/
theorem released_is_unknown (t : Table) (id : ID) :
    known (release t id) id = false ∧ ∀ other, other ≠ id → known (release t id) other = known t other := by
  constructor
  · simp [known, release]
  · intro other ho
    simp [known, release, List.contains_eq_mem, ho]


/-- **unforced_release_all_or_nothing.** A release that is not forced either succeeds and the unit is
gone — from the index and from the disk — or fails and nothing has changed. -/
theorem unforced_release_all_or_nothing (t : Table) (id : ID) (removeOK : Bool) :
    ((releaseResult t id removeOK false).2 = true → known (releaseResult t id removeOK false).1 id = false)
    ∧ ((releaseResult t id removeOK false).2 = false → (releaseResult t id removeOK false).1 = t) := by
  cases removeOK <;> simp [releaseResult, known, release]

end Receptor.Life
