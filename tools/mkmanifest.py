#!/usr/bin/env python3
"""Regenerate MANIFEST.json from tools/props.py (claimed checks) and tools/manifest_text.py."""
import json, os, sys
VERIF = os.path.dirname(os.path.dirname(os.path.abspath(__file__)))
sys.path.insert(0, os.path.join(VERIF, "tools"))
from props import PROPS
from manifest_text import TEXT, NOT_APPLICABLE, HOOK_COMMITS

props = [json.loads(l) for l in open(os.path.join(VERIF, "properties.jsonl"))]
man = {
    "version": 1,
    "setup_cmd": "./setup.sh",
    "hooks": {
        "guard": "verif",
        "enable": "go build/test -tags verif; the checks additionally inject the /verif harness files with -overlay (no file of /repo is edited by a check)",
        "baseline_off_cmd": "cd /repo && go test -mod=mod -json -vet=off -count=1 -timeout 25m ./...",
        "source_commits": HOOK_COMMITS,
        "add_only": True,
    },
    "engines": [{
        "name": "lean-proof+correspondence", "path": "/verif/check",
        "serves_properties": sorted(PROPS.keys()),
        "kind_free_text": "Lean 4 property theorems over executable models (lean/Receptor/Props); tie to the source = go/ast fact "
                          "extractor regenerating Generated/Facts.lean on every run + differential run of the real Go code "
                          "(white-box via go test -overlay, black-box via the built binary) against the compiled Lean driver; "
                          "property predicates evaluated on the implementation's observations provide the concrete replays",
    }],
    "checks": [],
    "not_applicable": [],
    "notes": "See DESIGN.md. ./check <ID> --tier quick|thorough; --replay <file> re-runs a recorded case. "
             "KNOWN_FINDINGS.jsonl lists recorded (known) and repaired (fixed) defects.",
}
for p in props:
    pid = p["id"]
    if pid in PROPS:
        t = TEXT[pid]
        man["checks"].append({
            "property_id": pid,
            "quick_cmd": f"./check {pid} --tier quick",
            "thorough_cmd": f"./check {pid} --tier thorough",
            "evidence_file": f"/verif/evidence/{pid}.json",
            "replay_cmd_template": f"./check {pid} --replay {{path}}",
            "engine": "lean-proof+correspondence",
            "level_claimed": {"category": "proof", "text": t["text"], "design_ref": f"DESIGN.md §5 {pid}"},
            "level_note": t["note"],
            "technique": t.get("technique", "Lean 4 machine-checked proof over an executable model + regenerated facts + differential correspondence with the Go code"),
        })
    else:
        man["not_applicable"].append({"property_id": pid, "reason": NOT_APPLICABLE.get(pid, "check not built yet (framework under construction; see DESIGN.md §8 build order)")})
json.dump(man, open(os.path.join(VERIF, "MANIFEST.json"), "w"), indent=1)
print("claimed:", [c["property_id"] for c in man["checks"]])
