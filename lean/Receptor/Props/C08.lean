import Receptor.Model.Ctl
import Receptor.Model.LockOrder
import Receptor.Generated.Facts
/-!
# C08 — no control-service input can crash or wedge a node; sessions are isolated

Theorems over `Receptor.Ctl` (the session loop, the command table, every built-in command's
`InitFromString` / `InitFromJSON`, and `ControlFunc` as far as it touches the unit index), for
every request line, every JSON decoding of it and every state of the unit index.
-/
namespace Receptor.Ctl

theorem findUnit_no_deadlock (u : Units) (id : Bytes) : findUnit allGuards u id ≠ .deadlock := by
  unfold findUnit
  split
  · simp
  · split
    · simp only [allGuards, Bool.not_true, Bool.false_eq_true, if_false]
      split <;> simp
    · simp

theorem withUnit_safe (u : Units) (id : Bytes) (k : Units → Units × Outcome) (hk : ∀ u', (k u').2.safe = true) :
    (withUnit allGuards u id k).2.safe = true := by
  unfold withUnit
  split
  · exact hk _
  · rfl
  · exact absurd ‹_› (findUnit_no_deadlock u id)

theorem runCmd_safe (u : Units) (c : Cmd) : (runCmd allGuards u c).2.safe = true := by
  cases c with
  | workSubmit wt sig =>
    simp only [runCmd]
    split
    · rfl
    · split <;> rfl
  | workList id =>
    cases id with
    | none => rfl
    | some id => exact withUnit_safe _ _ _ (fun _ => rfl)
  | workStatus id => exact withUnit_safe _ _ _ (fun _ => rfl)
  | workCancel id sig => exact withUnit_safe _ _ _ (fun _ => rfl)
  | workRelease id sig => exact withUnit_safe _ _ _ (fun _ => by split <;> rfl)
  | workResults id sig => exact withUnit_safe _ _ _ (fun _ => by split <;> rfl)
  | _ => rfl

theorem initJson_no_panic (cmd : Bytes) (kv : List (Bytes × J)) : initJson allGuards cmd kv ≠ some .panic := by
  unfold initJson
  split
  · unfold initStatusJson
    split <;> simp [allGuards]
  · cases initJsonOther cmd kv <;> simp

/-- **line_no_crash.** Whatever the request line is and whatever `encoding/json` makes of it, in
every state of the unit index, handling it neither panics nor blocks: it produces reply lines (or
hands the connection to a command that was accepted). -/
theorem line_no_crash (u : Units) (line : Bytes) (jv : Option (List (Bytes × J))) :
    (handleLine allGuards u line jv).2.safe = true := by
  unfold handleLine
  split
  · split
    · rfl
    · split
      · rfl
      · split
        · rfl
        · exact runCmd_safe _ _
        · rfl
        · exact absurd ‹_› (initJson_no_panic _ _)
      · rfl
  · simp only
    split
    · rfl
    · exact runCmd_safe _ _
    · rfl

/-- **session_no_crash.** A whole session — any byte sequence, cut into request lines by the
reader — never ends in a panic or a wedge. -/
theorem session_no_crash (u : Units) (script : List (Bytes × Option (List (Bytes × J)))) :
    (runSession allGuards u script).2.2 = .eof ∨ (runSession allGuards u script).2.2 = .consumed := by
  induction script generalizing u with
  | nil => left; rfl
  | cons x rest ih =>
    obtain ⟨line, jv⟩ := x
    have h := line_no_crash u line jv
    unfold runSession
    generalize handleLine allGuards u line jv = r at h
    obtain ⟨u', o⟩ := r
    cases o with
    | replies l => simp only; exact ih u'
    | consumed l => right; rfl
    | panic => simp [Outcome.safe] at h
    | hang => simp [Outcome.safe] at h

/-- **invalid_gets_error.** A non-empty request line that is not carried out as a command is
answered — with at least one line, and every line of the answer starts with `ERROR` — the unit
index is untouched and the session goes on reading. -/
theorem invalid_gets_error (u : Units) (line : Bytes) (jv : Option (List (Bytes × J)))
    (hinv : validRequest allGuards line jv = false) :
    ∃ l, handleLine allGuards u line jv = (u, .replies l) ∧ l ≠ [] ∧ ∀ r ∈ l, r.isErr = true := by
  unfold validRequest at hinv
  unfold handleLine
  split
  · rename_i hb
    simp only [hb, if_true] at hinv
    split
    · exact ⟨_, rfl, by simp, by simp [Reply.isErr]⟩
    · rename_i kv
      simp only at hinv
      split
      · exact ⟨_, rfl, by simp, by simp [Reply.isErr]⟩
      · rename_i cmd hc
        simp only [hc] at hinv
        split
        · exact ⟨_, rfl, by simp, by simp [Reply.isErr]⟩
        · rename_i c hi
          simp only [hi] at hinv
          have : c = .workBad := by simpa using hinv
          subst this
          exact ⟨_, rfl, by simp, by simp [Reply.isErr]⟩
        · exact ⟨_, rfl, by simp, by simp [Reply.isErr]⟩
        · exact absurd ‹_› (initJson_no_panic _ _)
      · exact ⟨_, rfl, by simp, by simp [Reply.isErr]⟩
  · rename_i hb
    simp only [hb, if_false] at hinv
    simp only at hinv ⊢
    split
    · exact ⟨_, rfl, by simp, by simp [Reply.isErr]⟩
    · rename_i c hi
      simp only [hi] at hinv
      have : c = .workBad := by simpa using hinv
      subst this
      exact ⟨_, rfl, by simp, by simp [Reply.isErr]⟩
    · exact ⟨_, rfl, by simp, by simp [Reply.isErr]⟩


/-- **garbage_then_valid.** Requests that are not carried out only add their `ERROR` lines in front:
the rest of the session — and, through the untouched unit index, every other session — gets
exactly the answers it would have got without them. -/
theorem garbage_then_valid (u : Units) (g rest : List (Bytes × Option (List (Bytes × J))))
    (hg : ∀ x ∈ g, validRequest allGuards x.1 x.2 = false) :
    ∃ errs, (∀ r ∈ errs, r.isErr = true) ∧ g.length ≤ errs.length ∧
      runSession allGuards u (g ++ rest) =
        ((runSession allGuards u rest).1, errs ++ (runSession allGuards u rest).2.1, (runSession allGuards u rest).2.2) := by
  induction g with
  | nil => exact ⟨[], by simp, by simp, by simp⟩
  | cons x g ih =>
    obtain ⟨line, jv⟩ := x
    obtain ⟨l, hl, hne, herr⟩ := invalid_gets_error u line jv (hg (line, jv) (by simp))
    obtain ⟨errs, he, hlen, hrun⟩ := ih (fun y hy => hg y (by simp [hy]))
    refine ⟨l ++ errs, ?_, ?_, ?_⟩
    · intro r hr
      rcases List.mem_append.mp hr with h | h
      · exact herr r h
      · exact he r h
    · have : 1 ≤ l.length := by cases l with | nil => exact absurd rfl hne | cons _ _ => simp
      simp only [List.length_cons, List.length_append]; omega
    · show runSession allGuards u ((line, jv) :: (g ++ rest)) = _
      rw [runSession, hl]
      simp only
      rw [hrun]
      simp [List.append_assoc]

/-- **sessions_isolated.** A session made only of requests that are not carried out ends normally
and leaves the unit index exactly as it found it. -/
theorem sessions_isolated (u : Units) (g : List (Bytes × Option (List (Bytes × J))))
    (hg : ∀ x ∈ g, validRequest allGuards x.1 x.2 = false) :
    (runSession allGuards u g).1 = u ∧ (runSession allGuards u g).2.2 = .eof := by
  obtain ⟨errs, _, _, h⟩ := garbage_then_valid u g [] hg
  rw [List.append_nil] at h
  rw [h]
  exact ⟨rfl, rfl⟩

/-! ### The line reader -/

theorem splitLF_clean : ∀ (input cur : Bytes), (∀ c ∈ cur, c ≠ 10 ∧ c ≠ 13) →
    ∀ l ∈ splitLF input cur, ∀ c ∈ l, c ≠ 10 ∧ c ≠ 13
  | [], cur, hc, l, hl, c, hcl => by
    simp only [splitLF, List.mem_singleton] at hl
    subst hl
    exact hc c (List.mem_reverse.mp hcl)
  | x :: rest, cur, hc, l, hl, c, hcl => by
    unfold splitLF at hl
    split at hl
    · rcases List.mem_cons.mp hl with h | h
      · subst h; exact hc c (List.mem_reverse.mp hcl)
      · exact splitLF_clean rest [] (by simp) l h c hcl
    · split at hl
      · exact splitLF_clean rest cur hc l hl c hcl
      · refine splitLF_clean rest (x :: cur) ?_ l hl c hcl
        intro d hd
        rcases List.mem_cons.mp hd with h | h
        · subst h; exact ⟨‹_›, ‹_›⟩
        · exact hc d h

/-- **reader_lines.** For every input byte sequence the reader hands on only non-empty lines
without line terminators — whatever the bytes are (over-long, unterminated, binary). -/
theorem reader_lines (input : Bytes) : ∀ l ∈ requestLines input, l ≠ [] ∧ ∀ c ∈ l, c ≠ 10 ∧ c ≠ 13 := by
  intro l hl
  unfold requestLines at hl
  have ⟨h1, h2⟩ := List.mem_filter.mp hl
  exact ⟨by simpa using h2, splitLF_clean input [] (by simp) l h1⟩

/-! ### The two defects found with this model (both repaired in /repo; see KNOWN_FINDINGS) -/

/-- without the type check, `{"command":"status","requested_fields":null}` (or any non-array) panics -/
theorem C08_witness_status_fields :
    (handleLine { allGuards with statusFieldsTyped := false } { mem := [], disk := [], types := [] } (b "{\"command\":\"status\",\"requested_fields\":null}")
      (some [(b "command", .str (b "status")), (b "requested_fields", .null)])).2 = .panic := by decide +kernel

/-- with the read lock held across the rescan, `work status X` for a unit that exists on disk only wedges -/
theorem C08_witness_disk_only_unit :
    (handleLine { allGuards with findUnitUnlocked := false } { mem := [], disk := [b "X"], types := [] } (b "work status X") none).2 = .hang := by
  decide +kernel

/-- Non-vacuity: a session with garbage, a valid command, garbage again -/
example :
    (runSession allGuards { mem := [b "u1"], disk := [b "d1"], types := [] }
      [(b "\u0001\u0002", none), (b "{\"command\":5}", some [(b "command", .num true)]), (b "work status d1", none),
       (b "WORK release u1 extra", none), (b "work release u1", none), (b "work status u1", none)]).2
      = ([.err (some (b "Unknown command")), .err (some (b "command must be a string")), .err (some (b "Unknown command")),
          .json, .err (some (b "work release does not take parameters after the unit ID")), .json, .err none], .eof) := by
  decide +kernel


/-- **Tie (translator)**: no lock is left held on a return path — in every block of every function of `pkg/controlsvc` and
`pkg/workceptor`, a `Lock()` / `RLock()` statement is followed in its block by the matching `Unlock` (plain or deferred)
before any `return` that is not itself preceded by that `Unlock`.  (A lock left held on one path wedges every later command
that needs it: `no_control_command_deadlock` is about threads that wait for locks whose holders go on to release them.) -/
theorem C08_facts_no_lock_left_held : Receptor.Facts.lock_leaks = [] := by decide

/-- **Tie (translator)**: the guards, the reader loop, the dispatch, the command table and the
messages of every built-in command's parser; `reload` runs under one mutex (its state is shared by all
sessions: without it concurrent reloads abort the process — found by the harness, repaired in /repo). -/
theorem C08_facts :
    Receptor.Facts.ctl_status_fields_checked = true
    ∧ Receptor.Facts.ctl_findunit_rescan_unlocked = true
    ∧ Receptor.Facts.ctl_reload_serialised = true
    ∧ Receptor.Facts.ctl_reader = "err == io.EOF:break;n == 1:…;buf[0] == '\\r':continue;buf[0] == '\\n':break;len(cmdBytes) == 0:continue"
    ∧ Receptor.Facts.ctl_dispatch = "cmdBytes[0] == '{';json-error:falls-through;strings.SplitN(string(cmdBytes), \" \", 2);strings.ToLower(tokens[0]);unknown:\"ERROR: Unknown command\\n\""
    ∧ Receptor.Facts.ctl_table = "\"ping\"=&PingCommandType{};\"status\"=&StatusCommandType{};\"connect\"=&ConnectCommandType{};\"traceroute\"=&TracerouteCommandType{};\"reload\"=&ReloadCommandType{}"
    ∧ Receptor.Facts.ctl_msgs = ["ping.s=no ping target", "ping.j=no ping target", "ping.j=ping target must be string",
        "status.s=status command does not take parameters", "status.j=requested_fields must be a list of strings",
        "status.j=each element of requested_fields must be a string", "connect.s=no connect target", "connect.s=too many parameters",
        "connect.j=no connect target node", "connect.j=connect target node must be string", "connect.j=no connect target service",
        "connect.j=connect target service must be string", "connect.j=connect tls name must be string", "traceroute.s=no traceroute target",
        "traceroute.j=no traceroute target", "traceroute.j=traceroute target must be string", "work.s=no work subcommand",
        "work.s=work submit requires a target node and work type", "work.s=work %s requires a unit ID",
        "work.s=work %s does not take parameters after the unit ID", "work.s=work results requires a unit ID",
        "work.s=work results only takes a unit ID and optional start position", "work.s=error converting start position to integer: %s",
        "work.j=submit parameters must all be strings and %s is not", "str=field %s missing", "str=field %s must be a string",
        "int=field %s missing", "int=field %s value %s is not convertible to an int"] := by decide +kernel

/-- **Tie (translator)**: the accept loop hands every accepted connection to a goroutine of its own at once; nothing that can
wait (a TLS handshake, a read) runs in the loop itself, so no client can keep others from being accepted. -/
theorem C08_accept_facts : Receptor.Facts.ctl_accept_loop = "accept;go:s.SetupConnection" := by decide +kernel

end Receptor.Ctl

/-! ## No wedge: the lock order of the code that serves control commands -/
namespace Receptor.LockOrder

theorem exists_max (rank : String → Nat) : ∀ (l : List Thread), l ≠ [] → ∃ t ∈ l, ∀ u ∈ l, rank u.want ≤ rank t.want
  | [], h => absurd rfl h
  | [t], _ => ⟨t, by simp, by simp⟩
  | t :: t2 :: rest, _ => by
    obtain ⟨m, hm, hmax⟩ := exists_max rank (t2 :: rest) (by simp)
    by_cases h : rank m.want ≤ rank t.want
    · refine ⟨t, by simp, ?_⟩
      intro u hu
      rcases List.mem_cons.mp hu with h1 | h1
      · subst h1; exact Nat.le_refl _
      · exact Nat.le_trans (hmax u h1) h
    · refine ⟨m, List.mem_cons_of_mem _ hm, ?_⟩
      intro u hu
      rcases List.mem_cons.mp hu with h1 | h1
      · subst h1; omega
      · exact hmax u h1

/-- **no_wait_cycle.** If every lock a thread requests ranks above every lock it holds, no set of
threads waits for each other: there is no deadlock among these locks, under any schedule and for
any number of threads. -/
theorem no_wait_cycle (rank : String → Nat) (ths : List Thread)
    (hord : ∀ t ∈ ths, ∀ h ∈ t.held, rank h < rank t.want) : ¬ Deadlocked ths := by
  intro ⟨hne, hdl⟩
  obtain ⟨t, ht, hmax⟩ := exists_max rank ths hne
  obtain ⟨u, hu, hw⟩ := hdl t ht
  have h1 := hord u hu t.want hw
  have h2 := hmax u hu
  omega

/-- the order the locks of pkg/workceptor and pkg/controlsvc are taken in -/
def lockOrder : List String :=
  ["Server.controlFuncLock", "reloadLock", "BaseWorkUnit.statusLock", "Workceptor.activeUnitsLock", "Workceptor.workTypesLock",
   "BaseWorkUnit.lastUpdateErrorLock", "statusFileLock", "KubeAPIWrapperLock"]

/-- requests that go against the order and cannot be part of a cycle, each for a stated reason -/
def exemptEdges : List Edge :=
  [ -- AllocateUnit saves the unit it has just created while holding the index lock: the unit's status lock is
    -- not reachable by any other thread yet (the unit is entered into the index afterwards)
    { src := "Workceptor.activeUnitsLock", dst := "BaseWorkUnit.statusLock", site := "Workceptor.AllocateUnit" },
    -- RegisterWorker runs while the configuration is applied, before the control service accepts sessions;
    -- it is not reachable from a control command
    { src := "Workceptor.activeUnitsLock", dst := "BaseWorkUnit.statusLock", site := "Workceptor.RegisterWorker" } ]

def sourceEdges : List Edge := zipEdges Receptor.Facts.lock_from Receptor.Facts.lock_to Receptor.Facts.lock_at

/-- **Tie (translator)**: every lock request the source can make while holding another lock goes
upwards in `lockOrder` (apart from the two exempt sites). -/
theorem C08_lock_order : respects lockOrder exemptEdges sourceEdges = true := by decide +kernel

/-- **no_control_command_deadlock.** Threads whose requests are among the (non-exempt) requests the
source can make never wait for each other in a cycle. -/
theorem no_control_command_deadlock (ths : List Thread)
    (hsrc : ∀ t ∈ ths, ∀ h ∈ t.held, ∃ e ∈ sourceEdges, e ∉ exemptEdges ∧ e.src = h ∧ e.dst = t.want) : ¬ Deadlocked ths := by
  apply no_wait_cycle (rankIn lockOrder)
  intro t ht h hh
  obtain ⟨e, he, hne, h1, h2⟩ := hsrc t ht h hh
  have hr := C08_lock_order
  unfold respects at hr
  have := List.all_eq_true.mp hr e he
  simp only [Bool.or_eq_true, Bool.and_eq_true, decide_eq_true_eq] at this
  rcases this with hx | hx
  · exact absurd (by simpa using hx) hne
  · rw [← h1, ← h2]; exact hx.2

/-- the order is not vacuous: the release path (status lock, then the index lock) is in it, and the reverse
request is refused -/
example : respects lockOrder [] [{ src := "BaseWorkUnit.statusLock", dst := "Workceptor.activeUnitsLock", site := "BaseWorkUnit.Release" }] = true
    ∧ respects lockOrder [] [{ src := "Workceptor.activeUnitsLock", dst := "BaseWorkUnit.statusLock", site := "x" }] = false
    ∧ respects lockOrder [] [{ src := "Workceptor.activeUnitsLock", dst := "Workceptor.activeUnitsLock", site := "Workceptor.findUnit" }] = false := by
  decide +kernel

end Receptor.LockOrder
