import Receptor.Model.Flood
namespace Receptor.Flood

namespace KMap

theorem get?_set_self {α} (m : KMap α) (k : Node) (v : α) : get? (set m k v) k = some v := by
  simp only [get?, set, erase]
  rw [List.find?_append]
  have h1 : (m.filter fun e => e.1 != k).find? (fun e => e.1 == k) = none := by
    rw [List.find?_eq_none]
    intro x hx
    simp only [List.mem_filter] at hx
    simp at hx ⊢
    exact hx.2
  simp [h1]

theorem get?_set_other {α} (m : KMap α) (k k' : Node) (v : α) (h : k' ≠ k) :
    get? (set m k v) k' = get? m k' := by
  simp only [get?, set, erase]
  rw [List.find?_append]
  have h2 : ([(k, v)] : KMap α).find? (fun e => e.1 == k') = none := by
    have : (k == k') = false := by simp [Ne.symm h]
    simp [List.find?, this]
  have h1 : (m.filter fun e => e.1 != k).find? (fun e => e.1 == k') = m.find? (fun e => e.1 == k') := by
    induction m with
    | nil => rfl
    | cons e es ih =>
      simp only [List.filter]
      by_cases hk : e.1 = k
      · have : (e.1 != k) = false := by simp [hk]
        simp only [this]
        rw [ih]
        have : (e.1 == k') = false := by simp [hk, Ne.symm h]
        simp [List.find?, this]
      · have : (e.1 != k) = true := by simp [hk]
        simp only [this, List.find?]
        by_cases hk' : e.1 = k'
        · simp [hk']
        · have : (e.1 == k') = false := by simp [hk']
          simp only [this]
          exact ih
  rw [h1, h2]
  cases m.find? (fun e => e.1 == k') <;> simp

end KMap

@[simp] theorem markSeen_id (s : NodeState) (i : UpdateID) : (markSeen s i).id = s.id := rfl
@[simp] theorem markSeen_info (s : NodeState) (i : UpdateID) : (markSeen s i).info = s.info := rfl
@[simp] theorem markSeen_known (s : NodeState) (i : UpdateID) : (markSeen s i).known = s.known := rfl
@[simp] theorem markSeen_conns (s : NodeState) (i : UpdateID) : (markSeen s i).conns = s.conns := rfl
@[simp] theorem markSeen_seen (s : NodeState) (i : UpdateID) : (markSeen s i).seen = s.seen ++ [i] := rfl

theorem noticeStep_id (s : NodeState) (u : Update) : (noticeStep s u).id = s.id := by
  unfold noticeStep; split
  · split <;> rfl
  · rfl
theorem noticeStep_seen (s : NodeState) (u : Update) : (noticeStep s u).seen = s.seen := by
  unfold noticeStep; split
  · split <;> rfl
  · rfl
theorem noticeStep_known (s : NodeState) (u : Update) : (noticeStep s u).known = s.known := by
  unfold noticeStep; split
  · split <;> rfl
  · rfl
theorem noticeStep_conns (s : NodeState) (u : Update) : (noticeStep s u).conns = s.conns := by
  unfold noticeStep; split
  · split <;> rfl
  · rfl

theorem selfStep_id (s : NodeState) (u : Update) (fresh : UpdateID) : (selfStep s u fresh).1.id = s.id := by
  unfold selfStep originate
  repeat' split
  all_goals rfl

theorem selfStep_seen (s : NodeState) (u : Update) (fresh : UpdateID) : (selfStep s u fresh).1.seen = s.seen := by
  unfold selfStep originate
  repeat' split
  all_goals rfl

theorem remoteStep_id (R : StaleRule) (s : NodeState) (u : Update) (recv : Node) :
    (remoteStep R s u recv).1.id = s.id := by
  unfold remoteStep
  split
  · rfl
  · simp only
    split
    · simp [noticeStep_id]
    · split
      · split <;> simp [acceptStep]
      · simp [acceptStep]

theorem acceptStep_seen (s : NodeState) (u : Update) : (acceptStep s u).seen = s.seen := rfl
theorem acceptStep_id (s : NodeState) (u : Update) : (acceptStep s u).id = s.id := rfl
theorem acceptStep_conns (s : NodeState) (u : Update) : (acceptStep s u).conns = s.conns := rfl

/-- requests to the tick runners, i.e. actions that are not messages -/
def isReq : Action → Bool
  | .send _ _ => false
  | _ => true

/-- shape of what a remote-origin step does: nothing at all, or requests followed by exactly
the relay of the update; in the second case the update's ID is appended to the seen table -/
theorem remoteStep_shape (R : StaleRule) (s : NodeState) (u : Update) (recv : Node) :
    ((remoteStep R s u recv).2 = [] ∧ ((remoteStep R s u recv).1.seen = s.seen ∨
        (remoteStep R s u recv).1.seen = s.seen ++ [u.updateID])) ∨
    (¬ (R.dedupFirst && s.seen.contains u.updateID) = true ∧
      (remoteStep R s u recv).1.seen = s.seen ++ [u.updateID] ∧
      ∃ pre, (∀ a ∈ pre, isReq a = true) ∧
        (remoteStep R s u recv).2 = pre ++ relayActs R (markSeen s u.updateID) u recv) := by
  unfold remoteStep
  split
  · left; exact ⟨rfl, Or.inl rfl⟩
  · rename_i hd
    simp only
    split
    · right; exact ⟨hd, by rw [noticeStep_seen]; rfl, [], by simp, by simp⟩
    · split
      · split
        · left; exact ⟨rfl, Or.inr rfl⟩
        · right
          refine ⟨hd, rfl, _, ?_, rfl⟩
          intro a ha; split at ha <;> simp at ha; subst ha; rfl
      · right
        refine ⟨hd, rfl, [Action.reqFlood] ++ (if changedBy (markSeen s u.updateID) u then [Action.reqTable] else []), ?_, by simp⟩
        intro a ha
        simp only [List.mem_append, List.mem_singleton] at ha
        cases ha with
        | inl h => subst h; rfl
        | inr h => split at h <;> simp at h; subst h; rfl

theorem relaysOf_append (me : Node) (i : UpdateID) (a b : List Action) :
    relaysOf me i (a ++ b) = relaysOf me i a ++ relaysOf me i b := by
  simp [relaysOf, List.filter_append]

theorem relaysOf_reqs (me : Node) (i : UpdateID) (pre : List Action) (h : ∀ a ∈ pre, isReq a = true) :
    relaysOf me i pre = [] := by
  simp only [relaysOf, List.filter_eq_nil_iff]
  intro a ha
  have := h a ha
  cases a <;> simp [isReq] at this ⊢

theorem step_id (R : StaleRule) (s : NodeState) (u : Update) (recv : Node) (fresh : UpdateID) :
    (step R s u recv fresh).1.id = s.id := by
  unfold step
  split
  · rfl
  · split
    · exact selfStep_id s u fresh
    · exact remoteStep_id R s u recv

end Receptor.Flood
