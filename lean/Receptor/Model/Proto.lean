/-!
# The backend-session protocol loop (`runProtocol`) — properties C07 (no input crashes or
wedges a node) and C11 (admission of peers)

One session is a state machine over received datagrams.  Datagrams are described after
lexing: the first byte decides the kind; JSON bodies are values of `JVal` (or `none` when the
bytes are not JSON at all) decoded by Go's `encoding/json` rules for the concrete target
structs.  Go run-time failures are outcomes: `panic` (index out of range, nil dereference),
`fatal` (unrecoverable: stack exhaustion); a routing computation that need not terminate any
more is the flag `Shared.poisoned`.  Which guards the source has against them are regenerated facts (`Guards`).
-/
namespace Receptor.Proto

abbrev Bytes := List Nat

/-- a JSON value as `encoding/json` sees it.  Numbers carry what the decoder can make of the
literal: its value as an unsigned 64-bit integer (if the literal is one) and as a float in
millionths (if it fits a float64). -/
inductive JVal where
  | null
  | bool (b : Bool)
  | num (uint : Option Nat) (micro : Option Int)
  | str (s : Bytes)
  | arr (l : List JVal)
  | obj (kv : List (Bytes × JVal))
  deriving Repr

def lowerB (s : Bytes) : Bytes := s.map fun c => if 65 ≤ c ∧ c ≤ 90 then c + 32 else c

/-- field lookup as `encoding/json` does it: exact name first, then case-insensitively -/
def field (kv : List (Bytes × JVal)) (name : Bytes) : Option JVal :=
  match kv.find? fun e => e.1 == name with
  | some e => some e.2
  | none => (kv.find? fun e => lowerB e.1 == lowerB name).map (·.2)

/-- decode into a `string` field: absent/null leave the zero value, a JSON string sets it,
anything else is an error -/
def decStr (v : Option JVal) : Option Bytes :=
  match v with
  | none => some []
  | some .null => some []
  | some (.str s) => some s
  | some _ => none

def decUint (v : Option JVal) : Option Nat :=
  match v with
  | none => some 0
  | some .null => some 0
  | some (.num (some n) _) => some n
  | some _ => none

def decBool (v : Option JVal) : Option Bool :=
  match v with
  | none => some false
  | some .null => some false
  | some (.bool b) => some b
  | some _ => none

/-- `map[string]float64`: absent/null ⇒ nil map; an object whose values are all numbers that
fit a float64; anything else is an error -/
def decCosts (v : Option JVal) : Option (Option (List (Bytes × Int))) :=
  match v with
  | none => some none
  | some .null => some none
  | some (.obj kv) =>
    if kv.all (fun e => match e.2 with | .num _ (some _) => true | .null => true | _ => false) then
      some (some (kv.map fun e => (e.1, match e.2 with | .num _ (some m) => m | _ => 0)))
    else none
  | some _ => none

structure RU where
  nodeID : Bytes
  updateID : Bytes
  epoch : Nat
  seq : Nat
  conns : Option (List (Bytes × Int))
  fwd : Bytes
  susp : Nat
  deriving Repr

def n (s : String) : Bytes := s.toUTF8.toList.map (·.toNat)

/-- `json.Unmarshal(data[1:], &routingUpdate{})`; `none` = an error is returned -/
def decodeRU (body : Option JVal) : Option RU :=
  match body with
  | none => none                    -- not JSON
  | some .null => some { nodeID := [], updateID := [], epoch := 0, seq := 0, conns := none, fwd := [], susp := 0 }
  | some (.obj kv) => do
    let nodeID ← decStr (field kv (n "NodeID"))
    let updateID ← decStr (field kv (n "UpdateID"))
    let epoch ← decUint (field kv (n "UpdateEpoch"))
    let seq ← decUint (field kv (n "UpdateSequence"))
    let conns ← decCosts (field kv (n "Connections"))
    let fwd ← decStr (field kv (n "ForwardingNode"))
    let susp ← decUint (field kv (n "SuspectedDuplicate"))
    pure { nodeID, updateID, epoch, seq, conns, fwd, susp }
  | some _ => none

/-- the fields of the embedded `*ServiceAdvertisement`: the pointer is allocated only when the
JSON object mentions one of them -/
def adFields : List Bytes := [n "NodeID", n "Service", n "Time", n "ConnType", n "Tags", n "WorkCommands"]

inductive AdDecode where
  | err                -- Unmarshal returns an error
  | nilEmbedded        -- decoded, but the embedded pointer stayed nil
  | ok
  deriving DecidableEq, Repr

/-- `json.Unmarshal(data[1:], &serviceAdvertisementFull{})`, as far as crashing is concerned.
(`wellTyped` = every mentioned field has a JSON type its Go type accepts — computed by the
harness with the field table; a mistyped field yields an error.) -/
def decodeAd (body : Option JVal) (wellTyped : Bool) : AdDecode :=
  match body with
  | none => .err
  | some .null => .nilEmbedded
  | some (.obj kv) =>
    if !wellTyped then .err
    else if adFields.any fun f => (field kv f).isSome && (match field kv f with | some .null => false | _ => true) then .ok
    else if adFields.any fun f => (field kv f).isSome then .ok   -- a null field still allocates the embedded struct
    else .nilEmbedded
  | some _ => .err

/-- a data packet after `translateDataToMessage` and one `handleMessageData` -/
inductive DataKind where
  | short                 -- fewer than the minimum length: error, continue
  | unknownHash           -- error, continue
  | pingLoop              -- from this node's "ping" to this node's "ping"
  | handled               -- anything else: handled (see `Receptor.Forward`), never a panic
  deriving DecidableEq, Repr

inductive Dgram where
  | empty
  | data (k : DataKind)
  | route (body : Option JVal)
  | advert (body : Option JVal) (wellTyped : Bool)
  | reject
  | other
  deriving Repr

/-- which defensive checks the source has (regenerated facts) -/
structure Guards where
  emptyDatagram : Bool      -- `len(data) == 0` is handled before `data[0]`
  adNilEmbedded : Bool      -- a nil embedded advertisement is refused before it is dereferenced
  pingFromPing : Bool       -- a ping whose source service is "ping" is not answered
  positiveCosts : Bool      -- routing updates with a non-positive cost are not applied
  emptyPeerID : Bool        -- a handshake announcing an empty node ID is rejected
  removeOnAllExits : Bool   -- every exit of a registered session removes the connection
  deriving DecidableEq, Repr

def allGuards : Guards :=
  { emptyDatagram := true, adNilEmbedded := true, pingFromPing := true, positiveCosts := true,
    emptyPeerID := true, removeOnAllExits := true }

/-- per-backend configuration -/
structure Backend where
  cost : Int                          -- connection cost in millionths (> 0)
  nodeCost : List (Bytes × Int)
  allowed : Option (List Bytes)

structure Sess where
  established : Bool := false
  remoteEstablished : Bool := false
  remoteID : Bytes := []
  cost : Int := 0
  deriving DecidableEq, Repr

/-- the node-wide state a session reads and writes -/
structure Shared where
  self : Bytes
  connections : List Bytes
  /-- a routing update with a negative cost has been applied: the label-correcting loop of
  `updateRoutingTable` need not terminate any more (it does not when a negative cycle is
  reachable), and it runs holding the known-nodes lock -/
  poisoned : Bool := false
  deriving DecidableEq, Repr

inductive Out where
  | continue_                  -- the loop goes on
  | established                -- … and the session has just become an established connection
  | ended (rejectSent : Bool)  -- the session is over (optionally after sending a reject message)
  | panic
  | fatal
  deriving DecidableEq, Repr

def lookup (l : List (Bytes × Int)) (k : Bytes) : Option Int := (l.find? fun e => e.1 == k).map (·.2)

def removeConn (sh : Shared) (id : Bytes) : Shared :=
  if id = [] then sh else { sh with connections := sh.connections.filter fun c => c != id }

/-- a routing update applied by an established session poisons the routing computation when
it carries a negative cost; with the guard, updates with a non-positive cost are dropped
before they are applied -/
def poisons (G : Guards) (ru : RU) : Bool :=
  !G.positiveCosts && (match ru.conns with
    | some l => l.any fun e => e.2 < 0
    | none => false)

def poison (sh : Shared) (b : Bool) : Shared := if b then { sh with poisoned := true } else sh

/-- the allow-list refuses `rid` -/
def notAllowed (B : Backend) (rid : Bytes) : Bool :=
  match B.allowed with
  | some l => !l.contains rid
  | none => false

def connected (sh : Shared) (rid : Bytes) : Bool := sh.connections.contains rid

/-- the handshake decision: the first routing update of a session announces the peer -/
def admitPeer (G : Guards) (B : Backend) (sh : Shared) (s : Sess) (ru : RU) : Shared × Sess × Out :=
  let rid := ru.fwd
  if rid = sh.self then (sh, { s with remoteID := rid }, .ended true)
  else if G.emptyPeerID && rid = [] then (sh, { s with remoteID := rid }, .ended true)
  else if notAllowed B rid then
    (sh, { s with remoteID := rid }, .ended true)
  else
    let cost := (lookup B.nodeCost rid).getD B.cost
    if connected sh rid then (sh, { s with remoteID := rid, cost := cost }, .ended true)
    else ({ sh with connections := sh.connections ++ [rid] },
          { s with remoteID := rid, cost := cost, established := true }, .established)

/-- the checks an established session applies to every routing update of its peer -/
def checkPeer (G : Guards) (sh : Shared) (s : Sess) (ru : RU) : Shared × Sess × Out :=
  if ru.fwd ≠ s.remoteID then (removeConn sh s.remoteID, s, .ended true)
  else if ru.nodeID = s.remoteID then
    match ru.conns.bind fun l => lookup l sh.self with
    | none =>
      if s.remoteEstablished then (removeConn sh s.remoteID, s, .ended true)
      else (sh, s, .continue_)
    | some c =>
      if c ≠ s.cost then (removeConn sh s.remoteID, { s with remoteEstablished := true }, .ended true)
      else (poison sh (poisons G ru), { s with remoteEstablished := true }, .continue_)
  else (poison sh (poisons G ru), s, .continue_)

/-- one received datagram -/
def step (G : Guards) (B : Backend) (sh : Shared) (s : Sess) (d : Dgram) : Shared × Sess × Out :=
  match d with
  | .empty => if G.emptyDatagram then (sh, s, .continue_) else (sh, s, .panic)
  | .data k =>
    if s.established then
      (match k with
       | .pingLoop => if G.pingFromPing then (sh, s, .continue_) else (sh, s, .fatal)
       | _ => (sh, s, .continue_))
    else (sh, s, .continue_)
  | .route body =>
    match decodeRU body with
    | none => (sh, s, .continue_)
    | some ru => if s.established then checkPeer G sh s ru else admitPeer G B sh s ru
  | .advert body wt =>
    if s.established then
      (match decodeAd body wt with
       | .err => (sh, s, .continue_)
       | .nilEmbedded => if G.adNilEmbedded then (sh, s, .continue_) else (sh, s, .panic)
       | .ok => (sh, s, .continue_))
    else (sh, s, .continue_)
  | .reject => (removeConn sh s.remoteID, s, .ended false)
  | .other => (sh, s, .continue_)

/-- the session's transport ends (EOF, error, idle time-out, shutdown): `runProtocol` returns
through `case <-ci.Context.Done()` and forgets the connection -/
def closeSession (sh : Shared) (s : Sess) : Shared := removeConn sh s.remoteID

/-- run a script of datagrams on one session until it ends or crashes -/
def runSess (G : Guards) (B : Backend) : Shared → Sess → List Dgram → Shared × Sess × List Out
  | sh, s, [] => (sh, s, [])
  | sh, s, d :: rest =>
    let (sh', s', o) := step G B sh s d
    match o with
    | .continue_ | .established =>
      let (sh'', s'', os) := runSess G B sh' s' rest
      (sh'', s'', o :: os)
    | _ => (sh', s', [o])

def isCrash : Out → Bool
  | .panic | .fatal => true
  | _ => false

end Receptor.Proto
