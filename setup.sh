#!/bin/sh
# Offline setup after a fresh restore: build the Lean project (models, proofs, property
# theorems, driver), the fact extractor, and warm the Go build cache for the harness packages.
set -e
cd "$(dirname "$0")"
export GOFLAGS=-mod=mod GOPROXY=off GOSUMDB=off GOTOOLCHAIN=local
mkdir -p build evidence replays
(cd extract && go build -o ../build/extract .)
./build/extract /repo lean/Receptor/Generated/Facts.lean build/facts.json
(cd lean && lake build driver Receptor 2>&1 | tail -5) || true
python3 tools/warm.py || true
