package netceptor

// C02 "link" engine: real nodes in a chain joined by perfect in-memory links; datagrams of boundary lengths (up to
// the advertised MTU) are sent from a socket on one node to a named service on another; every node has a listener
// of that service name. Observed: which listeners received each datagram, and whether the bytes are the bytes sent.

import (
	"context"
	"encoding/json"
	"fmt"
	"math/rand"
	"sync"
	"testing"
	"time"
)

type linkSend struct {
	To  int `json:"to"`
	Len int `json:"len"`
}

type linkArgs struct {
	IDs   []string   `json:"ids"` // node IDs (hex), joined in a chain in this order
	From  int        `json:"from"`
	Svc   string     `json:"svc"`
	Sends []linkSend `json:"sends"`
	Seed  int        `json:"seed"`
}

type linkGot struct {
	at   int
	data []byte
}

func linkByte(seed, i, j int) byte { return byte((seed + i*7 + j*13 + j/251) % 251) }

func linkApply(op string, raw json.RawMessage) interface{} {
	var a linkArgs
	if err := json.Unmarshal(raw, &a); err != nil {
		panic(err)
	}
	if op == "localburst" {
		return burstApply(raw)
	}
	if op != "send" {
		panic("verif: unknown op " + op)
	}
	ctx, cancel := context.WithCancel(context.Background())
	defer cancel()
	nodes := make([]*Netceptor, len(a.IDs))
	for i, id := range a.IDs {
		nodes[i] = NewWithConsts(ctx, string(verifUnhex(id)), defaultMTU, 100*time.Millisecond, time.Hour, time.Hour, 30, time.Hour)
		nodes[i].Logger.SetOutput(verifDiscard{})
	}
	defer func() {
		for _, n := range nodes {
			n.Shutdown()
		}
	}()
	for i := 0; i+1 < len(nodes); i++ {
		l := &lossyLink{reset: make(chan struct{}), rng: rand.New(rand.NewSource(1))}
		if err := lossyConnect(nodes[i], nodes[i+1], l, 1.0); err != nil {
			return map[string]interface{}{"error": err.Error()}
		}
	}
	for i, n := range nodes {
		for j := range nodes {
			if i != j && !streamWaitRoute(n, string(verifUnhex(a.IDs[j])), 10*time.Second) {
				return map[string]interface{}{"error": "no route after 10 s"}
			}
		}
	}
	got := make(chan linkGot, 64)
	for i, n := range nodes {
		pc, err := n.ListenPacket(a.Svc)
		if err != nil {
			return map[string]interface{}{"error": "listen: " + err.Error()}
		}
		go func(i int, pc PacketConner) {
			buf := make([]byte, 70000)
			for {
				k, _, err := pc.ReadFrom(buf)
				if err != nil {
					return
				}
				select {
				case got <- linkGot{i, append([]byte{}, buf[:k]...)}:
				case <-ctx.Done():
					return
				}
			}
		}(i, pc)
	}
	sender, err := nodes[a.From].ListenPacket("")
	if err != nil {
		return map[string]interface{}{"error": "listen: " + err.Error()}
	}
	outs := []interface{}{}
	for i, sd := range a.Sends {
		p := make([]byte, sd.Len)
		for j := range p {
			p[j] = linkByte(a.Seed, i, j)
		}
		werr := ""
		if _, err := sender.WriteTo(p, nodes[a.From].NewAddr(string(verifUnhex(a.IDs[sd.To])), a.Svc)); err != nil {
			werr = err.Error()
		}
		at := []int{}
		equal := true
		deadline := time.After(6 * time.Second)
		grace := (<-chan time.Time)(nil)
	collect:
		for {
			select {
			case g := <-got:
				at = append(at, g.at)
				if string(g.data) != string(p) {
					equal = false
				}
				if grace == nil {
					grace = time.After(60 * time.Millisecond) // anything delivered a second time, or somewhere else, shows up at once
				}
			case <-grace:
				break collect
			case <-deadline:
				break collect
			}
		}
		outs = append(outs, map[string]interface{}{"at": at, "equal": equal, "werr": werr})
	}
	return map[string]interface{}{"sends": outs}
}

func linkGen(v *verifRun) {
	hx := func(s string) string { return verifHex([]byte(s)) }
	pools := [][]string{{"n0", "n1", "n2", "n3"}, {"hub", "HUB", "Hub"}, {"node-a", "Node-A", "x"}, {"a", "A", "b", "B"}, {"k1", "k2"}}
	lens := []int{0, 1, 100, defaultMTU / 2, defaultMTU - 37, defaultMTU - 36, defaultMTU - 35, defaultMTU - 1, defaultMTU}
	for i := 0; i < v.n; i++ {
		pool := pools[v.rng.Intn(len(pools))]
		k := 2 + v.rng.Intn(len(pool)-1)
		perm := v.rng.Perm(len(pool))[:k]
		a := linkArgs{From: v.rng.Intn(k), Svc: []string{"svc", "a", "eightchr"}[v.rng.Intn(3)], Seed: v.rng.Intn(1000), Sends: []linkSend{}}
		for _, pi := range perm {
			a.IDs = append(a.IDs, hx(pool[pi]))
		}
		for s := 3 + v.rng.Intn(4); s > 0; s-- {
			a.Sends = append(a.Sends, linkSend{To: v.rng.Intn(k), Len: lens[v.rng.Intn(len(lens))]})
		}
		// always one datagram of exactly the MTU across at least one link
		to := (a.From + 1) % k
		a.Sends = append(a.Sends, linkSend{To: to, Len: defaultMTU})
		v.do(linkApply, "send", a)
	}
	for _, size := range []int{1200, 64, 9000} {
		v.do(linkApply, "localburst", burstArgs{N: 150000, Size: size})
	}
}

func TestVerifLink(t *testing.T) {
	v := verifOpen(t, "link")
	v.run(linkApply, linkGen)
}

var _ = fmt.Sprintf

// ---------------------------------------------------------------- C10 "ping" engine
//
// Many pings at once whose budget runs out at the sending node itself (budget 0): the "message expired" notice is
// produced inside the send, so it reaches the pinging socket at the earliest possible moment. Every ping must report
// the expiry, with this node as the reporter; a notice that arrives before the ping listens for it would be lost.

type pingArgs struct {
	Workers int `json:"workers"`
	Each    int `json:"each"`
}

func pingApply(op string, raw json.RawMessage) interface{} {
	var a pingArgs
	if err := json.Unmarshal(raw, &a); err != nil {
		panic(err)
	}
	if op != "burst" {
		panic("verif: unknown op " + op)
	}
	s, cancel := verifQuietNode("me", 30)
	defer cancel()
	ch := make(chan []byte, 65536)
	cctx, cf := context.WithCancel(s.context)
	s.connLock.Lock()
	s.connections["nb"] = &connInfo{ReadChan: make(chan []byte), WriteChan: ch, Context: cctx, CancelFunc: cf, Cost: 1,
		lastReceivedData: time.Now(), lastReceivedLock: &sync.RWMutex{}, logger: s.Logger}
	s.connLock.Unlock()
	s.routingTableLock.Lock()
	s.routingTable["far"] = "nb"
	s.routingTableLock.Unlock()
	var mu sync.Mutex
	expired, other := 0, map[string]int{}
	var wg sync.WaitGroup
	for w := 0; w < a.Workers; w++ {
		wg.Add(1)
		go func() {
			defer wg.Done()
			for i := 0; i < a.Each; i++ {
				ctx, c := context.WithTimeout(context.Background(), 8*time.Second)
				_, from, err := s.Ping(ctx, "far", 0)
				c()
				mu.Lock()
				if err != nil && err.Error() == ProblemExpiredInTransit && from == "me" {
					expired++
				} else {
					other[fmt.Sprintf("%v from %q", err, from)]++
				}
				mu.Unlock()
			}
		}()
	}
	if !verifTimed(120*time.Second, func() { wg.Wait() }) {
		// pings are stuck: notice delivery on this node is wedged
		return map[string]interface{}{"wedged": true}
	}
	return map[string]interface{}{"pings": a.Workers * a.Each, "expired_reported_by_me": expired, "other": other}
}

func pingGen(v *verifRun) {
	for i := 0; i < v.n; i++ {
		v.do(pingApply, "burst", pingArgs{Workers: []int{16, 32, 8}[i%3], Each: 25})
	}
}

func TestVerifPing(t *testing.T) {
	v := verifOpen(t, "ping")
	v.run(pingApply, pingGen)
}

// ---- localburst: a sender that reuses its buffer as soon as WriteTo has returned (as net.PacketConn allows, and as
// quic-go does), to a listener on the same node: every datagram must arrive as it was when it was sent

type burstArgs struct {
	N    int `json:"n"`
	Size int `json:"size"`
}

func burstApply(raw json.RawMessage) interface{} {
	var a burstArgs
	if err := json.Unmarshal(raw, &a); err != nil {
		panic(err)
	}
	s, cancel := verifQuietNode("me", 30)
	defer cancel()
	rx, err := s.ListenPacket("rx")
	if err != nil {
		return map[string]interface{}{"error": err.Error()}
	}
	tx, err := s.ListenPacket("")
	if err != nil {
		return map[string]interface{}{"error": err.Error()}
	}
	type res struct{ got, mixed int }
	done := make(chan res, 1)
	go func() {
		buf := make([]byte, a.Size+16)
		r := res{}
		for r.got < a.N {
			k, _, err := rx.ReadFrom(buf)
			if err != nil {
				break
			}
			r.got++
			for j := 1; j < k; j++ {
				if buf[j] != buf[0] {
					r.mixed++
					break
				}
			}
		}
		done <- r
	}()
	p := make([]byte, a.Size)
	addr := s.NewAddr("me", "rx")
	werr := ""
	for i := 0; i < a.N && werr == ""; i++ {
		b := byte(i)
		for j := range p {
			p[j] = b
		}
		if _, err := tx.WriteTo(p, addr); err != nil {
			werr = err.Error()
		}
	}
	select {
	case r := <-done:
		return map[string]interface{}{"received": r.got, "mixed": r.mixed, "werr": werr}
	case <-time.After(60 * time.Second):
		_ = rx.Close()
		r := <-done
		return map[string]interface{}{"received": r.got, "mixed": r.mixed, "werr": werr, "timeout": true}
	}
}
