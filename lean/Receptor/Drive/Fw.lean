import Receptor.Drive.Util
import Receptor.Model.Firewall
import Receptor.Generated.Facts
namespace Receptor.Drive.Fw
open Lean Receptor.Drive Receptor.Firewall

partial def getRe (j : Json) : Except String Re := do
  match ← getStr j "t" with
  | "eps" => pure .eps
  | "chr" => pure (.chr (← getNat j "c"))
  | "cls" =>
    let rs ← (← getArr j "rs").mapM fun r => do
      match ← r.getArr? with
      | #[a, b] => pure ((← a.getNat?), (← b.getNat?))
      | _ => throw "bad range"
    pure (.cls (← getBool j "neg") rs)
  | "cat" => pure (.cat (← getRe (← j.getObjVal? "a")) (← getRe (← j.getObjVal? "b")))
  | "alt" => pure (.alt (← getRe (← j.getObjVal? "a")) (← getRe (← j.getObjVal? "b")))
  | "star" => pure (.star (← getRe (← j.getObjVal? "a")))
  -- `a?` is not a top-level alternation of the source text: keep it under a concatenation
  | "opt" => pure (.cat (.alt (← getRe (← j.getObjVal? "a")) .eps) .eps)
  | t => throw s!"bad regex node {t}"

/-- facts: are pattern errors propagated (and is the one-character "/" refused rather than sliced)? -/
def strictFact : Bool := Receptor.Facts.fw_errors_propagated && Receptor.Facts.fw_regex_minlen
def wrapFact : Option Wrap :=
  if Receptor.Facts.fw_regex_wrap = "^(?:%s)$" then some .grouped
  else if Receptor.Facts.fw_regex_wrap = "^%s$" then some .ungrouped else none

def getAst (j : Json) : Except String (Option Re) :=
  match optField j "ast" with
  | some Json.null => pure none
  | some a => do pure (some (← getRe a))
  | none => pure none

def getKV (j : Json) : Except String KV := do
  let k ← getHex j "k"
  let v ← j.getObjVal? "v"
  let val ← match optField v "s" with
    | some (Json.str s) => match fromHex s with
      | some b => pure (Val.str b)
      | none => throw "bad hex"
    | _ => pure Val.other
  pure { key := k, val := val, compiled := ← getAst j }

def outJson : Option (List Rule) → Nat → Json
  | some _, n => jObj [("ok", jNat n)]
  | none, _ => jObj [("err", Json.bool true)]

def anyPanic (strict : Bool) (rules : List (List KV)) : Bool :=
  -- the first failing rule decides: a panic only shows if no earlier rule errors out
  let rec go : List (List KV) → Bool
    | [] => false
    | kvs :: rest => match parseRule strict kvs with
      | .ok _ => go rest
      | .panic => true
      | .err _ => false
  go rules

def handle (op : String) (a r : Json) : Except String Reply := do
  match op with
  | "parse" =>
    let rulesJ ← getArr a "rules"
    let rules ← rulesJ.mapM fun rj => do (← rj.getArr?).toList.mapM getKV
    let m := if anyPanic strictFact rules then jObj [("panic", Json.bool true)]
             else outJson (parseRules strictFact rules) rules.length
    -- property predicate (spec): anything uninterpretable is refused, everything else accepted
    let spec := outJson (parseRules true rules) rules.length
    let holds := r == spec
    let slash := rules.any fun kvs => kvs.any fun kv => kv.val == Val.str [47]
    let sig := if holds then "" else
      if (optField r "panic").isSome then (if slash then "C12/parse/pattern-slash-panics" else "C12/parse/panic")
      else if (optField r "ok").isSome then "C12/parse/malformed-rule-accepted"
      else "C12/parse/valid-rule-refused"
    pure { m := m, prop := some holds,
           why := if holds then "" else "rule set not handled as specified (malformed ⇒ refused, well-formed ⇒ accepted)",
           sig := sig }
  | "twonodes" =>
    -- the model: each node evaluates base ++ [its own rule]
    let b (x : String) : Bytes := x.toUTF8.toList.map (·.toNat)
    let base : List Rule := [0, 1, 2].map fun i => { action := .accept, toNode := some (.lit (b s!"zz{i}")) }
    let r1 : Rule := { action := .drop, toSvc := some (.lit (b "s1")) }
    let r2 : Rule := { action := .reject, toSvc := some (.lit (b "s2")) }
    let addr (svc : String) : Addr := { fromNode := b "a", fromSvc := b "x", toNode := b "b", toSvc := b svc }
    let vs (rules : List Rule) (svc : String) : Json := Json.str (match evalRules .grouped rules (addr svc) with
      | .accept => "accept" | .reject => "reject" | .drop => "drop")
    let m := jObj [("n1", jArr [vs (base ++ [r1]) "s1", vs (base ++ [r1]) "s2"]), ("n2", jArr [vs (base ++ [r2]) "s1", vs (base ++ [r2]) "s2"])]
    let holds := r == m
    pure { m := m, prop := some holds,
           why := if holds then "" else "two nodes of one process given the same parsed rule list, then one rule of their own each: a node does not decide by its own ordered list",
           sig := if holds then "" else "C12/twonodes/rule-lists-share-memory" }
  | _ => throw s!"bad-op fw {op}"

end Receptor.Drive.Fw
