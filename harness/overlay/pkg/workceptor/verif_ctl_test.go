package workceptor

// C08 harness: the real controlsvc.Server (built-in commands) with the real Workceptor's "work"
// command registered, sessions over a Unix socket through the real SetupConnection /
// RunControlSession.  A case is one whole client byte stream (or several concurrent ones); the
// observation is the classified reply lines, whether the server ended the session, and whether a
// fresh session still gets answers afterwards.  Every case runs in a child process: a panic in a
// session goroutine kills the process it runs in.

import (
	"bufio"
	"bytes"
	"crypto/tls"
	"encoding/json"
	"fmt"
	"net"
	"os"
	"path"
	"sort"
	"strings"
	"sync"
	"testing"
	"time"

	"github.com/ansible/receptor/pkg/controlsvc"
	"github.com/ansible/receptor/pkg/netceptor"
)

func (n *verifNC) ListenAndAdvertise(string, *tls.Config, map[string]string) (*netceptor.Listener, error) {
	return nil, fmt.Errorf("not in this harness")
}

type ctlArgs struct {
	Mem      []string          `json:"mem"`      // units registered in memory (stub type "verifwork"), finished
	Disk     []string          `json:"disk"`     // unit directories on disk only (status file of type "verifwork")
	DiskUnk  []string          `json:"disk_unk"` // … of a work type nobody registered
	Inputs   []string          `json:"inputs"`   // hex: the byte stream of each (concurrent) session
	Jsons    map[string]ctlJ   `json:"jsons"`    // hex of a request line starting with '{' -> what encoding/json makes of it
	Reload   bool              `json:"reload"`   // reload is configured (InitReload) and succeeds
	ChunkLen int               `json:"chunk"`    // write the stream in chunks of this many bytes (0: at once)
}

// ctlJ: a decoded JSON value in a form the Lean driver reads back without a JSON parser of its own
type ctlJ struct {
	T string      `json:"t"`
	V interface{} `json:"v,omitempty"`
}

func ctlEncodeJ(v interface{}) ctlJ {
	switch x := v.(type) {
	case nil:
		return ctlJ{T: "null"}
	case bool:
		return ctlJ{T: "bool", V: x}
	case float64:
		return ctlJ{T: "num", V: x == float64(int64(x))}
	case string:
		return ctlJ{T: "str", V: verifHex([]byte(x))}
	case []interface{}:
		l := make([]ctlJ, 0, len(x))
		for _, e := range x {
			l = append(l, ctlEncodeJ(e))
		}
		return ctlJ{T: "arr", V: l}
	case map[string]interface{}:
		keys := make([]string, 0, len(x))
		for k := range x {
			keys = append(keys, k)
		}
		sort.Strings(keys)
		l := make([][2]interface{}, 0, len(x))
		for _, k := range keys {
			l = append(l, [2]interface{}{verifHex([]byte(k)), ctlEncodeJ(x[k])})
		}
		return ctlJ{T: "obj", V: l}
	}
	return ctlJ{T: "null"}
}

// ctlDecodings: for every candidate request line of the stream that starts with '{', what
// json.Unmarshal into a map makes of it ("err" when it fails)
func ctlDecodings(stream []byte, into map[string]ctlJ) {
	clean := bytes.ReplaceAll(stream, []byte{'\r'}, nil)
	for _, line := range bytes.Split(clean, []byte{'\n'}) {
		if len(line) == 0 || line[0] != '{' {
			continue
		}
		var m map[string]interface{}
		if err := json.Unmarshal(line, &m); err != nil {
			into[verifHex(line)] = ctlJ{T: "err"}
		} else {
			into[verifHex(line)] = ctlEncodeJ(m)
		}
	}
}

type ctlWorld struct {
	vw   *verifWorld
	cs   *controlsvc.Server
	sock string
	li   net.Listener
}

func ctlNewWorld(dir string, a *ctlArgs) *ctlWorld {
	vw := verifNewWorld(path.Join(dir, "data"))
	if err := vw.w.RegisterWorker("verifwork", verifNewUnit, false); err != nil {
		panic(err)
	}
	cs := controlsvc.New(true, vw.nc)
	if err := vw.w.RegisterWithControlService(cs); err != nil {
		panic(err)
	}
	if a.Reload {
		cfg := path.Join(dir, "receptor.conf")
		_ = os.WriteFile(cfg, []byte("---\n- node:\n    id: verif-node\n- log-level: debug\n- control-service:\n    service: control\n- work-command:\n    worktype: a\n    command: b\n- work-command:\n    worktype: c\n    command: d\n- local-only:\n"), 0o600)
		if err := controlsvc.InitReload(cfg, func([]string) error { return nil }); err != nil {
			panic(err)
		}
	}
	for _, id := range a.Mem {
		u := verifNewUnit(nil, vw.w, id, "verifwork")
		if err := os.MkdirAll(u.UnitDir(), 0o700); err != nil {
			panic(err)
		}
		u.UpdateBasicStatus(WorkStateSucceeded, "done", 0)
		_ = os.WriteFile(path.Join(u.UnitDir(), "stdout"), []byte{}, 0o600)
		vw.w.activeUnitsLock.Lock()
		vw.w.activeUnits[id] = u
		vw.w.activeUnitsLock.Unlock()
	}
	mk := func(id, wt string) {
		d := path.Join(vw.w.dataDir, id)
		if err := os.MkdirAll(d, 0o700); err != nil {
			panic(err)
		}
		s := &StatusFileData{State: WorkStateSucceeded, Detail: "done", StdoutSize: 0, WorkType: wt}
		if err := s.Save(path.Join(d, "status")); err != nil {
			panic(err)
		}
		_ = os.WriteFile(path.Join(d, "stdout"), []byte{}, 0o600)
	}
	for _, id := range a.Disk {
		mk(id, "verifwork")
	}
	for _, id := range a.DiskUnk {
		mk(id, "nobody-registered-this")
	}
	sock := path.Join(dir, "ctl.sock")
	li, err := net.Listen("unix", sock)
	if err != nil {
		panic(err)
	}
	go func() {
		for {
			c, err := li.Accept()
			if err != nil {
				return
			}
			go cs.SetupConnection(c)
		}
	}()
	return &ctlWorld{vw: vw, cs: cs, sock: sock, li: li}
}

// ctlClassify turns what the server sent into reply classes
func ctlClassify(out []byte, nodeID string) []interface{} {
	res := []interface{}{}
	greeting := "Receptor Control, node " + nodeID
	first := true
	for _, line := range strings.Split(string(out), "\n") {
		if first {
			first = false
			if line == greeting {
				continue
			}
			res = append(res, "no-greeting")
		}
		if line == "" {
			continue
		}
		switch {
		case strings.HasPrefix(line, "ERROR: "):
			res = append(res, map[string]interface{}{"err": verifHex([]byte(line[7:]))})
		case strings.HasPrefix(line, "{") && json.Valid([]byte(line)):
			res = append(res, "json")
		default:
			res = append(res, "text")
		}
	}
	return res
}

type ctlSessionObs struct {
	out    []byte
	closed bool // the server ended the session
}

func ctlSession(sock string, input []byte, chunk int, wait time.Duration) ctlSessionObs {
	var o ctlSessionObs
	c, err := net.Dial("unix", sock)
	if err != nil {
		return o
	}
	defer c.Close()
	done := make(chan struct{})
	var buf bytes.Buffer
	go func() {
		defer close(done)
		b := make([]byte, 65536)
		for {
			n, err := c.Read(b)
			buf.Write(b[:n])
			if err != nil {
				return
			}
		}
	}()
	if chunk <= 0 {
		chunk = len(input) + 1
	}
	for off := 0; off < len(input); off += chunk {
		end := off + chunk
		if end > len(input) {
			end = len(input)
		}
		if _, err := c.Write(input[off:end]); err != nil {
			break
		}
	}
	_ = c.(*net.UnixConn).CloseWrite()
	select {
	case <-done:
		o.closed = true
	case <-time.After(wait):
		_ = c.Close()
		<-done
	}
	o.out = buf.Bytes()
	return o
}

// ctlProbe: a fresh session must still be served
func ctlProbe(sock string, nodeID string) string {
	o := ctlSession(sock, []byte("{\"command\":\"work\",\"subcommand\":\"list\"}\nstatus\n{\"command\":\"work\",\"subcommand\":\"status\",\"unitid\":\"no-such-unit\"}\n"), 0, 4*time.Second)
	cl := ctlClassify(o.out, nodeID)
	if o.closed && len(cl) == 3 && cl[0] == "json" && cl[1] == "json" {
		if _, isErr := cl[2].(map[string]interface{}); isErr {
			return "ok"
		}
	}
	if !o.closed {
		return "dead"
	}
	return fmt.Sprintf("wrong:%v", cl)
}

func ctlApply(op string, raw json.RawMessage) interface{} {
	var a ctlArgs
	if err := json.Unmarshal(raw, &a); err != nil {
		panic(err)
	}
	dir, err := os.MkdirTemp("", "verif-ctl-*")
	if err != nil {
		panic(err)
	}
	defer os.RemoveAll(dir)
	w := ctlNewWorld(dir, &a)
	defer w.li.Close()
	defer w.vw.close()
	before := map[string]bool{}
	for _, id := range w.vw.w.ListKnownUnitIDs() {
		before[id] = true
	}
	obs := make([]ctlSessionObs, len(a.Inputs))
	var wg sync.WaitGroup
	for i, hx := range a.Inputs {
		wg.Add(1)
		go func(i int, in []byte) {
			defer wg.Done()
			obs[i] = ctlSession(w.sock, in, a.ChunkLen, 6*time.Second)
		}(i, verifUnhex(hx))
	}
	wg.Wait()
	res := map[string]interface{}{}
	sessions := []interface{}{}
	stuck := false
	for _, o := range obs {
		sessions = append(sessions, ctlClassify(o.out, w.vw.nc.id))
		if !o.closed {
			stuck = true
		}
	}
	res["sessions"] = sessions
	res["stuck"] = stuck
	res["probe"] = ctlProbe(w.sock, w.vw.nc.id)
	if res["probe"] == "ok" {
		created := 0
		mem := []string{}
		for _, id := range w.vw.w.ListKnownUnitIDs() {
			if before[id] || ctlContains(a.Disk, id) || ctlContains(a.DiskUnk, id) {
				mem = append(mem, verifHex([]byte(id)))
			} else {
				created++
			}
		}
		res["mem_set"] = mem
		res["created"] = created
	}
	res["nontrivial"] = true
	return res
}

func ctlContains(l []string, s string) bool {
	for _, e := range l {
		if e == s {
			return true
		}
	}
	return false
}

// ---- generator

type ctlGenState struct {
	v    *verifRun
	mem  []string
	disk []string
	unk  []string
}

func (g *ctlGenState) unitID() string {
	r := g.v.rng
	switch r.Intn(12) {
	case 0, 1, 2:
		if len(g.mem) > 0 {
			return g.mem[r.Intn(len(g.mem))]
		}
	case 3, 4:
		if len(g.disk) > 0 {
			return g.disk[r.Intn(len(g.disk))]
		}
	case 5:
		if len(g.unk) > 0 {
			return g.unk[r.Intn(len(g.unk))]
		}
	case 6:
		ids := []string{"..", ".", "../..", "a/b", "/", "/etc", "../data", "x/../..", "nosuch/", "./nosuch",
			strings.Repeat("L", 300), "nul\x00byte", "x/" + strings.Repeat("y", 260)}
		if len(g.mem) > 0 {
			// a path through a plain file of an existing unit (the stat fails with "not a directory")
			ids = append(ids, g.mem[0]+"/status/z", g.mem[0]+"/stdout/..")
		}
		return ids[r.Intn(len(ids))]
	case 7:
		if len(g.disk) > 0 {
			d := g.disk[r.Intn(len(g.disk))]
			return []string{"./" + d, d + "/", "x/../" + d, d + "/."}[r.Intn(4)]
		}
	case 8:
		if len(g.mem) > 0 {
			m := g.mem[r.Intn(len(g.mem))]
			return []string{"./" + m, m + "/", strings.ToUpper(m)}[r.Intn(3)]
		}
	}
	return fmt.Sprintf("nosuch%d", r.Intn(1000))
}

func (g *ctlGenState) jsonValue(depth int) interface{} {
	r := g.v.rng
	switch r.Intn(9) {
	case 0:
		return nil
	case 1:
		return r.Intn(2) == 0
	case 2:
		return float64(r.Intn(100))
	case 3:
		return 1.5
	case 4:
		return ""
	case 5:
		return g.unitID()
	case 6:
		if depth > 1 {
			return []interface{}{}
		}
		n := r.Intn(3)
		l := make([]interface{}, 0, n)
		for i := 0; i < n; i++ {
			l = append(l, g.jsonValue(depth+1))
		}
		return l
	case 7:
		if depth > 1 {
			return map[string]interface{}{}
		}
		return map[string]interface{}{"k": g.jsonValue(depth + 1)}
	}
	return []string{"true", "false", "0", "12", "-3", "verifwork", "remote", "localhost", "verif-node", "NodeID", "Version"}[r.Intn(11)]
}

// jsonLine: a JSON request for one of the commands with every field present/absent and of any type
func (g *ctlGenState) jsonLine() string {
	r := g.v.rng
	m := map[string]interface{}{}
	cmds := []string{"ping", "status", "connect", "traceroute", "reload", "work", "work", "work", "Work", "nosuch", ""}
	switch r.Intn(12) {
	case 0:
		m["command"] = g.jsonValue(0)
	case 1: // no command at all
	default:
		m["command"] = cmds[r.Intn(len(cmds))]
	}
	fields := []string{"target", "requested_fields", "node", "service", "tls", "subcommand", "unitid", "startpos", "signature", "worktype", "params", "ttl", "signwork", "tlsclient"}
	subs := []string{"submit", "list", "status", "cancel", "release", "force-release", "results", "RESULTS", "Status", "bogus", ""}
	if r.Intn(8) != 0 {
		m["subcommand"] = subs[r.Intn(len(subs))]
	}
	for n := r.Intn(5); n > 0; n-- {
		f := fields[r.Intn(len(fields))]
		switch {
		case f == "unitid" && r.Intn(3) != 0:
			m[f] = g.unitID()
		case f == "startpos" && r.Intn(2) == 0:
			m[f] = []interface{}{float64(0), float64(3), "0", "x", float64(-1), 1e30}[r.Intn(6)]
		case f == "requested_fields" && r.Intn(2) == 0:
			m[f] = []interface{}{"NodeID", "Version"}
		case f == "worktype" && r.Intn(2) == 0:
			m[f] = "verifwork"
		case f == "node" && r.Intn(2) == 0:
			m[f] = "localhost"
		default:
			m[f] = g.jsonValue(0)
		}
	}
	bs, _ := json.Marshal(m)
	return string(bs)
}

func (g *ctlGenState) plainLine() string {
	r := g.v.rng
	id := g.unitID()
	if strings.ContainsAny(id, " \n\x00") {
		id = "x"
	}
	switch r.Intn(30) {
	case 0:
		return "ping"
	case 1:
		return "ping somenode"
	case 2:
		return "status"
	case 3:
		return "status extra"
	case 4:
		return "STATUS"
	case 5:
		return "connect"
	case 6:
		return "connect a b c d"
	case 7:
		return "connect verif-node nosuchservice"
	case 8:
		return "traceroute"
	case 9:
		return "traceroute somenode"
	case 10:
		return "reload"
	case 11:
		return "work"
	case 12:
		return "work list"
	case 13:
		return "work list " + id
	case 14, 15:
		return "work status " + id
	case 16:
		return "work cancel " + id
	case 17:
		return "work release " + id
	case 18:
		return "work force-release " + id
	case 19:
		return "work results " + id + []string{"", " 0", " 3", " x", " 99999999999999999999", " 1 2"}[r.Intn(6)]
	case 20:
		return "work status"
	case 21:
		return "work status " + id + " extra"
	case 22:
		return "work submit"
	case 23:
		return "work submit localhost nosuchtype"
	case 24:
		return "work bogus " + id
	case 25:
		return "Work StAtUs " + id
	case 26:
		return " status"
	case 27:
		return "work  status " + id
	case 28:
		return "nosuchcommand a b"
	}
	return "work release"
}

func (g *ctlGenState) garbageLine() []byte {
	r := g.v.rng
	switch r.Intn(8) {
	case 0:
		return []byte{0}
	case 1:
		return []byte(" ")
	case 2:
		return []byte("{")
	case 3:
		return []byte("{\"command\":\"status\"")
	case 4:
		return []byte("{}")
	case 5:
		return []byte("{\"command\":\"status\"} trailing")
	case 6:
		n := []int{1, 7, 200, 5000, 70000}[r.Intn(5)]
		b := make([]byte, n)
		for i := range b {
			c := byte(r.Intn(256))
			if c == '\n' || c == '\r' {
				c = 'x'
			}
			if c >= 128 && i < 8 {
				c = 'y' // the command token stays ASCII (Unicode case folding is outside the model)
			}
			b[i] = c
		}
		return b
	}
	return []byte("\t\x7f{[")
}

func (g *ctlGenState) stream(allowState bool) []byte {
	r := g.v.rng
	var buf bytes.Buffer
	n := 1 + r.Intn(6)
	for i := 0; i < n; i++ {
		var line []byte
		switch r.Intn(10) {
		case 0, 1:
			line = g.garbageLine()
		case 2, 3, 4, 5:
			line = []byte(g.jsonLine())
		default:
			line = []byte(g.plainLine())
		}
		if !allowState && (bytes.Contains(bytes.ToLower(line), []byte("release")) || bytes.Contains(bytes.ToLower(line), []byte("submit")) ||
			bytes.Contains(bytes.ToLower(line), []byte("results"))) {
			line = []byte("work list")
		}
		buf.Write(line)
		if i == n-1 && r.Intn(4) == 0 {
			break // unterminated last line
		}
		buf.WriteString([]string{"\n", "\n", "\r\n", "\n\n", "\r\r\n"}[r.Intn(5)])
	}
	return buf.Bytes()
}

func ctlGen(v *verifRun) {
	for i := 0; i < v.n; i++ {
		g := &ctlGenState{v: v}
		a := ctlArgs{Jsons: map[string]ctlJ{}, Mem: []string{}, Disk: []string{}, DiskUnk: []string{}}
		for k := v.rng.Intn(3); k > 0; k-- {
			g.mem = append(g.mem, fmt.Sprintf("mem%d", k))
		}
		for k := v.rng.Intn(3); k > 0; k-- {
			g.disk = append(g.disk, fmt.Sprintf("disk%d", k))
		}
		if v.rng.Intn(3) == 0 {
			g.unk = append(g.unk, "unk1")
		}
		a.Mem, a.Disk, a.DiskUnk = append(a.Mem, g.mem...), append(a.Disk, g.disk...), append(a.DiskUnk, g.unk...)
		a.Reload = v.rng.Intn(4) == 0
		a.ChunkLen = []int{0, 0, 1, 3, 17}[v.rng.Intn(5)]
		switch k := v.rng.Intn(10); {
		case k < 6: // one session
			a.Inputs = []string{verifHex(g.stream(true))}
		case k < 8: // several concurrent sessions that do not change the unit index
			// none of them may touch a disk-only unit either (registering it changes what the others see)
			g.disk, g.unk = nil, nil
			for s := 2 + v.rng.Intn(4); s > 0; s-- {
				a.Inputs = append(a.Inputs, verifHex(g.stream(false)))
			}
		case k == 8: // several sessions reload at the same time
			a.Reload = true
			for s := 3 + v.rng.Intn(5); s > 0; s-- {
				a.Inputs = append(a.Inputs, verifHex([]byte(strings.Repeat("reload\n", 10+v.rng.Intn(30)))))
			}
		default: // concurrent sessions: each releases its own units, the others list / reload / send garbage
			a.Mem = a.Mem[:0]
			nS := 2 + v.rng.Intn(4)
			for s := 0; s < nS; s++ {
				var buf bytes.Buffer
				if s%2 == 0 {
					for k := 0; k < 3; k++ {
						id := fmt.Sprintf("own%d-%d", s, k)
						a.Mem = append(a.Mem, id)
						buf.WriteString([]string{"work release ", "work force-release ", "work cancel "}[v.rng.Intn(3)] + id + "\n")
						buf.WriteString("work list\n")
					}
				} else {
					for k := 0; k < 6; k++ {
						buf.WriteString([]string{"work list", "reload", "{\"command\":\"work\",\"subcommand\":\"list\"}", "status", "{", "work status nosuch"}[v.rng.Intn(6)] + "\n")
					}
				}
				a.Inputs = append(a.Inputs, verifHex(buf.Bytes()))
			}
			a.Disk, a.DiskUnk = []string{}, []string{}
		}
		for _, hx := range a.Inputs {
			ctlDecodings(verifUnhex(hx), a.Jsons)
		}
		v.do(ctlApply, "sessions", a)
	}
}

func TestVerifCtl(t *testing.T) {
	v := verifOpen(t, "ctl")
	v.runIsolated("TestVerifCtl", ctlApply, ctlGen, 40*time.Second)
}

var _ = bufio.NewReader
