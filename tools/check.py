#!/usr/bin/env python3
"""Runner: ./check <ID> [--tier quick|thorough] [--replay FILE]

One run = (1) regenerate facts from /repo, (2) build the Lean property file and audit its
axioms (proof step), (3) run the Go harness against /repo's working tree and the Lean
driver on the same cases (correspondence step), (4) evaluate the property predicate on the
implementation's observations (oracle step), (5) verdict + evidence.
"""
import hashlib
import json
import os
import re
import subprocess
import sys
import time
from concurrent.futures import ThreadPoolExecutor

VERIF = os.path.dirname(os.path.dirname(os.path.abspath(__file__)))
REPO = os.environ.get("VERIF_REPO", "/repo")
LEAN = os.path.join(VERIF, "lean")
BUILD = os.path.join(VERIF, "build")
sys.path.insert(0, os.path.join(VERIF, "tools"))
from props import PROPS  # noqa: E402

ALLOWED_AXIOMS = {"propext", "Classical.choice", "Quot.sound"}
FORBIDDEN = re.compile(r"sorry|\badmit\b|^axiom |native_decide|bv_decide|implemented_by|unsafe |maxHeartbeats 0", re.M)

GOENV = dict(os.environ, GOFLAGS="-mod=mod", GOPROXY="off", GOSUMDB="off", GOTOOLCHAIN="local",
             CGO_ENABLED=os.environ.get("CGO_ENABLED", "0"))


def sh(cmd, cwd=None, env=None, timeout=None, inp=None):
    p = subprocess.run(cmd, cwd=cwd, env=env, timeout=timeout, input=inp,
                       stdout=subprocess.PIPE, stderr=subprocess.STDOUT, text=True)
    return p.returncode, p.stdout


def log(*a):
    print(*a, file=sys.stderr, flush=True)


# ----------------------------------------------------------------------------- build steps

def build_extract():
    exe = os.path.join(BUILD, "extract")
    src = os.path.join(VERIF, "extract")
    newest = max(os.path.getmtime(os.path.join(src, f)) for f in os.listdir(src))
    if not os.path.exists(exe) or os.path.getmtime(exe) < newest:
        rc, out = sh(["go", "build", "-o", exe, "."], cwd=src, env=GOENV)
        if rc != 0:
            raise SystemExit("extract build failed:\n" + out)
    rc, out = sh([exe, REPO, os.path.join(LEAN, "Receptor/Generated/Facts.lean"),
                  os.path.join(BUILD, "facts.json")])
    if rc != 0:
        raise SystemExit("extract failed:\n" + out)
    return json.load(open(os.path.join(BUILD, "facts.json")))


def lake_build(target):
    rc, out = sh(["lake", "build", target], cwd=LEAN, timeout=3600)
    return rc, out


def strip_comments(src):
    # remove /- … -/ (nested) and -- … comments
    out, i, depth = [], 0, 0
    while i < len(src):
        if src.startswith("/-", i):
            depth += 1
            i += 2
        elif depth and src.startswith("-/", i):
            depth -= 1
            i += 2
        elif depth:
            i += 1
        elif src.startswith("--", i):
            j = src.find("\n", i)
            i = len(src) if j < 0 else j
        else:
            out.append(src[i])
            i += 1
    return "".join(out)


def lean_closure(module):
    """Receptor.* modules transitively imported by `module` (source files)."""
    seen, todo = [], [module]
    while todo:
        m = todo.pop()
        if m in seen or not m.startswith("Receptor"):
            continue
        path = os.path.join(LEAN, m.replace(".", "/") + ".lean")
        if not os.path.exists(path):
            continue
        seen.append(m)
        for line in open(path):
            mm = re.match(r"\s*import\s+(\S+)", line)
            if mm:
                todo.append(mm.group(1))
    return seen


def theorems_of(module):
    path = os.path.join(LEAN, module.replace(".", "/") + ".lean")
    src = strip_comments(open(path).read())
    names, examples, stack = [], 0, []
    for line in src.split("\n"):
        m = re.match(r"\s*namespace\s+(\S+)", line)
        if m:
            stack.append(m.group(1)); continue
        m = re.match(r"\s*end\s+(\S+)", line)
        if m and stack and stack[-1] == m.group(1):
            stack.pop(); continue
        m = re.match(r"\s*theorem\s+([A-Za-z0-9_.'?!]+)", line)
        if m:
            names.append(".".join(stack + [m.group(1)])); continue
        if re.match(r"\s*example\b", line):
            examples += 1
    return names, examples


def proof_step(pid, cfg):
    """returns dict(ok, obligations, discharged, failing=[names], axioms={thm:[..]}, log)"""
    module = cfg["lean_props"]
    thms, examples = theorems_of(module)
    res = dict(ok=True, obligations=len(thms) + examples, discharged=0, failing=[], axioms={}, log="",
               theorems=thms, examples=examples)
    # forbidden tokens
    bad = []
    for m in lean_closure(module):
        src = strip_comments(open(os.path.join(LEAN, m.replace(".", "/") + ".lean")).read())
        for mm in FORBIDDEN.finditer(src):
            bad.append(f"{m}: {mm.group(0).strip()}")
    if bad:
        res.update(ok=False, failing=["forbidden-token: " + b for b in bad])
        return res
    rc, out = lake_build(module)
    res["log"] = out
    if rc != 0:
        res["ok"] = False
        # name the declarations whose elaboration failed
        path = os.path.join(LEAN, module.replace(".", "/") + ".lean")
        lines = open(path).read().split("\n")
        failing = set()
        for mm in re.finditer(r"error: (\S+?\.lean):(\d+):(\d+)", out):
            f, ln = mm.group(1), int(mm.group(2))
            if not path.endswith(f):
                failing.add(f"{f}:{ln}")
                continue
            name = f"{f}:{ln}"
            for k in range(min(ln, len(lines)) - 1, -1, -1):
                m2 = re.match(r"\s*(theorem|example|def|lemma)\s*([A-Za-z0-9_.']*)", lines[k])
                if m2:
                    name = (m2.group(2) or f"example@{k+1}")
                    break
            failing.add(name)
        res["failing"] = sorted(failing) or ["lake build " + module]
        res["discharged"] = max(0, res["obligations"] - len(res["failing"]))
        return res
    # axiom audit
    audit = os.path.join(BUILD, f"audit_{pid}.lean")
    with open(audit, "w") as f:
        f.write(f"import {module}\n")
        for t in thms:
            f.write(f"#print axioms {t}\n")
    rc, out = sh(["lake", "env", "lean", audit], cwd=LEAN, timeout=1800)
    if rc != 0:
        res.update(ok=False, failing=["axiom audit failed: " + out[-500:]])
        return res
    cur = None
    for mm in re.finditer(r"'([^']+)' (depends on axioms: \[([^\]]*)\]|does not depend on any axioms)", out.replace("\n", " ")):
        cur = mm.group(1)
        axs = [a.strip() for a in (mm.group(3) or "").split(",") if a.strip()]
        res["axioms"][cur] = axs
        extra = [a for a in axs if a not in ALLOWED_AXIOMS]
        if extra:
            res["ok"] = False
            res["failing"].append(f"{cur}: axioms {extra}")
    missing = [t for t in thms if t not in res["axioms"]]
    if missing:
        res["ok"] = False
        res["failing"] += ["no axiom report for " + t for t in missing]
    res["discharged"] = res["obligations"] - len(res["failing"])
    if cfg.get("leanchecker"):
        rc, out = sh(["lake", "env", "leanchecker", module], cwd=LEAN, timeout=3600)
        res["leanchecker"] = (rc == 0)
        if rc != 0:
            res["ok"] = False
            res["failing"].append("leanchecker: " + out[-300:])
    return res


# ----------------------------------------------------------------------------- Go harness

def overlay_for(pkgs):
    """Build overlay.json injecting harness files into /repo packages (no edit of /repo)."""
    gen = os.path.join(BUILD, "gen")
    os.makedirs(gen, exist_ok=True)
    repl = {}
    tmpl = open(os.path.join(VERIF, "harness/common/verif_common_test.go.tmpl")).read()
    for pkg in pkgs:
        src = os.path.join(VERIF, "harness/overlay", pkg)
        if not os.path.isdir(src):
            continue
        pkgname = None
        for fn in sorted(os.listdir(src)):
            if not fn.endswith(".go"):
                continue
            p = os.path.join(src, fn)
            if pkgname is None:
                m = re.search(r"^package\s+(\w+)", open(p).read(), re.M)
                pkgname = m.group(1)
            repl[os.path.join(REPO, pkg, "zz_" + fn)] = p
        if pkgname:
            cp = os.path.join(gen, pkg.replace("/", "_") + "_common_test.go")
            content = tmpl.replace("PKGNAME", pkgname)
            if not os.path.exists(cp) or open(cp).read() != content:
                open(cp, "w").write(content)
            repl[os.path.join(REPO, pkg, "zz_verif_common_test.go")] = cp
    if "pkg/workceptor" in pkgs:
        inst = instrument_workunitbase(gen)
        if inst:
            repl[os.path.join(REPO, "pkg/workceptor/workunitbase.go")] = inst
        inst2 = instrument_workceptor_go(gen)
        if inst2:
            repl[os.path.join(REPO, "pkg/workceptor/workceptor.go")] = inst2
    ov = os.path.join(gen, "overlay_" + hashlib.md5(" ".join(sorted(pkgs)).encode()).hexdigest()[:8] + ".json")
    json.dump({"Replace": repl}, open(ov, "w"), indent=1)
    return ov


def instrument_workunitbase(gen):
    """An instrumented copy of /repo's current workunitbase.go: every status rewrite calls verifStatusHook
    (harness/overlay/pkg/workceptor/verif_hook.go) inside the lock.  None if the source no longer has the
    two statements the calls are attached to (the engines that need the log then report a harness error)."""
    src = open(os.path.join(REPO, "pkg/workceptor/workunitbase.go")).read()
    if src.count("\tstatusFunc(sfd)\n") != 1:
        return None
    src = src.replace("\tstatusFunc(sfd)\n",
                      "\tverifOld, verifHad := *sfd, size > 0\n\tstatusFunc(sfd)\n\tverifStatusHook(filename, verifHad, &verifOld, sfd)\n")
    m = re.search(r"func \(sfd \*StatusFileData\) Save\(filename string\) error \{.*?\n\}\n", src, re.S)
    if not m or m.group(0).count("\terr = sfd.saveToFile(file)\n") != 1:
        return None
    body = m.group(0).replace("\terr = sfd.saveToFile(file)\n", "\tverifStatusHook(filename, false, nil, sfd)\n\terr = sfd.saveToFile(file)\n")
    src = src.replace(m.group(0), body)
    # crash points (C04): verifCrashPoint(name) kills the process when the harness has armed that point
    def ins_after(text, anchor, call, count=1):
        if text.count(anchor) != count:
            return None
        return text.replace(anchor, anchor + call)
    m = re.search(r"func \(sfd \*StatusFileData\) UpdateFullStatus\(.*?\n\}\n", src, re.S)
    if m:
        body = m.group(0)
        b2 = ins_after(body, "\tdefer sfd.unlockStatusFile(filename, lockFile)\n", "\tverifCrashPoint(\"upd.locked\")\n")
        if b2:
            b3 = ins_after(b2, "\terr = file.Truncate(0)\n\tif err != nil {\n\t\treturn err\n\t}\n", "\tverifCrashPoint(\"upd.truncated\")\n")
            if b3:
                b4 = ins_after(b3, "\terr = sfd.saveToFile(file)\n\tif err != nil {\n\t\treturn err\n\t}\n", "\tverifCrashPoint(\"upd.written\")\n")
                if b4:
                    src = src.replace(body, b4)
    m = re.search(r"func \(sfd \*StatusFileData\) Save\(filename string\) error \{.*?\n\}\n", src, re.S)
    if m:
        body = m.group(0)
        b2 = ins_after(body, "\tfile, err := os.OpenFile(filename, os.O_CREATE|os.O_WRONLY|os.O_TRUNC, 0o600)\n\tif err != nil {\n\t\treturn err\n\t}\n",
                       "\tverifCrashPoint(\"save.truncated\")\n")
        if b2:
            src = src.replace(body, b2)
    out = os.path.join(gen, "pkg_workceptor_workunitbase_instrumented.go")
    if not os.path.exists(out) or open(out).read() != src:
        open(out, "w").write(src)
    return out


def instrument_workceptor_go(gen):
    """AllocateUnit with crash points after the directory is made and after the unit is saved and registered."""
    src = open(os.path.join(REPO, "pkg/workceptor/workceptor.go")).read()
    a = "\tident, err := w.generateUnitID(false)\n\tif err != nil {\n\t\treturn nil, err\n\t}\n"
    b = "\tw.activeUnits[ident] = worker\n\n\treturn worker, nil\n"
    if src.count(a) != 1 or src.count(b) != 1:
        return None
    src = src.replace(a, a + "\tverifCrashPoint(\"alloc.mkdir\")\n")
    src = src.replace(b, "\tw.activeUnits[ident] = worker\n\tverifCrashPoint(\"alloc.saved\")\n\n\treturn worker, nil\n")
    out = os.path.join(gen, "pkg_workceptor_workceptor_instrumented.go")
    if not os.path.exists(out) or open(out).read() != src:
        open(out, "w").write(src)
    return out


def build_test_binary(pkg, tags="verif"):
    ov = overlay_for([pkg])
    exe = os.path.join(BUILD, "test_" + pkg.replace("/", "_"))
    rc, out = sh(["go", "test", "-c", "-vet=off", "-tags", tags, "-overlay", ov, "-o", exe, "./" + pkg],
                 cwd=REPO, env=GOENV, timeout=1800)
    return rc, out, exe


def run_harness(exe, pkg, test, outbase, seed, n, tier, cases_in=None, timeout=1800, extra_env=None):
    env = dict(GOENV, VERIF_OUT=outbase, VERIF_SEED=str(seed), VERIF_N=str(n), VERIF_TIER=tier,
               VERIF_BUILD=BUILD, VERIF_DIR=VERIF)
    if cases_in:
        env["VERIF_CASES_IN"] = cases_in
    if extra_env:
        env.update(extra_env)
    try:
        rc, out = sh([exe, "-test.run", "^" + test + "$", "-test.count=1", "-test.timeout", f"{timeout}s"],
                     cwd=os.path.join(REPO, pkg), env=env, timeout=timeout + 60)
    except subprocess.TimeoutExpired:
        return 124, "harness timeout"
    return rc, out


def run_driver(lines):
    exe = os.path.join(LEAN, ".lake/build/bin/driver")
    p = subprocess.run([exe], input="\n".join(lines) + "\n", stdout=subprocess.PIPE, stderr=subprocess.PIPE,
                       text=True, timeout=3600)
    outs = [l for l in p.stdout.split("\n") if l.strip()]
    return p.returncode, outs, p.stderr


def _norm(x):
    """canonical form: object keys sorted; lists under a key ending in `_set` are multisets"""
    if isinstance(x, dict):
        if "panic" in x:
            return {"panic": True}     # the panic message is not part of the comparison
        if "fatal" in x:
            return {"fatal": True}
        if "hang" in x and len(x) == 1:
            return {"hang": True}
        out = {}
        for k, v in x.items():
            v = _norm(v)
            if k.endswith("_set") and isinstance(v, list):
                v = sorted(v, key=lambda e: json.dumps(e, sort_keys=True))
            out[k] = v
        return out
    if isinstance(x, list):
        return [_norm(e) for e in x]
    return x


def canon(x):
    return json.dumps(_norm(x), sort_keys=True, separators=(",", ":"))


def label_of(case):
    r = case.get("r")
    if isinstance(r, dict) and r:
        k = sorted(r.keys())[0]
        if isinstance(r.get("ret"), str):
            k = "ret=" + r["ret"]
        if "panic" in r:
            k = "panic"
        return f'{case["op"]}:{k}'
    return f'{case["op"]}:{type(r).__name__}'


# ----------------------------------------------------------------------------- findings

def load_findings():
    p = os.path.join(VERIF, "KNOWN_FINDINGS.jsonl")
    known, fixed = {}, {}
    if os.path.exists(p):
        for line in open(p):
            line = line.strip()
            if not line or line.startswith("#"):
                continue
            e = json.loads(line)
            (known if e.get("status") == "known" else fixed)[(e["property"], e["signature"])] = e
    return known, fixed


def write_replay(pid, kind, payload):
    os.makedirs(os.path.join(VERIF, "replays"), exist_ok=True)
    h = hashlib.md5(canon(payload).encode()).hexdigest()[:10]
    path = os.path.join(VERIF, "replays", f"{pid}_{kind}_{h}.json")
    payload = dict(payload, property=pid, kind=kind)
    json.dump(payload, open(path, "w"), indent=1, sort_keys=True)
    return path


# ----------------------------------------------------------------------------- main

def main():
    args = sys.argv[1:]
    if not args:
        raise SystemExit(__doc__)
    pid = args[0]
    tier = os.environ.get("VERIF_TIER", "quick")
    replay = None
    i = 1
    while i < len(args):
        if args[i] == "--tier":
            tier = args[i + 1]; i += 2
        elif args[i] == "--replay":
            replay = args[i + 1]; i += 2
        else:
            raise SystemExit("unknown arg " + args[i])
    seed = int(os.environ.get("VERIF_SEED", "1"))
    cfg = PROPS[pid]
    t0 = time.time()
    os.makedirs(BUILD, exist_ok=True)
    os.makedirs(os.path.join(VERIF, "evidence"), exist_ok=True)
    known, fixed = load_findings()

    facts = build_extract()
    rc, out = lake_build("driver")
    if rc != 0:
        log(out)
        raise SystemExit("driver build failed (framework error)")

    # ---- proof step
    cfg2 = dict(cfg, leanchecker=(tier == "thorough"))
    pr = proof_step(pid, cfg2) if not replay or True else None
    log(f"[{pid}] proof: ok={pr['ok']} obligations={pr['obligations']} discharged={pr['discharged']} failing={pr['failing']}")

    # ---- correspondence + oracle step
    cases, harness_errors = [], []
    shards = cfg.get("shards_thorough", 8) if tier == "thorough" else cfg.get("shards_quick", 1)
    corpus_file = None
    if replay:
        rp = json.load(open(replay))
        corpus_file = os.path.join(BUILD, f"replay_cases_{pid}.jsonl")
        with open(corpus_file, "w") as f:
            for c in rp.get("cases", []):
                f.write(json.dumps(c) + "\n")
    else:
        cdir = os.path.join(VERIF, "corpus", pid)
        if os.path.isdir(cdir):
            corpus_file = os.path.join(BUILD, f"corpus_{pid}.jsonl")
            with open(corpus_file, "w") as f:
                for fn in sorted(os.listdir(cdir)):
                    for line in open(os.path.join(cdir, fn)):
                        if line.strip():
                            f.write(line.strip() + "\n")
    built = {}
    jobs = []
    for eng in cfg.get("engines", []):
        pkg = eng["pkg"]
        if pkg not in built:
            rc, out, exe = build_test_binary(pkg, eng.get("tags", "verif"))
            built[pkg] = (rc, out, exe)
            if rc != 0:
                harness_errors.append(f"harness for {pkg} does not build:\n{out[-3000:]}")
        rc, out, exe = built[pkg]
        if rc != 0:
            continue
        n = 0 if replay else (eng.get("n_thorough", 2000) if tier == "thorough" else eng.get("n_quick", 200))
        nsh = 1 if replay else (shards if eng.get("shardable", True) else 1)
        for s in range(nsh):
            outbase = os.path.join(BUILD, f"out_{pid}_{eng['engine']}_{s}")
            jobs.append((eng, exe, pkg, outbase, seed * 1000 + s, n, s))

    def runjob(j):
        eng, exe, pkg, outbase, sd, n, s = j
        f = outbase + "." + eng["engine"] + ".jsonl"
        if os.path.exists(f):
            os.remove(f)
        rc, out = run_harness(exe, pkg, eng["test"], outbase, sd, n, tier,
                              cases_in=(corpus_file if s == 0 else None),
                              timeout=eng.get("timeout_thorough", 3000) if tier == "thorough" else eng.get("timeout_quick", 900),
                              extra_env=eng.get("env"))
        got = []
        if os.path.exists(f):
            for line in open(f):
                line = line.strip()
                if line:
                    try:
                        got.append(json.loads(line))
                    except Exception:
                        pass
        return eng, rc, out, got

    with ThreadPoolExecutor(max_workers=int(os.environ.get("VERIF_JOBS", "16"))) as ex:
        for eng, rc, out, got in ex.map(runjob, jobs):
            cases += got
            if rc != 0:
                harness_errors.append(f"harness {eng['test']} exited {rc}:\n{out[-3000:]}")

    replies = []
    drv_err = ""
    if cases:
        rc, outs, drv_err = run_driver([json.dumps(c) for c in cases])
        if rc != 0 or len(outs) != len(cases):
            harness_errors.append(f"driver exited {rc}, {len(outs)} replies for {len(cases)} cases: {drv_err[-500:]}")
        replies = [json.loads(o) for o in outs[:len(cases)]]

    corr_ops = cfg.get("corr_ops", {})
    mismatches, violations, unmodelled, badops = [], [], 0, []
    dist = {}
    distinct = set()
    nontrivial = set()
    for c, rep in zip(cases, replies):
        lab = label_of(c)
        dist[lab] = dist.get(lab, 0) + 1
        key = hashlib.md5(canon([c["e"], c["op"], c["a"]]).encode()).hexdigest()
        distinct.add(key)
        if "bad-op" in rep:
            badops.append((c, rep))
            continue
        if isinstance(c.get("r"), dict) and ("ok" in c["r"] or c["r"].get("nontrivial")):
            nontrivial.add(key)
        m = rep.get("m")
        if isinstance(m, dict) and "unmodelled" in m:
            unmodelled += 1
        elif c["op"] in corr_ops.get(c["e"], []):
            if canon(m) != canon(c.get("r")):
                mismatches.append((c, rep))
        if rep.get("prop") is False:
            violations.append((c, rep))
    if badops:
        harness_errors.append(f"{len(badops)} bad-op replies, first: {badops[0][1]}")

    # ---- verdict
    lines = []
    exit_code = 0
    new_viol = []
    known_hit = {}
    for c, rep in violations:
        sig = rep.get("sig") or (c["e"] + "/" + c["op"])
        if (pid, sig) in known:
            known_hit.setdefault(sig, (c, rep))
        else:
            new_viol.append((c, rep, sig))
    for sig, (c, rep) in sorted(known_hit.items()):
        lines.append(f"KNOWN-FINDING: property={pid} {known[(pid, sig)].get('what', sig)} [{sig}]")
    if new_viol:
        # smallest case first
        new_viol.sort(key=lambda x: len(canon(x[0])))
        c, rep, sig = new_viol[0]
        path = write_replay(pid, "property-violation", dict(cases=[c], reply=rep, signature=sig,
                            detail=rep.get("why", ""), others=len(new_viol) - 1))
        lines.append(f"VIOLATION property={pid} replay={path}")
        exit_code = 1
    elif (not pr["ok"]) or mismatches or harness_errors:
        kinds = []
        payload = {}
        if not pr["ok"]:
            kinds.append("proof")
            payload["theorems_not_checking"] = pr["failing"]
            payload["lake_log_tail"] = pr["log"][-2500:]
        if mismatches:
            kinds.append("correspondence")
            mismatches.sort(key=lambda x: len(canon(x[0])))
            payload["cases"] = [mismatches[0][0]]
            payload["model_reply"] = mismatches[0][1]
            payload["mismatches"] = len(mismatches)
            payload["correspondence"] = f"{mismatches[0][0]['e']} {mismatches[0][0]['op']}"
        if harness_errors:
            kinds.append("harness")
            payload["harness_errors"] = [h[-3000:] for h in harness_errors]
        payload["searched"] = dict(cases=len(cases), property_violations_found=0)
        path = write_replay(pid, "+".join(kinds), payload)
        lines.append(f"VIOLATION property={pid} replay={path} no-failing-input-found")
        exit_code = 1

    # ---- evidence
    samples = []
    seen_l = set()
    for c in cases:
        l = label_of(c)
        if l not in seen_l and len(samples) < 8:
            seen_l.add(l)
            s = json.loads(canon(c))
            cs = canon(s)
            samples.append(s if len(cs) < 1500 else {"e": c["e"], "op": c["op"], "truncated": cs[:1500]})
    ev = dict(
        property_id=pid, tier=tier, seed=seed, level=cfg.get("level", "proof"),
        coverage=dict(
            obligations=pr["obligations"], discharged=pr["discharged"],
            checker_cmd=f"cd lean && lake build {cfg['lean_props']} && lake env lean ../build/audit_{pid}.lean"
                        + (" && lake env leanchecker " + cfg["lean_props"] if tier == "thorough" else ""),
            trusted_base=["Lean 4.33.0 kernel", "axioms: " + ", ".join(sorted({a for v in pr["axioms"].values() for a in v}) or ["none"]),
                          "translator /verif/extract (go/ast facts) + expectations in " + cfg["lean_props"],
                          "correspondence harness /verif/harness (seeded differential run vs the Lean driver)"]
                         + cfg.get("trusted", []),
            theorems=pr["theorems"], examples=pr["examples"], axioms=pr["axioms"],
            theorems_failing=pr["failing"],
            evaluations=len(cases), distinct_nontrivial=len(nontrivial),
            distinct_cases=len(distinct),
            rule=cfg.get("rule", "cases = corpus + seeded generator of the engine; distinct by (engine, op, args); "
                                 "non-trivial = the implementation produced a result (not an error/refusal) "
                                 "or the engine marked the case nontrivial"),
            samples=samples or [{"note": "no correspondence cases for this property"}],
            distribution=dist, correspondence_mismatches=len(mismatches),
            property_violations=len(violations), known_findings_hit=sorted(known_hit.keys()),
            unmodelled=unmodelled, harness_errors=len(harness_errors),
            facts={k: facts[k] for k in cfg.get("facts", []) if k in facts},
        ),
        assumptions=cfg.get("assumptions", []),
        wall_s=round(time.time() - t0, 2),
        violations=len(new_viol) + (1 if exit_code and not new_viol else 0),
    )
    json.dump(ev, open(os.path.join(VERIF, "evidence", pid + ".json"), "w"), indent=1, sort_keys=True)
    for l in lines:
        print(l)
    if harness_errors:
        for h in harness_errors:
            log(h)
    print(f"[{pid}] tier={tier} seed={seed} proof_ok={pr['ok']} cases={len(cases)} mismatches={len(mismatches)} "
          f"violations={len(violations)} (new {len(new_viol)}) unmodelled={unmodelled} wall={ev['wall_s']}s "
          f"-> exit {exit_code}")
    sys.exit(exit_code)


if __name__ == "__main__":
    main()
