/-!
# Firewall rules (`pkg/netceptor/firewall_rules.go`) and their evaluation in
`handleMessageData` — property C12.

* `Re`: regular expressions of the verified subset with a Brzozowski-derivative matcher
  (`fullMatch`), and the *textual* anchoring the source applies (`"^" ++ src ++ "$"` searched
  with `MatchString`) modelled at the AST level for both wrappings: grouped `^(?:r)$` (a full
  match) and ungrouped `^r$` (where a top-level alternation escapes the anchors).
* `parseRule`: `ParseFirewallRule` over rule data (key/value pairs, values possibly not
  strings), parameterised by the two regenerated facts: whether pattern errors are propagated
  and how the regex is wrapped.
* `evalRules`: the rule loop of `handleMessageData` (first non-continue result, default accept).
-/
namespace Receptor.Firewall

abbrev Bytes := List Nat

/-! ## Regular expressions -/

inductive Re where
  | none                                   -- matches nothing
  | eps                                    -- the empty string
  | chr (c : Nat)                          -- one literal character
  | cls (neg : Bool) (rs : List (Nat × Nat))  -- character class of inclusive ranges (`.` = negated [\n])
  | cat (a b : Re)
  | alt (a b : Re)
  | star (a : Re)
  deriving DecidableEq, Repr

namespace Re

def inRanges (c : Nat) : List (Nat × Nat) → Bool
  | [] => false
  | (lo, hi) :: rs => (lo ≤ c && c ≤ hi) || inRanges c rs

def clsMatch (neg : Bool) (rs : List (Nat × Nat)) (c : Nat) : Bool :=
  if neg then !(inRanges c rs) else inRanges c rs

def nullable : Re → Bool
  | none => false
  | eps => true
  | chr _ => false
  | cls _ _ => false
  | cat a b => nullable a && nullable b
  | alt a b => nullable a || nullable b
  | star _ => true

def deriv (c : Nat) : Re → Re
  | none => none
  | eps => none
  | chr d => if c = d then eps else none
  | cls neg rs => if clsMatch neg rs c then eps else none
  | cat a b => if nullable a then alt (cat (deriv c a) b) (deriv c b) else cat (deriv c a) b
  | alt a b => alt (deriv c a) (deriv c b)
  | star a => cat (deriv c a) (star a)

/-- does `r` match the whole of `s`? -/
def fullMatch (r : Re) (s : Bytes) : Bool := nullable (s.foldl (fun r c => deriv c r) r)

def plus (a : Re) : Re := cat a (star a)
def opt (a : Re) : Re := alt a eps
def dot : Re := cls true [(10, 10)]

/-- some prefix of `s` is fully matched by `r` -/
def prefixMatch (r : Re) (s : Bytes) : Bool :=
  (List.range (s.length + 1)).any fun k => fullMatch r (s.take k)

/-- some suffix of `s` is fully matched by `r` -/
def suffixMatch (r : Re) (s : Bytes) : Bool :=
  (List.range (s.length + 1)).any fun k => fullMatch r (s.drop k)

/-- some substring of `s` is fully matched by `r` -/
def subMatch (r : Re) (s : Bytes) : Bool :=
  (List.range (s.length + 1)).any fun k => prefixMatch r (s.drop k)

/-- the top-level alternatives of the source text `a|b|c` -/
def topAlts : Re → List Re
  | alt a b => topAlts a ++ topAlts b
  | r => [r]

end Re

inductive Wrap where
  | grouped      -- "^(?:%s)$"
  | ungrouped    -- "^%s$"
  deriving DecidableEq, Repr

/-- `regexp.MustCompile(wrap(src)).MatchString(s)` for a pattern whose source renders `r`
with its top-level alternation unparenthesised. -/
def regexMatch (w : Wrap) (r : Re) (s : Bytes) : Bool :=
  match w with
  | .grouped => r.fullMatch s
  | .ungrouped =>
    match Re.topAlts r with
    | [] => false
    | [a] => a.fullMatch s
    | a :: rest =>
      -- "^a|m1|…|z$": a anchored at the start only, z at the end only, the middle ones nowhere
      a.prefixMatch s ||
      (rest.dropLast.any fun m => m.subMatch s) ||
      (match rest.getLast? with | some z => z.suffixMatch s | none => false)

/-! ## Rules -/

inductive Action where
  | accept | reject | drop
  deriving DecidableEq, Repr

inductive Matcher where
  | lit (s : Bytes)
  | re (r : Re)
  deriving DecidableEq, Repr

structure Rule where
  action : Action
  fromNode : Option Matcher := none
  toNode : Option Matcher := none
  fromSvc : Option Matcher := none
  toSvc : Option Matcher := none
  deriving DecidableEq, Repr

structure Addr where
  fromNode : Bytes
  fromSvc : Bytes
  toNode : Bytes
  toSvc : Bytes
  deriving DecidableEq, Repr

def Matcher.matches (w : Wrap) : Matcher → Bytes → Bool
  | .lit s, x => s == x
  | .re r, x => regexMatch w r x

def fieldOK (w : Wrap) (m : Option Matcher) (x : Bytes) : Bool :=
  match m with
  | none => true
  | some m => m.matches w x

/-- a rule matches when all of its given fields match -/
def Rule.matches (w : Wrap) (r : Rule) (p : Addr) : Bool :=
  fieldOK w r.fromNode p.fromNode && fieldOK w r.toNode p.toNode &&
  fieldOK w r.fromSvc p.fromSvc && fieldOK w r.toSvc p.toSvc

inductive Verdict where
  | accept | reject | drop
  deriving DecidableEq, Repr

def Action.verdict : Action → Verdict
  | .accept => .accept | .reject => .reject | .drop => .drop

/-- the loop of `handleMessageData`: the first rule that matches decides; accept otherwise -/
def evalRules (w : Wrap) : List Rule → Addr → Verdict
  | [], _ => .accept
  | r :: rs, p => if r.matches w p then r.action.verdict else evalRules w rs p

/-! ## Parsing rule data -/

/-- a value in the rule data map -/
inductive Val where
  | str (s : Bytes)
  | other            -- anything that is not a string (number, list, map, nil, bool)
  deriving DecidableEq, Repr

/-- a pattern as written, together with what `regexp.Compile` makes of its inner text:
`some r` when it compiles (and `r` is its AST), `none` when it does not. -/
structure Pat where
  src : Bytes
  compiled : Option Re
  deriving DecidableEq, Repr

inductive ParseErr where
  | notString | unknownKey | unknownAction | badPattern
  deriving DecidableEq, Repr

inductive ParseOut where
  | ok (r : Rule)
  | err (e : ParseErr)
  | panic             -- the pattern "/" slices [1:0]
  deriving DecidableEq, Repr

def lower (s : Bytes) : Bytes := s.map fun c => if 65 ≤ c ∧ c ≤ 90 then c + 32 else c

def kAction : Bytes := [97, 99, 116, 105, 111, 110]
def kFromNode : Bytes := [102, 114, 111, 109, 110, 111, 100, 101]
def kToNode : Bytes := [116, 111, 110, 111, 100, 101]
def kFromSvc : Bytes := [102, 114, 111, 109, 115, 101, 114, 118, 105, 99, 101]
def kToSvc : Bytes := [116, 111, 115, 101, 114, 118, 105, 99, 101]
def aAccept : Bytes := [97, 99, 99, 101, 112, 116]
def aReject : Bytes := [114, 101, 106, 101, 99, 116]
def aDrop : Bytes := [100, 114, 111, 112]

inductive PatOut where
  | absent | m (x : Matcher) | bad | panic
  deriving DecidableEq, Repr

/-- `buildComp` + `regexCompare`/`stringCompare` for one field.
`strict = true`: pattern errors are reported; `strict = false` (the pinned tree): they are
discarded, which leaves the field unconstrained. -/
def buildPat (strict : Bool) (p : Pat) : PatOut :=
  if p.src = [] then .absent
  else if p.src.head? = some 47 then           -- starts with '/'
    if p.src.getLast? ≠ some 47 then (if strict then .bad else .absent)
    else if p.src.length < 2 then (if strict then .bad else .panic)
    else match p.compiled with
      | some r => .m (.re r)
      | none => if strict then .bad else .absent
  else .m (.lit p.src)

structure Raw where
  action : Bytes := []
  fromNode : Pat := ⟨[], none⟩
  toNode : Pat := ⟨[], none⟩
  fromSvc : Pat := ⟨[], none⟩
  toSvc : Pat := ⟨[], none⟩

/-- one key/value pair of the rule data; the value carries the pattern's compilation result -/
structure KV where
  key : Bytes
  val : Val
  compiled : Option Re := none

def collect : List KV → Raw → Except ParseErr Raw
  | [], r => .ok r
  | kv :: rest, r =>
    match kv.val with
    | .other => .error .notString
    | .str s =>
      let k := lower kv.key
      if k = kAction then collect rest { r with action := s }
      else if k = kFromNode then collect rest { r with fromNode := ⟨s, kv.compiled⟩ }
      else if k = kToNode then collect rest { r with toNode := ⟨s, kv.compiled⟩ }
      else if k = kFromSvc then collect rest { r with fromSvc := ⟨s, kv.compiled⟩ }
      else if k = kToSvc then collect rest { r with toSvc := ⟨s, kv.compiled⟩ }
      else .error .unknownKey

def parseAction (s : Bytes) : Option Action :=
  let a := lower s
  if a = aAccept then some .accept else if a = aReject then some .reject
  else if a = aDrop then some .drop else none

def patField : PatOut → Option Matcher
  | .m x => some x
  | _ => none

/-- `ParseFirewallRule`.  Order of checks as in the source: value types and keys while
iterating, then the comparers are built (pattern errors surface here when `strict`), then
the action is interpreted. -/
def parseRule (strict : Bool) (kvs : List KV) : ParseOut :=
  match collect kvs {} with
  | .error e => .err e
  | .ok raw =>
    let f1 := buildPat strict raw.fromNode
    let f2 := buildPat strict raw.toNode
    let f3 := buildPat strict raw.fromSvc
    let f4 := buildPat strict raw.toSvc
    if f1 = .panic ∨ f2 = .panic ∨ f3 = .panic ∨ f4 = .panic then .panic
    else if f1 = .bad ∨ f2 = .bad ∨ f3 = .bad ∨ f4 = .bad then .err .badPattern
    else match parseAction raw.action with
      | none => .err .unknownAction
      | some a => .ok { action := a, fromNode := patField f1, toNode := patField f2,
                        fromSvc := patField f3, toSvc := patField f4 }

/-- `ParseFirewallRules`: all rules or the first error -/
def parseRules (strict : Bool) : List (List KV) → Option (List Rule)
  | [] => some []
  | kvs :: rest =>
    match parseRule strict kvs with
    | .ok r => (parseRules strict rest).map (r :: ·)
    | _ => none

end Receptor.Firewall
