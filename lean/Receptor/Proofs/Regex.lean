import Receptor.Model.Firewall
/-! Correctness of the derivative matcher against the usual denotational semantics. -/
namespace Receptor.Firewall.Re

/-- the language of a regular expression -/
inductive Matches : Re → Bytes → Prop
  | eps : Matches .eps []
  | chr (c : Nat) : Matches (.chr c) [c]
  | cls (neg : Bool) (rs : List (Nat × Nat)) (c : Nat) : clsMatch neg rs c = true → Matches (.cls neg rs) [c]
  | cat {a b : Re} {s t : Bytes} : Matches a s → Matches b t → Matches (.cat a b) (s ++ t)
  | altL {a b : Re} {s : Bytes} : Matches a s → Matches (.alt a b) s
  | altR {a b : Re} {s : Bytes} : Matches b s → Matches (.alt a b) s
  | starNil {a : Re} : Matches (.star a) []
  | starCons {a : Re} {s t : Bytes} : Matches a s → Matches (.star a) t → Matches (.star a) (s ++ t)

theorem nullable_of_matches_nil : ∀ {r : Re} {u : Bytes}, Matches r u → u = [] → nullable r = true := by
  intro r u h
  induction h with
  | eps => intro _; rfl
  | chr c => intro h; cases h
  | cls neg rs c _ => intro h; cases h
  | cat _ _ iha ihb =>
    intro h
    have := List.append_eq_nil_iff.mp h
    simp [nullable, iha this.1, ihb this.2]
  | altL _ ih => intro h; simp [nullable, ih h]
  | altR _ ih => intro h; simp [nullable, ih h]
  | starNil => intro _; rfl
  | starCons _ _ _ _ => intro _; rfl

theorem matches_nil_of_nullable : ∀ (r : Re), nullable r = true → Matches r [] := by
  intro r
  induction r with
  | none => intro h; simp [nullable] at h
  | eps => intro _; exact .eps
  | chr c => intro h; simp [nullable] at h
  | cls neg rs => intro h; simp [nullable] at h
  | cat a b iha ihb =>
    intro h; simp [nullable] at h
    have := Matches.cat (iha h.1) (ihb h.2)
    simpa using this
  | alt a b iha ihb =>
    intro h; simp [nullable] at h
    cases h with
    | inl h => exact .altL (iha h)
    | inr h => exact .altR (ihb h)
  | star a _ => intro _; exact .starNil

theorem nullable_iff (r : Re) : nullable r = true ↔ Matches r [] :=
  ⟨matches_nil_of_nullable r, fun h => nullable_of_matches_nil h rfl⟩

theorem deriv_sound (c : Nat) : ∀ (r : Re) (s : Bytes), Matches (deriv c r) s → Matches r (c :: s) := by
  intro r
  induction r with
  | none => intro s h; simp [deriv] at h; cases h
  | eps => intro s h; simp [deriv] at h; cases h
  | chr d =>
    intro s h
    simp only [deriv] at h
    split at h
    · rename_i hcd; subst hcd; cases h; exact .chr c
    · cases h
  | cls neg rs =>
    intro s h
    simp only [deriv] at h
    split at h
    · rename_i hm; cases h; exact .cls neg rs c hm
    · cases h
  | cat a b iha ihb =>
    intro s h
    simp only [deriv] at h
    split at h
    · rename_i hn
      cases h with
      | altL h =>
        cases h with
        | cat h1 h2 => exact Matches.cat (iha _ h1) h2
      | altR h =>
        have := Matches.cat (matches_nil_of_nullable a hn) (ihb _ h)
        simpa using this
    · cases h with
      | cat h1 h2 => exact Matches.cat (iha _ h1) h2
  | alt a b iha ihb =>
    intro s h
    simp only [deriv] at h
    cases h with
    | altL h => exact .altL (iha _ h)
    | altR h => exact .altR (ihb _ h)
  | star a iha =>
    intro s h
    simp only [deriv] at h
    cases h with
    | cat h1 h2 => exact Matches.starCons (iha _ h1) h2

theorem deriv_complete : ∀ {r : Re} {u : Bytes}, Matches r u → ∀ (c : Nat) (s : Bytes), u = c :: s →
    Matches (deriv c r) s := by
  intro r u h
  induction h with
  | eps => intro c s h; cases h
  | chr d => intro c s h; cases h; simp [deriv]; exact .eps
  | cls neg rs d hm => intro c s h; cases h; simp [deriv, hm]; exact .eps
  | @cat a b s1 t1 h1 h2 ih1 ih2 =>
    intro c s h
    simp only [deriv]
    cases s1 with
    | nil =>
      simp at h
      have hn : nullable a = true := nullable_of_matches_nil h1 rfl
      simp only [hn, if_true]
      exact .altR (ih2 c s h)
    | cons x s1' =>
      simp at h
      obtain ⟨hx, hs⟩ := h
      subst hx; subst hs
      have := Matches.cat (ih1 x s1' rfl) h2
      split
      · exact .altL this
      · exact this
  | altL _ ih => intro c s h; simp only [deriv]; exact .altL (ih c s h)
  | altR _ ih => intro c s h; simp only [deriv]; exact .altR (ih c s h)
  | starNil => intro c s h; cases h
  | @starCons a s1 t1 h1 h2 ih1 ih2 =>
    intro c s h
    cases s1 with
    | nil => simp at h; exact ih2 c s h
    | cons x s1' =>
      simp at h
      obtain ⟨hx, hs⟩ := h
      subst hx; subst hs
      simp only [deriv]
      exact Matches.cat (ih1 x s1' rfl) h2

theorem deriv_iff (c : Nat) (r : Re) (s : Bytes) : Matches (deriv c r) s ↔ Matches r (c :: s) :=
  ⟨deriv_sound c r s, fun h => deriv_complete h c s rfl⟩

/-- the derivative matcher decides membership in the language -/
theorem fullMatch_iff : ∀ (s : Bytes) (r : Re), fullMatch r s = true ↔ Matches r s := by
  intro s
  induction s with
  | nil => intro r; simp [fullMatch]; exact nullable_iff r
  | cons c s ih =>
    intro r
    have : fullMatch r (c :: s) = fullMatch (deriv c r) s := by simp [fullMatch]
    rw [this, ih, deriv_iff]

end Receptor.Firewall.Re
