import Receptor.Drive.Util
import Receptor.Model.Verify
import Receptor.Model.DER
import Receptor.Generated.Facts
namespace Receptor.Drive.Cert
open Lean Receptor.Drive Receptor.Verify

def namesJson (dns ips ids : List (List Nat)) : Json :=
  jObj [("dns", jArr (dns.map jHex)), ("ips", jArr (ips.map jHex)), ("ids", jArr (ids.map jHex))]

def handle (op : String) (a r : Json) : Except String Reply := do
  match op with
  | "issue" =>
    let dns ← getHexList a "dns"
    let ips ← getHexList a "ips"
    let ids ← getHexList a "ids"
    let cands ← getHexList a "candidates"
    if !(ids.all Receptor.DER.validUTF8) then
      pure { m := jObj [("unmodelled", Json.str "node ID not valid UTF-8")] }
    else
      let nm := namesJson dns (ips.map Receptor.DER.normIP) ids
      let peer : Peer := { parsed := true, chainOK := true, validNow := true, usageServer := true, usageClient := true,
                           dnsOK := true, names := some ids, digest := fun _ => [] }
      let verdicts := cands.map fun c =>
        (toHex c, Json.bool (decide { pins := [], expected := c, mode := .receptor, role := .server } peer
                             && decide { pins := [], expected := c, mode := .receptor, role := .client } peer))
      let m := jObj [("ok", jObj [("req", nm), ("cert", nm), ("chains", Json.bool true), ("accept", jObj verdicts)])]
      let holds := r == m
      let part (k : String) : Bool :=
        (do pure ((← (← r.getObjVal? "ok").getObjVal? k) == (← (← m.getObjVal? "ok").getObjVal? k))).toOption.getD false
      let sig := if holds then "" else
        if !(part "req") then "C20/issue/request-names-differ" else if !(part "cert") then "C20/issue/certificate-names-differ"
        else if !(part "chains") then "C20/issue/does-not-chain" else "C20/issue/accepted-for-wrong-id-or-refused-for-own"
      pure { m := m, prop := some holds,
             why := if holds then "" else "issued certificate does not carry exactly the requested names / is not accepted for exactly the requested IDs",
             sig := sig }
  | "verify" =>
    let pins ← getStrList a "pins"
    let dns ← getHexList a "dns"
    let ids ← getHexList a "ids"
    let expected ← getHex a "expected"
    let ca ← getStr a "ca"
    let validity ← getStr a "validity"
    let usage ← getStr a "usage"
    let mode := if (← getStr a "mode") == "dns" then Mode.dns else Mode.receptor
    let role := if (← getStr a "role") == "client" then Role.client else Role.server
    let garbage ← getBool a "garbage"
    -- digests: tag each real digest by its length; pins are described symbolically
    let digest : Nat → Bytes := fun n => [n]
    let pinBytes : String → Bytes
      | "sha224" => digest 28 ++ List.replicate 27 0 | "sha256" => digest 32 ++ List.replicate 31 0
      | "sha384" => digest 48 ++ List.replicate 47 0 | "sha512" => digest 64 ++ List.replicate 63 0
      | "wrong32" => List.replicate 32 0 | "wrong64" => List.replicate 64 0
      | "len20" => List.replicate 20 0 | _ => []
    let digestFull : Nat → Bytes := fun n => [n] ++ List.replicate (n - 1) 0
    let peer : Peer := { parsed := !garbage, chainOK := ca == "trusted", validNow := validity == "valid",
                         usageServer := usage == "server" || usage == "both", usageClient := usage == "client" || usage == "both",
                         dnsOK := dns.contains expected, names := some ids, digest := digestFull }
    let acc := decide { pins := pins.map pinBytes, expected := expected, mode := mode, role := role } peer
    let m := jObj [("accept", Json.bool acc)]
    let holds := r == m
    pure { m := m, prop := some holds,
           why := if holds then "" else "verdict differs from: parsed ∧ pin ∧ chain ∧ valid ∧ usage ∧ name",
           sig := if holds then "" else
             (if acc then "C09/verify/admissible-peer-refused" else "C09/verify/inadmissible-peer-accepted") }
  | "verifyseq" =>
    -- every handshake is judged on the leaf of the chain it presents: the pinned certificate A is accepted,
    -- B refused, whatever is appended to the chain and whatever the verifier has seen before
    let seq ← getStrList a "seq"
    let role := if (getStr a "role").toOption.getD "server" == "client" then Role.client else Role.server
    let digestOf (isA : Bool) : Nat → Bytes := fun n => (if isA then 1 else 2) :: List.replicate (n - 1) 0
    let peerOf (ch : Char) : Peer :=
      { parsed := true, chainOK := true, validNow := true, usageServer := true, usageClient := true, dnsOK := false,
        names := some ["node-a".toUTF8.toList.map (·.toNat)], digest := digestOf (ch == 'A') }
    let pinLen : String → Nat
      | "sha224" => 28 | "sha256" => 32 | "sha384" => 48 | _ => 64
    let pins := (← getStrList a "pins").map fun p => digestOf true (pinLen p)
    let cfg : Cfg := { pins := pins, expected := "node-a".toUTF8.toList.map (·.toNat), mode := .receptor, role := role }
    let m := jObj [("accepts", jArr (seq.map fun w => Json.bool (decideChain cfg (w.toList.map peerOf))))]
    let holds := r == m
    let chained := seq.any fun w => w.length > 1
    pure { m := m, prop := some holds,
           why := if holds then "" else (if chained then "a verifier did not judge each handshake on the leaf of the presented chain against the pins (a certificate appended to the chain, or an earlier handshake, changed the verdict)"
                  else "a verifier serving several handshakes did not judge each certificate against the pins on its own"),
           sig := if holds then "" else (if chained then "C09/verifyseq/pin-decision-not-on-the-leaf-alone" else "C09/verifyseq/pin-decision-depends-on-earlier-handshakes") }
  | "mtls" =>
    if let some e := optField r "error" then throw s!"harness error: {e.compress}"
    let require ← getBool a "require"
    let cas ← getBool a "cas"
    let pres ← getStrList a "present"
    let pinned := (getBool a "pinned").toOption.getD false
    -- the listener's per-connection verifier keeps the pins of the server profile (regenerated fact)
    let keepsPins : Bool := Receptor.Facts.tls_listener_pins = "chained-with-profile-verifier"
    let pinA : Bytes := 1 :: List.replicate 31 0
    let pins : List Bytes := if pinned then [pinA] else []
    let node2 := "node2".toUTF8.toList.map (·.toNat)
    let node3 := "node3".toUTF8.toList.map (·.toNat)
    let mk (ids : List Bytes) (trusted valid clientUse : Bool) : Peer :=
      -- without a `clientcas` bundle the listener has no authority to chain a client certificate to
      { parsed := true, chainOK := trusted && cas, validNow := valid, usageServer := true, usageClient := clientUse, dnsOK := true,
        names := some ids, digest := fun n => 2 :: List.replicate (n - 1) 0 }
    let certOf : String → Option Peer
      | "own" => some (mk [node2] true true true)
      | "other" => some (mk [node3] true true true)
      | "both" => some (mk [node3, node2] true true true)
      | "otherca" => some (mk [node2] false true true)
      | "expired" => some (mk [node2] true false true)
      | "serverusage" => some (mk [node2] true true false)
      | "ownpinned" => some { mk [node2] true true true with digest := fun n => 1 :: List.replicate (n - 1) 0 }
      | _ => none
    let m := jObj [("established", jArr (pres.map fun p => Json.bool (established require cas node2 (certOf p) pins keepsPins)))]
    let spec := jObj [("established", jArr (pres.map fun p => Json.bool (established require cas node2 (certOf p) pins true)))]
    let holds := r == spec
    let obs := (getArr r "established").toOption.getD []
    let tooMany := (obs.zip (pres.map fun p => established require cas node2 (certOf p) pins true)).any fun (o, e) => o == Json.bool true && !e
    pure { m := m, prop := some holds,
           why := if holds then "" else (if tooMany then "a stream was established on a TLS listener by a client that the listener's profile must refuse (another node's identity, no certificate, untrusted, expired or unusable certificate)"
                  else "a client that the listener's profile admits could not establish a stream"),
           sig := if holds then "" else (if tooMany then (if pinned then "C09/mtls/unpinned-client-established" else "C09/mtls/inadmissible-client-established")
                                         else "C09/mtls/admissible-client-refused") }
  | "verifytime" =>
    let role := if (getStr a "role").toOption.getD "server" == "client" then Role.client else Role.server
    let peer (valid : Bool) : Peer :=
      { parsed := true, chainOK := true, validNow := valid, usageServer := true, usageClient := true, dnsOK := false,
        names := some ["node-a".toUTF8.toList.map (·.toNat)], digest := fun _ => [] }
    let cfg : Cfg := { pins := [], expected := "node-a".toUTF8.toList.map (·.toNat), mode := .receptor, role := role }
    -- validity is judged at the time of the handshake: issued after the verifier was created ⇒ valid now; expired since ⇒ not
    let m := jObj [("fresh", Json.bool (decide cfg (peer true))), ("lapsed", Json.bool (decide cfg (peer false)))]
    let holds := r == m
    pure { m := m, prop := some holds,
           why := if holds then "" else "a verifier created earlier did not judge validity at the time of the handshake (a certificate issued since was refused, or one expired since was accepted)",
           sig := if holds then "" else "C09/verifytime/validity-not-judged-at-handshake-time" }
  | "verifychain" =>
    let chain ← getArr a "chain"
    let expected ← getHex a "expected"
    let role := if (getStr a "role").toOption.getD "server" == "client" then Role.client else Role.server
    let peers ← chain.mapM fun c => do
      let ids ← (← c.getArr?).toList.mapM fun x => do
        match fromHex (← x.getStr?) with
        | some b => pure b
        | none => throw "bad hex"
      pure ({ parsed := true, chainOK := true, validNow := true, usageServer := true, usageClient := true, dnsOK := false,
              names := some ids, digest := fun _ => [] } : Peer)
    let acc := decideChain { pins := [], expected := expected, mode := .receptor, role := role } peers
    let m := jObj [("accept", Json.bool acc)]
    let holds := r == m
    pure { m := m, prop := some holds,
           why := if holds then "" else "the verdict on a presented chain is not the verdict on its first certificate (a name carried only by an appended certificate was accepted, or the leaf's own name refused)",
           sig := if holds then "" else (if acc then "C09/verifychain/own-name-refused" else "C09/verifychain/name-of-an-appended-certificate-accepted") }
  | "clientcfgseq" =>
    if let some e := optField r "error" then throw s!"harness error: {e.compress}"
    let calls ← getArr a "calls"
    let present ← getArr a "present"
    let peersIds ← present.mapM fun c => do
      (← c.getArr?).toList.mapM fun x => do
        match fromHex (← x.getStr?) with
        | some b => pure b
        | none => throw "bad hex"
    -- every call is judged on its own: the profile is cloned before it is modified (regenerated fact)
    let spec ← calls.mapM fun c => do
      let expected ← getHex c "expected"
      let dns := (← getStr c "mode") == "dns"
      let accs := peersIds.map fun ids =>
        let p : Peer := { parsed := true, chainOK := true, validNow := true, usageServer := true, usageClient := true,
                          dnsOK := ids.contains expected, names := some ids, digest := fun _ => [] }
        Json.bool (decide { pins := [], expected := expected, mode := if dns then .dns else .receptor, role := .server } p)
      pure (jObj [("accepts", jArr accs), ("server_name", jHex (if dns then expected else [])), ("skip_default", Json.bool (!dns))])
    let specJ := jObj [("calls", jArr spec)]
    let independent : Bool := Receptor.Facts.tls_client_cfg_clone = "clone-before-first-write;returns:tlscfg"
    let m := if independent then specJ else jObj [("unmodelled", Json.str "the stored client profile is modified by GetClientTLSConfig: later calls depend on earlier ones")]
    let holds := r == specJ
    pure { m := m, prop := some holds,
           why := if holds then "" else "a named TLS client profile used for several connections: a later connection was not verified against its own expected peer (the verifier, server name or default check of an earlier connection was reused)",
           sig := if holds then "" else "C09/clientcfgseq/verifier-of-an-earlier-connection-reused" }
  | _ => throw s!"bad-op cert {op}"

end Receptor.Drive.Cert
