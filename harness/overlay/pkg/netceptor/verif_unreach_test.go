package netceptor

// C16 harness: which sockets of a node are handed an unreachable notice, and which pending dials
// it cancels (PacketConn.StartUnreachable / SubscribeUnreachable / monitorUnreachable).

import (
	"encoding/json"
	"sync"
	"sync/atomic"
	"testing"
	"time"
	"context"
	"strings"
)

type unreachNoticeArg struct {
	Reporter string `json:"reporter"` // node the notice comes from
	From     string `json:"from"`
	FSvc     string `json:"fsvc"`
	To       string `json:"to"`
	TSvc     string `json:"tsvc"`
	Problem  string `json:"problem"`
}

type unreachDialArg struct {
	Socket string `json:"socket"` // local service of the dialling socket
	Node   string `json:"node"`   // dialled node
	Svc    string `json:"svc"`    // dialled service
}

type unreachArgs struct {
	Me      string             `json:"me"`
	Sockets []string           `json:"sockets"`
	Dials   []unreachDialArg   `json:"dials"`
	Notices []unreachNoticeArg `json:"notices"`
}

// unreachPC lets the harness know when monitorUnreachable has made its subscription.
type unreachPC struct {
	*PacketConn
	subscribed chan struct{}
}

func (u *unreachPC) SubscribeUnreachable(doneChan chan struct{}) chan UnreachableNotification {
	ch := u.PacketConn.SubscribeUnreachable(doneChan)
	close(u.subscribed)
	return ch
}

func unreachApply(op string, raw json.RawMessage) interface{} {
	var a unreachArgs
	if err := json.Unmarshal(raw, &a); err != nil {
		panic(err)
	}
	if op == "churn" {
		return unreachChurn(a)
	}
	if op == "localdial" {
		// a stream dial to a service of this very node that nobody listens on: the sender is local, so the "service
		// unknown" answer is the error returned by the send itself — the dial has to fail at once with it
		me := string(verifUnhex(a.Me))
		s, cancel := verifQuietNode(me, 30)
		defer cancel()
		target := me
		if len(a.Sockets) > 0 {
			target = string(verifUnhex(a.Sockets[0])) // the node name as written: own ID or a spelling of localhost
		}
		ctx, c := context.WithTimeout(context.Background(), 5*time.Second)
		defer c()
		t0 := time.Now()
		conn, err := s.DialContext(ctx, target, "nosuchsv", nil)
		el := time.Since(t0)
		if conn != nil {
			_ = conn.Close()
		}
		return map[string]interface{}{"failed": err != nil, "fast": el < 2*time.Second,
			"unknown": err != nil && strings.Contains(err.Error(), ProblemServiceUnknown)}
	}
	if op != "deliver" {
		panic("verif: unknown op " + op)
	}
	me := string(verifUnhex(a.Me))
	s, cancel := verifQuietNode(me, 30)
	defer cancel()
	type sock struct {
		pc   *PacketConn
		mu   sync.Mutex
		got  []map[string]interface{}
		done chan struct{}
		stop chan struct{}
	}
	socks := map[string]*sock{}
	for _, h := range a.Sockets {
		svc := string(verifUnhex(h))
		pcr, err := s.ListenPacket(svc)
		if err != nil {
			continue
		}
		sk := &sock{pc: pcr.(*PacketConn), done: make(chan struct{}), stop: make(chan struct{})}
		socks[svc] = sk
	}
	// pending dials first (their subscriptions must exist before the notices arrive)
	cancelled := make([]int32, len(a.Dials))
	dialDone := make([]chan struct{}, len(a.Dials))
	for i, d := range a.Dials {
		sk, ok := socks[string(verifUnhex(d.Socket))]
		if !ok {
			continue
		}
		i := i
		dialDone[i] = make(chan struct{}, 1)
		rAddr := s.NewAddr(string(verifUnhex(d.Node)), string(verifUnhex(d.Svc)))
		wpc := &unreachPC{PacketConn: sk.pc, subscribed: make(chan struct{})}
		go monitorUnreachable(wpc, dialDone[i], rAddr, func() { atomic.StoreInt32(&cancelled[i], 1) })
		<-wpc.subscribed
	}
	for svc, sk := range socks {
		svc, sk := svc, sk
		ch := sk.pc.SubscribeUnreachable(sk.stop)
		go func() {
			for n := range ch {
				if n.Problem == "__marker3__" {
					close(sk.done)
					return
				}
				if n.Problem == "__marker1__" || n.Problem == "__marker2__" {
					continue
				}
				sk.mu.Lock()
				sk.got = append(sk.got, map[string]interface{}{"n": noticeJSON(n.UnreachableMessage), "rfrom": verifHex([]byte(n.ReceivedFromNode))})
				sk.mu.Unlock()
			}
			_ = svc
		}()
	}
	rets := []string{}
	for _, n := range a.Notices {
		u := UnreachableMessage{FromNode: string(verifUnhex(n.From)), FromService: string(verifUnhex(n.FSvc)),
			ToNode: string(verifUnhex(n.To)), ToService: string(verifUnhex(n.TSvc)), Problem: n.Problem}
		data, _ := json.Marshal(u)
		md := &MessageData{FromNode: string(verifUnhex(n.Reporter)), FromService: "unreach", ToNode: me, ToService: "unreach", HopsToLive: 5, Data: data}
		rets = append(rets, pktRet(s.handleMessageData(md)))
	}
	for _, m := range []string{"__marker1__", "__marker2__", "__marker3__"} {
		for svc := range socks {
			u := UnreachableMessage{FromNode: me, FromService: svc, Problem: m}
			data, _ := json.Marshal(u)
			_ = s.handleMessageData(&MessageData{FromNode: me, FromService: "unreach", ToNode: me, ToService: "unreach", HopsToLive: 5, Data: data})
		}
	}
	for _, sk := range socks {
		select {
		case <-sk.done:
		case <-time.After(10 * time.Second):
			return map[string]interface{}{"err": "marker never arrived at a socket"}
		}
	}
	perSock := map[string]interface{}{}
	for svc, sk := range socks {
		sk.mu.Lock()
		l := sk.got
		if l == nil {
			l = []map[string]interface{}{}
		}
		perSock[verifHex([]byte(svc))] = l
		sk.mu.Unlock()
		close(sk.stop)
	}
	cs := []bool{}
	for i := range a.Dials {
		cs = append(cs, atomic.LoadInt32(&cancelled[i]) == 1)
		if dialDone[i] != nil {
			close(dialDone[i])
		}
	}
	return map[string]interface{}{"ok": map[string]interface{}{"sockets": perSock, "cancelled": cs, "rets": rets}}
}

// unreachChurn: unrelated sockets are closed while a notice is being fanned out (one subscriber is
// momentarily slow, which keeps the node-wide broker inside its delivery round).  Afterwards the
// sender must still get its notice, and the node must still be able to open sockets and deliver
// further notices.  Only liveness is observed, with generous deadlines.
func unreachChurn(a unreachArgs) interface{} {
	me := string(verifUnhex(a.Me))
	s, cancel := verifQuietNode(me, 30)
	defer cancel()
	notice := func(svc string, problem string) {
		u := UnreachableMessage{FromNode: me, FromService: svc, ToNode: "r1", ToService: "gone", Problem: problem}
		data, _ := json.Marshal(u)
		_ = s.handleMessageData(&MessageData{FromNode: "r1", FromService: "unreach", ToNode: me, ToService: "unreach", HopsToLive: 5, Data: data})
	}
	apc, err := s.ListenPacket("sender")
	if err != nil {
		return map[string]interface{}{"err": "listen"}
	}
	stop := make(chan struct{})
	defer close(stop)
	ach := apc.SubscribeUnreachable(stop)
	got := make(chan string, 64)
	go func() {
		first := true
		for n := range ach {
			if first {
				time.Sleep(60 * time.Millisecond) // the slow subscriber: the broker stays in its round meanwhile
				first = false
			}
			got <- n.Problem
		}
	}()
	var idle []PacketConner
	for i := 0; i < len(a.Sockets)+8; i++ {
		pc, err := s.ListenPacket("")
		if err == nil {
			idle = append(idle, pc)
		}
	}
	done := make(chan struct{})
	go func() {
		// the first notice parks the sender socket's forwarding goroutine behind its slow subscriber;
		// the following ones keep the node-wide broker inside delivery rounds, with a further publication always pending
		for k := 0; k < 12; k++ {
			notice("sender", "first")
		}
		close(done)
	}()
	time.Sleep(10 * time.Millisecond)
	var wg sync.WaitGroup
	for _, pc := range idle {
		wg.Add(1)
		go func(pc PacketConner) {
			defer wg.Done()
			_ = pc.Close()
		}(pc)
	}
	live := true
	wait := func(what string, ch <-chan struct{}) {
		if !live {
			return
		}
		select {
		case <-ch:
		case <-time.After(15 * time.Second):
			live = false
		}
		_ = what
	}
	closed := make(chan struct{})
	go func() { wg.Wait(); close(closed) }()
	wait("first notice published", done)
	wait("idle sockets closed", closed)
	expect := func(problem string) {
		if !live {
			return
		}
		select {
		case p := <-got:
			if p != problem {
				live = false
			}
		case <-time.After(15 * time.Second):
			live = false
		}
	}
	for k := 0; k < 12; k++ {
		expect("first")
	}
	if live {
		// the node must still work: a new socket can be opened and a further notice arrives
		opened := make(chan struct{})
		go func() {
			if pc, err := s.ListenPacket(""); err == nil {
				_ = pc.Close()
			}
			close(opened)
		}()
		wait("new socket", opened)
		second := make(chan struct{})
		go func() { notice("sender", "second"); close(second) }()
		wait("second notice published", second)
		if live {
			expect("second")
		}
	}
	return map[string]interface{}{"ok": map[string]interface{}{"live": live}}
}

func unreachGen(v *verifRun) {
	nodes := []string{"me", "Me", "r1", "r2", "me "}
	svcs := []string{"s1", "s2", "S1", "s1 ", "ephemerl"}
	problems := []string{ProblemServiceUnknown, ProblemExpiredInTransit, ProblemRejected, "something else"}
	hx := func(s string) string { return verifHex([]byte(s)) }
	for i := 0; i < v.n; i++ {
		a := unreachArgs{Me: hx("me")}
		for _, sv := range svcs {
			if v.rng.Intn(2) == 0 {
				a.Sockets = append(a.Sockets, hx(sv))
			}
		}
		if len(a.Sockets) == 0 {
			a.Sockets = []string{hx("s1")}
		}
		for k := v.rng.Intn(3); k > 0; k-- {
			a.Dials = append(a.Dials, unreachDialArg{Socket: a.Sockets[v.rng.Intn(len(a.Sockets))], Node: hx(nodes[2+v.rng.Intn(2)]), Svc: hx(svcs[v.rng.Intn(3)])})
		}
		for k := 1 + v.rng.Intn(4); k > 0; k-- {
			n := unreachNoticeArg{Reporter: hx(nodes[v.rng.Intn(len(nodes))]), From: hx(nodes[v.rng.Intn(len(nodes))]), FSvc: hx(svcs[v.rng.Intn(len(svcs))]),
				To: hx(nodes[2+v.rng.Intn(2)]), TSvc: hx(svcs[v.rng.Intn(3)]), Problem: problems[v.rng.Intn(len(problems))]}
			if v.rng.Intn(2) == 0 && len(a.Dials) > 0 { // a notice aimed at one of the pending dials
				d := a.Dials[v.rng.Intn(len(a.Dials))]
				n.From, n.FSvc, n.To, n.TSvc = hx("me"), d.Socket, d.Node, d.Svc
				if v.rng.Intn(3) != 0 {
					n.Problem = ProblemServiceUnknown
				}
			}
			a.Notices = append(a.Notices, n)
		}
		v.do(unreachApply, "deliver", a)
		if i%25 == 0 {
			v.do(unreachApply, "churn", unreachArgs{Me: hx("me"), Sockets: a.Sockets})
		}
	}
}

func unreachGenAll(v *verifRun) {
	unreachGen(v)
	for _, target := range []string{"me", "localhost"} {
		v.do(unreachApply, "localdial", unreachArgs{Me: verifHex([]byte("me")), Sockets: []string{verifHex([]byte(target))}})
	}
}

func TestVerifUnreach(t *testing.T) {
	v := verifOpen(t, "unreach")
	v.run(unreachApply, unreachGenAll)
}
