import Receptor.Drive.Util
import Receptor.Model.Lifecycle
import Receptor.Generated.Facts
namespace Receptor.Drive.Life
open Lean Receptor.Drive Receptor.Life

def getInt (j : Json) (k : String) : Except String Int := do (← j.getObjVal? k).getInt?

/-- does Cancel's final write leave a succeeded record alone?  (regenerated fact) -/
def keepSucceeded : Bool := Receptor.Facts.life_cancel_keeps_succeeded

def pairOf (j : Json) : Option (Nat × Nat) :=
  match j.getArr? with
  | .ok a => do
    let s ← (a[0]?.bind fun x => x.getNat?.toOption)
    let z ← (a[1]?.bind fun x => x.getInt?.toOption)
    pure (s, z.toNat)
  | _ => none

/-- the three statements of the property on a sequence of (state, size) -/
def checkSeq (what : String) (l : List (Nat × Nat)) : Option (String × String) := Id.run do
  let mut prev : Option (Nat × Nat) := none
  for (st, sz) in l do
    if let some (pst, psz) := prev then
      if stage st < stage pst then
        return some ("C13/state-went-back", s!"{what}: state {pst} was followed by state {st}")
      if pst == 2 && (st != 2 || sz != psz) then
        return some ("C13/succeeded-changed", s!"{what}: succeeded (size {psz}) was followed by state {st} (size {sz})")
      if pst == 1 && st == 1 && sz < psz then
        return some ("C13/size-shrank", s!"{what}: the output size went from {psz} to {sz} while running")
    prev := some (st, sz)
  return none

/-- the model's run of a scenario (one schedule of the many), giving the final record -/
def scenario (kind : String) (n m : Nat) (sawSucceeded : Bool) : Option (Nat × Nat) :=
  let pre : List Ev := [.dPending, .dPending, .dPending, .dLaunch, .rInit, .output n, .rTick]
  match kind with
  | "success" => some (let s := run keepSucceeded {} (pre ++ [.output m, .rTick, .cmdExit true, .rFinal, .cancel]); (s.state, s.size))
  | "fail" => some (let s := run keepSucceeded {} (pre ++ [.output m, .rTick, .cmdExit false, .rFinal, .cancel]); (s.state, s.size))
  | "cancel" => some (let s := run keepSucceeded {} (pre ++ [.cancel, .rKilled, .dCancelWrite, .cancel]); (s.state, s.size))
  | "finishline" =>
    if sawSucceeded then
      some (let s := run keepSucceeded {} (pre ++ [.rTick, .cmdExit true, .cancel, .rFinal, .dCancelWrite]); (s.state, s.size))
    else none   -- the cancel came before the command's exit (timing): any final record of a killed unit
  | "inproc" | "stuckdir" | "racedir" => some (2, 0)
  | _ => none

def handle (op : String) (a r : Json) : Except String Reply := do
  match op with
  | "units" =>
    if (getBool r "hook").toOption != some true then
      throw "harness error: no status rewrite was reported (the instrumentation of workunitbase.go did not apply or the log is missing)"
    let units ← getArr a "units"
    let impl := (getArr r "units").toOption.getD []
    let mut ms : List Json := []
    let mut bad : Option (String × String) := none
    let mut i := 0
    for u in units do
      let kind ← getStr u "kind"
      let n ← getNat u "n"
      let m ← getNat u "m"
      let o := (impl[i]?).getD Json.null
      let trace := ((getArr o "trace").toOption.getD []).filterMap pairOf
      let polled := ((getArr o "polled").toOption.getD []).filterMap pairOf
      let sawSucc := trace.any fun p => p.1 == 2
      let implFinal := (optField o "final").getD Json.null
      let final : Json := match scenario kind n m sawSucc with
        | some (st, sz) => jArr [jNat st, jNat sz]
        | none => implFinal
      let ids := (getNat o "ids").toOption.getD 0
      let mo := jObj [("kind", Json.str kind), ("err", Json.str ""),
                      ("final", if kind == "burst" then jArr [jNat 0, jNat 0] else final),
                      ("trace", (optField o "trace").getD (jArr [])), ("polled", (optField o "polled").getD (jArr [])),
                      ("pid_gone", Json.bool (kind == "cancel")), ("known_after", Json.bool false), ("dir_after", Json.bool false),
                      ("ids", jNat (if kind == "burst" then n else 0)), ("distinct", jNat (if kind == "burst" then n else 0))]
      ms := ms ++ [mo]
      if bad.isNone then
        let err := (getStr o "err").toOption.getD "?"
        let known := (getBool o "known_after").toOption.getD true
        let dir := (getBool o "dir_after").toOption.getD true
        let gone := (getBool o "pid_gone").toOption.getD false
        let distinct := (getNat o "distinct").toOption.getD 0
        bad := (checkSeq s!"stored record of a '{kind}' unit" trace) <|> (checkSeq s!"state reported for a '{kind}' unit" polled)
        if bad.isNone then
          if kind == "burst" && distinct != ids then bad := some ("C13/duplicate-id", s!"{ids} concurrent submissions got {distinct} distinct unit IDs")
          else if kind != "burst" && (known || dir) then bad := some ("C13/released-unit-still-there", s!"after a successful release of a '{kind}' unit it is still known ({known}) or its directory still exists ({dir})")
          else if kind == "cancel" && !gone then bad := some ("C13/cancel-left-process", "after cancel the unit's process still exists")
          else if err != "" then bad := some ("C13/operation-failed", s!"'{kind}' unit: {err}")
      i := i + 1
    let mj := jObj [("units", jArr ms), ("hook", Json.bool true), ("nontrivial", Json.bool true)]
    match bad with
    | some (sig, why) => pure { m := mj, prop := some false, why := why, sig := sig }
    | none => pure { m := mj, prop := some true }
  | _ => throw s!"bad-op life {op}"

end Receptor.Drive.Life
