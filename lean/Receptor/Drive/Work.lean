import Receptor.Drive.Util
import Receptor.Model.Work
import Receptor.Model.WorkNode
import Receptor.Generated.Facts
namespace Receptor.Drive.Work
open Lean Receptor.Drive Receptor.Work

def checkFirstFact : Bool := Receptor.Facts.redact_alloc_order = "secrets-test,refuse-without-tls,AllocateUnit"
def gateFirstFact : Bool :=
  Receptor.Facts.sig_arms = "submit:gate<AllocateUnit,AllocateRemoteUnit;cancel,release,force-release:findUnit<gate<Cancel,Release;results:findUnit<gate<GetResults"

def getParams (a : Json) : Except String Params := do
  (← getArr a "params").mapM fun kv => do
    match ← kv.getArr? with
    | #[k, v] =>
      match fromHex (← k.getStr?), fromHex (← v.getStr?) with
      | some kb, some vb => pure (kb, vb)
      | _, _ => throw "bad hex"
    | _ => throw "bad pair"

def sortPairs (l : Params) : Params := (l.toArray.qsort fun a b => toHex a.1 < toHex b.1).toList

def redactHandle (op : String) (a r : Json) : Except String Reply := do
  match op with
  | "submit" =>
    let ps ← getParams a
    let tls := ((getStr a "tls").toOption.getD "").toUTF8.toList.map (·.toNat)
    let outOf (checkFirst : Bool) : Json :=
      match allocateRemote checkFirst tls ps with
      | (.refused, wrote) => jObj [("refused", jObj [("units", jNat 0), ("dirs", jNat (if wrote then 1 else 0)), ("secrets_error", Json.bool true)])]
      | (.stored st, _) =>
        jObj [("ok", jObj [("reported_set", jArr ((sortPairs (redact st)).map fun e => jArr [jHex e.1, jHex e.2])), ("leak", Json.bool false)])]
    let m := outOf checkFirstFact
    let spec := outOf true
    let holds := canonEq r spec
    let leak := ((r.getObjVal? "ok").bind fun o => getBool o "leak").toOption.getD false
    pure { m := m, prop := some holds,
           why := if holds then "" else (if leak then "a secret value appears in a status/list response"
                  else "parameters reported by status/list, or the refusal of secrets without TLS, differ from the specification"),
           sig := if holds then "" else (if leak then "C19/secret-value-disclosed"
                  else if (optField r "refused").isSome || (optField spec "refused").isSome then "C19/refusal-of-secrets-without-tls"
                  else "C19/reported-parameters-differ") }
  | "history" =>
    let steps ← getArr a "steps"
    let ops ← steps.mapM fun st => do
      let kind ← getStr st "kind"
      let unit := (getNat st "unit").toOption.getD 0
      let remote : TypeCfg := { isRemote := true, signWork := false, registered := true, verify := false }
      let noTok : Token := { present := false, valid := false }
      match kind with
      | "submit" =>
        let ps ← getParams st
        let tls := ((getStr st "tls").toOption.getD "").toUTF8.toList.map (·.toNat)
        pure (WorkNode.Op.cmd { sub := .submit, cfg := remote, params := ps, tls := tls, conn := .unix, tok := noTok })
      | "restart" => pure WorkNode.Op.restart
      | "status" => pure (WorkNode.Op.cmd { sub := .status, target := unit, conn := .other, tok := noTok })
      | "list" => pure (WorkNode.Op.cmd { sub := .list, conn := .other, tok := noTok })
      | "cancel" => pure (WorkNode.Op.cmd { sub := .cancel, target := unit, conn := .other, tok := noTok })
      | "release" => pure (WorkNode.Op.cmd { sub := .release, target := unit, conn := .other, tok := noTok })
      | "force-release" => pure (WorkNode.Op.cmd { sub := .forceRelease, target := unit, conn := .other, tok := noTok })
      | k => throw s!"bad step {k}"
    let outs := (WorkNode.run {} ops).2
    let outJ (o : WorkNode.Out) : Json :=
      match o with
      | .done => jObj [("k", Json.str "done")]
      | .refused _ => jObj [("k", Json.str "refused")]
      | .refusedSecrets => jObj [("k", Json.str "refusedSecrets")]
      | .notFound => jObj [("k", Json.str "notFound")]
      | .restarted => jObj [("k", Json.str "restarted")]
      | .shown l => jObj [("k", Json.str "shown"),
          ("l", jArr (l.map fun q => jArr [jNat q.1, jArr ((sortPairs q.2).map fun e => jArr [jHex e.1, jHex e.2])]))]
    let m := jObj [("outs", jArr (outs.map outJ)), ("leak", Json.bool false)]
    let holds := canonEq r m
    let leak := (getBool r "leak").toOption.getD false
    pure { m := m, prop := some holds,
           why := if holds then "" else (if leak then "a secret value appears in a response of the history"
                  else "what the history's commands reported differs from the specification (expected " ++ m.compress ++ ")"),
           sig := if holds then "" else (if leak then "C19/secret-value-disclosed" else "C19/history-differs-from-spec") }
  | _ => throw s!"bad-op redact {op}"

def subOf : String → Sub
  | "submit" => .submit | "cancel" => .cancel | "release" => .release | "force-release" => .forceRelease
  | "results" => .results | "status" => .status | _ => .list

def sigHandle (op : String) (a r : Json) : Except String Reply := do
  match op with
  | "command" =>
    let sub := subOf (← getStr a "sub")
    let conn := if (← getStr a "conn") == "unix" then Conn.unix else Conn.other
    let wt ← getStr a "worktype"
    let tokc ← getStr a "token"
    let key ← getBool a "keyset"
    let tok : Token := { present := !(tokc == "absent" || tokc == "empty"),
                         valid := tokc == "valid" || tokc == "valid-rs256" || tokc == "no-expiry" }
    let t : TypeCfg := match wt with
      | "verifying" => { isRemote := false, signWork := false, registered := true, verify := true }
      | "plain" => { isRemote := false, signWork := false, registered := true, verify := false }
      | "remote-signed" => { isRemote := true, signWork := true, registered := true, verify := false }
      | "remote-unsigned" => { isRemote := true, signWork := false, registered := true, verify := false }
      | _ => { isRemote := false, signWork := false, registered := false, verify := false }
    let found := wt == "verifying" || wt == "plain" || wt == "remote-signed" || wt == "remote-unsigned"
    let isRemote := wt == "remote-signed" || wt == "remote-unsigned"
    let obsOf (gateFirst : Bool) : Json :=
      let resp := dispatch gateFirst sub found t conn tok key
      let base (created removed started cancelled read refused : Bool) (why : Option String) (state : String) : Json :=
        jObj ([("created", Json.bool created), ("removed", Json.bool removed), ("started", Json.bool started),
               ("cancelled", Json.bool cancelled), ("read", Json.bool read), ("refused", Json.bool refused), ("state", Json.str state)]
              ++ (match why with | some w => [("why", Json.str w)] | none => []))
      -- the state a unit is in before / after (local stub units finish at once; remote ones stay pending)
      let st0 := if sub == .submit then "" else if !found then "" else if isRemote then "Pending" else "Succeeded"
      jObj [("ok", match resp with
        | .info => (if sub == .list && !found then base false false false false false true (some "notfound") "" else base false false false false false false none st0)
        | .notFound => base false false false false false true (some "notfound") ""
        | .refused .refuseUnexpected => base false false false false false true (some "unexpected") st0
        | .refused _ => base false false false false false true (some "invalid") st0
        | .effect =>
          match sub with
          | .submit =>
            if !found then base false false false false false true (some "unknowntype") ""
            else if isRemote then base true false false false false false none ""
            else base true false true false false false none ""
          | .cancel => if isRemote then base false false false false false false none "Failed" else base false false false true false false none st0
          | .release | .forceRelease => base false true false false false false none ""
          | .results => base false false false false true false none st0
          | _ => base false false false false false false none st0)]
    let m := obsOf gateFirstFact
    let spec := obsOf true
    let holds := canonEq r spec
    let g := gate t conn tok key
    let tookEffect := (do
      let o ← r.getObjVal? "ok"
      pure ((← getBool o "created") || (← getBool o "removed") || (← getBool o "cancelled") || (← getBool o "read") || (← getBool o "started")
            || (sub == Sub.cancel && (← getStr o "state") == "Failed"))).toOption.getD false
    let bypass := tookEffect && gated sub && g != .pass
    pure { m := m, prop := some holds,
           why := if holds then "" else (if bypass then "a gated command took effect although the signature gate must refuse it"
                  else "outcome of the command differs from the specification (expected " ++ spec.compress ++ ")"),
           sig := if holds then "" else (if bypass then "C15/effect-without-valid-token" else "C15/outcome-differs-from-spec") }
  | "replay" =>
    if let some e := optField r "err" then throw s!"harness error: {e.compress}"
    let first := subOf (← getStr a "first")
    let second := subOf (← getStr a "second")
    let conn := if (← getStr a "conn") == "unix" then Conn.unix else Conn.other
    let t : TypeCfg := { isRemote := false, signWork := false, registered := true, verify := true }
    let o ← r.getObjVal? "ok"
    let inTime := (getBool o "first_in_time").toOption.getD false
    if !inTime then
      pure { m := jObj [("unmodelled", Json.str "the harness was too slow: the token had expired before its first use")], prop := none, why := "", sig := "" }
    else
    let took (x : Json) : Bool := (do
      pure ((← getBool x "created") || (← getBool x "removed") || (← getBool x "cancelled") || (← getBool x "read") || (← getBool x "started"))).toOption.getD false
    let refusedInvalid (x : Json) : Bool := (getBool x "refused").toOption.getD false && (getStr x "why").toOption.getD "" == "invalid"
    let f ← o.getObjVal? "first"
    let s2 ← o.getObjVal? "second"
    -- the model: the same gate, asked twice — with the verdict of the oracle at each moment
    let d1 := dispatch gateFirstFact first true t conn { present := true, valid := true } true
    let d2 := dispatch gateFirstFact second true t conn { present := true, valid := false } true
    let obs := jObj [("first_effect", Json.bool (took f)), ("second_effect", Json.bool (took s2)), ("second_refused_invalid", Json.bool (refusedInvalid s2))]
    let m := jObj [("first_effect", Json.bool (d1 == .effect)), ("second_effect", Json.bool (d2 == .effect)),
                   ("second_refused_invalid", Json.bool (d2 == .refused .refuseInvalid))]
    let spec := jObj [("first_effect", Json.bool true), ("second_effect", Json.bool false), ("second_refused_invalid", Json.bool true)]
    let holds := canonEq obs spec
    let bypass := took s2
    pure { m := if canonEq obs m then r else m, prop := some holds,
           why := if holds then "" else (if bypass then "a token that was valid when first used was accepted again after it had expired: the command took effect"
                  else "the outcome of a command with a valid token, then of a command with the same token after its expiry, differs from the specification"),
           sig := if holds then "" else (if bypass then "C15/effect-without-valid-token" else "C15/outcome-differs-from-spec") }
  | _ => throw s!"bad-op sig {op}"

end Receptor.Drive.Work
