import Receptor.Drive.Util
import Receptor.Model.Flood
import Receptor.Generated.Facts
namespace Receptor.Drive.Flood
open Lean Receptor.Drive Receptor.Flood

def staleOfFacts : StaleRule :=
  { olderEpochDrops := Receptor.Facts.route_stale_epoch = "ri.UpdateEpoch < ni.Epoch",
    sameEpochLeDrops := Receptor.Facts.route_stale_seq = "ri.UpdateEpoch == ni.Epoch && ri.UpdateSequence <= ni.Sequence",
    dedupFirst := Receptor.Facts.route_dedup_first,
    excludeReceiver := Receptor.Facts.route_relay_call = "s.flood(message, recvConn)" }

def getKMapNat (j : Json) : Except String (KMap Nat) := do
  let o ← j.getObj?
  o.toList.mapM fun (k, v) => do
    match fromHex k with
    | some b => pure (b, ← v.getNat?)
    | none => throw "bad hex key"

def kmapNatJson (m : KMap Nat) : Json := jObj (m.map fun e => (toHex e.1, jNat e.2))

def getUpdate (j : Json) : Except String Update := do
  let conns ← match ← j.getObjVal? "conns" with
    | Json.null => pure none
    | c => do pure (some (← getKMapNat c))
  pure { nodeID := ← getHex j "node", updateID := ← getHex j "id", epoch := ← getNat j "epoch", seq := ← getNat j "seq",
         conns := conns, forwardingNode := ← getHex j "fwd", suspectedDuplicate := ← getNat j "susp" }

def updateJson (u : Update) : Json :=
  jObj [("node", jHex u.nodeID), ("id", jHex u.updateID), ("epoch", jNat u.epoch), ("seq", jNat u.seq),
        ("conns", match u.conns with | none => Json.null | some c => kmapNatJson c),
        ("fwd", jHex u.forwardingNode), ("susp", jNat u.suspectedDuplicate)]

def getNode (j : Json) : Except String NodeState := do
  let info ← (← (← j.getObjVal? "info").getObj?).toList.mapM fun (k, v) => do
    match fromHex k, ← v.getArr? with
    | some b, #[e, q] => pure (b, ((← e.getNat?), (← q.getNat?)))
    | _, _ => throw "bad info"
  let known ← (← (← j.getObjVal? "known").getObj?).toList.mapM fun (k, v) => do
    match fromHex k with
    | some b => pure (b, ← getKMapNat v)
    | none => throw "bad known"
  pure { id := ← getHex j "id", epoch := ← getNat j "epoch", seq := 0, conns := ← getKMapNat (← j.getObjVal? "conns"),
         info := info, known := known, seen := ← getHexList j "seen" }

def fresh : UpdateID := "fresh".toUTF8.toList.map (·.toNat)

def obsJson (s : NodeState) (acts : List Action) : Json :=
  let sent := acts.filterMap fun a => match a with
    | .send to u => some (jObj [("to", jHex to), ("u", updateJson u)])
    | _ => none
  jObj [("sent_set", jArr sent),
        ("info", jObj (s.info.map fun e => (toHex e.1, jArr [jNat e.2.1, jNat e.2.2]))),
        ("known", jObj (s.known.map fun e => (toHex e.1, kmapNatJson e.2))),
        ("seen_set", jArr (s.seen.map jHex)),
        ("conns", kmapNatJson s.conns),
        ("seq", jNat s.seq),
        ("reqflood", jNat (acts.filter (· == .reqFlood)).length),
        ("reqtable", jNat (acts.filter (· == .reqTable)).length),
        ("shutdown", Json.bool s.shutdown)]

inductive StepIn where
  | update (u : Update) (recv : Node)
  | remove (peer : Node)
  | originate

def getStep (j : Json) : Except String StepIn := do
  match ← getStr j "k" with
  | "update" => pure (.update (← getUpdate (← j.getObjVal? "u")) ((getHex j "recv").toOption.getD []))
  | "remove" => pure (.remove ((getHex j "peer").toOption.getD []))
  | "originate" => pure .originate
  | k => throw s!"bad step {k}"

def runSteps (R : StaleRule) : NodeState → List StepIn → List Json
  | _, [] => []
  | s, st :: rest =>
    let (s', acts) := match st with
      | .update u recv => step R s u recv fresh
      | .remove p => (removeConnection s p, [])
      | .originate => originate s fresh 0
    obsJson s' acts :: (if s'.shutdown then [] else runSteps R s' rest)

/-! property predicates evaluated on the implementation's observations -/

def lexLeJ (a b : Json) : Bool :=
  (do
    let x ← a.getArr?; let y ← b.getArr?
    let e1 ← x[0]!.getNat?; let q1 ← x[1]!.getNat?; let e2 ← y[0]!.getNat?; let q2 ← y[1]!.getNat?
    pure (lexLe (e1, q1) (e2, q2))).toOption.getD false

/-- relays (messages about another origin) in one observation: (to, update id) -/
def relaysIn (self : Node) (o : Json) : List (String × String) :=
  ((getArr o "sent_set").toOption.getD []).filterMap fun m =>
    (do
      let u ← m.getObjVal? "u"
      let n ← getStr u "node"
      if n == toHex self then throw "own" else pure ((← getStr m "to"), (← getStr u "id"))).toOption

def checkHistory (self : Node) (start : Json) (steps : List StepIn) (obs : List Json) : Option (String × String) := Id.run do
  let mut prevInfo := start
  let mut relayed : List String := []
  for (st, o) in steps.zip obs do
    let info := (o.getObjVal? "info").toOption.getD Json.null
    let rel := relaysIn self o
    match st with
    | .update u recv =>
      -- never back to the neighbour it came from
      if u.nodeID != self && rel.any (fun r => r.1 == toHex recv) then
        return some ("C06/relay-to-sender", "an update was relayed back to the neighbour it came from")
      -- at most one relaying step per update ID
      let ids := (rel.map (·.2)).eraseDups
      for i in ids do
        if relayed.contains i then
          return some ("C06/relayed-twice", s!"update {i} relayed in two different steps")
      relayed := relayed ++ ids
      -- stamps never regress for genuine updates
      if u.suspectedDuplicate == 0 then
        match prevInfo.getObj? with
        | .ok po =>
          for (k, v) in po.toList do
            match info.getObjVal? k with
            | .ok nv => if !(lexLeJ v nv) then return some ("C06/stamp-regressed", s!"recorded (epoch, sequence) of {k} moved backwards")
            | .error _ => return some ("C06/stamp-regressed", s!"recorded stamp of {k} disappeared")
        | .error _ => pure ()
    | _ => pure ()
    prevInfo := info
  return none

def handle (op : String) (a r : Json) : Except String Reply := do
  match op with
  | "run" =>
    let nodeJ ← a.getObjVal? "node"
    let s ← getNode nodeJ
    let steps ← (← getArr a "steps").mapM getStep
    let m := jObj [("ok", jArr (runSteps staleOfFacts s steps)), ("nontrivial", Json.bool true)]
    let obs := (getArr r "ok").toOption.getD []
    -- also: the whole history must be the specification's (standard rule)
    let spec := jObj [("ok", jArr (runSteps stdStale s steps)), ("nontrivial", Json.bool true)]
    match checkHistory s.id ((nodeJ.getObjVal? "info").toOption.getD Json.null) steps obs with
    | some (sig, why) => pure { m := m, prop := some false, why := why, sig := sig }
    | none =>
      let okSpec := Receptor.Drive.canonEq r spec
      pure { m := m, prop := some okSpec,
             why := if okSpec then "" else "state/messages after this history of updates differ from the specification's",
             sig := if okSpec then "" else "C06/history-differs-from-spec" }
  | "burst" =>
    -- every trial is some order of `copies` steps with one update: relayed in exactly one of them
    -- (relay_at_most_once; the first step relays) — provided test-and-insert of the seen table is one critical section
    let trials ← getNat a "trials"
    let spec := jObj [("trials", jNat trials), ("twice", jNat 0), ("never", jNat 0)]
    let m := if Receptor.Facts.route_seen_atomic then spec
             else jObj [("unmodelled", Json.str "the seen table is tested and filled in two critical sections: deliveries of one update interleave inside a step")]
    let holds := canonEq r spec
    let twice := (getNat r "twice").toOption.getD 0
    pure { m := m, prop := some holds,
           why := if holds then "" else (if twice > 0 then s!"{twice} of {trials} updates that arrived over several connections at the same instant were relayed more than once to the same neighbour"
                  else "an update that arrived over several connections at the same instant was not relayed at all, or the node wedged"),
           sig := if holds then "" else (if twice > 0 then "C06/burst/relayed-more-than-once" else "C06/burst/not-relayed") }
  | _ => throw s!"bad-op flood {op}"

end Receptor.Drive.Flood
