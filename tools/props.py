"""Per-property configuration of the runner (tools/check.py)."""

GO_TRUST = ["Go toolchain/runtime semantics as exercised by the harness"]

PROPS = {
    "C20": dict(
        lean_props="Receptor.Props.C20",
        engines=[dict(engine="der", pkg="pkg/utils", test="TestVerifDER", n_quick=400, n_thorough=4000)],
        corr_ops={"der": ["san", "names"]},
        facts=["der_strip"],
        trusted=["encoding/asn1 Marshal/Unmarshal for the subset used (modelled byte-exactly, validated by the der engine)",
                 "crypto/x509 copying the SAN extension from request to certificate (exercised by the cert engine, not modelled)"],
        assumptions=["extension shorter than 2^31 bytes (Go's own DER length limit)",
                     "string types other than UTF8String in foreign certificates are reported as unmodelled, not compared"],
    ),
}
