import Receptor.Model.StreamEnd
/-! Helper lemmas for the stream end points (C03). -/
namespace Receptor.StreamEnd
open Receptor.Bridge

theorem delivers_eofOnly : Delivers eofOnly [] := by
  refine ⟨rfl, rfl, ?_⟩
  intro r hr
  simp only [eofOnly, List.mem_singleton] at hr
  subst hr
  exact Or.inr rfl

theorem delivers_nonempty {rs : List ReadRes} {w : Bytes} (h : Delivers rs w) : rs ≠ [] := by
  intro he
  subst he
  have := h.2.1
  simp [hasErr] at this

theorem delivers_cons {c : ReadRes} {rest : List ReadRes} {w : Bytes} (h : Delivers (c :: rest) w) :
    (c.err = true → w = c.data) ∧
    (c.err = false → c.data ≠ [] ∧ ∃ w', w = c.data ++ w' ∧ Delivers rest w') := by
  obtain ⟨h1, h2, h3⟩ := h
  constructor
  · intro he
    simp only [upToFirstErr, he, if_true] at h1
    exact h1.symm
  · intro he
    have hc := h3 c (List.mem_cons_self ..)
    refine ⟨?_, upToFirstErr rest, ?_, ?_, ?_, ?_⟩
    · cases hc with
      | inl h => exact h
      | inr h => rw [he] at h; cases h
    · simp only [upToFirstErr, he, Bool.false_eq_true, if_false] at h1
      exact h1.symm
    · rfl
    · simpa [hasErr, he] using h2
    · intro r hr
      exact h3 r (List.mem_cons_of_mem _ hr)

/-- one read with a buffer of at least one byte on a faithful stream: it does not block, returns at most
`k` bytes, these are the next bytes of the stream, and what is left is a faithful stream of the rest -/
theorem readK_step (k : Nat) (hk : 1 ≤ k) {rs : List ReadRes} {w : Bytes} (h : Delivers rs w) :
    ∃ r rest, readK k rs = some (r, rest) ∧ r.data.length ≤ k ∧
      (r.err = true → r.data = w ∧ rest = eofOnly) ∧
      (r.err = false → r.data ≠ [] ∧ ∃ w', w = r.data ++ w' ∧ Delivers rest w') := by
  cases rs with
  | nil => exact absurd rfl (delivers_nonempty h)
  | cons c rest0 =>
    obtain ⟨hE, hN⟩ := delivers_cons h
    by_cases hl : c.data.length ≤ k
    · refine ⟨c, if c.err then eofOnly else rest0, by simp [readK, hl], hl, ?_, ?_⟩
      · intro he
        exact ⟨(hE he).symm, by simp [he]⟩
      · intro he
        obtain ⟨hne, w', hw, hd⟩ := hN he
        exact ⟨hne, w', hw, by simpa [he] using hd⟩
    · have hgt : k < c.data.length := Nat.lt_of_not_le hl
      refine ⟨⟨c.data.take k, false⟩, ⟨c.data.drop k, c.err⟩ :: rest0, by simp [readK, hl], ?_, ?_, ?_⟩
      · simp only [List.length_take]; omega
      · intro he; cases he
      · intro _
        refine ⟨?_, ?_⟩
        · intro he
          have he' : c.data.take k = [] := he
          have : (c.data.take k).length = 0 := by rw [he']; rfl
          simp only [List.length_take] at this
          omega
        · have hdrop : c.data.drop k ≠ [] := by
            intro he
            have : (c.data.drop k).length = 0 := by rw [he]; rfl
            simp only [List.length_drop] at this
            omega
          cases hce : c.err with
          | true =>
            refine ⟨c.data.drop k, ?_, ?_, ?_, ?_⟩
            · rw [hE hce]; exact (List.take_append_drop k c.data).symm
            · simp [upToFirstErr]
            · simp [hasErr]
            · intro r hr
              simp only [List.mem_cons] at hr
              cases hr with
              | inl h1 => subst h1; exact Or.inl hdrop
              | inr h1 => exact h.2.2 r (List.mem_cons_of_mem _ h1)
          | false =>
            obtain ⟨_, w', hw, hd⟩ := hN hce
            refine ⟨c.data.drop k ++ w', ?_, ?_, ?_, ?_⟩
            · rw [hw, ← List.append_assoc, List.take_append_drop]
            · simp [upToFirstErr, hd.1]
            · simpa [hasErr] using hd.2.1
            · intro r hr
              simp only [List.mem_cons] at hr
              cases hr with
              | inl h1 => subst h1; exact Or.inl hdrop
              | inr h1 => exact hd.2.2 r h1

/-- any sequence of reads with buffers of at least one byte returns consecutive slices of the stream;
once a read reports the end, everything has been returned; and `|w| + 1` reads are always enough -/
theorem readMany_slices : ∀ (ks : List Nat) (rs : List ReadRes) (w : Bytes), (∀ k ∈ ks, 1 ≤ k) → Delivers rs w →
    (∃ tail, w = (readMany ks rs).flatMap (·.data) ++ tail) ∧
    (hasErr (readMany ks rs) = true → (readMany ks rs).flatMap (·.data) = w) ∧
    (w.length + 1 ≤ ks.length → hasErr (readMany ks rs) = true) := by
  intro ks
  induction ks with
  | nil =>
    intro rs w _ _
    refine ⟨⟨w, by simp [readMany]⟩, ?_, ?_⟩
    · intro h; simp [readMany, hasErr] at h
    · intro h; simp at h
  | cons k ks ih =>
    intro rs w hks hd
    obtain ⟨r, rest, hr, _, hE, hN⟩ := readK_step k (hks k (List.mem_cons_self ..)) hd
    cases hre : r.err with
    | true =>
      have hout : readMany (k :: ks) rs = [r] := by simp [readMany, hr, hre]
      rw [hout]
      refine ⟨⟨[], by simp [(hE hre).1]⟩, ?_, ?_⟩
      · intro _; simp [(hE hre).1]
      · intro _; simp [hasErr, hre]
    | false =>
      have hout : readMany (k :: ks) rs = r :: readMany ks rest := by simp [readMany, hr, hre]
      rw [hout]
      obtain ⟨hne, w', hw, hd'⟩ := hN hre
      obtain ⟨⟨tail, ht⟩, h2, h3⟩ := ih rest w' (fun k' hk' => hks k' (List.mem_cons_of_mem _ hk')) hd'
      refine ⟨⟨tail, ?_⟩, ?_, ?_⟩
      · simp only [List.flatMap_cons, List.append_assoc]
        rw [← ht, hw]
      · intro he
        have he' : hasErr (readMany ks rest) = true := by simpa [hasErr, hre] using he
        simp only [List.flatMap_cons]
        rw [h2 he', hw]
      · intro hlen
        have hpos : 0 < r.data.length := List.length_pos_iff.mpr hne
        have : w'.length + 1 ≤ ks.length := by
          have : w.length = r.data.length + w'.length := by rw [hw, List.length_append]
          simp only [List.length_cons] at hlen
          omega
        simpa [hasErr, hre] using h3 this

end Receptor.StreamEnd
