package workceptor

// C19 (redaction, refusal of secrets without TLS) and C15 (signature gate) harness: a real Workceptor
// on a temporary data directory with a stub Netceptor; commands go through the real
// workceptorCommandType.InitFromJSON / ControlFunc with a stub control connection.

import (
	"context"
	"crypto/rand"
	"crypto/rsa"
	"crypto/tls"
	"crypto/x509"
	"encoding/json"
	"encoding/pem"
	"fmt"
	"io"
	"net"
	"os"
	"path"
	"sort"
	"strings"
	"sync"
	"testing"
	"time"

	"github.com/ansible/receptor/pkg/controlsvc"
	"github.com/ansible/receptor/pkg/logger"
	"github.com/ansible/receptor/pkg/netceptor"
	"github.com/golang-jwt/jwt/v4"
)

// ---- stubs

type verifNC struct {
	id     string
	lg     *logger.ReceptorLogger
	mu     sync.Mutex
	dials  int
	tlsOK  map[string]bool
}

func (n *verifNC) NodeID() string { return n.id }
func (n *verifNC) AddWorkCommand(string, bool) error { return nil }
func (n *verifNC) GetClientTLSConfig(name string, _ string, _ netceptor.ExpectedHostnameType) (*tls.Config, error) {
	if name == "" {
		return nil, nil
	}
	if n.tlsOK[name] {
		return &tls.Config{MinVersion: tls.VersionTLS12}, nil
	}
	return nil, fmt.Errorf("unknown TLS config %s", name)
}
func (n *verifNC) GetLogger() *logger.ReceptorLogger { return n.lg }
func (n *verifNC) DialContext(context.Context, string, string, *tls.Config) (*netceptor.Conn, error) {
	n.mu.Lock()
	n.dials++
	n.mu.Unlock()
	return nil, fmt.Errorf("verif: remote node unreachable")
}

type verifDiscardW struct{}

func (verifDiscardW) Write(p []byte) (int, error) { return len(p), nil }

type verifAddr struct{ network string }

func (a verifAddr) Network() string { return a.network }
func (a verifAddr) String() string  { return "verif-client" }

// verifCFO is the control connection as ControlFunc sees it.
type verifCFO struct {
	network string
	stdin   string
	// a client that is slow with its stdin: `entered` is closed when the command starts to read it, the read
	// returns once `hold` is closed
	entered chan struct{}
	hold    chan struct{}
	mu      sync.Mutex
	written []byte
	closed  bool
}

func (c *verifCFO) BridgeConn(string, io.ReadWriteCloser, string, *logger.ReceptorLogger, controlsvc.Utiler) error {
	return nil
}
func (c *verifCFO) ReadFromConn(_ string, out io.Writer, _ controlsvc.Copier) error {
	if c.entered != nil {
		close(c.entered)
	}
	if c.hold != nil {
		<-c.hold
	}
	_, err := out.Write([]byte(c.stdin))
	return err
}
func (c *verifCFO) WriteToConn(_ string, in chan []byte) error {
	for b := range in {
		c.mu.Lock()
		c.written = append(c.written, b...)
		c.mu.Unlock()
	}
	return nil
}
func (c *verifCFO) Close() error         { c.closed = true; return nil }
func (c *verifCFO) RemoteAddr() net.Addr { return verifAddr{network: c.network} }

// a work type whose units do nothing (like unknownUnit, but known): Start/Cancel are no-ops that count
type verifUnit struct {
	BaseWorkUnit
	started, cancelled *int32
}

var verifStarted, verifCancelled int

func (u *verifUnit) Start() error   { verifStarted++; u.UpdateBasicStatus(WorkStateSucceeded, "done", 0); return nil }
func (u *verifUnit) Restart() error {
	// like a command unit: a unit that never started is failed at restart
	if err := u.Load(); err != nil {
		return err
	}
	if st := u.Status().State; st == WorkStatePending {
		u.UpdateBasicStatus(WorkStateFailed, "Pending at restart", 0)
	}
	return nil
}
func (u *verifUnit) Cancel() error  { verifCancelled++; return nil }

func verifNewUnit(_ BaseWorkUnitForWorkUnit, w *Workceptor, unitID string, workType string) WorkUnit {
	u := &verifUnit{}
	u.BaseWorkUnit.Init(w, unitID, workType, FileSystem{}, nil)
	return u
}

type verifWorld struct {
	dir    string
	nc     *verifNC
	w      *Workceptor
	cancel context.CancelFunc
}

func verifNewWorld(dir string) *verifWorld {
	lg := logger.NewReceptorLogger("")
	lg.SetOutput(verifDiscardW{})
	nc := &verifNC{id: "verif-node", lg: lg, tlsOK: map[string]bool{"tlsclient": true}}
	ctx, cancel := context.WithCancel(context.Background())
	w, err := New(ctx, nc, dir)
	if err != nil {
		panic(err)
	}
	MainInstance = w
	return &verifWorld{dir: dir, nc: nc, w: w, cancel: cancel}
}

func (vw *verifWorld) close() { vw.cancel() }

func (vw *verifWorld) command(cfg map[string]interface{}, network string, stdin string) (map[string]interface{}, error, *verifCFO) {
	t := &workceptorCommandType{w: vw.w}
	cmd, err := t.InitFromJSON(cfg)
	if err != nil {
		return nil, err, nil
	}
	cfo := &verifCFO{network: network, stdin: stdin}
	ctx := context.Background()
	if cfg["subcommand"] == "results" {
		// a unit that never completes would be followed for ever: the client goes away after a while
		var cancel context.CancelFunc
		ctx, cancel = context.WithTimeout(ctx, 1200*time.Millisecond)
		defer cancel()
	}
	res, err := cmd.ControlFunc(ctx, vw.nc, cfo)
	return res, err, cfo
}

// the part of NetceptorForControlCommand that ControlFunc uses
func (n *verifNC) Dial(string, string, *tls.Config) (*netceptor.Conn, error) { return nil, fmt.Errorf("unreachable") }
func (n *verifNC) Ping(context.Context, string, byte) (time.Duration, string, error) {
	return 0, "", fmt.Errorf("unreachable")
}
func (n *verifNC) MaxForwardingHops() byte { return 30 }
func (n *verifNC) Status() netceptor.Status { return netceptor.Status{} }
func (n *verifNC) Traceroute(context.Context, string) <-chan *netceptor.TracerouteResult {
	c := make(chan *netceptor.TracerouteResult)
	close(c)
	return c
}
func (n *verifNC) CancelBackends()          {}

// ---------------------------------------------------------------- C19: redact engine

type redactArgs struct {
	Params  [][2]string `json:"params"` // key, value (hex)
	TLS     string      `json:"tls"`    // "" or "tlsclient"
	Restart bool        `json:"restart"`
}

// one step of a history: submit (params, tls), restart, status / cancel / release / force-release of the
// unit created by the Unit-th successful submit, list
type redactStep struct {
	Kind   string      `json:"kind"`
	Params [][2]string `json:"params"`
	TLS    string      `json:"tls,omitempty"`
	TTL    string      `json:"ttl,omitempty"` // submit: a time-to-live as written (malformed values make the submission fail late)
	Unit   int         `json:"unit"`
}

type redactHistArgs struct {
	Steps []redactStep `json:"steps"`
}

func redactParamsOf(status interface{}) [][2]string {
	rep := [][2]string{}
	if m, ok := status.(map[string]interface{}); ok {
		if ed, ok := m["ExtraData"].(map[string]interface{}); ok {
			if rp, ok := ed["RemoteParams"].(map[string]interface{}); ok {
				for k, v := range rp {
					rep = append(rep, [2]string{verifHex([]byte(k)), verifHex([]byte(fmt.Sprint(v)))})
				}
			}
		}
	}
	sort.Slice(rep, func(i, j int) bool { return rep[i][0] < rep[j][0] })
	return rep
}

func redactHistory(raw json.RawMessage) interface{} {
	var a redactHistArgs
	if err := json.Unmarshal(raw, &a); err != nil {
		panic(err)
	}
	dir, err := os.MkdirTemp("", "verif-redact")
	if err != nil {
		panic(err)
	}
	defer os.RemoveAll(dir)
	vw := verifNewWorld(dir)
	defer func() { vw.close() }()
	ids := []string{}         // unit id of the k-th successful submit
	ordinal := map[string]int{}
	secrets := []string{}
	texts := []string{}
	outs := []interface{}{}
	jsonRound := func(res map[string]interface{}) map[string]interface{} {
		b, _ := json.Marshal(res)
		texts = append(texts, string(b))
		var m map[string]interface{}
		_ = json.Unmarshal(b, &m)
		return m
	}
	idOf := func(k int) string {
		if k >= 0 && k < len(ids) {
			return ids[k]
		}
		return "nosuchunit"
	}
	for _, st := range a.Steps {
		switch st.Kind {
		case "submit":
			cfg := map[string]interface{}{"command": "work", "subcommand": "submit", "node": "far-away", "worktype": "anything"}
			if st.TLS != "" {
				cfg["tlsclient"] = st.TLS
			}
			if st.TTL != "" {
				cfg["ttl"] = st.TTL
			}
			for _, kv := range st.Params {
				k, v := string(verifUnhex(kv[0])), string(verifUnhex(kv[1]))
				cfg[k] = v
				if strings.HasPrefix(strings.ToLower(k), "secret_") {
					secrets = append(secrets, v)
				}
			}
			before := map[string]bool{}
			for _, id := range vw.w.ListKnownUnitIDs() {
				before[id] = true
			}
			res, err, _ := vw.command(cfg, "unix", "input")
			if res != nil {
				jsonRound(res)
			}
			if err != nil {
				texts = append(texts, err.Error())
			}
			created := ""
			for _, id := range vw.w.ListKnownUnitIDs() {
				if !before[id] {
					created = id
				}
			}
			switch {
			case created != "":
				ordinal[created] = len(ids)
				ids = append(ids, created)
				outs = append(outs, map[string]interface{}{"k": "done"})
			case err != nil && strings.Contains(err.Error(), "secrets over a non-TLS"):
				outs = append(outs, map[string]interface{}{"k": "refusedSecrets"})
			default:
				outs = append(outs, map[string]interface{}{"k": "error", "text": fmt.Sprint(err)})
			}
		case "restart":
			vw.close()
			vw = verifNewWorld(dir)
			outs = append(outs, map[string]interface{}{"k": "restarted"})
		case "status":
			res, err, _ := vw.command(map[string]interface{}{"command": "work", "subcommand": "status", "unitid": idOf(st.Unit)}, "tcp", "")
			if err != nil {
				texts = append(texts, err.Error())
				outs = append(outs, map[string]interface{}{"k": "notFound"})
			} else {
				outs = append(outs, map[string]interface{}{"k": "shown", "l": []interface{}{[]interface{}{st.Unit, redactParamsOf(jsonRound(res))}}})
			}
		case "list":
			res, err, _ := vw.command(map[string]interface{}{"command": "work", "subcommand": "list"}, "tcp", "")
			if err != nil {
				outs = append(outs, map[string]interface{}{"k": "error", "text": err.Error()})
				break
			}
			m := jsonRound(res)
			type ent struct {
				o int
				p [][2]string
			}
			l := []ent{}
			for id, stt := range m {
				o, ok := ordinal[id]
				if !ok {
					o = -1
				}
				l = append(l, ent{o, redactParamsOf(stt)})
			}
			sort.Slice(l, func(i, j int) bool { return l[i].o < l[j].o })
			ll := []interface{}{}
			for _, e := range l {
				ll = append(ll, []interface{}{e.o, e.p})
			}
			outs = append(outs, map[string]interface{}{"k": "shown", "l": ll})
		case "cancel", "release", "force-release":
			res, err, _ := vw.command(map[string]interface{}{"command": "work", "subcommand": st.Kind, "unitid": idOf(st.Unit)}, "tcp", "")
			if res != nil {
				jsonRound(res)
			}
			if err != nil {
				texts = append(texts, err.Error())
				outs = append(outs, map[string]interface{}{"k": "notFound"})
			} else {
				outs = append(outs, map[string]interface{}{"k": "done"})
			}
		default:
			panic("verif: unknown step " + st.Kind)
		}
	}
	leak := false
	for _, t := range texts {
		for _, s := range secrets {
			if s != "" && strings.Contains(t, s) {
				leak = true
			}
		}
	}
	return map[string]interface{}{"outs": outs, "leak": leak}
}

func redactApply(op string, raw json.RawMessage) interface{} {
	if op == "history" {
		return redactHistory(raw)
	}
	var a redactArgs
	if err := json.Unmarshal(raw, &a); err != nil {
		panic(err)
	}
	if op != "submit" {
		panic("verif: unknown op " + op)
	}
	dir, err := os.MkdirTemp("", "verif-redact")
	if err != nil {
		panic(err)
	}
	defer os.RemoveAll(dir)
	vw := verifNewWorld(dir)
	defer func() { vw.close() }()
	cfg := map[string]interface{}{"command": "work", "subcommand": "submit", "node": "far-away", "worktype": "anything"}
	if a.TLS != "" {
		cfg["tlsclient"] = a.TLS
	}
	secrets := []string{}
	for _, kv := range a.Params {
		k, v := string(verifUnhex(kv[0])), string(verifUnhex(kv[1]))
		cfg[k] = v
	}
	_, err, _ = vw.command(cfg, "unix", "input")
	units := vw.w.ListKnownUnitIDs()
	files, _ := os.ReadDir(path.Join(dir, "verif-node"))
	if err != nil && !IsPending(err) {
		return map[string]interface{}{"refused": map[string]interface{}{"units": len(units), "dirs": len(files),
			"secrets_error": strings.Contains(err.Error(), "secrets over a non-TLS")}}
	}
	if len(units) != 1 {
		return map[string]interface{}{"err": fmt.Sprintf("%d units", len(units))}
	}
	id := units[0]
	if a.Restart {
		vw.close()
		vw = verifNewWorld(dir)
	}
	// every response that can show the unit: work status, work list <id>, work list
	texts := []string{}
	var reported map[string]interface{}
	for i, c := range []map[string]interface{}{
		{"command": "work", "subcommand": "status", "unitid": id},
		{"command": "work", "subcommand": "list", "unitid": id},
		{"command": "work", "subcommand": "list"},
	} {
		res, err, _ := vw.command(c, "tcp", "")
		if err != nil {
			return map[string]interface{}{"err": "status: " + err.Error()}
		}
		b, _ := json.Marshal(res)
		texts = append(texts, string(b))
		if i == 0 {
			var m map[string]interface{}
			_ = json.Unmarshal(b, &m)
			if ed, ok := m["ExtraData"].(map[string]interface{}); ok {
				reported, _ = ed["RemoteParams"].(map[string]interface{})
			}
		}
	}
	for _, kv := range a.Params {
		k := string(verifUnhex(kv[0]))
		if strings.HasPrefix(strings.ToLower(k), "secret_") {
			secrets = append(secrets, string(verifUnhex(kv[1])))
		}
	}
	leak := false
	for _, t := range texts {
		for _, s := range secrets {
			if s != "" && strings.Contains(t, s) {
				leak = true
			}
		}
	}
	rep := [][2]string{}
	for k, v := range reported {
		rep = append(rep, [2]string{verifHex([]byte(k)), verifHex([]byte(fmt.Sprint(v)))})
	}
	sort.Slice(rep, func(i, j int) bool { return rep[i][0] < rep[j][0] })
	return map[string]interface{}{"ok": map[string]interface{}{"reported_set": rep, "leak": leak}}
}

func redactGen(v *verifRun) {
	hx := func(s string) string { return verifHex([]byte(s)) }
	keys := []string{"secret_key", "SECRET_TOKEN", "Secret_x", "secret_", "SECRET_", "sEcReT_pw", "secret", "secretx", "_secret_a", "xsecret_b",
		"plain", "secre_t", "Secret", "params", "SECRET-dash", "secret_äöü"}
	for i := 0; i < v.n; i++ {
		a := redactArgs{Restart: v.rng.Intn(3) == 0}
		if v.rng.Intn(2) == 0 {
			a.TLS = "tlsclient"
		}
		used := map[string]bool{}
		for k := v.rng.Intn(6); k > 0; k-- {
			key := keys[v.rng.Intn(len(keys))]
			if used[strings.ToLower(key)] {
				continue
			}
			used[strings.ToLower(key)] = true
			a.Params = append(a.Params, [2]string{hx(key), hx(fmt.Sprintf("VALUE-%d-%d", i, k))})
		}
		if a.Params == nil {
			a.Params = [][2]string{}
		}
		v.do(redactApply, "submit", a)
	}
	// histories: several submissions, restarts, and every command that concerns a unit, interleaved
	for i := 0; i < v.n/10; i++ {
		h := redactHistArgs{}
		submits := 0
		for j := 2 + v.rng.Intn(9); j > 0; j-- {
			r := v.rng.Intn(10)
			switch {
			case r < 3 || submits == 0:
				st := redactStep{Kind: "submit", Params: [][2]string{}}
				if v.rng.Intn(3) != 0 {
					st.TLS = "tlsclient"
				}
				used := map[string]bool{}
				for k := v.rng.Intn(5); k > 0; k-- {
					key := keys[v.rng.Intn(len(keys))]
					if used[strings.ToLower(key)] {
						continue
					}
					used[strings.ToLower(key)] = true
					st.Params = append(st.Params, [2]string{hx(key), hx(fmt.Sprintf("VALUE-%d-%d-%d", i, j, k))})
				}
				h.Steps = append(h.Steps, st)
				submits++
			case r == 3:
				h.Steps = append(h.Steps, redactStep{Kind: "restart"})
			case r < 6:
				h.Steps = append(h.Steps, redactStep{Kind: "status", Unit: v.rng.Intn(submits + 1)})
			case r < 8:
				h.Steps = append(h.Steps, redactStep{Kind: "list"})
			case r == 8:
				h.Steps = append(h.Steps, redactStep{Kind: "cancel", Unit: v.rng.Intn(submits + 1)})
			default:
				h.Steps = append(h.Steps, redactStep{Kind: []string{"release", "force-release"}[v.rng.Intn(2)], Unit: v.rng.Intn(submits + 1)})
			}
		}
		h.Steps = append(h.Steps, redactStep{Kind: "list"})
		v.do(redactApply, "history", h)
	}
	// a submission that fails late (a malformed time-to-live is noticed after the unit has been stored): whatever is
	// left behind must not show its secrets
	for _, ttl := range []string{"10 minutes", "soon", "1h"} {
		h := redactHistArgs{Steps: []redactStep{
			{Kind: "submit", TLS: "tlsclient", TTL: ttl, Params: [][2]string{{hx("secret_token"), hx("VALUE-TTL-S1")}, {hx("plain"), hx("VALUE-TTL-P1")}}},
			{Kind: "status", Unit: 0}, {Kind: "list"}, {Kind: "restart"}, {Kind: "status", Unit: 0}, {Kind: "list"}}}
		v.do(redactApply, "history", h)
	}
}

func TestVerifRedact(t *testing.T) {
	v := verifOpen(t, "redact")
	v.run(redactApply, redactGen)
}

// ---------------------------------------------------------------- C15: sig engine

var (
	sigOnce             sync.Once
	sigKey, sigOtherKey *rsa.PrivateKey
	sigPubFile          string
)

func sigSetup() {
	sigOnce.Do(func() {
		var err error
		sigKey, err = rsa.GenerateKey(rand.Reader, 2048)
		if err != nil {
			panic(err)
		}
		sigOtherKey, err = rsa.GenerateKey(rand.Reader, 2048)
		if err != nil {
			panic(err)
		}
		f, err := os.CreateTemp("", "verif-pub-*.pem")
		if err != nil {
			panic(err)
		}
		pub, _ := x509.MarshalPKIXPublicKey(&sigKey.PublicKey)
		_ = pem.Encode(f, &pem.Block{Type: "PUBLIC KEY", Bytes: pub})
		f.Close()
		sigPubFile = f.Name()
	})
}

func sigPubPEM() []byte {
	b, _ := os.ReadFile(sigPubFile)
	return b
}

// sigToken mints a token of the given class; the second result says whether it is valid by construction.
func sigToken(class string, node string) (string, bool) {
	claims := func(exp time.Duration, aud string) *jwt.RegisteredClaims {
		return &jwt.RegisteredClaims{ExpiresAt: jwt.NewNumericDate(time.Now().Add(exp)), Audience: []string{aud}}
	}
	sign := func(m jwt.SigningMethod, c *jwt.RegisteredClaims, key interface{}) string {
		s, err := jwt.NewWithClaims(m, c).SignedString(key)
		if err != nil {
			panic(err)
		}
		return s
	}
	switch class {
	case "absent", "empty":
		return "", false
	case "garbage":
		return "not.a.token", false
	case "valid":
		return sign(jwt.SigningMethodRS512, claims(time.Hour, node), sigKey), true
	case "valid-rs256":
		return sign(jwt.SigningMethodRS256, claims(time.Hour, node), sigKey), true
	case "expired":
		return sign(jwt.SigningMethodRS512, claims(-time.Hour, node), sigKey), false
	case "other-audience":
		return sign(jwt.SigningMethodRS512, claims(time.Hour, "someone-else"), sigKey), false
	case "audience-other-case":
		// addressed to a node whose ID differs from this node's only in letter case: a different node
		return sign(jwt.SigningMethodRS512, claims(time.Hour, strings.ToUpper(node)), sigKey), false
	case "other-key":
		return sign(jwt.SigningMethodRS512, claims(time.Hour, node), sigOtherKey), false
	case "alg-none":
		return sign(jwt.SigningMethodNone, claims(time.Hour, node), jwt.UnsafeAllowNoneSignatureType), false
	case "hmac-with-public-key":
		return sign(jwt.SigningMethodHS256, claims(time.Hour, node), sigPubPEM()), false
	case "truncated":
		t := sign(jwt.SigningMethodRS512, claims(time.Hour, node), sigKey)
		return t[:len(t)-7], false
	case "future-iat-other-key":
		c := claims(time.Hour, node)
		c.IssuedAt = jwt.NewNumericDate(time.Now().Add(30 * time.Minute))
		return sign(jwt.SigningMethodRS512, c, sigOtherKey), false
	case "no-expiry":
		return sign(jwt.SigningMethodRS512, &jwt.RegisteredClaims{Audience: []string{node}}, sigKey), true
	}
	panic("verif: token class " + class)
}

type sigArgs struct {
	Sub      string `json:"sub"`      // submit cancel release force-release results status list
	Conn     string `json:"conn"`     // unix tcp netceptor-xyz
	WorkType string `json:"worktype"` // verifying plain remote-signed remote-unsigned unknown
	Token    string `json:"token"`    // class
	KeySet   bool   `json:"keyset"`   // VerifyingKey configured
	Node     string `json:"node"`     // submit: node name as written (localhost variants, own ID)
}

func sigApply(op string, raw json.RawMessage) interface{} {
	var a sigArgs
	if err := json.Unmarshal(raw, &a); err != nil {
		panic(err)
	}
	if op == "replay" {
		return sigReplay(raw)
	}
	if op != "command" {
		panic("verif: unknown op " + op)
	}
	sigSetup()
	dir, err := os.MkdirTemp("", "verif-sig")
	if err != nil {
		panic(err)
	}
	defer os.RemoveAll(dir)
	vw := verifNewWorld(dir)
	defer vw.close()
	if a.KeySet {
		vw.w.VerifyingKey = sigPubFile
	}
	_ = vw.w.RegisterWorker("verifying", verifNewUnit, true)
	_ = vw.w.RegisterWorker("plain", verifNewUnit, false)
	tok, _ := sigToken(a.Token, vw.nc.NodeID())
	withTok := func(c map[string]interface{}) map[string]interface{} {
		if a.Token != "absent" {
			c["signature"] = tok
		}
		return c
	}
	verifStarted, verifCancelled = 0, 0
	// a unit to act on (created over the Unix socket, which needs no token)
	unitID := ""
	if a.Sub != "submit" {
		var cfg map[string]interface{}
		switch a.WorkType {
		case "verifying", "plain":
			cfg = map[string]interface{}{"command": "work", "subcommand": "submit", "node": vw.nc.NodeID(), "worktype": a.WorkType}
		case "remote-signed":
			cfg = map[string]interface{}{"command": "work", "subcommand": "submit", "node": "far-away", "worktype": "x", "signwork": "true"}
		case "remote-unsigned":
			cfg = map[string]interface{}{"command": "work", "subcommand": "submit", "node": "far-away", "worktype": "x"}
		}
		if cfg != nil {
			// remote units with signwork need a signing key only when they reach the remote node: never here
			res, err, _ := vw.command(cfg, "unix", "some input")
			if err != nil && !IsPending(err) {
				return map[string]interface{}{"err": "setup: " + err.Error()}
			}
			unitID, _ = res["unitid"].(string)
			if unitID != "" {
				_ = os.WriteFile(path.Join(dir, "verif-node", unitID, "stdout"), []byte("OUTPUT-OF-"+unitID), 0o600)
			}
		} else {
			unitID = "nosuchid"
		}
	}
	return map[string]interface{}{"ok": sigCommand(vw, dir, a.Sub, a.WorkType, a.Node, unitID, a.Conn, withTok)}
}

// the literal work-type names of the "near-*" classes: names that differ from a registered name only by
// surrounding white space or letter case — all of them unknown work types
var sigNearNames = map[string]string{
	"near-trail": "verifying ", "near-lead": " verifying", "near-nl": "verifying\n", "near-upper": "VERIFYING", "near-plain-tab": "plain\t",
}

// sigCommand issues one work command and observes what it did
func sigCommand(vw *verifWorld, dir string, sub, workType, nodeName, unitID, conn string,
	withTok func(map[string]interface{}) map[string]interface{},
) map[string]interface{} {
	before := vw.w.ListKnownUnitIDs()
	startedBefore, cancelledBefore := verifStarted, verifCancelled
	var cfg map[string]interface{}
	switch sub {
	case "submit":
		wt := workType
		node := nodeName
		if node == "" {
			node = vw.nc.NodeID()
		}
		cfg = map[string]interface{}{"command": "work", "subcommand": "submit", "node": node, "worktype": wt}
		switch workType {
		case "remote-signed":
			cfg["node"], cfg["worktype"], cfg["signwork"] = "far-away", "remote", "true"
		case "remote-unsigned":
			cfg["node"], cfg["worktype"] = "far-away", "remote"
		case "unknown":
			cfg["worktype"] = "no-such-type"
		default:
			if lit, ok := sigNearNames[workType]; ok {
				cfg["worktype"] = lit
			}
		}
	case "results":
		cfg = map[string]interface{}{"command": "work", "subcommand": "results", "unitid": unitID, "startpos": float64(0)}
	default:
		cfg = map[string]interface{}{"command": "work", "subcommand": sub, "unitid": unitID}
	}
	_, cerr, cfo := vw.command(withTok(cfg), conn, "payload")
	after := vw.w.ListKnownUnitIDs()
	_, statErr := os.Stat(path.Join(dir, "verif-node", unitID))
	state := ""
	if st, err := vw.w.UnitStatus(unitID); err == nil && unitID != "" {
		state = WorkStateToString(st.State)
	}
	out := map[string]interface{}{
		"state":     state,
		"created":   len(after) > len(before),
		"removed":   len(after) < len(before) || (unitID != "" && unitID != "nosuchid" && os.IsNotExist(statErr)),
		"started":   verifStarted > startedBefore,
		"cancelled": verifCancelled > cancelledBefore,
		"read":      cfo != nil && len(cfo.written) > 0,
		"refused":   cerr != nil && !IsPending(cerr),
	}
	if cerr != nil {
		e := cerr.Error()
		switch {
		case strings.Contains(e, "did not expect a signature"):
			out["why"] = "unexpected"
		case strings.Contains(e, "signature") || strings.Contains(e, "token") || strings.Contains(e, "verifying key"):
			out["why"] = "invalid"
		case strings.Contains(e, "unknown work unit"):
			out["why"] = "notfound"
		case strings.Contains(e, "unknown work type"):
			out["why"] = "unknowntype"
		default:
			out["why"] = "other"
		}
	}
	return out
}

// ---- replay: a token that was valid when it was first used is presented again after it has expired

type sigReplayArgs struct {
	First  string `json:"first"`  // gated command sent while the token is valid
	Second string `json:"second"` // gated command sent with the same token after its expiry
	Conn   string `json:"conn"`
}

func sigReplay(raw json.RawMessage) interface{} {
	var a sigReplayArgs
	if err := json.Unmarshal(raw, &a); err != nil {
		panic(err)
	}
	sigSetup()
	dir, err := os.MkdirTemp("", "verif-sig")
	if err != nil {
		panic(err)
	}
	defer os.RemoveAll(dir)
	vw := verifNewWorld(dir)
	defer vw.close()
	vw.w.VerifyingKey = sigPubFile
	_ = vw.w.RegisterWorker("verifying", verifNewUnit, true)
	verifStarted, verifCancelled = 0, 0
	res, err, _ := vw.command(map[string]interface{}{"command": "work", "subcommand": "submit", "node": vw.nc.NodeID(), "worktype": "verifying"}, "unix", "some input")
	if err != nil && !IsPending(err) {
		return map[string]interface{}{"err": "setup: " + err.Error()}
	}
	unitID, _ := res["unitid"].(string)
	_ = os.WriteFile(path.Join(dir, "verif-node", unitID, "stdout"), []byte("OUTPUT-OF-"+unitID), 0o600)
	// expiry times have a granularity of one second: the token is good for at least one second from now
	exp := time.Now().Add(2 * time.Second).Truncate(time.Second)
	tok, err := jwt.NewWithClaims(jwt.SigningMethodRS512,
		&jwt.RegisteredClaims{ExpiresAt: jwt.NewNumericDate(exp), Audience: []string{vw.nc.NodeID()}}).SignedString(sigKey)
	if err != nil {
		panic(err)
	}
	withTok := func(c map[string]interface{}) map[string]interface{} { c["signature"] = tok; return c }
	first := sigCommand(vw, dir, a.First, "verifying", "", unitID, a.Conn, withTok)
	firstInTime := time.Now().Before(exp)
	time.Sleep(time.Until(exp.Add(1200 * time.Millisecond)))
	second := sigCommand(vw, dir, a.Second, "verifying", "", unitID, a.Conn, withTok)
	return map[string]interface{}{"ok": map[string]interface{}{"first": first, "second": second, "first_in_time": firstInTime}}
}

func sigGen(v *verifRun) {
	subs := []string{"submit", "cancel", "release", "force-release", "results", "status", "list"}
	// "netceptor-unix-exec1": a mesh stream on a node whose ID happens to contain "unix" — not the Unix socket
	conns := []string{"unix", "tcp", "netceptor-verif-node", "netceptor-unix-exec1"}
	types := []string{"verifying", "plain", "remote-signed", "remote-unsigned", "unknown"}
	toks := []string{"absent", "empty", "garbage", "valid", "valid-rs256", "expired", "other-audience", "other-key", "alg-none", "hmac-with-public-key",
		"truncated", "future-iat-other-key", "no-expiry", "audience-other-case"}
	nodes := []string{"", "", "localhost", "LocalHost", "LOCALHOST"}
	// the whole product is 7*4*5*14 = 1960 cases: enumerate a seeded sample of it (all of it in the thorough tier)
	type combo struct{ s, c, t, k int }
	var all []combo
	for s := range subs {
		for c := range conns {
			for t := range types {
				for k := range toks {
					all = append(all, combo{s, c, t, k})
				}
			}
		}
	}
	v.rng.Shuffle(len(all), func(i, j int) { all[i], all[j] = all[j], all[i] })
	n := v.n
	if n > len(all) {
		n = len(all)
	}
	for _, cb := range all[:n] {
		a := sigArgs{Sub: subs[cb.s], Conn: conns[cb.c], WorkType: types[cb.t], Token: toks[cb.k], KeySet: v.rng.Intn(10) != 0}
		if a.Sub == "submit" && (a.WorkType == "verifying" || a.WorkType == "plain") {
			a.Node = nodes[v.rng.Intn(len(nodes))]
		}
		v.do(sigApply, "command", a)
	}
	// work-type names that differ from a registered one only by white space or case: unknown types, whatever the token
	for _, name := range []string{"near-lead", "near-nl", "near-plain-tab", "near-trail", "near-upper"} {
		for _, tk := range []string{"absent", "valid", "expired"} {
			v.do(sigApply, "command", sigArgs{Sub: "submit", Conn: conns[1+v.rng.Intn(3)], WorkType: name, Token: tk, KeySet: true})
		}
	}
	// a token replayed after its expiry
	pairs := [][2]string{{"results", "release"}, {"submit", "submit"}, {"cancel", "force-release"}, {"results", "cancel"}, {"submit", "results"}}
	reps := 2
	if v.n > 1000 {
		reps = 10
	}
	for i := 0; i < reps; i++ {
		pr := pairs[i%len(pairs)]
		v.do(sigApply, "replay", sigReplayArgs{First: pr[0], Second: pr[1], Conn: conns[1+v.rng.Intn(3)]})
	}
	// always: the audience that differs only in case, and the mesh network name that contains "unix", on every gated command
	for _, sub := range []string{"submit", "cancel", "release", "results"} {
		v.do(sigApply, "command", sigArgs{Sub: sub, Conn: "tcp", WorkType: "verifying", Token: "audience-other-case", KeySet: true})
		v.do(sigApply, "command", sigArgs{Sub: sub, Conn: "netceptor-unix-exec1", WorkType: "verifying", Token: "absent", KeySet: true})
	}
}

func TestVerifSig(t *testing.T) {
	v := verifOpen(t, "sig")
	v.run(sigApply, sigGen)
}
