/-!
# Closing a stream listener: two closes and two locks (C17)

`Listener.Close` closes two things: the QUIC listener (`ql`) and the packet connection under it (`pc`).
Closing `ql` takes the listener's close-once `O`, then the transport's mutex `M` (to unregister the listener).
Closing `pc` makes the transport's read loop fail; that loop then closes the transport: it takes `M`, then closes
its listener, which needs `O`.  The model: thread A is the caller of `Listener.Close`, thread B the transport's
read loop, which runs only once `pc` has been closed.  `pcFirst` is the order of the two closes in A.
-/
namespace Receptor.ListenerClose

inductive Instr where
  | acqO | acqM | relM | relO | closePc
  deriving DecidableEq, Repr

/-- the caller: `ql.Close()` is `acqO; acqM; relM; relO` -/
def progA (pcFirst : Bool) : List Instr :=
  if pcFirst then [.closePc, .acqO, .acqM, .relM, .relO] else [.acqO, .acqM, .relM, .relO, .closePc]

/-- the read loop after `pc` was closed: `Transport.close` -/
def progB : List Instr := [.acqM, .acqO, .relO, .relM]

/-- lock owner: 0 free, 1 thread A, 2 thread B -/
structure St where
  a : Fin 6        -- program counter of A
  b : Fin 5        -- program counter of B
  trig : Bool      -- pc has been closed: B runs
  m : Fin 3
  o : Fin 3
  deriving DecidableEq, Repr

def init : St := ⟨0, 0, false, 0, 0⟩

/-- one instruction of a thread (`me` = 1 or 2); `none`: blocked -/
def exec (me : Fin 3) (i : Instr) (s : St) : Option St :=
  match i with
  | .acqO => if s.o = 0 then some { s with o := me } else none
  | .acqM => if s.m = 0 then some { s with m := me } else none
  | .relO => some { s with o := 0 }
  | .relM => some { s with m := 0 }
  | .closePc => some { s with trig := true }

def stepA (pcFirst : Bool) (s : St) : Option St :=
  match (progA pcFirst)[s.a.val]? with
  | none => none
  | some i => (exec 1 i s).map fun s' => { s' with a := ⟨min (s.a.val + 1) 5, by omega⟩ }

def stepB (s : St) : Option St :=
  if s.trig then
    match progB[s.b.val]? with
    | none => none
    | some i => (exec 2 i s).map fun s' => { s' with b := ⟨min (s.b.val + 1) 4, by omega⟩ }
  else none

def finishedA (s : St) : Bool := s.a.val = 5
def finishedB (s : St) : Bool := s.b.val = 4

/-- nobody can move although `Listener.Close` has not returned -/
def stuck (pcFirst : Bool) (s : St) : Bool :=
  !finishedA s && (stepA pcFirst s).isNone && (stepB s).isNone

/-- a schedule: which thread tries to move next (a blocked or finished thread's turn changes nothing) -/
def run (pcFirst : Bool) : St → List Bool → St
  | s, [] => s
  | s, true :: rest => run pcFirst ((stepA pcFirst s).getD s) rest
  | s, false :: rest => run pcFirst ((stepB s).getD s) rest

/-- the invariant of the repaired order: until A has finished `ql.Close()` the read loop does not run at all -/
def Inv (s : St) : Bool :=
  if s.trig then s.a.val = 5 && s.o ≠ 1 && s.m ≠ 1 &&
      (match s.b.val with
       | 0 => s.m = 0 && s.o = 0
       | 1 => s.m = 2 && s.o = 0
       | 2 => s.m = 2 && s.o = 2
       | 3 => s.m = 2 && s.o = 0
       | _ => s.m = 0 && s.o = 0)
  else s.b.val = 0 && s.o ≠ 2 && s.m ≠ 2 &&
      (match s.a.val with
       | 0 => s.m = 0 && s.o = 0
       | 1 => s.m = 0 && s.o = 1
       | 2 => s.m = 1 && s.o = 1
       | 3 => s.m = 0 && s.o = 1
       | 4 => s.m = 0 && s.o = 0
       | _ => false)

end Receptor.ListenerClose
