import Receptor.Drive.Util
import Receptor.Model.Crash
import Receptor.Generated.Facts
namespace Receptor.Drive.Crash
open Lean Receptor.Drive Receptor.Crash

def getInt (j : Json) (k : String) : Except String Int := do (← j.getObjVal? k).getInt?

/-- work types as numbers: 0 = "" (lost), 1 = remote, 2 = cmd, 3 = verifwork -/
def wtCode (s : String) : Nat := if s == "" then 0 else if s == "remote" then 1 else if s == "cmd" then 2 else if s == "verifwork" then 3 else 9
def wtName (n : Nat) : String := match n with | 0 => "" | 1 => "remote" | 2 => "cmd" | 3 => "verifwork" | _ => "?"

def kindType (k : String) : Nat := match k with | "inproc" => 3 | "remote" => 1 | _ => 2

def handle (op : String) (a r : Json) : Except String Reply := do
  match op with
  | "cycle" =>
    if let some e := optField r "error" then throw s!"harness error: {e.compress}"
    if let some e := optField r "restart_failed" then
      -- the node does not come back on its data directory: nothing is listed, every query blocks
      pure { m := jObj [("units", jArr [])], prop := some false,
             why := s!"started again on the same data directory, the node never became ready ({e.compress}): no unit is listed and no query is answered",
             sig := "C04/node-does-not-come-back" }
    else
    let units := (getArr r "units").toOption.getD []
    let startupUnknown := ((getInt r "startup_unknown").toOption.getD 0).toNat
    let role := (getStr a "role").toOption.getD ""
    let mut ms : List Json := []
    let mut bad : Option (String × String) := none
    for o in units do
      let kind ← getStr o "kind"
      let acked := (getBool o "acked").toOption.getD false
      let diskClass ← getStr o "disk"
      let dnode := (getStr o "disk_node").toOption.getD ""
      let expectOut := ((getInt o "expect_out").toOption.getD 0).toNat
      let status : StatusFile := match diskClass with
        | "full" => .full { wt := wtCode ((getStr o "disk_wt").toOption.getD ""), state := ((getInt o "disk_state").toOption.getD 0).toNat,
                            size := ((getInt o "disk_size").toOption.getD 0).toNat,
                            remote := if dnode == "" then none else some 1, started := false }
        | "empty" => .empty
        | _ => .absent
      let view := restartView 1 [1, 2, 3] { dir := diskClass != "absent" || true, status := status }
      -- what the restarted node reported
      let listed := (getBool o "listed").toOption.getD false
      let wt := (getStr o "wt").toOption.getD ""
      let state := ((getInt o "state").toOption.getD 0).toNat
      let size := ((getInt o "size").toOption.getD 0).toNat
      let node := (getStr o "node").toOption.getD ""
      let blocked := (getBool o "blocked").toOption.getD false
      let results := (getStr o "results").toOption.getD "none"
      -- the model's prediction, given what was on disk.  A command that was still running when the node died goes
      -- on in its detached runner: its record at look-up time is the runner's, not the one read before the restart.
      let ddetail := (getStr o "disk_detail").toOption.getD ""
      -- a command whose runner may still be alive: running, or pending (the runner starts up), or marked
      -- "Pending at restart" by an earlier restart while its runner was starting up
      let markedPending := ddetail == "Pending at restart"
      let running := match status with
        | .full rr => rr.wt == 2 && (rr.state == 1 || rr.state == 0 || (rr.state == 3 && markedPending))
        | _ => false
      let (mListed, mWt, mState, mSize, mNode) : Bool × String × Nat × Nat × String :=
        match view with
        | .notListed => (false, "", 0, 0, "")
        | .listed w st sz rm =>
          if running then (true, wtName w, state, size, node)   -- echoed: decided by the runner's progress
          -- the harness read an empty record, yet the node reports a complete one with the right type: a live runner was
          -- inside its own rewrite (truncated, not yet written) at the moment of the read and has completed it since
          else if diskClass == "empty" && (kind == "quick" || kind == "slow") && wt == "cmd" then (true, wt, state, size, node)
          else if diskClass == "empty" then (true, wtName w, st, size, "")   -- the size is measured from the stdout file
          else (true, wtName w, st, sz, if rm.isSome then dnode else "")
      let mo := (match o with
        | Json.obj kvs => Json.mkObj ((kvs.toList.filter fun (k, _) => !(["listed", "wt", "state", "size", "node", "blocked"].contains k)) ++
            [("listed", Json.bool mListed), ("wt", Json.str mWt), ("state", jNat mState), ("size", jNat mSize), ("node", Json.str mNode), ("blocked", Json.bool false)])
        | j => j)
      ms := ms ++ [mo]
      -- the specification, for units whose ID had been handed out
      if bad.isNone && acked then
        let expType := wtName (kindType kind)
        if blocked then bad := some ("C04/status-query-blocks", s!"after the restart a status query for a '{kind}' unit got no answer")
        else if !listed then bad := some ("C04/unit-lost", s!"a '{kind}' unit whose ID had been handed out is not listed after the restart (record on disk: {diskClass})")
        else if wt != expType then
          -- a work type can only get lost through an emptied record: the next rewrite skips the re-read of an empty file
          -- and stores the writer's own copy (the restarted node's, or a surviving runner's, which has no work type)
          bad := some (if diskClass == "empty" || ddetail.startsWith "Failed to restart: unexpected end of JSON input" || ((getStr o "disk_wt").toOption.getD "x") == "" then "C04/record-truncated-by-crash" else "C04/work-type-lost",
            s!"a '{kind}' unit is listed with work type '{wt}' instead of '{expType}' after the restart (record on disk: {diskClass})")
        else if kind == "remote" && node != "faraway" then
          bad := some ("C04/remote-binding-lost", s!"a remote unit is no longer bound to its node after the restart (reported node '{node}')")
        else if state == 0 then bad := some ("C04/left-pending", s!"a '{kind}' unit is still reported pending after the restart")
        else if (match status with | .full rr => complete rr.state && (state != rr.state || size != rr.size) | _ => false) then
          bad := some (if markedPending then "C04/failed-at-restart-then-revived-by-live-runner" else "C04/finished-unit-changed", s!"a finished '{kind}' unit reports state {state} size {size} after the restart, not what was stored")
        else if (kind == "quick" || kind == "slow") && state == 2 && size != expectOut then
          bad := some ("C04/output-size-wrong", s!"a '{kind}' unit succeeded with recorded output size {size}, its command wrote {expectOut}")
        else if (kind == "quick" || kind == "slow") && state == 1 then
          -- whose fault: the runner process named by the record is gone (killed by the scenario: nobody records the end
          -- of its command — the recorded finding), or it is alive and the restarted node does not follow it
          let runnerAlive := (getBool o "runner_alive").toOption.getD false
          bad := some (if role == "runner" || ((role == "runner-early") && !runnerAlive) then "C04/runner-died-unit-left-running" else "C04/running-unit-not-followed",
            s!"a '{kind}' unit is still reported running 1.8 s after the restart (its command runs for at most 1.2 s)")
        else if (state == 2) && expectOut > 0 && results != "ok" then
          bad := some ("C04/output-not-fetchable", s!"the output of a finished '{kind}' unit cannot be fetched completely after the restart: {results}")
    let m := (match r with
      | Json.obj kvs => Json.mkObj ((kvs.toList.filter fun (k, _) => k != "units" && k != "startup_unknown") ++ [("units", jArr ms)]
                                    ++ (if (optField r "startup_unknown").isSome then [("startup_unknown", jNat 0)] else []))
      | j => j)
    -- every unit with a readable record on disk is known at every moment of the start-up (findUnit re-reads a unit's
    -- directory when it is asked about an ID it does not hold)
    let bad2 := if bad.isNone && startupUnknown > 0 then
        some ("C04/unit-unknown-while-node-starts", s!"while the restarted node was registering its work types, {startupUnknown} queries about units that have a readable record on disk were answered 'unknown work unit'")
      else bad
    match bad2 with
    | some (sig, why) => pure { m := m, prop := some false, why := why, sig := sig }
    | none => pure { m := m, prop := some true }
  | _ => throw s!"bad-op crash {op}"

end Receptor.Drive.Crash
