import Receptor.Drive.Util
import Receptor.Model.Sockets
import Receptor.Generated.Facts
namespace Receptor.Drive.Sock
open Lean Receptor.Drive Receptor.Sock

/-- the guards the source has (regenerated facts; expectations in `C17_facts`) -/
def guardsOfFacts : Guards :=
  { recvCloseOnce := Receptor.Facts.sock_handoff_on_cancel = "return nil",
    adRemoveChecked := Receptor.Facts.sock_ad_remove_checked,
    dialReleasesSocket := Receptor.Facts.sock_dial_cleanup = "<-qc.Context().Done()|<-s.context.Done();_ = qs.Close();_ = pc.Close()" }

def nameCode (s : String) : Nat := s.toUTF8.toList.foldl (fun acc b => acc * 256 + b.toNat) 0 + 1000

/-- a script as model operations; a refused `listen` still takes an index in the harness (a placeholder socket
that is closed and unbound), so that the indices of the two sides agree -/
def runScript (G : Guards) (ops : List Json) : Except String (St × List (Option Nat)) := do
  let mut s : St := {}
  -- harness index -> model socket index (none: the listen was refused)
  let mut idx : List (Option Nat) := []
  let mut cidx : List Nat := []
  for o in ops do
    let k ← getStr o "k"
    let i := (getNat o "i").toOption.getD 0
    let sock : Option Nat := (idx[i]?).getD none
    match k with
    | "listen" =>
      let n := nameCode (← getStr o "svc")
      let adv := (getBool o "adv").toOption.getD false
      if s.registry.contains n then idx := idx ++ [none]
      else
        idx := idx ++ [some s.socks.length]
        s := step G s (.listen n adv)
    | "close" => if let some j := sock then s := step G s (.close j)
    | "send" => if let some j := sock then s := step G s (.send j)
    | "recv" => if let some j := sock then s := step G s (.recv j)
    | "subscribe" => if let some j := sock then s := step G s (.subscribe j)
    | "unsubscribe" => if let some j := sock then s := step G s (.unsubscribe j)
    | "dial" =>
      cidx := cidx ++ [s.conns.length]
      s := step G s .dial
    | "connclose" =>
      -- a half-close alone does not end the connection; the harness ends every connection before it looks
      if (getStr o "how").toOption != some "close" then
        if let some c := cidx[i]? then s := step G s (.connClose c)
    | _ => pure ()    -- ping / notice: no effect on the bookkeeping
  -- the harness then ends every connection, closes every socket and lets the parked deliverers notice
  for c in List.range s.conns.length do
    s := step G s (.connClose c)
  for j in List.range s.socks.length do
    s := step G s (.close j)
  for j in List.range s.socks.length do
    for _ in List.range ((s.socks[j]?.map (·.parked)).getD 0) do
      s := step G s (.wake j)
  return (s, idx)

def handle (op : String) (a r : Json) : Except String Reply := do
  match op with
  | "script" =>
    if let some e := optField r "error" then throw s!"harness error: {e.compress}"
    let ops ← getArr a "ops"
    let shutdown := (getBool a "shutdown").toOption.getD false
    let (sm, _) ← runScript guardsOfFacts ops
    let (ss, _) ← runScript allGuards ops
    let render (s : St) : Json :=
      if s.panicked then (if (optField r "panic").isSome then jObj [("panic", Json.bool true)] else jObj [("fatal", Json.bool true)])
      else if shutdown then jObj [("after_shutdown_goroutines_over_base", Json.bool false), ("errs", jArr []), ("nontrivial", Json.bool true)]
      else
        -- named sockets are all closed at the end: nothing named stays bound; ephemeral names stay only if connections leak them
        let eph := (s.registry.filter fun n => n < 1000).length
        jObj [("errs", jArr []), ("bound_set", jArr []), ("ephemeral_bound", jNat eph),
              ("goroutines_over_base", (optField r "goroutines_over_base").getD (jNat 0)), ("nontrivial", Json.bool true)]
    -- the implementation's panic in the harness goroutine and a crash of the child process are the same thing for the node
    let crashed := (optField r "fatal").isSome || (optField r "panic").isSome
    let rNorm : Json := if crashed then jObj [("fatal", Json.bool true)] else
      match r with
      | Json.obj kvs => Json.mkObj (kvs.toList.filter fun (k, _) => k != "stacks")
      | j => j
    let _ := rNorm
    let errs := (getStrList r "errs").toOption.getD []
    let bound := (getArr r "bound_set").toOption.getD []
    let eph := (getNat r "ephemeral_bound").toOption.getD 0
    let gor := ((r.getObjVal? "goroutines_over_base").bind fun x => x.getInt?).toOption.getD 0
    let shutOver := (getBool r "after_shutdown_goroutines_over_base").toOption.getD false
    let stacks := (getStr r "stacks").toOption.getD ""
    let (holds, why, sig) : Bool × String × String :=
      if crashed then (false, "the process panicked while sockets were being closed", "C17/crash")
      else if (optField r "hang").isSome then (false, "the script did not finish (an operation blocked)", "C17/stuck")
      else if ss.panicked then (false, "model: the specification panics", "C17/model")
      else if !errs.isEmpty then (false, errs.head!, "C17/operation-failed")
      else if shutdown then
        (if shutOver then (false, s!"goroutines of the node are still running after Shutdown: {stacks.take 400}", "C17/shutdown-leaves-goroutines") else (true, "", ""))
      else if !bound.isEmpty then (false, "a service name is still bound after its socket was closed", "C17/name-still-bound")
      else if eph > 0 then (false, s!"{eph} ephemeral service name(s) of dialled connections are still bound after the connections ended", "C17/ephemeral-socket-leaked")
      else if gor > 0 then (false, s!"{gor} goroutines more than before are left after everything was closed: {stacks.take 400}", "C17/goroutines-leaked")
      else (true, "", "")
    -- compare the model with the implementation without the diagnostic stack summary
    let m := render sm
    let m' := if crashed then m else match m, r with
      | Json.obj mk, Json.obj rk =>
        (match rk.toList.find? fun (k, _) => k == "stacks" with
         | some (_, v) => Json.mkObj (mk.toList ++ [("stacks", v)])
         | none => m)
      | _, _ => m
    pure { m := m', prop := some holds, why := why, sig := sig }
  | _ => throw s!"bad-op sock {op}"

end Receptor.Drive.Sock
