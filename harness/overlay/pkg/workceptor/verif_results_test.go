package workceptor

// C05 harness (local part): the harness plays the unit — it appends to the unit's stdout file and
// rewrites the status record on a script — while consumers ask for the results from various
// offsets at various moments through the real `work results` ControlFunc (GetResults +
// WriteToConn).  Output byte i is a fixed function of i, so every received byte can be checked
// against its position.

import (
	"context"
	"encoding/json"
	"fmt"
	"os"
	"path"
	"sync"
	"sync/atomic"
	"testing"
	"time"
)

type resEv struct {
	K   string `json:"k"`    // append | record | finish | ask | sleep
	N   int    `json:"n"`    // append: number of bytes; sleep: milliseconds; ask: start offset
	St  int    `json:"st"`   // finish: final state
	Slow bool  `json:"slow"` // ask: a consumer that dawdles before it copies each chunk
}

type resArgs struct {
	Units [][]resEv `json:"units"`
}

func resByte(i int64) byte { return byte((i*7 + i/251) % 256) }

type resAsk struct {
	Pos        int   `json:"pos"`
	Got        int   `json:"got"`
	BadAt      int   `json:"bad_at"`       // first received byte that is not the output byte of its position (-1: none)
	Ended      bool  `json:"ended"`        // the stream was ended by the server
	EndedEarly bool  `json:"ended_early"`  // … before the unit's final status was written
	Err        string `json:"err"`
}

// resCFO: the control connection of one `work results` command
type resCFO struct {
	verifCFO
	slow bool
	got  []byte
}

func (c *resCFO) WriteToConn(_ string, in chan []byte) error {
	for b := range in {
		if c.slow {
			time.Sleep(2 * time.Millisecond)
		}
		c.got = append(c.got, b...)
	}
	return nil
}

func resRunUnit(vw *verifWorld, script []resEv) (asks []resAsk, total int, errs []string) {
	worker, err := vw.w.AllocateUnit("verifwork", map[string]string{})
	if err != nil {
		return nil, 0, []string{"allocate: " + err.Error()}
	}
	id := worker.ID()
	stdoutName := path.Join(worker.UnitDir(), "stdout")
	var written int64
	var finished int32
	var wg sync.WaitGroup
	var mu sync.Mutex
	pctx, pcancel := context.WithCancel(context.Background())
	defer pcancel()
	var cancelled int32
	for _, ev := range script {
		switch ev.K {
		case "append":
			f, err := os.OpenFile(stdoutName, os.O_CREATE|os.O_APPEND|os.O_WRONLY, 0o600)
			if err != nil {
				errs = append(errs, err.Error())
				continue
			}
			b := make([]byte, ev.N)
			for i := range b {
				b[i] = resByte(written + int64(i))
			}
			if _, err := f.Write(b); err != nil {
				errs = append(errs, err.Error())
			}
			f.Close()
			written += int64(ev.N)
		case "record":
			worker.UpdateBasicStatus(WorkStateRunning, "Running", written)
		case "finish":
			// the flag first: a reader that ends its stream because it saw the final record must find the flag set
			// (set after the write, a stream ended in between looked like one that ended early)
			atomic.StoreInt32(&finished, 1)
			worker.UpdateBasicStatus(ev.St, "done", written)
		case "sleep":
			time.Sleep(time.Duration(ev.N) * time.Millisecond)
		case "ask":
			idx := len(asks)
			asks = append(asks, resAsk{Pos: ev.N, BadAt: -1})
			wg.Add(1)
			go func(pos int, slow bool) {
				defer wg.Done()
				t := &workceptorCommandType{w: vw.w}
				cmd, err := t.InitFromJSON(map[string]interface{}{"command": "work", "subcommand": "results", "unitid": id, "startpos": float64(pos)})
				var a resAsk
				a.Pos, a.BadAt = pos, -1
				if err != nil {
					a.Err = err.Error()
				} else {
					cfo := &resCFO{slow: slow}
					cfo.network = "unix"
					fin := atomic.LoadInt32(&finished)
					_, cerr := cmd.ControlFunc(pctx, vw.nc, cfo)
					// the server closed the stream (unless the harness gave up): was the unit's final status written by then?
					a.Ended = atomic.LoadInt32(&cancelled) == 0
					a.EndedEarly = a.Ended && atomic.LoadInt32(&finished) == 0
					_ = fin
					if cerr != nil && a.Ended {
						a.Err = cerr.Error()
					}
					a.Got = len(cfo.got)
					for i, c := range cfo.got {
						if c != resByte(int64(pos)+int64(i)) {
							a.BadAt = i
							break
						}
					}
				}
				mu.Lock()
				asks[idx] = a
				mu.Unlock()
			}(ev.N, ev.Slow)
		}
	}
	// every stream must end soon after the final status; give up on those that do not
	doneAll := make(chan struct{})
	go func() { wg.Wait(); close(doneAll) }()
	select {
	case <-doneAll:
	case <-time.After(4 * time.Second):
		atomic.StoreInt32(&cancelled, 1)
		pcancel()
		<-doneAll
	}
	return asks, int(written), errs
}

func resApply(op string, raw json.RawMessage) interface{} {
	var a resArgs
	if err := json.Unmarshal(raw, &a); err != nil {
		panic(err)
	}
	dir, err := os.MkdirTemp("", "verif-results-*")
	if err != nil {
		panic(err)
	}
	defer os.RemoveAll(dir)
	vw := verifNewWorld(dir)
	defer vw.close()
	if err := vw.w.RegisterWorker("verifwork", verifNewUnit, false); err != nil {
		panic(err)
	}
	type unitRes struct {
		Asks  []resAsk `json:"asks"`
		Total int      `json:"total"`
		Errs  []string `json:"errs"`
	}
	res := make([]unitRes, len(a.Units))
	var wg sync.WaitGroup
	for i := range a.Units {
		wg.Add(1)
		go func(i int) {
			defer wg.Done()
			defer func() {
				if p := recover(); p != nil {
					res[i].Errs = append(res[i].Errs, fmt.Sprint("panic: ", p))
				}
			}()
			asks, total, errs := resRunUnit(vw, a.Units[i])
			if errs == nil {
				errs = []string{}
			}
			if asks == nil {
				asks = []resAsk{}
			}
			res[i] = unitRes{Asks: asks, Total: total, Errs: errs}
		}(i)
	}
	wg.Wait()
	return map[string]interface{}{"units": res, "nontrivial": true}
}

func resGen(v *verifRun) {
	sizes := []int{0, 1, 2, 100, 4095, 4096, 65535, 65536, 65537, 131072, 200000}
	for i := 0; i < v.n; i++ {
		var a resArgs
		for u := 0; u < 8; u++ {
			var s []resEv
			total := 0
			askAt := func(slow bool) {
				var pos int
				switch v.rng.Intn(6) {
				case 0:
					pos = 0
				case 1:
					pos = total
				case 2:
					pos = total + v.rng.Intn(70000) // not yet written (the unit may get there)
				case 3:
					if total > 0 {
						pos = v.rng.Intn(total)
					}
				case 4:
					pos = []int{1, 65535, 65536, 65537, 4096}[v.rng.Intn(5)]
				default:
					if total > 65540 {
						pos = total - 65536 - 2 + v.rng.Intn(5)
					}
				}
				s = append(s, resEv{K: "ask", N: pos, Slow: slow})
			}
			if v.rng.Intn(3) == 0 {
				askAt(false) // before anything exists
			}
			chunks := v.rng.Intn(5)
			for c := 0; c < chunks; c++ {
				n := sizes[v.rng.Intn(len(sizes))]
				s = append(s, resEv{K: "append", N: n})
				total += n
				if v.rng.Intn(2) == 0 {
					s = append(s, resEv{K: "record"})
				}
				if v.rng.Intn(3) == 0 {
					askAt(v.rng.Intn(3) == 0)
				}
				if v.rng.Intn(2) == 0 {
					s = append(s, resEv{K: "sleep", N: []int{5, 40, 300, 600}[v.rng.Intn(4)]})
				}
			}
			st := []int{WorkStateSucceeded, WorkStateSucceeded, WorkStateFailed, WorkStateCanceled}[v.rng.Intn(4)]
			s = append(s, resEv{K: "finish", St: st})
			if v.rng.Intn(2) == 0 {
				askAt(v.rng.Intn(2) == 0) // after the end
			}
			a.Units = append(a.Units, s)
		}
		v.do(resApply, "units", a)
	}
}

func TestVerifResults(t *testing.T) {
	v := verifOpen(t, "results")
	v.run(resApply, resGen)
}
