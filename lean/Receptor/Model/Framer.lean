/-!
# Model of `pkg/framer/framer.go` (C02, C07)

`frame` = `SendData` (two-byte little-endian length prefix, `uint16` truncation included);
`getMessage` = `messageReady` + `GetMessage` on the buffer; `recv` = `RecvData` (append).
`lenBytes`/endianness are regenerated facts (see `Receptor.Facts.frame_*`).
-/
namespace Receptor.Framer

abbrev Bytes := List Nat

/-- `SendData`: `PutUint16(buf[0:2], uint16(len(data)))` then the data. -/
def frame (m : Bytes) : Bytes := (m.length % 256) :: (m.length / 256 % 256) :: m

/-- `messageReady` + `GetMessage`: `none` = "message not ready" (buffer unchanged). -/
def getMessage (buf : Bytes) : Option (Bytes × Bytes) :=
  match buf with
  | lo :: hi :: rest =>
    if lo + 256 * hi ≤ rest.length then some (rest.take (lo + 256 * hi), rest.drop (lo + 256 * hi)) else none
  | _ => none

theorem getMessage_shrinks {buf m buf'} (h : getMessage buf = some (m, buf')) : buf'.length < buf.length := by
  unfold getMessage at h
  split at h
  · split at h
    · cases h; simp [List.length_drop]; omega
    · cases h
  · cases h

/-- drain all ready messages (what a `Recv` loop returns over time with no further input) -/
def drain (buf : Bytes) : List Bytes × Bytes :=
  match h : getMessage buf with
  | none => ([], buf)
  | some (m, buf') =>
    have : buf'.length < buf.length := getMessage_shrinks h
    let r := drain buf'; (m :: r.1, r.2)
termination_by buf.length

/-- an operation on a framer -/
inductive Op where
  | recv (c : Bytes)   -- RecvData
  | get                -- GetMessage (an error when not ready; buffer unchanged)
  deriving Repr

/-- run a schedule of operations: (messages returned by the successful `get`s, final buffer) -/
def runOps : Bytes → List Op → List Bytes × Bytes
  | buf, [] => ([], buf)
  | buf, .recv c :: ops => runOps (buf ++ c) ops
  | buf, .get :: ops =>
    match getMessage buf with
    | none => runOps buf ops
    | some (m, buf') => let r := runOps buf' ops; (m :: r.1, r.2)

def chunksOf : List Op → Bytes
  | [] => []
  | .recv c :: ops => c ++ chunksOf ops
  | .get :: ops => chunksOf ops

end Receptor.Framer
