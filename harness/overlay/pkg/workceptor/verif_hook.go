package workceptor

// Injected by /verif (go build/test -overlay) next to an instrumented copy of workunitbase.go:
// every rewrite of a status record — in the daemon and in the command-runner process — is
// reported while the status lock is held, so the lines of one unit are in the order of the writes.
// Nothing happens unless VERIF_STATUS_LOG names a file.

import (
	"encoding/json"
	"os"
	"time"
)

func verifStatusHook(filename string, had bool, old *StatusFileData, cur *StatusFileData) {
	p := os.Getenv("VERIF_STATUS_LOG")
	if p == "" {
		return
	}
	rec := map[string]interface{}{"file": filename, "pid": os.Getpid(), "had": had, "ns": time.Now().UnixNano(),
		"new_state": cur.State, "new_size": cur.StdoutSize, "new_detail": cur.Detail}
	if old != nil {
		rec["old_state"], rec["old_size"] = old.State, old.StdoutSize
	}
	b, _ := json.Marshal(rec)
	b = append(b, '\n')
	f, err := os.OpenFile(p, os.O_CREATE|os.O_APPEND|os.O_WRONLY, 0o600)
	if err != nil {
		return
	}
	_, _ = f.Write(b)
	_ = f.Close()
}
