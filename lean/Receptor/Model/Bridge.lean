/-!
# `bridgeHalf` / `BridgeConns` (pkg/utils/bridge.go) and the stream end points — property C03

The part of a mesh stream that is Receptor's own code: the relay loop that copies one direction of
a connection into another (used by the control service's `connect` command and by the TCP/Unix proxy
services) and propagates the end of the stream.  The reliable, ordered delivery underneath is QUIC
(quic-go), which is trusted and exercised, not modelled.
-/
namespace Receptor.Bridge

abbrev Bytes := List Nat

/-- what one `Read` returned: some bytes (possibly none) and whether an error — end-of-stream or any
other — came with them -/
structure ReadRes where
  data : Bytes
  err : Bool
  deriving DecidableEq, Repr

/-- the destination: accepts every write, or fails at the `k`-th one -/
structure Writer where
  failAt : Option Nat := none
  deriving DecidableEq, Repr

structure Out where
  written : Bytes := []
  closed : Bool := false      -- the destination was closed (end of stream propagated)
  writes : Nat := 0
  deriving DecidableEq, Repr

/-- `writeThenCheck`: the bytes that came with an error are written before the loop stops (regenerated
fact: the `if n > 0 { Write }` block precedes the `if shouldClose` block and the error branch does not leave the loop) -/
def bridgeHalf (writeThenCheck : Bool) (w : Writer) : List ReadRes → Out → Out
  | [], o => o                                   -- the source has nothing more yet: the relay is waiting
  | r :: rest, o =>
    if o.closed then o
    else
      let stopBeforeWrite := r.err && !writeThenCheck
      if stopBeforeWrite then { o with closed := true }
      else
        let doWrite := !r.data.isEmpty
        let failed := doWrite && w.failAt == some o.writes
        let o1 : Out := if doWrite && !failed then { o with written := o.written ++ r.data, writes := o.writes + 1 }
                        else if doWrite then { o with writes := o.writes + 1 } else o
        if r.err || failed then { o1 with closed := true }
        else bridgeHalf writeThenCheck w rest o1

/-- the bytes of a read script up to and including the first read that carried an error -/
def upToFirstErr : List ReadRes → Bytes
  | [] => []
  | r :: rest => if r.err then r.data else r.data ++ upToFirstErr rest

def hasErr (l : List ReadRes) : Bool := l.any (·.err)

end Receptor.Bridge
