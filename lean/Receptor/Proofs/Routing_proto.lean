/-! Feasibility prototype: label-correcting shortest paths as in updateRoutingTable. -/
namespace Routing

abbrev Node := Nat

structure Graph where
  adj  : Node → List (Node × Nat)
  isKey : Node → Bool

/-- walks from `s` over key nodes, with total weight -/
inductive Path (g : Graph) (s : Node) : Node → Nat → Prop
  | nil : Path g s s 0
  | snoc {u v : Node} {W w : Nat} : Path g s u W → (v, w) ∈ g.adj u → g.isKey v = true → Path g s v (W + w)

structure St where
  cost  : Node → Option Nat
  prev  : Node → Option Node
  queue : List Node

def better (s : St) (v : Node) (c : Nat) : Bool :=
  match s.cost v with
  | none => true
  | some cv => decide (c < cv)

def improve (s : St) (u v : Node) (c : Nat) : St :=
  { cost := fun x => if x = v then some c else s.cost x
    prev := fun x => if x = v then some u else s.prev x
    queue := if v ∈ s.queue then s.queue else s.queue ++ [v] }

def relaxEdge (g : Graph) (u : Node) (cu : Nat) (s : St) (e : Node × Nat) : St :=
  if g.isKey e.1 && better s e.1 (cu + e.2) then improve s u e.1 (cu + e.2) else s

def popRelax (g : Graph) (s : St) (u : Node) : St :=
  let s1 : St := { s with queue := s.queue.erase u }
  match s.cost u with
  | none => s1
  | some cu => (g.adj u).foldl (relaxEdge g u cu) s1

inductive Reach (g : Graph) (init : St) : St → Prop
  | base : Reach g init init
  | step {s : St} {u : Node} : Reach g init s → u ∈ s.queue → Reach g init (popRelax g s u)

@[simp] theorem improve_cost_self (s : St) (u v c) : (improve s u v c).cost v = some c := by simp [improve]
@[simp] theorem improve_cost_ne (s : St) (u v c x) (h : x ≠ v) : (improve s u v c).cost x = s.cost x := by simp [improve, h]
@[simp] theorem improve_prev_self (s : St) (u v c) : (improve s u v c).prev v = some u := by simp [improve]
@[simp] theorem improve_prev_ne (s : St) (u v c x) (h : x ≠ v) : (improve s u v c).prev x = s.prev x := by simp [improve, h]
theorem improve_queue_mem (s : St) (u v c) : v ∈ (improve s u v c).queue := by
  simp only [improve]; split <;> simp_all
theorem improve_queue_mono (s : St) (u v c x) (h : x ∈ s.queue) : x ∈ (improve s u v c).queue := by
  simp only [improve]; split <;> simp_all

structure Inv (g : Graph) (src : Node) (s : St) : Prop where
  src0 : s.cost src = some 0
  sound : ∀ v c, s.cost v = some c → Path g src v c
  chain : ∀ v c, v ≠ src → s.cost v = some c →
            ∃ p w cp, s.prev v = some p ∧ (v, w) ∈ g.adj p ∧ s.cost p = some cp ∧ cp + w ≤ c
  relaxed : ∀ x cx, x ∉ s.queue → s.cost x = some cx →
            ∀ v w, (v, w) ∈ g.adj x → g.isKey v = true → ∃ cv, s.cost v = some cv ∧ cv ≤ cx + w

structure Mid (g : Graph) (src u : Node) (cu : Nat) (done : List (Node × Nat)) (s : St) : Prop where
  src0 : s.cost src = some 0
  sound : ∀ v c, s.cost v = some c → Path g src v c
  chain : ∀ v c, v ≠ src → s.cost v = some c →
            ∃ p w cp, s.prev v = some p ∧ (v, w) ∈ g.adj p ∧ s.cost p = some cp ∧ cp + w ≤ c
  costu : s.cost u = some cu
  relaxedOther : ∀ x cx, x ∉ s.queue → x ≠ u → s.cost x = some cx →
            ∀ v w, (v, w) ∈ g.adj x → g.isKey v = true → ∃ cv, s.cost v = some cv ∧ cv ≤ cx + w
  relaxedDone : ∀ v w, (v, w) ∈ done → g.isKey v = true → ∃ cv, s.cost v = some cv ∧ cv ≤ cu + w

/-- the improving case: v is a key, and cu + w beats the current label of v (or v has none) -/
theorem mid_improve {g : Graph} {src u cu done} {s : St} {v w : Node}
    (hm : Mid g src u cu done s) (he : (v, w) ∈ g.adj u) (hk : g.isKey v = true)
    (hb : ∀ cv, s.cost v = some cv → cu + w < cv) :
    Mid g src u cu ((v, w) :: done) (improve s u v (cu + w)) := by
  have hvu : v ≠ u := by
    intro h; subst h; have := hb cu hm.costu; omega
  have hvs : v ≠ src := by
    intro h; subst h; have := hb 0 hm.src0; omega
  refine ⟨?_, ?_, ?_, ?_, ?_, ?_⟩
  · rw [improve_cost_ne _ _ _ _ _ (Ne.symm hvs)]; exact hm.src0
  · intro x c hx
    by_cases hxv : x = v
    · subst hxv; rw [improve_cost_self] at hx; cases hx
      exact Path.snoc (hm.sound u cu hm.costu) he hk
    · rw [improve_cost_ne _ _ _ _ _ hxv] at hx; exact hm.sound x c hx
  · intro x c hxs hx
    by_cases hxv : x = v
    · subst hxv; rw [improve_cost_self] at hx; cases hx
      exact ⟨u, w, cu, improve_prev_self .., he, by rw [improve_cost_ne _ _ _ _ _ (Ne.symm hvu)]; exact hm.costu, Nat.le_refl _⟩
    · rw [improve_cost_ne _ _ _ _ _ hxv] at hx
      obtain ⟨p, w', cp, hp, hadj, hcp, hle⟩ := hm.chain x c hxs hx
      by_cases hpv : p = v
      · subst hpv
        have := hb cp hcp
        exact ⟨p, w', cu + w, by rw [improve_prev_ne _ _ _ _ _ hxv]; exact hp, hadj, improve_cost_self .., by omega⟩
      · exact ⟨p, w', cp, by rw [improve_prev_ne _ _ _ _ _ hxv]; exact hp, hadj,
          by rw [improve_cost_ne _ _ _ _ _ hpv]; exact hcp, hle⟩
  · rw [improve_cost_ne _ _ _ _ _ (Ne.symm hvu)]; exact hm.costu
  · intro x cx hxq hxu hx v' w' hadj hk'
    have hxv : x ≠ v := by
      intro h; subst h; exact hxq (improve_queue_mem ..)
    rw [improve_cost_ne _ _ _ _ _ hxv] at hx
    have hxq' : x ∉ s.queue := fun h => hxq (improve_queue_mono _ _ _ _ _ h)
    obtain ⟨cv', hcv', hle⟩ := hm.relaxedOther x cx hxq' hxu hx v' w' hadj hk'
    by_cases hv' : v' = v
    · subst hv'
      have := hb cv' hcv'
      exact ⟨cu + w, improve_cost_self .., by omega⟩
    · exact ⟨cv', by rw [improve_cost_ne _ _ _ _ _ hv']; exact hcv', hle⟩
  · intro v' w' hmem hk'
    rcases List.mem_cons.mp hmem with h | h
    · cases h; exact ⟨cu + w, improve_cost_self .., Nat.le_refl _⟩
    · obtain ⟨cv', hcv', hle⟩ := hm.relaxedDone v' w' h hk'
      by_cases hv' : v' = v
      · subst hv'
        have := hb cv' hcv'
        exact ⟨cu + w, improve_cost_self .., by omega⟩
      · exact ⟨cv', by rw [improve_cost_ne _ _ _ _ _ hv']; exact hcv', hle⟩

theorem mid_step {g : Graph} {src u cu done} {s : St} {e : Node × Nat}
    (hm : Mid g src u cu done s) (he : e ∈ g.adj u) :
    Mid g src u cu (e :: done) (relaxEdge g u cu s e) := by
  obtain ⟨v, w⟩ := e
  unfold relaxEdge
  by_cases hk : g.isKey v = true
  · cases hcv : s.cost v with
    | none =>
      have hb : better s v (cu + w) = true := by simp [better, hcv]
      simp only [hk, hb, Bool.and_self, if_true]
      exact mid_improve hm he hk (by intro cv h; rw [hcv] at h; cases h)
    | some cv =>
      by_cases hlt : cu + w < cv
      · have hb : better s v (cu + w) = true := by simp [better, hcv, hlt]
        simp only [hk, hb, Bool.and_self, if_true]
        exact mid_improve hm he hk (by intro cv' h; rw [hcv] at h; cases h; exact hlt)
      · have hb : better s v (cu + w) = false := by simp [better, hcv, hlt]
        simp only [hk, hb, Bool.and_false, Bool.false_eq_true, if_false]
        refine ⟨hm.src0, hm.sound, hm.chain, hm.costu, hm.relaxedOther, ?_⟩
        intro v' w' hmem hk'
        rcases List.mem_cons.mp hmem with h | h
        · cases h; exact ⟨cv, hcv, by omega⟩
        · exact hm.relaxedDone v' w' h hk'
  · have hk' : g.isKey v = false := by simpa using hk
    simp only [hk', Bool.false_and, Bool.false_eq_true, if_false]
    refine ⟨hm.src0, hm.sound, hm.chain, hm.costu, hm.relaxedOther, ?_⟩
    intro v' w' hmem hk''
    rcases List.mem_cons.mp hmem with h | h
    · cases h; rw [hk'] at hk''; cases hk''
    · exact hm.relaxedDone v' w' h hk''

theorem mid_fold {g : Graph} {src u cu} (es : List (Node × Nat)) :
    ∀ {done} {s : St}, Mid g src u cu done s → (∀ e ∈ es, e ∈ g.adj u) →
    Mid g src u cu (es.reverse ++ done) (es.foldl (relaxEdge g u cu) s) := by
  induction es with
  | nil => intro done s hm _; simpa using hm
  | cons e es ih =>
    intro done s hm hall
    have h1 := mid_step hm (hall e (List.mem_cons_self ..))
    have h2 := ih h1 (fun e' he' => hall e' (List.mem_cons_of_mem _ he'))
    simpa [List.reverse_cons, List.append_assoc] using h2

theorem inv_popRelax {g : Graph} {src : Node} {s : St} {u : Node}
    (hi : Inv g src s) : Inv g src (popRelax g s u) := by
  unfold popRelax
  cases hcu : s.cost u with
  | none =>
    simp only
    refine ⟨hi.src0, hi.sound, hi.chain, ?_⟩
    intro x cx hxq hx v w hadj hk
    by_cases hxu : x = u
    · subst hxu; rw [hcu] at hx; cases hx
    · have : x ∉ s.queue := fun h => hxq ((List.mem_erase_of_ne hxu).mpr h)
      exact hi.relaxed x cx this hx v w hadj hk
  | some cu =>
    simp only
    have hm0 : Mid g src u cu [] { s with queue := s.queue.erase u } := by
      refine ⟨hi.src0, hi.sound, hi.chain, hcu, ?_, ?_⟩
      · intro x cx hxq hxu hx v w hadj hk
        have : x ∉ s.queue := fun h => hxq ((List.mem_erase_of_ne hxu).mpr h)
        exact hi.relaxed x cx this hx v w hadj hk
      · intro v w h; cases h
    have hm := mid_fold (g.adj u) hm0 (fun e he => he)
    refine ⟨hm.src0, hm.sound, hm.chain, ?_⟩
    intro x cx hxq hx v w hadj hk
    by_cases hxu : x = u
    · subst hxu
      rw [hm.costu] at hx; cases hx
      exact hm.relaxedDone v w (by simp [hadj]) hk
    · exact hm.relaxedOther x cx hxq hxu hx v w hadj hk

theorem inv_reach {g : Graph} {src : Node} {init s : St}
    (h0 : Inv g src init) (hr : Reach g init s) : Inv g src s := by
  induction hr with
  | base => exact h0
  | step _ _ ih => exact inv_popRelax ih

def initSt (src : Node) (keys : List Node) : St :=
  { cost := fun x => if x = src then some 0 else none
    prev := fun _ => none
    queue := src :: keys }

theorem inv_init (g : Graph) (src : Node) (keys : List Node) : Inv g src (initSt src keys) := by
  refine ⟨by simp [initSt], ?_, ?_, ?_⟩
  · intro v c h
    simp only [initSt] at h
    split at h
    · rename_i hv; subst hv; cases h; exact Path.nil
    · cases h
  · intro v c hv h
    simp [initSt, hv] at h
  · intro x cx hxq hx
    simp only [initSt] at hx hxq
    split at hx
    · rename_i h; subst h; simp at hxq
    · cases hx

/-- At termination every label is the least walk weight, and unlabelled nodes are unreachable. -/
theorem lc_correct {g : Graph} {src : Node} {keys : List Node} {s : St}
    (hr : Reach g (initSt src keys) s) (hq : s.queue = []) :
    (∀ v c, s.cost v = some c → Path g src v c ∧ ∀ W, Path g src v W → c ≤ W) ∧
    (∀ v, s.cost v = none → ∀ W, ¬ Path g src v W) := by
  have hi := inv_reach (inv_init g src keys) hr
  have key : ∀ v W, Path g src v W → ∃ c, s.cost v = some c ∧ c ≤ W := by
    intro v W hp
    induction hp with
    | nil => exact ⟨0, hi.src0, Nat.le_refl _⟩
    | snoc _ hadj hk ih =>
      obtain ⟨cu, hcu, hle⟩ := ih
      obtain ⟨cv, hcv, hle'⟩ := hi.relaxed _ cu (by simp [hq]) hcu _ _ hadj hk
      exact ⟨cv, hcv, by omega⟩
  constructor
  · intro v c hc
    refine ⟨hi.sound v c hc, ?_⟩
    intro W hp
    obtain ⟨c', hc', hle⟩ := key v W hp
    rw [hc] at hc'; cases hc'; exact hle
  · intro v hn W hp
    obtain ⟨c', hc', _⟩ := key v W hp
    rw [hn] at hc'; cases hc'

#print axioms lc_correct

end Routing
